/-
C15 — small-step model of the Ask / Response protocol with its two package-level pools.

Code modelled (as it is now):
* `actor/pid.go` `PID.Ask` (`actor/api.go` `Ask` has the same body): `getContext(); build(...)`
  (`responseClosed.Store(false)`, `response = getResponseChannel()`), `doReceive` (enqueue),
  `select { reply | ctx.Done | timer }`, `responseClosed.Store(true)` ON THE CONTEXT POINTER THE CALLER STILL
  HOLDS, `putResponseChannel` (drain, back to the pool);
* `actor/receive_context.go` `Response`: `CAS(responseClosed, false, true)`, then a non-blocking send into
  `rctx.response` (the field is read at send time);
* `actor/pools.go`: `contextCh` and `responseCh` are FIFO channels used as pools (`getContext`,
  `getResponseChannel`, `putResponseChannel`);
* `actor/unbounded_mailbox.go` `Dequeue`: the context handed out becomes the sentinel; the PREVIOUS sentinel is
  `reset()` (response, message := nil; `responseClosed` is deliberately not reset) and pushed into `contextCh`.

Steps: one per atomic site of the instrumented code (`Store:responseClosed`, `Call:Get` = the caller's
`timers.Get` + `select`, `CAS:responseClosed`), plus `Deq` (the worker's `Dequeue`, a harness point) and `Send`
(the channel send inside `Response`; the instrumented code has no site there, so the driver executes
`CAS:responseClosed` and `Send` as one step while the theorems interleave them freely).
A caller's deadline is the step `Timeout` of its timer; the `select` takes the timeout branch only when the
response channel is empty at that moment (a reply that is already there wins).

Variants (`Mode`):
* `asIs`   — the code as it is;
* `noPool` — `getContext` / `getResponseChannel` always allocate (the guard "no pooled reuse");
* `fixed`  — the proposed repair (fixes/C15-ask-no-late-store.diff): after its select the caller does not touch
  the receive context any more (no late `responseClosed.Store(true)`), pools the response channel only when the
  reply has arrived and leaves it to the GC on a timeout.  The caller then has no atomic site after the select,
  so the select and what follows it are one step.
-/
namespace GoaktVerif.Model.C15

abbrev CtxId := Nat
abbrev ChanId := Nat
abbrev ReqId := Nat

inductive Mode where
  | asIs | noPool | fixed
  deriving Repr, DecidableEq

structure Ctx where
  closed : Bool              -- responseClosed
  response : Option ChanId   -- response channel field
  msg : Option ReqId         -- message field (the request id)
  deriving Repr, DecidableEq

inductive Op where
  | ask (k : ReqId)
  | handle
  deriving Repr, DecidableEq

inductive Res where
  | reply (v : ReqId)
  | timeout
  | handled (k : ReqId)
  | empty
  deriving Repr, DecidableEq

inductive PC where
  | askBuild (c : CtxId) (k : ReqId)                  -- `Store:responseClosed` (build)
  | askSelect (c : CtxId) (ch : ChanId) (k : ReqId)   -- `Call:Get` (timers.Get, then the select)
  | askClose (c : CtxId) (ch : ChanId) (r : Res)      -- `Store:responseClosed` (after the select)
  | hDeq                                              -- `Deq`
  | hCas (c : CtxId) (k : ReqId)                      -- `CAS:responseClosed`
  | hSend (c : CtxId) (k : ReqId)                     -- the send of `Response`
  deriving Repr, DecidableEq

/-- ghost events, for stating the property -/
inductive Ev where
  | respDone (k : ReqId)   -- `Response` for request k has returned
  | timedOut (k : ReqId)   -- the Ask for request k took the timeout branch of its select
  deriving Repr, DecidableEq

structure Thread where
  pc : Option PC
  cur : Option Op
  prog : List Op
  hist : List (Op × Res)   -- latest first
  deadline : Bool          -- the timer of the Ask in progress has fired
  deriving Repr, DecidableEq

structure Cfg where
  mode : Mode
  ctxs : List Ctx
  chans : List (Option ReqId)    -- capacity-1 buffers
  ctxPool : List CtxId           -- contextCh (FIFO: take the head, put at the end)
  chanPool : List ChanId         -- responseCh
  sentinel : CtxId               -- the mailbox's current sentinel
  mbox : List CtxId              -- enqueued, not yet dequeued
  threads : List Thread
  log : List Ev                  -- ghost, latest first
  deriving Repr, DecidableEq

def ctxOf (c : Cfg) (i : CtxId) : Ctx := c.ctxs.getD i { closed := false, response := none, msg := none }

def modCtx (c : Cfg) (i : CtxId) (f : Ctx → Ctx) : Cfg := { c with ctxs := c.ctxs.modify i f }

def chanOf (c : Cfg) (i : ChanId) : Option ReqId := (c.chans.getD i none)

def setChan (c : Cfg) (i : ChanId) (v : Option ReqId) : Cfg := { c with chans := c.chans.set i v }

/-- `getContext()` -/
def getContext (c : Cfg) : CtxId × Cfg :=
  match c.mode, c.ctxPool with
  | .noPool, _ => (c.ctxs.length, { c with ctxs := c.ctxs ++ [{ closed := false, response := none, msg := none }] })
  | _, i :: rest => (i, { c with ctxPool := rest })
  | _, [] => (c.ctxs.length, { c with ctxs := c.ctxs ++ [{ closed := false, response := none, msg := none }] })

/-- `getResponseChannel()` -/
def getChan (c : Cfg) : ChanId × Cfg :=
  match c.mode, c.chanPool with
  | .noPool, _ => (c.chans.length, { c with chans := c.chans ++ [none] })
  | _, i :: rest => (i, { c with chanPool := rest })
  | _, [] => (c.chans.length, { c with chans := c.chans ++ [none] })

def startNext (c : Cfg) (t : Thread) : Cfg × Thread :=
  match t.prog with
  | [] => (c, { t with pc := none, cur := none, deadline := false })
  | op :: rest =>
    let t := { t with cur := some op, prog := rest, deadline := false }
    match op with
    | .ask k => let (i, c') := getContext c; (c', { t with pc := some (.askBuild i k) })
    | .handle => (c, { t with pc := some .hDeq })

def finishOp (c : Cfg) (t : Thread) (r : Res) : Cfg × Thread :=
  match t.cur with
  | some op => startNext c { t with hist := (op, r) :: t.hist }
  | none => startNext c t

/-- what the caller does after its select -/
def close (c : Cfg) (t : Thread) (i : CtxId) (ch : ChanId) (r : Res) : Cfg × Thread :=
  match c.mode with
  | .fixed =>
    match r with
    | .reply _ => finishOp { setChan c ch none with chanPool := c.chanPool ++ [ch] } t r
    | _ => finishOp c t r
  | _ =>
    let c1 := modCtx c i (fun x => { x with closed := true })
    let c2 := setChan c1 ch none
    finishOp { c2 with chanPool := c2.chanPool ++ [ch] } t r

/-- after the select: the code as it is has one more atomic site (the late store); the repaired code has none -/
def afterSelect (c : Cfg) (t : Thread) (i : CtxId) (ch : ChanId) (r : Res) : Cfg × Thread :=
  match c.mode with
  | .fixed => close c t i ch r
  | _ => (c, { t with pc := some (.askClose i ch r) })

def exec (c : Cfg) (t : Thread) : PC → Cfg × Thread
  | .askBuild i k =>
    let c1 := modCtx c i (fun x => { x with closed := false })
    let (ch, c2) := getChan c1
    let c3 := modCtx c2 i (fun x => { x with response := some ch, msg := some k })
    ({ c3 with mbox := c3.mbox ++ [i] }, { t with pc := some (.askSelect i ch k) })
  | .askSelect i ch k =>
    match chanOf c ch with
    | some v => afterSelect (setChan c ch none) t i ch (.reply v)
    | none =>
      if t.deadline then afterSelect { c with log := .timedOut k :: c.log } t i ch .timeout
      else (c, t)   -- not runnable
  | .askClose i ch r => close c t i ch r
  | .hDeq =>
    match c.mbox with
    | [] => finishOp c t .empty
    | i :: rest =>
      let c1 := modCtx c c.sentinel (fun x => { x with response := none, msg := none })
      let c2 := { c1 with ctxPool := c1.ctxPool ++ [c.sentinel], sentinel := i, mbox := rest }
      match (ctxOf c i).msg with
      | some k => (c2, { t with pc := some (.hCas i k) })
      | none => finishOp c2 t .empty
  | .hCas i k =>
    if (ctxOf c i).closed then finishOp { c with log := .respDone k :: c.log } t (.handled k)
    else (modCtx c i (fun x => { x with closed := true }), { t with pc := some (.hSend i k) })
  | .hSend i k =>
    let c1 := match (ctxOf c i).response with
      | some ch => if (chanOf c ch).isNone then setChan c ch (some k) else c
      | none => c
    finishOp { c1 with log := .respDone k :: c1.log } t (.handled k)

/-- is thread `tid` runnable (a caller at its select with neither a reply nor a deadline is not) -/
def blocked (c : Cfg) (t : Thread) : Bool :=
  match t.pc with
  | some (.askSelect _ ch _) => (chanOf c ch).isNone && !t.deadline
  | _ => false

def step (c : Cfg) (tid : Nat) : Cfg :=
  match c.threads[tid]? with
  | none => c
  | some t =>
    match t.pc with
    | none => c
    | some pc =>
      let (c', t') := exec c t pc
      { c' with threads := c'.threads.set tid t' }

/-- the deadline of the Ask thread `tid` is executing passes -/
def timeout (c : Cfg) (tid : Nat) : Cfg :=
  match c.threads[tid]? with
  | none => c
  | some t =>
    match t.pc with
    | some (.askBuild ..) | some (.askSelect ..) => { c with threads := c.threads.set tid { t with deadline := true } }
    | _ => c

inductive Act where
  | run (tid : Nat)
  | timeout (tid : Nat)
  deriving Repr, DecidableEq

def act (c : Cfg) : Act → Cfg
  | .run tid => step c tid
  | .timeout tid => timeout c tid

def runActs (c : Cfg) : List Act → Cfg
  | [] => c
  | a :: as => runActs (act c a) as

def spawn (c : Cfg) : List (List Op) → Cfg
  | [] => c
  | p :: ps =>
    let (c', t) := startNext c { pc := none, cur := none, prog := p, hist := [], deadline := false }
    spawn { c' with threads := c'.threads ++ [t] } ps

def empty (mode : Mode) : Cfg :=
  { mode, ctxs := [{ closed := false, response := none, msg := none }], chans := [], ctxPool := [], chanPool := [],
    sentinel := 0, mbox := [], threads := [], log := [] }

def init (mode : Mode) (progs : List (List Op)) : Cfg := spawn (empty mode) progs

def label : PC → String
  | .askBuild .. => "Store:responseClosed" | .askSelect .. => "Call:Get" | .askClose .. => "Store:responseClosed"
  | .hDeq => "Deq" | .hCas .. => "CAS:responseClosed" | .hSend .. => "Send"

end GoaktVerif.Model.C15

/-
C33 — executable model of "relocation accounts for every item and runs once per departure".

Part A (job level): `actorSystem.beginRelocation / relocationJob / endRelocation`
(actor/actor_system.go), `relocator.startWorker / handleTerminated / abortRelocation`
(actor/relocator.go) and the completion bookkeeping of `relocationWorker.relocate / finish`
(actor/relocation_worker.go) as a transition system over departure histories.

Part B (item level): `relocationWorker.relocate`, `enqueueRelocation`, `sendBatches`,
`relocateShare`, `recordUnsent`, `releaseUndeliverableLazyGrains`, `reportAbortedRelocation` as a pure
function from (iteration orders, plan inputs, environment) to one accounting record per handled item.
The plan functions are the C32 model's.

Parameters of the model (not verified here): cluster membership (`peers`), what a peer answers
(`Env.remoteOK`), whether a batch reaches a peer (`Env.poison`: a batch containing a poisoned item is
rejected with a peer-level error, atomically, i.e. the target handled none of it), whether the
leader can respawn/release an item (`Env.localOK`, `Env.releaseOK`).  Core Lean only.
-/
import GoaktVerif.Model.C32

namespace GoaktVerif.Model.C33
open GoaktVerif.Model.C32

/-! ## Part B — item accounting of one worker run -/

inductive Item where
  | actor (a : Actor)
  | grain (g : Grain)
deriving DecidableEq, Repr

/-- one accounting record: handled successfully by `node` (0 = leader, p+1 = `peers[p]`), or failed
    (= recorded in `relocationFailures`, hence listed in the RelocationFailed event) -/
inductive Rec where
  | ok (node : Nat) (it : Item)
  | failed (it : Item)
deriving DecidableEq, Repr

def Rec.item : Rec → Item
  | .ok _ it => it
  | .failed it => it

structure Env where
  /-- leader-side recreation / lazy release through `enqueueRelocation` succeeds (after its retries) -/
  localOK : Item → Bool
  /-- peer `p` handles the item successfully (otherwise it reports it in the batch response) -/
  remoteOK : Nat → Item → Bool
  /-- a batch for peer `p` containing such an item fails at peer level (after the send retries) -/
  poison : Nat → Item → Bool
  /-- leader-side release of an undeliverable lazy grain succeeds (`releaseUndeliverableLazyGrains`) -/
  releaseOK : Grain → Bool

def itemsA (l : List Actor) : List Item := l.map Item.actor
def itemsG (l : List Grain) : List Item := l.map Item.grain

def batchItems : Batch → List Item
  | .actors l => itemsA l
  | .grains l => itemsG l

def batchesItems (bs : List Batch) : List Item := (bs.map batchItems).flatten

/-- `enqueueRelocation` on the leader: one record per item (the goroutines are independent) -/
def localRec (env : Env) (it : Item) : Rec := if env.localOK it then .ok 0 it else .failed it

def enqueueLocal (env : Env) (actors : List Actor) (grains : List Grain) : List Rec :=
  (itemsA actors).map (localRec env) ++ (itemsG grains).map (localRec env)

/-- the target's `relocateBatchHandler`: it handles every item and reports the failed ones, which the
    worker merges into its failures -/
def remoteRec (env : Env) (p : Nat) (it : Item) : Rec := if env.remoteOK p it then .ok (p + 1) it else .failed it

def reach (env : Env) (p : Nat) (b : Batch) : Bool := !(batchItems b).any (env.poison p)

/-- `sendBatches`: in order, stop at the first peer-level error; returns the records of the delivered
    batches and the unsent remainder (including the failed batch); remainder `[]` = `err == nil` -/
def sendBatches (env : Env) (p : Nat) : List Batch → List Rec × List Batch
  | [] => ([], [])
  | b :: bs =>
    if reach env p b then
      let r := sendBatches env p bs
      ((batchItems b).map (remoteRec env p) ++ r.1, r.2)
    else ([], b :: bs)

/-- `recordUnsent` + `releaseUndeliverableLazyGrains` on an unsent remainder: actors and eager grains
    are failures; a lazy grain is released by the leader and only fails when that release fails -/
def unsentRec (env : Env) : Item → Rec
  | .actor a => .failed (.actor a)
  | .grain g => if g.eager then .failed (.grain g) else if env.releaseOK g then .ok 0 (.grain g) else .failed (.grain g)

def unsent (env : Env) (bs : List Batch) : List Rec := (batchesItems bs).map (unsentRec env)

def toRequest : Batch → Request
  | .actors l => { actors := l, grains := [] }
  | .grains l => { actors := [], grains := l }

/-- index in `peers` of the `i`-th survivor when `target` is removed (`survivingPeersExcept`;
    peers are assumed to have pairwise distinct host:port) -/
def survivorIndex (target i : Nat) : Nat := if i < target then i else i + 1

/-- the `for i, survivor := range survivors` loop of `relocateShare` -/
def sendShares (env : Env) (bs : Nat) (target : Nat) : Nat → List (List Actor) → List (List Grain) → List Rec
  | i, a :: as, g :: gs =>
    (if a.isEmpty && g.isEmpty then []
     else
       let r := sendBatches env (survivorIndex target i) (buildBatches bs a g)
       r.1 ++ unsent env r.2) ++ sendShares env bs target (i + 1) as gs
  | _, _, _ => []

/-- `relocateShare` (worker with a pid): deliver the share of `peers[target]`; on a peer-level error
    redistribute the unsent remainder (C32 `redistribute`) -/
def relocateShare (env : Env) (bs : Nat) (leaderRoles : List Role) (peers : List (List Role))
    (target : Nat) (requests : List Batch) : List Rec :=
  let r := sendBatches env target requests
  if r.2.isEmpty then r.1
  else
    let survivors := peers.eraseIdx target
    let d := redistribute (r.2.map toRequest) survivors leaderRoles
    r.1 ++ (itemsA d.failedActors).map Rec.failed ++ enqueueLocal env d.leaderActors d.leaderGrains
      ++ sendShares env bs target 0 d.actorShares d.grainShares

/-- the `for i := 1; i < shares; i++` fan-out of `relocate` over the shares 1.. -/
def fanOut (f : Nat → List Actor → List Grain → List Rec) : Nat → Nat → List (List Actor) → List (List Grain) → List Rec
  | 0, _, _, _ => []
  | n + 1, p, as, gs => f p (as.headD []) (gs.headD []) ++ fanOut f n (p + 1) as.tail gs.tail

/-- `relocationWorker.relocate`, normal path (cluster.Peers succeeded, system not stopping), for the
    map iteration orders `actorOrder` / `grainOrder` and the batch size `bs` -/
def relocate (env : Env) (bs : Nat) (leaderRoles : List Role) (peers : List (List Role)) (baseLoads : List Nat)
    (actorOrder : List Actor) (grainOrder : List Grain) : List Rec :=
  let grains := relocatableGrains grainOrder
  let plan := allocateActors leaderRoles peers baseLoads actorOrder
  let gplan := allocateGrains (peers.length + 1) grains
  (itemsA plan.2.2).map Rec.failed
    ++ enqueueLocal env plan.1 gplan.1
    ++ fanOut (fun p a g => relocateShare env bs leaderRoles peers p (buildBatches bs a g))
        peers.length 0 (plan.2.1.drop 1) (gplan.2.drop 1)

/-- `reportAbortedRelocation` (cluster.Peers failed, worker could not be spawned, or worker died):
    every actor and eager grain is a failure, lazy grains are released by the leader -/
def abortRecs (env : Env) (actors : List Actor) (grainOrder : List Grain) : List Rec :=
  (itemsA actors).map Rec.failed ++ (itemsG (relocatableGrains grainOrder)).map (unsentRec env)

def failedItems (recs : List Rec) : List Item :=
  recs.filterMap (fun r => match r with | .failed it => some it | .ok _ _ => none)

def okOn (node : Nat) (recs : List Rec) : List Item :=
  recs.filterMap (fun r => match r with | .ok n it => if n = node then some it else none | .failed _ => none)

/-- number of RelocationFailed events of a normal run: one iff something failed -/
def eventsOfRun (recs : List Rec) : Nat := if (failedItems recs).isEmpty then 0 else 1

/-! ## Part A — the job registry, the relocator and the worker bookkeeping

All maps are total functions so that the invariants are pointwise.  `queued`, `live`, `nextSnap`,
`closed` are ghost state: the Rebalance orders sitting in the relocator's mailbox, the workers that
were handed an order and have not run yet, the identity of the next `PeerState` object
(`GetPeerState`/derivation return a fresh object per call; the pointer is the job identity), and the
number of times the relocation of a snapshot ended. -/

structure Sys where
  jobs : Nat → Option Nat             -- departed address ↦ snapshot   (`relocationJobs`)
  queued : Nat → Option Nat           -- snapshot ↦ address of a Rebalance order not yet handled
  workers : Nat → Option (Nat × Nat)  -- worker name ↦ (address, snapshot)   (`relocator.workers`)
  live : Nat → Bool                   -- worker spawned, order not yet processed
  sequence : Nat
  nextSnap : Nat
  events : Nat → Nat                  -- snapshot ↦ RelocationFailed events published for it
  closed : Nat → Nat                  -- snapshot ↦ times its relocation ended
  dels : Nat                          -- DeletePeerState calls

def Sys.init : Sys :=
  { jobs := fun _ => none, queued := fun _ => none, workers := fun _ => none, live := fun _ => false,
    sequence := 0, nextSnap := 0, events := fun _ => 0, closed := fun _ => 0, dels := 0 }

def upd {β : Type} (f : Nat → β) (k : Nat) (v : β) : Nat → β := fun x => if x = k then v else f x

/-- `beginRelocation(addr, snapshot)` -/
def beginRelocation (jobs : Nat → Option Nat) (addr snap : Nat) : (Nat → Option Nat) × Bool :=
  match jobs addr with
  | some _ => (jobs, false)
  | none => (upd jobs addr (some snap), true)

/-- `endRelocation(addr)` -/
def endRelocation (jobs : Nat → Option Nat) (addr : Nat) : Nat → Option Nat := upd jobs addr none

/-- `abortRelocation(addr, snapshot)` / the worker's own abort: exactly one RelocationFailed event
    listing everything, snapshot deleted, job released -/
def abortRelocation (s : Sys) (addr snap : Nat) : Sys :=
  { s with events := upd s.events snap (s.events snap + 1), closed := upd s.closed snap (s.closed snap + 1),
           dels := s.dels + 1, jobs := endRelocation s.jobs addr }

/-- `handleTerminated(name)` -/
def handleTerminated (s : Sys) (name : Nat) : Sys :=
  match s.workers name with
  | none => s
  | some (addr, snap) =>
    let s1 := { s with workers := upd s.workers name none }
    if s1.jobs addr = some snap then abortRelocation s1 addr snap else s1

/-- completion bookkeeping of `relocate` + `finish` on the normal path -/
def finishRun (s : Sys) (addr snap : Nat) (anyFailed : Bool) : Sys :=
  { s with events := if anyFailed then upd s.events snap (s.events snap + 1) else s.events,
           closed := upd s.closed snap (s.closed snap + 1),
           dels := s.dels + 1, jobs := endRelocation s.jobs addr }

inductive Ev where
  /-- the leader handles a NodeLeft for `addr` for which there is state to rebalance -/
  | nodeLeft (addr : Nat)
  /-- the relocator handles the Rebalance order of `snap`; `spawnOK` = the worker could be spawned -/
  | rebalance (snap : Nat) (spawnOK : Bool)
  /-- the worker `name` processes its order to completion; `anyFailed` = some item failed -/
  | complete (name : Nat) (anyFailed : Bool)
  /-- the worker `name` processes its order and cluster.Peers fails: abort accounting by the worker -/
  | peersFail (name : Nat)
  /-- the worker `name` dies (panic) before any bookkeeping -/
  | die (name : Nat)
  /-- the relocator handles Terminated(name) (only after the worker stopped) -/
  | terminated (name : Nat)
deriving Repr

def step (s : Sys) : Ev → Sys
  | .nodeLeft addr =>
    let r := beginRelocation s.jobs addr s.nextSnap
    if r.2 then { s with jobs := r.1, queued := upd s.queued s.nextSnap (some addr), nextSnap := s.nextSnap + 1 }
    else s
  | .rebalance snap spawnOK =>
    match s.queued snap with
    | none => s
    | some addr =>
      let s1 := { s with queued := upd s.queued snap none, sequence := s.sequence + 1 }
      if spawnOK then
        { s1 with workers := upd s1.workers s1.sequence (some (addr, snap)), live := upd s1.live s1.sequence true }
      else abortRelocation s1 addr snap
  | .complete name anyFailed =>
    if s.live name then
      match s.workers name with
      | some (addr, snap) => finishRun { s with live := upd s.live name false } addr snap anyFailed
      | none => s
    else s
  | .peersFail name =>
    if s.live name then
      match s.workers name with
      | some (addr, snap) => abortRelocation { s with live := upd s.live name false } addr snap
      | none => s
    else s
  | .die name => if s.live name then { s with live := upd s.live name false } else s
  | .terminated name => if s.live name then s else handleTerminated s name

def run (s : Sys) (evs : List Ev) : Sys := evs.foldl step s

/-! ## Part A' — the window at the end of a worker run

`handleNodeLeftEvent` (leader, relocation enabled) starts a relocation of `addr` from the stored
snapshot exactly when the store still holds a snapshot for `addr` AND no job is registered.
`relocationWorker.finish` performs two calls; a duplicate NodeLeft may be handled before, between and
after them.  `finishOrder` is the order in the code (checked against the source on every run by
the FACTS entry of tools/props/c33.py and behaviourally by the `nl` differential). -/

structure Dep where
  snapshot : Bool      -- the store holds the departed node's snapshot
  job : Bool           -- a relocation job is registered for the address
  started : Nat        -- relocations started (RelocationStarted events) for this departure
deriving DecidableEq, Repr

inductive FinishCall where
  | deletePeerState
  | endRelocation
deriving DecidableEq, Repr

inductive Act where
  | nodeLeft                 -- a (duplicate) NodeLeft handled by the leader
  | call (c : FinishCall)    -- the worker performs the next call of `finish`
deriving DecidableEq, Repr

/-- snapshot path of `handleNodeLeftEvent` -/
def nodeLeftSnap (d : Dep) : Dep :=
  if d.snapshot && !d.job then { d with job := true, started := d.started + 1 } else d

def applyCall (d : Dep) : FinishCall → Dep
  | .deletePeerState => { d with snapshot := false }
  | .endRelocation => { d with job := false }

def act (d : Dep) : Act → Dep
  | .nodeLeft => nodeLeftSnap d
  | .call c => applyCall d c

def runActs (d : Dep) (l : List Act) : Dep := l.foldl act d

/-- the order of the two calls in `relocationWorker.finish` (and in `relocator.abortRelocation`) -/
def finishOrder : List FinishCall := [.deletePeerState, .endRelocation]

/-- `a`, `b`, `c` duplicate NodeLefts before, between and after the calls given in `order` -/
def finishWith (order : List FinishCall) (a b c : Nat) : List Act :=
  match order with
  | [x, y] => List.replicate a Act.nodeLeft ++ [Act.call x] ++ List.replicate b Act.nodeLeft ++ [Act.call y]
      ++ List.replicate c Act.nodeLeft
  | _ => []

/-! ## Part A'' — one departure over its whole life: both NodeLeft paths, abort and re-request

`handleNodeLeftEvent` takes the snapshot path when the store holds a snapshot of the departed node,
otherwise the crash-recovery path (`gateCrashRecovery` → `deriveRelocationSetFromRegistry` →
`publishRelocationStarted` → `dispatchDerivedRebalance`).  Since fix 51adf01 the crash path returns
before announcing anything when a job is registered; without a job it announces the derived set even
when that set is empty (intentional: "published even when the set is empty").  A relocation is dispatched (the
relocator spawns a worker, which runs once) iff there is something to relocate and no job is
registered.  A run that completes leaves nothing of the departed node behind; an aborted run deletes
the snapshot and releases the job but leaves the registry records, so the departure can be
re-requested. -/

structure Life where
  snapshot : Bool     -- store holds the departed node's snapshot
  records : Bool      -- the registry still holds records of the departed node
  job : Bool          -- relocation job registered (= a worker is queued or running)
  runs : Nat          -- relocations started (worker runs)
  announced : Nat     -- RelocationStarted events
  aborts : Nat        -- runs that aborted
  empty : Nat         -- ghost: crash-path announcements of an empty derived set (nothing to relocate)
deriving DecidableEq, Repr

inductive LifeAct where
  | nodeLeft    -- a NodeLeft for the address is handled by the leader
  | runOK       -- the worker of the registered job runs to completion
  | runAbort    -- the relocation of the registered job aborts (Peers fails, spawn fails, worker dies)
deriving DecidableEq, Repr

def lifeStep (d : Life) : LifeAct → Life
  | .nodeLeft =>
    if d.snapshot then
      if d.job then d else { d with job := true, runs := d.runs + 1, announced := d.announced + 1 }
    else if d.job then d   -- fix 51adf01: a relocation is in flight, announce and dispatch nothing
    else if d.records then { d with job := true, runs := d.runs + 1, announced := d.announced + 1 }
    else { d with announced := d.announced + 1, empty := d.empty + 1 }
  | .runOK => if d.job then { d with snapshot := false, records := false, job := false } else d
  | .runAbort => if d.job then { d with snapshot := false, job := false, aborts := d.aborts + 1 } else d

def lifeRun (d : Life) (l : List LifeAct) : Life := l.foldl lifeStep d

def Life.init (snapshot : Bool) : Life :=
  { snapshot := snapshot, records := true, job := false, runs := 0, announced := 0, aborts := 0, empty := 0 }

end GoaktVerif.Model.C33

import GoaktVerif.Spec.C42

/-
C42 / C43 — reliable point-to-point delivery (volatile, unchunked path).

Hand-written executable model, field by field, of
  actor/reliable_delivery_producer_controller.go   (producerController, `queue == nil`, `maxChunkBytes == 0`)
  actor/reliable_delivery_consumer_controller.go   (consumerController, no chunked message ever arrives)
  internal/commands/delivery.go                    (the five controller-to-controller messages)
  actor/reliable_delivery_protocol.go              (RequestNext / Produced / Stored / StoredAck / Delivery / Confirmed)

Every handler of the two controllers is a pure function `State → message → State × List Out`.
Identifiers the code draws from `uuid.NewString()` (session id, registration nonce, handshake token) are
natural numbers here: `0` is Go's empty string, a fresh one is `counter + 1`.  Message ids are natural
numbers (`0` = empty string), payloads are natural numbers (the harness uses an Int64Value).
Sequence numbers are `Nat`: the `math.MaxInt64` exhaustion guards are outside the model.
Sender authentication (`ctx.Sender().Equals(...)`, `resolveReliableCompanion`) always succeeds here: the
model contains exactly one producer controller and one consumer controller.
Time (`time.Now()` in the gap-request rate limiter) is an explicit `now : Nat` argument.
-/
namespace GoaktVerif.Model.C42

/-- `MaxReliableFlowControlWindow` -/
def maxWindow : Nat := 10000

/-- producerHandshake* constants -/
inductive HS | idle | credit | store | storedAck | accept
  deriving DecidableEq, Repr, Inhabited

/-- `UnconfirmedMessage` (whole message): MessageID, Seq, Payload -/
structure UMsg where
  id : Nat
  seq : Nat
  payload : Nat
  deriving DecidableEq, Repr, Inhabited

/-- consumer controller → producer controller (internal/commands/delivery.go) -/
inductive CMsg
  | register (nonce : Nat)
  | request (session nonce confirmed upTo : Nat) (viaTimeout : Bool)
  | ack (session nonce confirmed : Nat)
  deriving DecidableEq, Repr, Inhabited

/-- producer controller → consumer controller -/
inductive PMsg
  | regAck (session nextSeq nonce : Nat)
  | sequenced (session id seq payload : Nat)
  deriving DecidableEq, Repr, Inhabited

/-- producer controller → producer endpoint -/
inductive PUMsg
  | requestNext (session token : Nat)
  | stored (session token id seq : Nat)
  | deliveryConfirmed (session id seq : Nat)
  deriving DecidableEq, Repr, Inhabited

/-- consumer controller → consumer endpoint -/
structure Delivery where
  session : Nat
  id : Nat
  seq : Nat
  payload : Nat
  deriving DecidableEq, Repr, Inhabited

/-- what a producer-controller handler sends, in program order -/
inductive POut
  | toConsumer (m : PMsg)
  | toUser (m : PUMsg)
  deriving DecidableEq, Repr, Inhabited

/-- what a consumer-controller handler sends, in program order -/
inductive COut
  | toProducer (m : CMsg)
  | toUser (d : Delivery)
  deriving DecidableEq, Repr, Inhabited

/-! ## producer controller -/

structure Producer where
  /-- sessionID (a uuid fixed at PreStart) -/
  session : Nat := 1
  /-- deliveryConfirmation (endpoint option) -/
  deliveryConfirmation : Bool := false
  currentSeq : Nat := 0
  confirmedSeq : Nat := 0
  persistedConfirmedSeq : Nat := 0
  unconfirmed : List UMsg := []
  /-- `consumerController != nil` -/
  registered : Bool := false
  /-- registrationNonce -/
  nonce : Nat := 0
  demandUpTo : Nat := 0
  windowSpan : Nat := 0
  handshake : HS := .idle
  token : Nat := 0
  pendingId : Nat := 0
  pendingSeq : Nat := 0
  pendingPayload : Nat := 0
  /-- storedMessage: the `Stored` resent by the tick -/
  storedMessage : Option PUMsg := none
  lastToken : Nat := 0
  lastId : Nat := 0
  /-- source of fresh tokens (model of uuid.NewString) -/
  tokenCtr : Nat := 0
  failed : Bool := false
  deriving DecidableEq, Repr, Inhabited

namespace Producer

/-- `terminate`: publish the failure event once and stop -/
def terminate (p : Producer) : Producer × List POut := ({ p with failed := true }, [])

/-- `handleRegisterConsumer` (the sender is the verified consumer companion) -/
def handleRegister (p : Producer) (nonce : Nat) : Producer × List POut :=
  let p1 := if !p.registered || p.nonce != nonce then
      { p with registered := true, nonce := nonce, demandUpTo := min p.demandUpTo p.currentSeq }
    else p
  (p1, [.toConsumer (.regAck p1.session (p1.confirmedSeq + 1) p1.nonce)])

/-- `fromRegisteredConsumer` -/
def fromRegistered (p : Producer) (session nonce : Nat) : Bool :=
  p.registered && session == p.session && nonce == p.nonce

/-- `sendConfirmation` -/
def confirmations (p : Producer) (cut : List UMsg) : List POut :=
  if p.deliveryConfirmation then cut.map (fun m => .toUser (.deliveryConfirmed p.session m.id m.seq)) else []

/-- `advanceConfirmed` -/
def advanceConfirmed (p : Producer) (confirmed : Nat) : Producer × List POut :=
  if confirmed ≤ p.confirmedSeq then (p, [])
  else
    let cut := p.unconfirmed.takeWhile (fun m => m.seq ≤ confirmed)
    let rest := p.unconfirmed.dropWhile (fun m => m.seq ≤ confirmed)
    ({ p with confirmedSeq := confirmed, unconfirmed := rest, persistedConfirmedSeq := confirmed },
      p.confirmations cut)

/-- `emitSequenced` (whole message) -/
def emitSequenced (p : Producer) (m : UMsg) : List POut :=
  if !p.registered || m.seq > p.demandUpTo then []
  else [.toConsumer (.sequenced p.session m.id m.seq m.payload)]

/-- `resendUnconfirmed` -/
def resendUnconfirmed (p : Producer) : List POut :=
  let limit := min p.currentSeq p.demandUpTo
  (p.unconfirmed.takeWhile (fun m => m.seq ≤ limit)).flatMap p.emitSequenced

/-- `allowNextRequest` + `sendRequestNext` -/
def allowNextRequest (p : Producer) : Producer × List POut :=
  if p.handshake != .idle || p.currentSeq ≥ p.demandUpTo then (p, [])
  else
    let t := p.tokenCtr + 1
    ({ p with handshake := .credit, token := t, tokenCtr := t }, [.toUser (.requestNext p.session t)])

/-- `handleRequest` -/
def handleRequest (p : Producer) (session nonce confirmed upTo : Nat) (viaTimeout : Bool) : Producer × List POut :=
  if !p.fromRegistered session nonce then (p, [])
  else if confirmed > p.currentSeq || upTo < confirmed || upTo > confirmed + maxWindow then p.terminate
  else
    let (p1, o1) := p.advanceConfirmed confirmed
    let p2 := { p1 with demandUpTo := upTo, windowSpan := upTo - confirmed }
    let o2 := if viaTimeout then p2.resendUnconfirmed else []
    let (p3, o3) := p2.allowNextRequest
    (p3, o1 ++ o2 ++ o3)

/-- `handleAck` -/
def handleAck (p : Producer) (session nonce confirmed : Nat) : Producer × List POut :=
  if !p.fromRegistered session nonce then (p, [])
  else if confirmed > p.currentSeq then p.terminate
  else p.advanceConfirmed confirmed

/-- `resetHandshake` -/
def resetHandshake (p : Producer) : Producer :=
  { p with handshake := .idle, token := 0, pendingId := 0, pendingSeq := 0, pendingPayload := 0, storedMessage := none }

/-- `startStore` → `completeStore` → `replyStored` (volatile: synchronous, never already stored) -/
def completeStore (p : Producer) (id payload : Nat) : Producer × List POut :=
  let seq := p.currentSeq + 1
  let st := PUMsg.stored p.session p.token id seq
  ({ p with handshake := .storedAck, pendingId := id, pendingPayload := payload, pendingSeq := seq,
            currentSeq := seq, unconfirmed := p.unconfirmed ++ [⟨id, seq, payload⟩],
            storedMessage := some st },
    [.toUser st])

/-- `handleProduced` (the sender is the producer endpoint) -/
def handleProduced (p : Producer) (session token id payload : Nat) : Producer × List POut :=
  if session != p.session then (p, [])
  else if p.handshake != .idle && p.handshake != .credit && token == p.token && id == p.pendingId then (p, [])
  else if token == p.lastToken && id == p.lastId then (p, [])
  else if p.handshake != .credit then p.terminate
  else if token != p.token then p.terminate
  else p.completeStore id payload

/-- `completeAccept` (after `startAccept`, volatile: synchronous) -/
def completeAccept (p : Producer) : Producer × List POut :=
  let o1 := p.emitSequenced ⟨p.pendingId, p.pendingSeq, p.pendingPayload⟩
  let p1 := { p with lastToken := p.token, lastId := p.pendingId }
  let (p2, o2) := p1.resetHandshake.allowNextRequest
  (p2, o1 ++ o2)

/-- `handleStoredAck` -/
def handleStoredAck (p : Producer) (session token id : Nat) : Producer × List POut :=
  if session != p.session then (p, [])
  else if p.handshake == .storedAck && token == p.token && id == p.pendingId then
    completeAccept { p with handshake := .accept, storedMessage := none }
  else if p.handshake == .accept && token == p.token && id == p.pendingId then (p, [])
  else if token == p.lastToken && id == p.lastId then (p, [])
  else p.terminate

/-- `handleTick` (current generation) -/
def handleTick (p : Producer) : Producer × List POut :=
  match p.handshake with
  | .credit => (p, [.toUser (.requestNext p.session p.token)])
  | .storedAck => (p, match p.storedMessage with | some m => [.toUser m] | none => [])
  | _ => (p, [])

end Producer

/-- what the producer controller's mailbox can receive -/
inductive PIn
  | fromConsumer (m : CMsg)
  | produced (session token id payload : Nat)
  | storedAck (session token id : Nat)
  | tick
  deriving DecidableEq, Repr, Inhabited

/-- `producerController.Receive`; a stopped (terminated) controller handles nothing -/
def Producer.handle (p : Producer) (m : PIn) : Producer × List POut :=
  if p.failed then (p, [])
  else match m with
    | .fromConsumer (.register n) => p.handleRegister n
    | .fromConsumer (.request s n c u v) => p.handleRequest s n c u v
    | .fromConsumer (.ack s n c) => p.handleAck s n c
    | .produced s t i pl => p.handleProduced s t i pl
    | .storedAck s t i => p.handleStoredAck s t i
    | .tick => p.handleTick

/-! ## consumer controller -/

/-- a buffered `SequencedMessage` (whole message) -/
structure BMsg where
  id : Nat
  seq : Nat
  payload : Nat
  deriving DecidableEq, Repr, Inhabited

structure Consumer where
  /-- flow-control window (1 ≤ window ≤ maxWindow, validated by PreStart) -/
  window : Nat := 1
  /-- resendInterval -/
  interval : Nat := 1
  /-- `producerController != nil` -/
  hasProducer : Bool := false
  /-- adopted session, 0 = none -/
  session : Nat := 0
  /-- nonce of the latest RegisterConsumer sent -/
  nonce : Nat := 0
  /-- source of fresh nonces (model of uuid.NewString) -/
  nonceCtr : Nat := 0
  expectedSeq : Nat := 1
  confirmedSeq : Nat := 0
  requestUpToSeq : Nat := 0
  buffer : List BMsg := []
  inFlight : Option Delivery := none
  sawValidTraffic : Bool := false
  /-- lastGapRequest; `none` = the zero time -/
  lastGap : Option Nat := none
  failed : Bool := false
  deriving DecidableEq, Repr, Inhabited

namespace Consumer

/-- `register` (the producer companion resolves) -/
def register (c : Consumer) : Consumer × List COut :=
  let n := c.nonceCtr + 1
  ({ c with hasProducer := true, nonce := n, nonceCtr := n }, [.toProducer (.register n)])

/-- `sendRequest` -/
def sendRequest (c : Consumer) (viaTimeout : Bool) : Consumer × List COut :=
  if !c.hasProducer || c.session == 0 then (c, [])
  else
    let upTo := c.confirmedSeq + c.window
    ({ c with requestUpToSeq := upTo }, [.toProducer (.request c.session c.nonce c.confirmedSeq upTo viaTimeout)])

/-- `sendAck` -/
def sendAck (c : Consumer) : List COut :=
  if !c.hasProducer || c.session == 0 then []
  else [.toProducer (.ack c.session c.nonce c.confirmedSeq)]

/-- `gapOpen` (no chunked head) -/
def gapOpen (c : Consumer) : Bool :=
  match c.buffer with
  | [] => false
  | b :: _ =>
    let nextMissing := match c.inFlight with | some d => d.seq + 1 | none => c.expectedSeq
    b.seq > nextMissing

/-- `solicitGapRequest` -/
def solicitGapRequest (c : Consumer) (now : Nat) : Consumer × List COut :=
  sendRequest { c with lastGap := some now } true

/-- the rate limiter of `sendGapRequest`: `now.Sub(lastGapRequest) < resendInterval` suppresses -/
def gapAllowed (c : Consumer) (now : Nat) : Bool :=
  match c.lastGap with
  | none => true
  | some t => now - t ≥ c.interval

/-- `sendGapRequest` -/
def sendGapRequest (c : Consumer) (now : Nat) : Consumer × List COut :=
  if c.gapAllowed now then c.solicitGapRequest now else (c, [])

/-- ordered insert by seq (the buffer is kept ascending, so this is where BinarySearch points) -/
def insertBySeq (m : BMsg) : List BMsg → List BMsg
  | [] => [m]
  | b :: bs => if m.seq < b.seq then m :: b :: bs else b :: insertBySeq m bs

/-- the `switch` of `bufferMessage`: duplicate → nothing, full → drop, else ordered insert -/
def bufferInsert (c : Consumer) (m : BMsg) : Consumer :=
  if c.buffer.any (fun b => b.seq == m.seq) then c
  else if c.buffer.length ≥ c.window then c
  else { c with buffer := insertBySeq m c.buffer }

/-- `bufferMessage` -/
def bufferMessage (c : Consumer) (m : BMsg) (now : Nat) : Consumer × List COut :=
  let c1 := c.bufferInsert m
  if c1.gapOpen then c1.sendGapRequest now else (c1, [])

/-- `deliver` / `deliverFrame` -/
def deliver (c : Consumer) (m : BMsg) : Consumer × List COut :=
  let d : Delivery := ⟨c.session, m.id, m.seq, m.payload⟩
  ({ c with inFlight := some d }, [.toUser d])

/-- `drain` (no chunked head) -/
def drain (c : Consumer) : Consumer × List COut :=
  match c.inFlight, c.buffer with
  | none, b :: bs => if b.seq == c.expectedSeq then deliver { c with buffer := bs } b else (c, [])
  | _, _ => (c, [])

/-- `handleRegistrationAck` -/
def handleRegAck (c : Consumer) (session nextSeq nonce : Nat) : Consumer × List COut :=
  if !c.hasProducer then (c, [])
  else if nonce != c.nonce then (c, [])
  else
    let c1 := { c with sawValidTraffic := true }
    let c2 := if session != c1.session then
        { c1 with session := session, expectedSeq := nextSeq, confirmedSeq := nextSeq - 1, buffer := [], inFlight := none }
      else c1
    c2.sendRequest true

/-- `x.inFlight != nil && seq == x.inFlight.Seq()` -/
def isInFlightSeq (c : Consumer) (seq : Nat) : Bool :=
  match c.inFlight with | some d => seq == d.seq | none => false

/-- `handleSequencedMessage` (whole message) -/
def handleSequenced (c : Consumer) (session id seq payload now : Nat) : Consumer × List COut :=
  if !c.hasProducer then (c, [])
  else if c.session == 0 || session != c.session then (c, [])
  else
    let c1 := { c with sawValidTraffic := true }
    if seq < 1 || seq > c1.requestUpToSeq then (c1, [])
    else if seq < c1.expectedSeq then (c1, c1.sendAck)
    else if seq == c1.expectedSeq && c1.inFlight.isNone then c1.deliver ⟨id, seq, payload⟩
    else if c1.isInFlightSeq seq then (c1, [])
    else
      let (c2, o2) := c1.bufferMessage ⟨id, seq, payload⟩ now
      let (c3, o3) := c2.drain
      (c3, o2 ++ o3)

/-- `purgeBuffer` -/
def purgeBuffer (c : Consumer) : Consumer :=
  { c with buffer := c.buffer.dropWhile (fun b => b.seq < c.expectedSeq) }

/-- `batchConfirmation` -/
def batchConfirmation (c : Consumer) : Consumer × List COut :=
  if c.requestUpToSeq - c.confirmedSeq ≤ c.window / 2 then c.sendRequest false
  else if c.buffer.isEmpty && c.inFlight.isNone then (c, c.sendAck)
  else (c, [])

/-- `handleConfirmed` (the sender is the consumer endpoint) -/
def handleConfirmed (c : Consumer) (session id seq now : Nat) : Consumer × List COut :=
  match c.inFlight with
  | none => (c, [])
  | some d =>
    if session != c.session || id != d.id || seq != d.seq then (c, [])
    else
      let c1 := purgeBuffer { c with confirmedSeq := d.seq, expectedSeq := d.seq + 1, inFlight := none }
      let (c2, o2) := c1.batchConfirmation
      let (c3, o3) := c2.drain
      if c3.gapOpen then
        let (c4, o4) := c3.solicitGapRequest now
        (c4, o2 ++ o3 ++ o4)
      else (c3, o2 ++ o3)

/-- `handleTick` (current generation) -/
def handleTick (c : Consumer) (now : Nat) : Consumer × List COut :=
  let (c1, o1) :=
    if c.session == 0 || !c.sawValidTraffic then c.register
    else match c.inFlight with
      | some d => (c, [.toUser d])
      | none => if c.gapOpen then c.sendGapRequest now else (c, [])
  ({ c1 with sawValidTraffic := false }, o1)

end Consumer

/-- what the consumer controller's mailbox can receive -/
inductive CIn
  | fromProducer (m : PMsg)
  | confirmed (session id seq : Nat)
  | tick
  deriving DecidableEq, Repr, Inhabited

/-- `consumerController.Receive` at time `now` -/
def Consumer.handle (c : Consumer) (m : CIn) (now : Nat) : Consumer × List COut :=
  if c.failed then (c, [])
  else match m with
    | .fromProducer (.regAck s nx n) => c.handleRegAck s nx n
    | .fromProducer (.sequenced s i q pl) => c.handleSequenced s i q pl now
    | .confirmed s i q => c.handleConfirmed s i q now
    | .tick => c.handleTick now

/-! ## the endpoints (documented contract) and the network -/

/-- producer endpoint: answers a RequestNext with the next job, re-answers the same token with the same
    Produced, acknowledges every Stored.  Job `k` has MessageID `k`; its payload is `payloadOf k`. -/
structure UserP where
  /-- last answered grant: token, id, payload -/
  answered : Option (Nat × Nat × Nat) := none
  /-- number of jobs handed over so far -/
  jobs : Nat := 0
  deriving DecidableEq, Repr, Inhabited

open Spec.C42 (payloadOf)

/-- the producer endpoint's reaction to one message of its controller -/
def UserP.react (u : UserP) (m : PUMsg) : UserP × Option PIn :=
  match m with
  | .requestNext s t =>
    match u.answered with
    | some (t', i, pl) =>
      if t' == t then (u, some (.produced s t i pl))
      else
        let k := u.jobs + 1
        ({ answered := some (t, k, payloadOf k), jobs := k }, some (.produced s t k (payloadOf k)))
    | none =>
      let k := u.jobs + 1
      ({ answered := some (t, k, payloadOf k), jobs := k }, some (.produced s t k (payloadOf k)))
  | .stored s t i _ => (u, some (.storedAck s t i))
  | .deliveryConfirmed _ _ _ => (u, none)

/-- the whole system: both controllers, the four links, the endpoints, a clock, and history (ghost) logs -/
structure World where
  p : Producer := {}
  c : Consumer := {}
  /-- producer controller → consumer controller, in flight (any element may be picked: a multiset) -/
  netPC : List PMsg := []
  /-- consumer controller → producer controller, in flight -/
  netCP : List CMsg := []
  /-- producer endpoint mailbox (FIFO, lossy) -/
  inboxP : List PUMsg := []
  /-- consumer endpoint mailbox (FIFO, lossy) -/
  inboxC : List Delivery := []
  userP : UserP := {}
  now : Nat := 0
  /-- ghost: every Delivery the consumer controller has sent, oldest first -/
  presented : List Delivery := []
  /-- ghost: every message the producer controller has stored, oldest first -/
  stored : List UMsg := []
  /-- ghost: seqs the consumer endpoint has confirmed -/
  confirmedByUser : List Nat := []
  deriving DecidableEq, Repr, Inhabited

/-- fault and schedule decisions -/
inductive Step
  /-- hand netPC[i] to the consumer controller and remove it -/
  | deliverPC (i : Nat)
  /-- hand netPC[i] to the consumer controller and keep it (duplication) -/
  | dupPC (i : Nat)
  | dropPC (i : Nat)
  | deliverCP (i : Nat)
  | dupCP (i : Nat)
  | dropCP (i : Nat)
  | tickP
  | tickC
  /-- the producer endpoint handles the head of its mailbox (its reply reaches the controller at once) -/
  | userP
  | userPDrop
  /-- the consumer endpoint handles the head of its mailbox, confirming it or not -/
  | userC (confirm : Bool)
  | userCDrop
  /-- the clock moves (to any value) -/
  | time (t : Nat)
  deriving DecidableEq, Repr, Inhabited

def pcOf : List POut → List PMsg
  | [] => []
  | .toConsumer m :: r => m :: pcOf r
  | .toUser _ :: r => pcOf r

def puOf : List POut → List PUMsg
  | [] => []
  | .toConsumer _ :: r => puOf r
  | .toUser m :: r => m :: puOf r

def cpOf : List COut → List CMsg
  | [] => []
  | .toProducer m :: r => m :: cpOf r
  | .toUser _ :: r => cpOf r

def cuOf : List COut → List Delivery
  | [] => []
  | .toProducer _ :: r => cuOf r
  | .toUser d :: r => d :: cuOf r

/-- run one producer-controller handler inside the world -/
def World.stepP (w : World) (m : PIn) : World × List POut :=
  let (p', o) := w.p.handle m
  let st : List UMsg := if p'.currentSeq > w.p.currentSeq then
      (match m with | .produced _ _ i pl => [⟨i, p'.currentSeq, pl⟩] | _ => []) else []
  ({ w with p := p', netPC := w.netPC ++ pcOf o, inboxP := w.inboxP ++ puOf o, stored := w.stored ++ st }, o)

/-- run one consumer-controller handler inside the world -/
def World.stepC (w : World) (m : CIn) : World × List COut :=
  let (c', o) := w.c.handle m w.now
  ({ w with c := c', netCP := w.netCP ++ cpOf o, inboxC := w.inboxC ++ cuOf o, presented := w.presented ++ cuOf o }, o)

/-- outputs of one step, for the trace -/
structure StepOut where
  /-- which controller ran a handler: 0 none, 1 producer, 2 consumer -/
  who : Nat := 0
  pouts : List POut := []
  couts : List COut := []
  deriving DecidableEq, Repr, Inhabited

/-- one transition; an index outside the link or an empty mailbox is a no-op -/
def World.step (w : World) : Step → World × StepOut
  | .deliverPC i =>
    match w.netPC[i]? with
    | some m => let (w', o) := ({ w with netPC := w.netPC.eraseIdx i }).stepC (.fromProducer m); (w', { who := 2, couts := o })
    | none => (w, {})
  | .dupPC i =>
    match w.netPC[i]? with
    | some m => let (w', o) := w.stepC (.fromProducer m); (w', { who := 2, couts := o })
    | none => (w, {})
  | .dropPC i => ({ w with netPC := w.netPC.eraseIdx i }, {})
  | .deliverCP i =>
    match w.netCP[i]? with
    | some m => let (w', o) := ({ w with netCP := w.netCP.eraseIdx i }).stepP (.fromConsumer m); (w', { who := 1, pouts := o })
    | none => (w, {})
  | .dupCP i =>
    match w.netCP[i]? with
    | some m => let (w', o) := w.stepP (.fromConsumer m); (w', { who := 1, pouts := o })
    | none => (w, {})
  | .dropCP i => ({ w with netCP := w.netCP.eraseIdx i }, {})
  | .tickP => let (w', o) := w.stepP .tick; (w', { who := 1, pouts := o })
  | .tickC => let (w', o) := w.stepC .tick; (w', { who := 2, couts := o })
  | .userP =>
    match w.inboxP with
    | [] => (w, {})
    | m :: rest =>
      let (u', r) := w.userP.react m
      let w1 := { w with inboxP := rest, userP := u' }
      match r with
      | some pin => let (w', o) := w1.stepP pin; (w', { who := 1, pouts := o })
      | none => (w1, {})
  | .userPDrop => ({ w with inboxP := w.inboxP.drop 1 }, {})
  | .userC confirm =>
    match w.inboxC with
    | [] => (w, {})
    | d :: rest =>
      let w1 := { w with inboxC := rest }
      if confirm then
        let (w', o) := ({ w1 with confirmedByUser := w1.confirmedByUser ++ [d.seq] }).stepC (.confirmed d.session d.id d.seq)
        (w', { who := 2, couts := o })
      else (w1, {})
  | .userCDrop => ({ w with inboxC := w.inboxC.drop 1 }, {})
  | .time t => ({ w with now := t }, {})

/-- the world right after both controllers handled `PostStart`: the consumer controller has sent its
    first RegisterConsumer -/
def World.init (window interval : Nat) (deliveryConfirmation : Bool) : World :=
  let c0 : Consumer := { window := window, interval := interval }
  let (c1, o) := c0.register
  { p := { deliveryConfirmation := deliveryConfirmation }, c := c1, netCP := cpOf o }

/-- run a script, collecting per-step outputs -/
def World.run (w : World) : List Step → World × List StepOut
  | [] => (w, [])
  | s :: ss =>
    let (w1, o) := w.step s
    let (w2, os) := w1.run ss
    (w2, o :: os)

/-! ## what a run shows to the monitor of Spec/C42 -/

open Spec.C42 (Obs)

def obsOfP : List POut → List Obs
  | [] => []
  | .toUser (.stored _ _ id seq) :: r => .stored id seq :: obsOfP r
  | .toConsumer (.sequenced _ _ seq _) :: r => .sent seq :: obsOfP r
  | _ :: r => obsOfP r

def obsOfC : List COut → List Obs
  | [] => []
  | .toProducer (.request _ _ _ u _) :: r => .requested u :: obsOfC r
  | .toUser d :: r => .present d.id d.seq d.payload :: obsOfC r
  | _ :: r => obsOfC r

def cstateOf (c : Consumer) : Obs := .cstate c.window c.confirmedSeq c.requestUpToSeq c.buffer.length

/-- the observations of one step taken from world `w` (ending in `w'` with outputs `o`) -/
def World.obsOfStep (w : World) (s : Step) (w' : World) (o : StepOut) : List Obs :=
  let pre := match s, w.inboxC with
    | .userC true, d :: _ => [Obs.confirm d.seq]
    | _, _ => []
  pre ++ obsOfP o.pouts ++ obsOfC o.couts ++ (if o.who == 2 then [cstateOf w'.c] else [])

/-- all observations of a script, oldest first -/
def World.observe (w : World) : List Step → List Obs
  | [] => []
  | s :: ss =>
    let (w', o) := w.step s
    w.obsOfStep s w' o ++ w'.observe ss

/-- observations of the initial PostStart handling (the first RegisterConsumer carries no demand) -/
def World.initObs (w : World) : List Obs := [cstateOf w.c]

end GoaktVerif.Model.C42

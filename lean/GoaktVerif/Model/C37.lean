/-
C37 — model of how a spawn configuration travels: in-memory configuration (supervisor package,
reentrancy package, passivation package, spawnConfig / PID fields), the wire structs of
protos/internal/actor.proto mirrored field by field, internal/codec/codec.go (Encode/Decode of
supervisor, passivation strategy, reentrancy), actor/pid.go toSerialize, actor/spawn.go
wireSpawnOptions (the same option building is inlined in actor/remote_server.go
remoteSpawnHandler), and actor/actor_system.go configPID's defaulting.

Durations are `Int` nanoseconds (Go: int64; the int64 range is an invariant, `inI64`).
The directive table of a supervisor is a Go map: modelled as an association list with unique keys;
everything observable of it is `get` (what `Directive(err)`, `Rules()` sorted, and
`AnyErrorDirective()` expose).  protobuf Marshal/Unmarshal and the user's dependency
MarshalBinary/UnmarshalBinary are parameters (identity on the wire structs / payload).
-/
namespace GoaktVerif.Model.C37

inductive Strategy | oneForOne | oneForAll
  deriving DecidableEq, Repr
inductive Directive | stop | resume | restart | escalate
  deriving DecidableEq, Repr

abbrev Key := String
abbrev Rules := List (Key × Directive)

def anyKey : Key := "errors.AnyError"
def panicKey : Key := "errors.PanicError"
def panicNilKey : Key := "runtime.PanicNilError"

/-- map lookup -/
def rget (m : Rules) (k : Key) : Option Directive :=
  match m with
  | [] => none
  | (k', d) :: t => if k = k' then some d else rget t k

/-- map store -/
def rput (m : Rules) (k : Key) (d : Directive) : Rules := (k, d) :: m.filter (fun e => e.1 ≠ k)

def rkeys (m : Rules) : List Key := m.map Prod.fst

/-- supervisor.Supervisor -/
structure Sup where
  strategy : Strategy
  maxRetries : Nat
  timeout : Int
  initialDelay : Int
  maxDelay : Int
  resetAfter : Int
  rules : Rules
  deriving DecidableEq, Repr

/-- supervisor.SupervisorOption -/
inductive SupOpt
  | strategy (s : Strategy)
  | directive (k : Key) (d : Directive)      -- WithDirective(err, d), k = errorType(err)
  | retry (n : Nat) (t : Int)
  | backoff (i m r : Int)
  | anyError (d : Directive)
  deriving Repr

/-- NewSupervisor's starting point incl. the two default directives -/
def base : Sup :=
  ⟨.oneForOne, 0, -1, 0, 0, 0, rput (rput [] panicKey .stop) panicNilKey .restart⟩

def applyOpt (s : Sup) : SupOpt → Sup
  | .strategy st => { s with strategy := st }
  | .directive k d => { s with rules := rput s.rules k d }
  | .retry n t => { s with maxRetries := n, timeout := t }
  | .backoff i m r =>
    if i ≤ 0 then s else
    let m := if m < i then i else m
    let r := if r ≤ 0 then m else r
    { s with initialDelay := i, maxDelay := m, resetAfter := r }
  | .anyError d => { s with rules := rput s.rules anyKey d }

/-- the tail of NewSupervisor: an AnyError directive replaces every other one -/
def collapse (s : Sup) : Sup :=
  match rget s.rules anyKey with
  | some d => { s with rules := [(anyKey, d)] }
  | none => s

def newSupervisor (opts : List SupOpt) : Sup := collapse (opts.foldl applyOpt base)

/-- public mutators usable after construction -/
inductive PostOp
  | reset
  | setByType (k : Key) (d : Directive)
  deriving Repr

def applyPost (s : Sup) : PostOp → Sup
  | .reset => { s with strategy := .oneForAll, rules := [] }
  | .setByType k d => if k = "" then s else { s with rules := rput s.rules k d }

/-! ### wire structs (protos/internal/actor.proto, passivation.proto, reentrancy.proto) -/

/-- google.protobuf.Duration -/
structure WDur where
  secs : Int
  nanos : Int
  deriving DecidableEq, Repr

def nanosPerSec : Int := 1000000000
def minI64 : Int := -9223372036854775808
def maxI64 : Int := 9223372036854775807
def inI64 (x : Int) : Bool := decide (minI64 ≤ x) && decide (x ≤ maxI64)

/-- durationpb.New -/
def durNew (d : Int) : WDur := ⟨d.tdiv nanosPerSec, d.tmod nanosPerSec⟩
/-- Duration.AsDuration (saturating) -/
def durAs (w : WDur) : Int :=
  let d := w.secs * nanosPerSec + w.nanos
  if d < minI64 then minI64 else if d > maxI64 then maxI64 else d

/-- SupervisorSpec: strategy#1 max_retries#2 timeout#3 directives#4 any_error_directive#5
    backoff_initial_delay#6 backoff_max_delay#7 backoff_reset_after#8 (the last three since fix
    1ad4e99; set together, only when a backoff is configured) -/
structure SupSpec where
  strategy : Strategy
  maxRetries : Nat
  timeout : Option WDur
  directives : Rules
  anyError : Option Directive
  backoff : Option (WDur × WDur × WDur)
  deriving DecidableEq, Repr

def insertByKey (e : Key × Directive) : Rules → Rules
  | [] => [e]
  | x :: xs => if e.1 < x.1 then e :: x :: xs else x :: insertByKey e xs

/-- sort.Slice(directives, by error type) -/
def sortByKey : Rules → Rules
  | [] => []
  | x :: xs => insertByKey x (sortByKey xs)

/-- codec.EncodeSupervisor -/
def encodeSup (s : Sup) : SupSpec :=
  let spec : SupSpec := ⟨s.strategy, s.maxRetries, some (durNew s.timeout), [], none,
    if 0 < s.initialDelay then some (durNew s.initialDelay, durNew s.maxDelay, durNew s.resetAfter) else none⟩
  match rget s.rules anyKey with
  | some d => { spec with anyError := some d }
  | none => { spec with directives := sortByKey (s.rules.filter (fun e => e.1 ≠ "")) }

/-- codec.DecodeSupervisor -/
def decodeSup (spec : SupSpec) : Sup :=
  let retry : List SupOpt :=
    if spec.timeout.isSome || spec.maxRetries ≠ 0 then
      [.retry spec.maxRetries (match spec.timeout with | some t => durAs t | none => 0)]
    else []
  let backoff : List SupOpt :=
    match spec.backoff with
    | some (i, m, r) => [.backoff (durAs i) (durAs m) (durAs r)]
    | none => []
  let opts : List SupOpt := .strategy spec.strategy :: (retry ++ backoff)
  match spec.anyError with
  | some d => newSupervisor (opts ++ [.anyError d])
  | none => spec.directives.foldl (fun s e => applyPost s (.setByType e.1 e.2)) (newSupervisor opts)

inductive Passivation
  | timeBased (ns : Int)
  | messageCount (n : Int)
  | longLived
  deriving DecidableEq, Repr

inductive WPas
  | timeBased (d : WDur)
  | messageCount (n : Int)
  | longLived
  deriving DecidableEq, Repr

/-- codec.EncodePassivationStrategy -/
def encodePas : Passivation → WPas
  | .timeBased ns => .timeBased (durNew ns)
  | .messageCount n => .messageCount n
  | .longLived => .longLived
/-- codec.DecodePassivationStrategy -/
def decodePas : WPas → Passivation
  | .timeBased d => .timeBased (durAs d)
  | .messageCount n => .messageCount n
  | .longLived => .longLived

inductive Mode | off | allowAll | stashNonReentrant
  deriving DecidableEq, Repr

structure Reentrancy where
  mode : Mode
  maxInFlight : Int
  deriving DecidableEq, Repr

/-- reentrancy.New(WithMode(m), WithMaxInFlight(n)) -/
def Reentrancy.new (m : Mode) (n : Int) : Reentrancy := ⟨m, if n ≤ 0 then 0 else n⟩

def maxU32 : Int := 4294967295

/-- codec.EncodeReentrancy: the limit is clamped into uint32 -/
def encodeRe (r : Reentrancy) : Reentrancy :=
  let n := if r.maxInFlight < 0 then 0 else r.maxInFlight
  ⟨r.mode, if n ≤ 0 then 0 else if n > maxU32 then maxU32 else n⟩
/-- codec.DecodeReentrancy -/
def decodeRe (w : Reentrancy) : Reentrancy := Reentrancy.new w.mode w.maxInFlight

structure Dep where
  id : String
  payload : String
  deriving DecidableEq, Repr

/-! ### spawn configuration, PID, wire record -/

/-- actor.spawnConfig after the options ran (only the fields the property names) -/
structure SpawnCfg where
  sup : Option Sup
  pas : Option Passivation
  re : Option Reentrancy
  stash : Bool
  role : Option String          -- WithRole(r); r may be ""
  deps : List Dep
  initTimeout : Option Int      -- WithInitTimeout keeps only t > 0
  deriving DecidableEq, Repr

/-- what the spawned PID holds -/
structure PidCfg where
  sup : Sup
  pas : Passivation
  re : Option Reentrancy
  stash : Bool
  role : Option String
  deps : List Dep
  initTimeout : Option Int
  deriving DecidableEq, Repr

/-- node-wide defaults: actorSystem.defaultSupervisor / defaultPassivationStrategy -/
structure Defaults where
  sup : Sup
  pas : Passivation

/-- WithInitTimeout(t) -/
def withInitTimeout (t : Int) : Option Int := if t > 0 then some t else none

/-- actorSystem.configPID (+ the pid options) -/
def configPID (d : Defaults) (c : SpawnCfg) : PidCfg :=
  { sup := c.sup.getD d.sup
    pas := c.pas.getD d.pas
    re := c.re.map fun r => ⟨r.mode, r.maxInFlight⟩
    stash := c.stash
    role := match c.role with
      | some r => if r = "" then none else some r
      | none => none
    deps := c.deps
    initTimeout := c.initTimeout }

/-- internalpb.Actor (only the fields the property names) -/
structure WireActor where
  sup : Option SupSpec
  pas : Option WPas
  re : Option Reentrancy
  stash : Bool
  role : Option String
  deps : List Dep
  initTimeout : Option WDur
  deriving DecidableEq, Repr

/-- PID.toSerialize -/
def toSerialize (p : PidCfg) : WireActor :=
  { sup := some (encodeSup p.sup)
    pas := some (encodePas p.pas)
    re := p.re.map fun r => encodeRe (Reentrancy.new r.mode r.maxInFlight)
    stash := p.stash
    role := p.role
    deps := p.deps
    initTimeout := p.initTimeout.map durNew }

/-- actorSystem.wireSpawnOptions followed by newSpawnConfig -/
def wireSpawnOptions (w : WireActor) : SpawnCfg :=
  { sup := w.sup.map decodeSup
    pas := w.pas.map decodePas
    re := w.re.map decodeRe
    stash := w.stash
    role := match w.role with
      | some r => if r = "" then none else some r
      | none => none
    deps := w.deps
    initTimeout := match w.initTimeout with
      | some t => withInitTimeout (durAs t)
      | none => none }

/-- relocation (and, with the same codec calls, remote spawn): what the re-created actor holds -/
def relocate (d : Defaults) (c : SpawnCfg) : PidCfg :=
  configPID d (wireSpawnOptions (toSerialize (configPID d c)))

/-- the request of a remote spawn: actorSystem.Spawn's remote branch builds a remote.SpawnRequest from
    the spawnConfig and internal/remoteclient RemoteSpawn encodes it (nil stays nil, the init timeout
    travels only when positive) -/
def clientEncode (c : SpawnCfg) : WireActor :=
  { sup := c.sup.map encodeSup
    pas := c.pas.map encodePas
    re := c.re.map encodeRe
    stash := c.stash
    role := c.role
    deps := c.deps
    initTimeout := match c.initTimeout with
      | some t => if t > 0 then some (durNew t) else none
      | none => none }

/-- remote spawn: actor/remote_server.go remoteSpawnHandler builds the same options as
    wireSpawnOptions from the request and spawns on the target node -/
def remoteSpawn (d : Defaults) (c : SpawnCfg) : PidCfg :=
  configPID d (wireSpawnOptions (clientEncode c))

end GoaktVerif.Model.C37

/-
C11 — model of name-based spawning in one actor system
(actor/spawn.go: Spawn / SpawnNamedFromFunc / runSpawnActivation; actor/pid.go: SpawnChild /
spawnChildLocal / Shutdown / doStop; actor/actor_system.go: completeSpawn / attachAndPublish;
actor/pid_tree.go: addNode / deleteNode / node / nodeByName; actor/death_watch.go: handleTerminated).

Granularity: the PHASES a caller can be observed in.  A spawn is `begin` (single flight joined as its
leader, existing-actor checks, new PID created, PreStart entered) followed by `end` (PreStart returns,
the actor runs, attachAndPublish inserts it in the tree and counts it; the flight closes).  A stop is
`begin` (stopping flag, children stopped and removed, PostStop entered) followed by `end` (PostStop
returns, the death watch removes the node and uncounts it).  Any interleaving of concurrent callers at
this granularity is an operation sequence of this machine; the harness realises the same phases on the
real code with gates inside PreStart/PostStop.

The model is of the code AS IT IS (after fix: commits 38faff1 and f0fff1d): a spawn that finds its name or id
held by an actor that is not running fails with ErrActorAlreadyExists; the name index is a per-name stack
(a deleted node hands a shared name back to the most recent survivor).  Still modelled as it is: a child
spawn whose parent disappeared is counted and returned although it is not in the tree.
-/
namespace GoaktVerif.Model.C11

abbrev Path := List String
abbrev ProcId := Nat

inductive Phase where
  | starting   -- PID created, inside PreStart
  | running
  | stopping   -- Shutdown in progress, inside PostStop
  | stopped
  deriving Repr, DecidableEq

structure Proc where
  path : Path
  phase : Phase
  deriving Repr, DecidableEq

inductive Kind where
  | spawn | func | child
  deriving Repr, DecidableEq

/-- a spawn request: kind and relative path (`[name]` or `[parent, name]`) -/
structure Req where
  kind : Kind
  path : Path
  deriving Repr, DecidableEq

inductive Op where
  | full (r : Req)
  | sBegin (r : Req)
  | sEnd (key : Path)
  | par (rs : List Req)
  | kill (p : Path)
  | kBegin (p : Path)
  | kEnd (p : Path)
  | follow (r : Req)       -- a call that joins the flight held open for its path (a FOLLOWER of the single flight)
  | cancel (key : Path)    -- the oldest waiting follower of `key` has its context cancelled
  | join (key : Path)      -- collect the followers of `key` after the flight ended
  | bad
  deriving Repr, DecidableEq

inductive Out where
  | pid (p : ProcId) (running : Bool)
  | pre | post | ok | nf | off | busy | none | badOp
  | err (msg : String)
  | group (rs : List Out)
  | wait
  | shared (rs : List Out)   -- results handed to followers: the leader's result (singleflight contract)
  deriving Repr

structure St where
  procs : List Proc
  tree : List (Path × ProcId)          -- nodes, keyed by id (= path)
  names : List (String × ProcId)       -- the name index of the tree: per name a stack, most recent node first
  counter : Nat                        -- actorsCounter
  flights : List (Path × ProcId × Kind)  -- open spawns held in PreStart: key, the new process, kind
  stops : List (Path × ProcId)         -- open stops held in PostStop
  started : Nat
  maxLive : List (Path × Nat)          -- per path: largest number of simultaneously running instances
  fol : List Path                      -- followers waiting behind an open flight (one entry per follower)
  last : List (Path × Out)             -- result of the most recent held flight per path (what its followers share)
  deriving Repr

def St.init : St := { procs := [], tree := [], names := [], counter := 0, flights := [], stops := [], started := 0, maxLive := [], fol := [], last := [] }

def lookup {α β : Type} [DecidableEq α] (l : List (α × β)) (k : α) : Option β :=
  match l.find? (·.1 = k) with
  | some (_, v) => some v
  | none => none

def phaseOf (s : St) (p : ProcId) : Phase :=
  match s.procs[p]? with
  | some pr => pr.phase
  | none => .stopped

def isRunning (s : St) (p : ProcId) : Bool := phaseOf s p = .running

/-- the runningState flag (set from the end of PreStart to the end of doStop) -/
def runningFlag (s : St) (p : ProcId) : Bool := phaseOf s p = .running || phaseOf s p = .stopping

def setPhase (s : St) (p : ProcId) (ph : Phase) : St :=
  { s with procs := s.procs.modify p fun pr => { pr with phase := ph } }

def pathOf (s : St) (p : ProcId) : Path :=
  match s.procs[p]? with
  | some pr => pr.path
  | none => []

/-- number of running instances whose path is `k` -/
def liveCount (s : St) (k : Path) : Nat :=
  ((List.range s.procs.length).filter fun p => pathOf s p = k && isRunning s p).length

/-- number of running user actors -/
def runningCount (s : St) : Nat := ((List.range s.procs.length).filter fun p => isRunning s p).length

def bumpMax (s : St) (k : Path) : St :=
  let n := liveCount s k
  match lookup s.maxLive k with
  | some m => if n > m then { s with maxLive := (k, n) :: s.maxLive.filter (·.1 ≠ k) } else s
  | none => { s with maxLive := (k, n) :: s.maxLive }

def lastName (k : Path) : String := k.getLast?.getD ""

def flightOpen (s : St) (k : Path) : Bool := s.flights.any (·.1 = k)

inductive Begin where
  | done (o : Out)        -- finished without creating an actor
  | held (p : ProcId)     -- new process created, inside PreStart

/-- a new PID held inside PreStart, leader of the single flight of its path -/
def addProc (s : St) (path : Path) (kind : Kind) : St :=
  { s with procs := s.procs ++ [{ path := path, phase := .starting }], flights := (path, s.procs.length, kind) :: s.flights }

def existsMsg (name : String) : String := "actor=(" ++ name ++ ") actor already exists"

/-- first phase of a spawn -/
def spawnBegin (s : St) (r : Req) : St × Begin :=
  match r.kind with
  | .child =>
    match r.path with
    | [parent, _] =>
      match lookup s.tree [parent] with
      | none => (s, .done (.err "noparent"))
      | some pp =>
        if !isRunning s pp then (s, .done (.err "actor is not alive"))
        else
          match lookup s.tree r.path with       -- findRunningChild
          | some q =>
            if isRunning s q then (s, .done (.pid q true))
            else (s, .done (.err (existsMsg (lastName r.path))))   -- id still held by a stopping / suspended child
          | none => (addProc s r.path r.kind, .held s.procs.length)
    | _ => (s, .done .badOp)
  | _ =>
    match r.path with
    | [name] =>
      match lookup s.names name with             -- nodeByName
      | some q =>
        if isRunning s q then (s, .done (.pid q true))
        else (s, .done (.err (existsMsg name)))                   -- name still held by a stopping / suspended actor
      | none => (addProc s r.path r.kind, .held s.procs.length)
    | _ => (s, .done .badOp)

/-- PreStart returned: the flight closes and the actor runs -/
def markRunning (s : St) (key : Path) (p : ProcId) : St :=
  bumpMax { setPhase { s with flights := s.flights.filter (·.1 ≠ key) } p .running with started := s.started + 1 } key

/-- addNode succeeded: counted, in the tree, in the name index -/
def attach (s : St) (key : Path) (p : ProcId) : St :=
  { s with counter := s.counter + 1, tree := (key, p) :: s.tree,
           names := (lastName key, p) :: s.names }

def parentOK (s : St) (kind : Kind) (key : Path) : Bool :=
  match kind, key with
  | .child, [parent, _] => (lookup s.tree [parent]).isSome
  | _, _ => true

/-- second phase: PreStart returns, the actor runs; attachAndPublish -/
def spawnEnd (s0 : St) (key : Path) (p : ProcId) (kind : Kind) : St × Out :=
  let s := markRunning s0 key p
  match lookup s.tree key with
  | some q =>
    -- errNodeAlreadyExists: the counter bump is undone, the new instance is left running unmanaged
    match kind with
    | .child => (s, .pid p true)                    -- spawnChildLocal ignores the canonical instance
    | _ => (s, .pid q (isRunning s q))              -- the canonical (possibly stopping) instance
  | none =>
    if parentOK s kind key then (attach s key p, .pid p true)
    else
      -- addNode failed ("parent pid does not exist"): counted, published, not in the tree
      ({ s with counter := s.counter + 1 }, .pid p true)

/-- what a call does BEFORE it reaches the single flight: spawnChildLocal checks its parent and looks for a running
child; Spawn / SpawnNamedFromFunc go straight to the flight -/
def preFlight (s : St) (r : Req) : Option Out :=
  match r.kind, r.path with
  | .child, [parent, _] =>
    match lookup s.tree [parent] with
    | none => some (.err "noparent")
    | some pp =>
      if !isRunning s pp then some (.err "actor is not alive")
      else
        match lookup s.tree r.path with
        | some q => if isRunning s q then some (.shared [.pid q true]) else none
        | none => none
  | _, _ => none

def fullSpawn (s : St) (r : Req) : St × Out :=
  if flightOpen s r.path then (s, .busy)
  else
    match spawnBegin s r with
    | (s', .done o) => (s', o)
    | (s', .held p) => spawnEnd s' r.path p r.kind

def isPrefixOf (p k : Path) : Bool := p.length < k.length && k.take p.length = p

/-- remove the node of `q` (id `k`) and its whole subtree from the tree and the name index -/
def deleteNode (s : St) (k : Path) : St :=
  let gone := s.tree.filter fun n => n.1 = k || isPrefixOf k n.1
  { s with tree := s.tree.filter (fun n => !(n.1 = k || isPrefixOf k n.1)),
           names := s.names.filter fun e => !(gone.any fun n => n.2 = e.2) }

/-- a child stopped by its parent's freeChildren: PostStop, Terminated, death watch -/
def stopChild (s : St) (n : Path × ProcId) : St :=
  let s := setPhase s n.2 .stopped
  match lookup s.tree n.1 with
  | some _ => deleteNode { s with counter := s.counter - 1 } n.1
  | none => s

def stopGuard (s : St) (p : Path) : Bool :=
  s.stops.any fun e => e.1 = p || isPrefixOf p e.1

inductive KBegin where
  | done (o : Out)
  | held (q : ProcId)

def killBegin (s : St) (p : Path) : St × KBegin :=
  if stopGuard s p then (s, .done .busy)
  else
    match lookup s.tree p with
    | none => (s, .done .nf)
    | some q =>
      if !runningFlag s q then (s, .done .off)
      else
        let kids := s.tree.filter fun n => isPrefixOf p n.1
        let s := kids.foldl stopChild s
        (setPhase s q .stopping, .held q)

def killEnd (s : St) (p : Path) (q : ProcId) : St :=
  let s := setPhase s q .stopped
  match lookup s.tree p with
  | some _ => deleteNode { s with counter := s.counter - 1 } p
  | none => s

def step (s : St) : Op → St × Out
  | .full r => fullSpawn s r
  | .sBegin r =>
    if flightOpen s r.path then (s, .busy)
    else
      match spawnBegin s r with
      | (s', .done o) => (s', o)
      | (s', .held _) => (s', .pre)
  | .sEnd key =>
    match s.flights.find? (·.1 = key) with
    | some (_, p, kind) =>
      let r := spawnEnd s key p kind
      ({ r.1 with last := (key, r.2) :: r.1.last.filter (·.1 ≠ key) }, r.2)
    | none => (s, .none)
  | .follow r =>
    if !flightOpen s r.path then (s, .none)
    else
      match preFlight s r with
      | some o => (s, o)                                        -- refused or served before reaching the flight
      | none => ({ s with fol := r.path :: s.fol }, .wait)
  | .cancel key =>
    if s.fol.contains key then
      if flightOpen s key then ({ s with fol := s.fol.erase key }, .err "context canceled")
      else ({ s with fol := s.fol.erase key }, .shared [(lookup s.last key).getD .none])   -- already served
    else (s, .none)
  | .join key =>
    if flightOpen s key then (s, .busy)
    else if s.fol.contains key then
      let r := (lookup s.last key).getD .none
      ({ s with fol := s.fol.filter (· ≠ key) }, .shared (List.replicate (s.fol.count key) r))
    else (s, .none)
  | .par rs =>
    if !s.stops.isEmpty then (s, .busy)     -- harness guard: callers racing a held stop are not deterministic
    else if rs.any (fun r => rs.any fun r' => r.path.getLast? = r'.path.getLast? && r.path ≠ r'.path) then (s, .badOp)
    else if rs.any fun r => flightOpen s r.path then (s, .busy)
    else
      let (s', outs) := rs.foldl (fun (acc : St × List Out) r => let (s1, o) := fullSpawn acc.1 r; (s1, o :: acc.2)) (s, [])
      (s', .group outs.reverse)
  | .kill p =>
    match killBegin s p with
    | (s', .done o) => (s', o)
    | (s', .held q) => (killEnd s' p q, .ok)
  | .kBegin p =>
    match killBegin s p with
    | (s', .done o) => (s', o)
    | (s', .held q) => ({ s' with stops := (p, q) :: s'.stops }, .post)
  | .kEnd p =>
    match s.stops.find? (·.1 = p) with
    | some (_, q) => (killEnd { s with stops := s.stops.filter (·.1 ≠ p) } p q, .ok)
    | none => (s, .none)
  | .bad => (s, .badOp)

def run (s : St) : List Op → St × List Out
  | [] => (s, [])
  | op :: ops =>
    let (s1, o) := step s op
    let (s2, os) := run s1 ops
    (s2, o :: os)

end GoaktVerif.Model.C11

/-
C01G — the GRAIN variant of the per-actor dispatch machine (actor/grain_pid.go: receive,
enqueueEnvelope, deliverTimerTick, enqueuePassivationPill, runTurn, dequeueResponse, paused,
hasPendingWork, finishOrReclaim, dispatchOne; actor/grain_mailbox.go; actor/dispatch_state.go;
dispatcher.schedule, worker.reschedule) as a small-step model, one transition per atomic operation,
labelled exactly as tools/yieldinject labels the sites of the Go code.  Same `Sched` machine, tokens and
turn owners as Model/C01.lean; what is new:

* TWO queues: `R` = `responses` (async response envelopes, dequeued first, never paused) and `M` = the
  user mailbox (skipped while the grain is `paused`).  Both are `grainMailbox`es, modelled by the
  RESERVATION QUEUE (cells in reservation order, a cell is `ready` once its producer linked it) plus the
  `len` counter of the code (an `Int`: the consumer may decrement it before the producer incremented
  it).  `Dequeue` = `Load:head`, `Load:next` (linearisation point when the head cell is linked),
  otherwise `Load:tail` (really empty ⇒ nil) and the busy-wait `Load:next` … until the producer links;
  then `Store:head`, `Add:len`, `Store:next`.  `IsEmpty` = `Load:len` (`len = 0`).  `Enqueue` (unbounded
  mode) = `Store:next`, `Swap:tail` (reserve), `Store:next` (link), `Add:len`.
* `paused` = `Load:reentrancy`, `Load:blockingCount` (yieldinject places both points before the one `return`
  statement, so both are passed even when no reentrancy state is installed): the number of StashNonReentrant requests in flight
  is `outstanding.length`; a request is registered by the handler of a `block` message (on the turn)
  and completed by the handler of the matching `resp` envelope (on the turn).
* message kinds and their senders: `user` (TellGrain → receive), `block` (receive; its handler issues a
  blocking request), `req` (AsyncRequest envelope → enqueueEnvelope → mailbox), `tick`
  (deliverTimerTick), `pill` (enqueuePassivationPill; handled by handlePassivationPill, no OnReceive),
  `resp` (AsyncResponse envelope → enqueueEnvelope → responses; runs the continuation of request `id`,
  or is dropped when no such request is in flight).
* workers: `take`; `CAS:v`; per budget iteration responses.Dequeue, paused, mailbox.Dequeue, dispatchOne;
  finishOrReclaim = `Store:v` reset, hasPendingWork (`Load:len` responses, paused, `Load:len` mailbox),
  TrySchedule, re-take; yield `Store:v`, `Call:reschedule`.

Not in the model: deactivation (PoisonPill, a pill that really passivates), bounded mailbox capacity,
AllowAll-mode requests, request timeouts (they arrive as `resp` envelopes), EnableReentrancy at runtime.
-/
namespace GoaktVerif.Model.C01G

inductive Sched where
  | idle | scheduled | processing
  deriving Repr, DecidableEq

inductive Kind where
  | user | block | req | tick | pill | resp
  deriving Repr, DecidableEq

structure Msg where
  kind : Kind
  id : Nat
  deriving Repr, DecidableEq

/-- the two queues of a grain: responses, user mailbox -/
inductive Q where
  | R | M
  deriving Repr, DecidableEq

def qOf : Kind → Q
  | .resp => .R
  | _ => .M

structure Cell where
  msg : Msg
  ready : Bool
  deriving Repr, DecidableEq

structure Queue where
  cells : List Cell
  len : Int
  deriving Repr, DecidableEq

inductive PC where
  -- sender: queue.Enqueue ; schedState.TrySchedule ; dispatcher.schedule
  | sE0 (x : Msg) | sE1 (x : Msg) | sE2 (x : Msg) | sE3 (x : Msg)
  | sT1 | sT2 | sPush
  -- worker
  | wTake | wTfp
  | dq1 (q : Q) (b : Nat) | dq2 (q : Q) (b : Nat) | dq3 (q : Q) (b : Nat) | dq4 (q : Q) (b : Nat)
  | dq5 (q : Q) (b : Nat) (x : Msg) | dq6 (q : Q) (b : Nat) (x : Msg) | dq7 (q : Q) (b : Nat) (x : Msg)
  | wP1 (b : Nat) | wP2 (b : Nat)
  | wRecv (b : Nat) (x : Msg)
  | wPP1 (b : Nat) (x : Msg) | wPP2 (b : Nat) (x : Msg)
  | wReset (b : Nat)
  | wRE (b : Nat) | wHP1 (b : Nat) | wHP2 (b : Nat) | wME (b : Nat)
  | wTs1 (b : Nat) | wTs2 (b : Nat)
  | wRetake (b : Nat)
  | wYield | wResched
  deriving Repr, DecidableEq

inductive Op where
  | send (x : Msg) | work | bad
  deriving Repr, DecidableEq

inductive Res where
  | ok | turn | idle | badop
  deriving Repr, DecidableEq

structure Thread where
  pc : Option PC
  prog : List Op
  results : List Res   -- reversed
  deriving Repr, DecidableEq

/-- everything except the threads -/
structure Shared where
  sched : Sched
  qR : Queue
  qM : Queue
  rq : Nat                 -- ready-queue entries for this grain (all rings)
  reent : Bool             -- a reentrancy state is installed (config)
  outstanding : List Nat   -- ids of the blocking requests in flight (blockingCount = inFlightCount = length)
  budget : Nat
  handled : List Msg       -- reversed, in handler-exit order (OnReceive / continuation ran)
  absorbed : List Msg      -- ghost: dequeued and consumed WITHOUT a handler (pill, response without a request)
  accepted : List Msg      -- ghost: reservation order
  maxIn : Nat              -- history: max number of handlers in progress at once
  deriving Repr, DecidableEq

structure Cfg where
  sh : Shared
  threads : List Thread
  deriving Repr, DecidableEq

def Shared.q (s : Shared) : Q → Queue
  | .R => s.qR
  | .M => s.qM

def Shared.setQ (s : Shared) (q : Q) (v : Queue) : Shared :=
  match q with
  | .R => { s with qR := v }
  | .M => { s with qM := v }

def label : PC → String
  | .sE0 _ => "Store:next" | .sE1 _ => "Swap:tail" | .sE2 _ => "Store:next" | .sE3 _ => "Add:len"
  | .sT1 => "Load:v" | .sT2 => "CAS:v" | .sPush => "Call:schedule"
  | .wTake => "take" | .wTfp => "CAS:v"
  | .dq1 _ _ => "Load:head" | .dq2 _ _ => "Load:next" | .dq3 _ _ => "Load:tail" | .dq4 _ _ => "Load:next"
  | .dq5 _ _ _ => "Store:head" | .dq6 _ _ _ => "Add:len" | .dq7 _ _ _ => "Store:next"
  | .wP1 _ => "Load:reentrancy" | .wP2 _ => "Load:blockingCount"
  | .wRecv _ _ => "Recv"
  | .wPP1 _ _ => "Load:reentrancy" | .wPP2 _ _ => "Load:blockingCount"
  | .wReset _ => "Store:v"
  | .wRE _ => "Load:len" | .wHP1 _ => "Load:reentrancy" | .wHP2 _ => "Load:blockingCount" | .wME _ => "Load:len"
  | .wTs1 _ => "Load:v" | .wTs2 _ => "CAS:v"
  | .wRetake _ => "CAS:v"
  | .wYield => "Store:v" | .wResched => "Call:reschedule"

/-- Begin operation `op`: it parks at the operation's first point, or (unknown op) completes at once. -/
def startOp : Op → Sum Res PC
  | .send x => .inr (.sE0 x)
  | .work => .inr .wTake
  | .bad => .inl .badop

/-- advance a thread to the first point of its next operation, completing point-free ops on the way -/
def nextOp : List Op → List Res → Thread
  | [], res => { pc := none, prog := [], results := res }
  | op :: rest, res =>
    match startOp op with
    | .inr pc => { pc := some pc, prog := rest, results := res }
    | .inl r => nextOp rest (r :: res)

def finishOp (t : Thread) (r : Res) : Thread := nextOp t.prog (r :: t.results)

def goto (t : Thread) (pc : PC) : Thread := { t with pc := some pc }

/-- number of threads currently inside a handler (OnReceive or a request continuation) -/
def inRecv (t : Thread) : Nat := match t.pc with | some (.wRecv _ _) => 1 | _ => 0

/-- the head cell is linked -/
def headReady (cells : List Cell) : Option Msg :=
  match cells with
  | c :: _ => if c.ready then some c.msg else none
  | [] => none

def publish (x : Msg) : List Cell → List Cell
  | [] => []
  | c :: cs => if c.msg = x ∧ c.ready = false then { c with ready := true } :: cs else c :: publish x cs

/-- `for range budget`: an iteration ended with `b` iterations left (incl. this one) -/
def nextIter (b : Nat) : PC := if b ≤ 1 then .wYield else .dq1 .R (b - 1)

/-- Dequeue returned nil: responses → evaluate `paused()`; mailbox → finishOrReclaim -/
def afterNil (q : Q) (b : Nat) : PC :=
  match q with
  | .R => .wP1 b
  | .M => .wReset b

def Shared.updQ (s : Shared) (q : Q) (f : Queue → Queue) : Shared := s.setQ q (f (s.q q))

def reserve (s : Shared) (x : Msg) : Shared :=
  ({ s with accepted := s.accepted ++ [x] } : Shared).updQ (qOf x.kind) (fun v => { v with cells := v.cells ++ [(⟨x, false⟩ : Cell)] })

def link (s : Shared) (x : Msg) : Shared :=
  s.updQ (qOf x.kind) (fun v => { v with cells := publish x v.cells })

def addLen (s : Shared) (q : Q) (d : Int) : Shared :=
  s.updQ q (fun v => { v with len := v.len + d })

def popHead (s : Shared) (q : Q) : Shared :=
  s.updQ q (fun v => { v with cells := v.cells.tail })

def absorb (s : Shared) (x : Msg) : Shared := { s with absorbed := x :: s.absorbed }

def enter (s : Shared) (others : Nat) : Shared := { s with maxIn := max s.maxIn (others + 1) }

/-- `paused()` as the code evaluates it at its second load -/
def pausedNow (s : Shared) : Bool := !s.outstanding.isEmpty

/-- dispatchOne, up to the first schedule point inside the handler (runs inside the step of the
    dequeue's last store) -/
def dispatch (s : Shared) (t : Thread) (others b : Nat) (x : Msg) : Shared × Thread :=
  match x.kind with
  | .pill =>
    -- handlePassivationPill: `(reentrant != nil && inFlightCount > 0) || paused()`
    if s.reent && pausedNow s then (absorb s x, goto t (nextIter b)) else (s, goto t (.wPP1 b x))
  | .resp =>
    -- handleAsyncResponse → completeRequest: deregister (blockingCount--) and then the continuation
    if s.reent && s.outstanding.contains x.id then
      (enter { s with outstanding := s.outstanding.erase x.id } others, goto t (.wRecv b x))
    else (absorb s x, goto t (nextIter b))
  | _ => (enter s others, goto t (.wRecv b x))

/-- the handler's effect at its `Recv` point -/
def handle (s : Shared) (x : Msg) : Shared :=
  let s1 := { s with handled := x :: s.handled }
  if x.kind = .block ∧ s.reent = true then { s1 with outstanding := s1.outstanding ++ [x.id] } else s1

/-- effect of the operation at `pc`.  `others` = number of OTHER threads inside a handler. -/
def exec (s : Shared) (t : Thread) (others : Nat) : PC → Shared × Thread
  -- sender
  | .sE0 x => (s, goto t (.sE1 x))
  | .sE1 x => (reserve s x, goto t (.sE2 x))
  | .sE2 x => (link s x, goto t (.sE3 x))
  | .sE3 x => (addLen s (qOf x.kind) 1, goto t .sT1)
  | .sT1 => if s.sched = .idle then (s, goto t .sT2) else (s, finishOp t .ok)
  | .sT2 => if s.sched = .idle then ({ s with sched := .scheduled }, goto t .sPush) else (s, finishOp t .ok)
  | .sPush => ({ s with rq := s.rq + 1 }, finishOp t .ok)
  -- worker
  | .wTake => if s.rq > 0 then ({ s with rq := s.rq - 1 }, goto t .wTfp) else (s, finishOp t .idle)
  | .wTfp => if s.sched = .scheduled then ({ s with sched := .processing }, goto t (.dq1 .R s.budget)) else (s, finishOp t .turn)
  | .dq1 q b => (s, goto t (.dq2 q b))
  | .dq2 q b =>
    match headReady (s.q q).cells with
    | some x => (popHead s q, goto t (.dq5 q b x))
    | none => (s, goto t (.dq3 q b))
  | .dq3 q b => if (s.q q).cells.isEmpty then (s, goto t (afterNil q b)) else (s, goto t (.dq4 q b))
  | .dq4 q b =>
    match headReady (s.q q).cells with
    | some x => (popHead s q, goto t (.dq5 q b x))
    | none => (s, t)
  | .dq5 q b x => (s, goto t (.dq6 q b x))
  | .dq6 q b x => (addLen s q (-1), goto t (.dq7 q b x))
  | .dq7 _ b x => dispatch s t others b x
  | .wP1 b => (s, goto t (.wP2 b))
  | .wP2 b => if pausedNow s then (s, goto t (.wReset b)) else (s, goto t (.dq1 .M b))
  | .wRecv b x => (handle s x, goto t (nextIter b))
  | .wPP1 b x => (s, goto t (.wPP2 b x))
  | .wPP2 b x => (absorb s x, goto t (nextIter b))
  | .wReset b => ({ s with sched := .idle }, goto t (.wRE b))
  | .wRE b => if s.qR.len = 0 then (s, goto t (.wHP1 b)) else (s, goto t (.wTs1 b))
  | .wHP1 b => (s, goto t (.wHP2 b))
  | .wHP2 b => if pausedNow s then (s, finishOp t .turn) else (s, goto t (.wME b))
  | .wME b => if s.qM.len = 0 then (s, finishOp t .turn) else (s, goto t (.wTs1 b))
  | .wTs1 b => if s.sched = .idle then (s, goto t (.wTs2 b)) else (s, finishOp t .turn)
  | .wTs2 b => if s.sched = .idle then ({ s with sched := .scheduled }, goto t (.wRetake b)) else (s, finishOp t .turn)
  | .wRetake b => if s.sched = .scheduled then ({ s with sched := .processing }, goto t (nextIter b)) else (s, finishOp t .turn)
  | .wYield => ({ s with sched := .scheduled }, goto t .wResched)
  | .wResched => ({ s with rq := s.rq + 1 }, finishOp t .turn)

def sumBy (f : Thread → Nat) : List Thread → Nat
  | [] => 0
  | t :: ts => f t + sumBy f ts

def step (c : Cfg) (tid : Nat) : String × Cfg :=
  match c.threads[tid]? with
  | none => ("!nothread", c)
  | some t =>
    match t.pc with
    | none => ("!done", c)
    | some pc =>
      let others := sumBy inRecv c.threads - inRecv t
      let (s', t') := exec c.sh t others pc
      (label pc, { sh := s', threads := c.threads.set tid t' })

def initShared (reent : Bool) (budget : Nat) : Shared :=
  { sched := .idle, qR := ⟨[], 0⟩, qM := ⟨[], 0⟩, rq := 0, reent := reent, outstanding := [], budget := budget,
    handled := [], absorbed := [], accepted := [], maxIn := 0 }

/-- every thread runs to the first point of its first operation -/
def init (reent : Bool) (budget : Nat) (progs : List (List Op)) : Cfg :=
  { sh := initShared reent budget, threads := progs.map (nextOp · []) }

def done (c : Cfg) (tid : Nat) : Bool :=
  match c.threads[tid]? with
  | some t => t.pc.isNone
  | none => true

/-! ### sequential completion used for the final digest (worker 0 runs turns until idle) -/

def runThread (fuel : Nat) (c : Cfg) (tid : Nat) : Cfg :=
  match fuel with
  | 0 => c
  | f + 1 => if done c tid then c else runThread f (step c tid).2 tid

def drainTurns (rounds : Nat) (c : Cfg) : Cfg :=
  match rounds with
  | 0 => c
  | r + 1 =>
    let tid := c.threads.length
    let c1 : Cfg := { c with threads := c.threads ++ [nextOp [.work] []] }
    let c2 := runThread 100000 c1 tid
    let took : Bool := match c2.threads[tid]? with | some t => (match t.results with | .turn :: _ => true | _ => false) | none => false
    let c3 : Cfg := { c2 with threads := c2.threads.take tid }
    if took then drainTurns r c3 else c3

end GoaktVerif.Model.C01G

/-
C22 — client load balancers (client/round_robin.go, random.go, least_load.go).
Hand-written executable model over Nat / lists.  Nodes are identified by their position in
the list handed to `Set` (the harness maps *Node pointers back to that position).
-/
namespace GoaktVerif.Model.C22

/-- RoundRobin: `n` = pool size, `next` = the cursor field (any uint32 value may be present
    initially, e.g. after `Set` shrank the pool). -/
structure RR where
  n : Nat
  next : Nat
  deriving Repr, DecidableEq

/-- one `Next()` call with a non-empty pool: returns the index picked and the new state -/
def RR.step (s : RR) : Nat × RR :=
  let idx := s.next % s.n
  (idx, { s with next := (idx + 1) % s.n })

/-- `k` successive calls: the indices returned, and the final state -/
def RR.run : Nat → RR → List Nat × RR
  | 0, s => ([], s)
  | k + 1, s =>
    let (i, s') := s.step
    let (is, s'') := RR.run k s'
    (i :: is, s'')

/-- Random: `Next` returns `nodes[r]` where `r = rand.IntN(len)`; the draw is an input. -/
def randomPick (_n r : Nat) : Nat := r

/-- LeastLoad: nodes carry (id, weight). `Next` stably sorts the pool in place by weight and
    returns the head. Any stable sort gives the same list; insertion sort is the model. -/
abbrev Node := Nat × Int

/-- stable sort by weight: fold from the right so that equal weights keep their order -/
def sortStable : List Node → List Node
  | [] => []
  | x :: xs => insertFront x (sortStable xs)
where
  /-- insert `x` (which preceded everything in `l`) before the first element that is not smaller -/
  insertFront (x : Node) : List Node → List Node
    | [] => [x]
    | y :: ys => if y.2 < x.2 then y :: insertFront x ys else x :: y :: ys

/-- `LeastLoad.Next` on a non-empty pool: (picked id, pool after the in-place sort) -/
def leastLoadStep (pool : List Node) : Option Nat × List Node :=
  let s := sortStable pool
  (s.head?.map (·.1), s)

end GoaktVerif.Model.C22

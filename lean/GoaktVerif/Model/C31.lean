/-
C31 — small-step model of ONE grain process (one `grainPID`, i.e. one activation) as
actor/grain_pid.go and actor/grain_engine.go implement it.

What is modelled (file:function → here):
  * grain_engine.go ensureGrainProcess/ensureNewGrainProcess + grain_pid.go activate
    (`aB`,`aE`): the creating send runs OnActivate, sets `activated`, then registers the process in
    the grain map; concurrent sends wait on the single-flight (`sEnsure` is blocked while the
    process is being created).
  * grain_engine.go localSend (Tell half) / actor_system.go poisonAllGrains (`sEnsure`,`sRecv`):
    a process that is in the map and active is used, otherwise the send goes to a FRESH process
    (`fresh`: outside this process's model); `receive` tests `isActive` once more, enqueues,
    TrySchedule.
  * grain_pid.go runTurn/dispatchOne (`wStep`): user message → OnReceive if `isActive`, else the
    message is failed with ErrDead (handleGrainContext, fix 6dc1e0c); PoisonPill → `onPoisonPill := true`, `!isActive` → skip, else deactivate
    INSIDE the turn (handlePoisonPill); passivation pill → `!isActive ∨ onPoisonPill` → skip, else
    deactivate inside the turn when the idle deadline has passed (`expired`), otherwise the pill only
    re-registers the grain (handlePassivationPill).
  * grain_pid.go deactivate (`deaStep`): OnDeactivate; delete from the grain map; deferred
    `activated := false`, `onPoisonPill := false`.
  * grain_pid.go passivationTry, run by the passivation manager goroutine (`mCheck`,`mDea`):
    `!isActive ∨ onPoisonPill` → give up; a reentrancy-capable grain gets a passivation pill through
    its mailbox; any other grain is deactivated on the manager's goroutine only while that goroutine owns
    the grain's dispatch turn (CAS Idle -> Processing, re-test, deactivate, releaseTurn), otherwise the
    pill route is taken as well.

The dispatch turn is abstract as in Model/C06 (goroutine 0 is "the worker"; C01/C02 assumed).
Not modelled: the response queue / paused state of StashNonReentrant, timers, OnActivate or
OnDeactivate failing, re-activation of the same process after a failed OnDeactivate.

Hook events reuse Spec.C06.Ev: preB/preE = OnActivate, recvB/recvE = OnReceive, postB/postE =
OnDeactivate; an "incarnation" is an activation.
-/
import GoaktVerif.Model.C06

namespace GoaktVerif.Model.C31
open GoaktVerif.Spec.C06
open GoaktVerif.Model.C06 (Sched trySchedule)

inductive GMsg where
  | user | pill | ppill
  deriving DecidableEq, Repr, Inhabited

/-- inside deactivate (names the step ABOUT to be executed) -/
inductive DPC where
  | deaB | deaE | fin
  deriving DecidableEq, Repr, Inhabited

inductive GW where
  | idle
  | loop (b : Nat)
  | rcv (b : Nat)
  | dea (pc : DPC) (v : Via) (b : Nat)
  deriving DecidableEq, Repr, Inhabited

/-- pool threads (goroutine `i + 2`) -/
inductive GT where
  | done
  | fresh (pill : Bool)        -- the send left for a fresh process
  | aB (pill : Bool)           -- the creating send: about to call OnActivate
  | aE (pill : Bool)           -- … inside OnActivate
  | sEnsure (pill : Bool)
  | sRecv (pill : Bool)
  | mCheck
  | mTake                      -- passivationTry: about to try Idle -> Processing on the grain's dispatch state
  | mDea (pc : DPC)
  deriving DecidableEq, Repr, Inhabited

structure Cfg where
  /-- grainPID.activated -/
  active : Bool
  /-- grainPID.onPoisonPill -/
  onPill : Bool
  /-- the process is registered in actorSystem.grains -/
  inMap : Bool
  /-- the process has been removed from the map by deactivate (never re-registered) -/
  deleted : Bool
  /-- the grain carries a reentrancy state -/
  reent : Bool
  /-- when a passivation pill is handled the idle deadline (latest activity + deactivateAfter) has passed;
      otherwise handlePassivationPill only re-registers the grain with the passivation manager -/
  expired : Bool
  sched : Sched
  box : List GMsg
  budget : Nat
  w : GW
  threads : Nat → GT
  /-- ghost: the pool thread that is inside the direct (manager-goroutine) deactivation -/
  dea : Option Nat
  log : List Ev
  mon : Mon

def wid : Nat := 0
def tidOf (i : Nat) : Nat := i + 2

def emit (c : Cfg) (e : Ev) : Cfg := { c with log := e :: c.log, mon := monStep c.mon e }

/-- the tail of deactivate: grains.Delete, then the deferred stores -/
def finish (c : Cfg) : Cfg := { c with inMap := false, deleted := true, active := false, onPill := false }

def msgOf (pill : Bool) : GMsg := if pill then .pill else .user

def wStep (c : Cfg) : Cfg :=
  match c.w with
  | .idle => if c.sched = .scheduled then { c with sched := .processing, w := .loop c.budget } else c
  | .loop 0 => { c with sched := .scheduled, w := .idle }
  | .loop (b + 1) =>
    match c.box with
    | [] => { c with sched := .idle, w := .idle }
    | .user :: rest =>
      -- handleGrainContext tests isActive since fix 6dc1e0c: a message queued behind a pill is failed
      if c.active then emit { c with box := rest, w := .rcv b } (.recvB wid)
      else { c with box := rest, w := .loop b }
    | .pill :: rest =>
      if c.active then { c with box := rest, onPill := true, w := .dea .deaB .pill b }
      else { c with box := rest, onPill := true, w := .loop b }
    | .ppill :: rest =>
      if !c.active || c.onPill || !c.expired then { c with box := rest, w := .loop b }
      else { c with box := rest, w := .dea .deaB .ppill b }
  | .rcv b => emit { c with w := .loop b } (.recvE wid)
  | .dea .deaB v b => emit { c with w := .dea .deaE v b } (.postB wid v)
  | .dea .deaE v b => emit { c with w := .dea .fin v b } (.postE wid)
  | .dea .fin _ b => { finish c with w := .loop b }

def setT (c : Cfg) (i : Nat) (pc : GT) : Cfg :=
  { c with threads := fun j => if j = i then pc else c.threads j }

def tStep (c : Cfg) (i : Nat) : Cfg :=
  let me := tidOf i
  match c.threads i with
  | .done => c
  | .fresh _ => c
  | .aB p => setT (emit c (.preB me .spawn)) i (.aE p)
  | .aE p => setT { emit c (.preE me) with active := true, inMap := true } i (.sRecv p)
  | .sEnsure p =>
    if c.inMap && c.active then setT c i (.sRecv p)
    else if c.deleted then setT c i (.fresh p)
    else if c.inMap then setT c i (.fresh p)   -- registered but inactive: re-activation, not modelled
    else c                                       -- creation in flight: wait on the single-flight
  | .sRecv p =>
    if c.active then setT { c with box := c.box ++ [msgOf p], sched := trySchedule c.sched } i .done
    else setT c i .done
  | .mCheck =>
    if !c.active || c.onPill then setT c i .done
    else if c.reent then setT { c with box := c.box ++ [.ppill], sched := trySchedule c.sched } i .done
    else setT c i .mTake
  | .mTake =>
    -- the manager goroutine deactivates directly only while it OWNS the grain's dispatch turn
    if c.sched = .idle then
      if !c.active || c.onPill then
        -- re-test under the turn failed: releaseTurn
        setT { c with sched := if c.box.isEmpty then .idle else .scheduled } i .done
      else setT { c with sched := .processing, dea := some i } i (.mDea .deaB)
    else
      -- a turn is queued or in progress: the decision travels through the mailbox
      setT { c with box := c.box ++ [.ppill], sched := trySchedule c.sched } i .done
  | .mDea .deaB => setT (emit c (.postB me .pass)) i (.mDea .deaE)
  | .mDea .deaE => setT (emit c (.postE me)) i (.mDea .fin)
  | .mDea .fin =>
    -- releaseTurn: back to Idle, re-scheduled when input was enqueued meanwhile
    setT { finish c with dea := none, sched := if c.box.isEmpty then .idle else .scheduled } i .done

def step (c : Cfg) (a : Nat) : Cfg :=
  match a with
  | 0 => wStep c
  | k + 1 => tStep c k

def run (c : Cfg) : List Nat → Cfg
  | [] => c
  | a :: s => run (step c a) s

/-- a process that is being created by pool thread 0 (`prog 0` must be `aB _`) -/
def init (reent expired : Bool) (budget : Nat) (prog : Nat → GT) : Cfg :=
  { active := false, onPill := false, inMap := false, deleted := false, reent := reent, expired := expired,
    sched := .idle, box := [], budget := budget, w := .idle, threads := prog,
    dea := none, log := [], mon := Mon.init }

def GT.initial : GT → Bool
  | .done | .sEnsure _ | .mCheck => true
  | _ => false

/-- a thread is inside the direct (manager-goroutine) deactivation -/
def GT.direct : GT → Bool
  | .mDea _ => true
  | _ => false

def GT.creating : GT → Bool
  | .aB _ | .aE _ => true
  | _ => false

/-- the worker is inside deactivate, past the beginning of OnDeactivate -/
def GW.inDeaLate : GW → Bool
  | .dea .deaE _ _ | .dea .fin _ _ => true
  | _ => false


/-- the worker is inside deactivate -/
def GW.inDea : GW → Bool
  | .dea _ _ _ => true
  | _ => false

/-- admissible pools: thread 0 creates the process, every other thread starts at its first instruction -/
def admissible (prog : Nat → GT) : Prop :=
  (∃ p, prog 0 = .aB p) ∧ ∀ i, i ≠ 0 → (prog i).initial = true

end GoaktVerif.Model.C31

/-
C45 — a materialized linear pipeline: source, stage actors, sink, connected by FIFO links
(materializer.go: one actor per stage, `stageWire` to each, per-sender FIFO mailboxes).
`Net.step` is one actor handling one message chosen by the scheduler (`Pick`); theorems quantify
over every list of picks.  `simulate` is an executable scheduler used by the driver.
-/
import GoaktVerif.Model.C45.Actors

namespace GoaktVerif.Model.C45

/-- link `i` joins node `i` (upstream end) and node `i+1` (downstream end) -/
structure Link where
  /-- every message node `i` ever sent downstream, in order -/
  hist : List Down := []
  /-- how many of them node `i+1` has handled; the mailbox content is `hist.drop pos` -/
  pos : Nat := 0
  /-- requests / cancels sent by node `i+1` that node `i` has not handled yet -/
  upq : List Up := []
  deriving Repr, Inhabited

structure Net where
  nodes : List Node
  links : List Link
  /-- unused (the outstanding worker tasks live in the parallel stage's own state, `PMapSt.outst`) -/
  tasks : List (Nat × Nat × Val) := []
  deriving Repr, Inhabited

/-- scheduler choices -/
inductive Pick where
  /-- node `i+1` handles the oldest unhandled message of link `i` -/
  | down (i : Nat)
  /-- node `i` handles the oldest request/cancel of link `i` -/
  | up (i : Nat)
  /-- the worker of parallel stage `i` holding the task with seqNo `q` replies -/
  | result (i q : Nat)
  deriving Repr, Inhabited, DecidableEq

def updLink (links : List Link) (i : Nat) (f : Link → Link) : List Link :=
  links.modify i f

def Net.aliveAt (net : Net) (i : Nat) : Bool :=
  match net.nodes[i]? with
  | some nd => nd.alive
  | none => false

/-- node `i` handles `ev`; what it sends is appended to the neighbouring links.  A `Tell` to a
    stopped actor fails with ErrDead and enqueues nothing, so messages for a stopped neighbour are dropped. -/
def Net.deliver (net : Net) (i : Nat) (ev : Ev) : Net :=
  match net.nodes[i]? with
  | none => net
  | some nd =>
    let r := nd.step ev
    let links1 := if net.aliveAt (i + 1) then updLink net.links i (fun l => { l with hist := l.hist ++ r.2.down })
      else net.links
    let links2 := if i = 0 || !net.aliveAt (i - 1) then links1
      else updLink links1 (i - 1) (fun l => { l with upq := l.upq ++ r.2.up })
    { nodes := net.nodes.set i r.1,
      links := links2,
      tasks := net.tasks }

/-- one scheduler step; `none` when the pick is not enabled (nothing to handle, or the receiver has stopped) -/
def Net.step (net : Net) : Pick → Option Net
  | .down i =>
    match net.links[i]? with
    | none => none
    | some l =>
      match l.hist[l.pos]? with
      | none => none
      | some d =>
        if !net.aliveAt (i + 1) then none else
        let net1 := { net with links := updLink net.links i (fun l => { l with pos := l.pos + 1 }) }
        some (net1.deliver (i + 1) (.down d))
  | .up i =>
    match net.links[i]? with
    | none => none
    | some l =>
      match l.upq with
      | [] => none
      | u :: rest =>
        if !net.aliveAt i then none else
        let net1 := { net with links := updLink net.links i (fun l => { l with upq := rest }) }
        some (net1.deliver i (.up u))
  | .result i q =>
    match net.nodes[i]? with
    | some (.pmap _ _ k bad e s) =>
      if !s.alive then none else
      match s.outst.find? (fun t => t.1 == q) with
      | some t => some (net.deliver i (.result q (parFn k bad e t.2)))
      | none => none
    | _ => none

/-- run a list of picks, skipping the ones that are not enabled -/
def Net.run (net : Net) : List Pick → Net
  | [] => net
  | p :: ps => match net.step p with
    | some n => n.run ps
    | none => net.run ps

/-! ### building the network the materializer builds -/

def defaultCfg : Cfg := {}

/-- `Buffer(size)`: InitialDemand = size, RefillThreshold = size/4 (size < 1 coerced to 1) -/
def bufferCfg (size : Nat) : Cfg :=
  let s := if size < 1 then 1 else size
  { init := s, refill := (s : Int) / 4 }

def Stage.fusable : Stage → Bool
  | .map _ | .tryMap _ _ _ | .filter _ _ => true
  | _ => false

def mkNode : Stage → Node
  | .batch n => .batch defaultCfg n {}
  | .buffer s => .flow (bufferCfg s) (.buffer s) {}
  | .opmap w k b e => .pmap true (if w < 1 then 1 else w) k b e {}
  | .pmap w k b e => .pmap false (if w < 1 then 1 else w) k b e {}
  | st => .flow defaultCfg st {}

/-- `applyFusion`: maximal runs of ≥ 2 adjacent fusable stages become one fusedFlowActor -/
def fuseRuns : List Stage → List Stage → List Node
  | [], acc => match acc with
    | [] => []
    | [s] => [mkNode s]
    | _ => [.fused defaultCfg acc.reverse {}]
  | s :: rest, acc =>
    if s.fusable then fuseRuns rest (s :: acc)
    else
      (match acc with
        | [] => []
        | [a] => [mkNode a]
        | _ => [.fused defaultCfg acc.reverse {}]) ++ mkNode s :: fuseRuns rest []

def mkNodes (fusion : Bool) (stages : List Stage) (input : List Val) : List Node :=
  .src { rest := input } ::
    ((if fusion then fuseRuns stages [] else stages.map mkNode) ++ [.sink defaultCfg {}])

/-- every actor handles its `stageWire` first (the materializer sends them in stage order) -/
def wireAll : Nat → Net → Net
  | 0, net => net
  | k + 1, net =>
    let net1 := wireAll k net
    net1.deliver k .wire

def mkNet (fusion : Bool) (stages : List Stage) (input : List Val) : Net :=
  let nodes := mkNodes fusion stages input
  wireAll nodes.length { nodes := nodes, links := List.replicate (nodes.length - 1) {} }

/-! ### executable schedulers -/

/-- first enabled pick scanning links from the sink side; `holdSink` = never let the sink handle an element -/
def choose (net : Net) (holdSink : Bool) : Option Pick :=
  let n := net.links.length
  let rec scan : Nat → Option Pick
    | 0 => none
    | k + 1 =>
      match net.links[k]? with
      | none => scan k
      | some l =>
        if l.pos < l.hist.length && !(holdSink && k + 1 = n) && net.aliveAt (k + 1) then some (.down k)
        else if !l.upq.isEmpty && net.aliveAt k then some (.up k)
        else scan k
  match scan n with
  | some p => some p
  | none =>
    -- the oldest outstanding task of the first running parallel stage that has one
    (net.nodes.zipIdx.findSome? fun (nd, i) =>
      match nd with
      | .pmap _ _ _ _ _ s => if s.alive then s.outst.head?.map (fun t => Pick.result i t.1) else none
      | _ => none)

def runPolicy (holdSink : Bool) : Nat → Net → Net
  | 0, net => net
  | f + 1, net =>
    match choose net holdSink with
    | none => net
    | some p => match net.step p with
      | some n => runPolicy holdSink f n
      | none => net

def simFuel : Nat := 400000

/-- `blocked` = the sink's consume function blocks until the rest of the pipeline is quiescent -/
def simulate (fusion blocked : Bool) (stages : List Stage) (input : List Val) : Net :=
  let net := mkNet fusion stages input
  let net := if blocked then runPolicy true simFuel net else net
  runPolicy false simFuel net

def Net.sink? (net : Net) : Option SinkSt :=
  match net.nodes.getLast? with
  | some (.sink _ s) => some s
  | _ => none

end GoaktVerif.Model.C45

/-
C45 — linear stream pipelines (stream/flow.go, stage_flow.go, stage_source.go, stage_sink.go,
stage_parallel.go, materializer.go, graph.go).

This file: stream values, the stage table shared with the Go harness, the per-element transform
closures that flow.go hands to `newFlowActor` (`xfStep`), and the protocol messages of
stream/protocol.go.  Core Lean only.
-/
namespace GoaktVerif.Model.C45

/-- stream elements: the harness uses `int` and `[]int` (the output type of `Batch[int]`) -/
inductive Val where
  | int (i : Int)
  | list (l : List Int)
  deriving DecidableEq, Repr, Inhabited

/-- errors are compared by identity (the harness makes each failing stage raise its own id) -/
abbrev Err := String

/-- The stage table (same names as harness/verifdrv/c45/main.go):
    map:k  x+k · try:k:bad  x+k, fails on x = bad · fil:m:r  keeps x with x mod m ≠ r ·
    fm:r  (x mod r) copies of x · flat · scan (running sum from 0) · dd (Deduplicate) ·
    bat:n · buf:s · opm / pm  (Ordered)ParallelMap with w workers computing x+k, panicking on bad · sum -/
inductive Stage where
  | map (k : Int)
  | tryMap (k bad : Int) (e : Err)
  | filter (m r : Int)
  | flatMap (r : Int)
  | flatten
  | scan
  | dedup
  | batch (n : Nat)
  | buffer (size : Nat)
  | opmap (w : Nat) (k : Int) (bad : Option Int) (e : Err)
  | pmap (w : Nat) (k : Int) (bad : Option Int) (e : Err)
  | sum
  deriving DecidableEq, Repr, Inhabited

/-- stages whose actor is a `flowActor` around a transform closure (Batch and the parallel maps have their own actors) -/
def Stage.isFlow : Stage → Bool
  | .batch _ | .opmap _ _ _ _ | .pmap _ _ _ _ => false
  | _ => true

/-- mutable variables captured by the transform closures of flow.go: `acc` (Scan), `last/hasLast` (Deduplicate) -/
structure TS where
  acc : Int := 0
  last : Option Int := none
  deriving DecidableEq, Repr, Inhabited

/-- the error a transform returns for an element of the wrong dynamic type (`v.(T)` failed) -/
def typeErr : Err := "type"

/-- One call of the `transformFn` closure built by flow.go for a flowActor-backed stage:
    `(outs, err)` plus the closure's updated captured variables. -/
def xfStep : Stage → TS → Val → Except Err (TS × List Val)
  | .map k, t, .int x => .ok (t, [.int (x + k)])
  | .tryMap k bad e, t, .int x => if x = bad then .error e else .ok (t, [.int (x + k)])
  | .filter m r, t, .int x => .ok (t, if x.emod m ≠ r then [.int x] else [])
  | .flatMap r, t, .int x => .ok (t, List.replicate (x.emod r).toNat (.int x))
  | .flatten, t, .list l => .ok (t, l.map .int)
  | .scan, t, .int x => .ok ({ t with acc := t.acc + x }, [.int (t.acc + x)])
  | .dedup, t, .int x =>
      if t.last = some x then .ok (t, []) else .ok ({ t with last := some x }, [.int x])
  | .buffer _, t, v => .ok (t, [v])
  | .sum, t, .list l => .ok (t, [.int (l.foldl (· + ·) 0)])
  | _, _, _ => .error typeErr

/-- the worker function of the parallel stages: `fn(x)`, a panic becomes the stage's error -/
def parFn (k : Int) (bad : Option Int) (e : Err) : Val → Except Err Val
  | .int x => if bad = some x then .error e else .ok (.int (x + k))
  | _ => .error typeErr

/-- run a transform closure over a whole list: outputs produced before the first error, and that error -/
def xfRun (st : Stage) : TS → List Val → List Val × Option Err
  | _, [] => ([], none)
  | t, x :: xs =>
    match xfStep st t x with
    | .error e => ([], some e)
    | .ok (t', ys) => ((ys ++ (xfRun st t' xs).1), (xfRun st t' xs).2)

/-! ### protocol messages (stream/protocol.go) -/

/-- upstream → downstream: streamElement / streamComplete / streamError -/
inductive Down where
  | elem (v : Val)
  | complete
  | error (e : Err)
  deriving DecidableEq, Repr, Inhabited

/-- downstream → upstream: streamRequest / streamCancel -/
inductive Up where
  | req (n : Int)
  | cancel
  deriving DecidableEq, Repr, Inhabited

/-- StageConfig fields the protocol logic reads -/
structure Cfg where
  init : Int := 224
  refill : Int := 64
  deriving DecidableEq, Repr, Inhabited

/-- what one `Receive` call sends: messages to the downstream PID, to the upstream PID, and
    (parallel stages) `workerTask`s handed to the worker pool -/
structure Out where
  down : List Down := []
  up : List Up := []
  tasks : List (Nat × Val) := []
  deriving Repr, Inhabited

/-- messages a stage actor can receive -/
inductive Ev where
  | wire
  | down (d : Down)
  | up (u : Up)
  | result (seq : Nat) (r : Except Err Val)
  | flush
  deriving Repr, Inhabited

end GoaktVerif.Model.C45

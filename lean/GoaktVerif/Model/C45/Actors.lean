/-
C45 — the stage actors of a linear pipeline as state machines, one transition per handled
message, mirroring `Receive` of pullSourceActor (stage_source.go), flowActor / fusedFlowActor /
batchFlowActor (stage_flow.go), parallelMapActor (stage_parallel.go) and sinkActor
(stage_sink.go).  `alive = false` after `rctx.Shutdown()` (synchronous: later messages are
never handled).  Core Lean only.
-/
import GoaktVerif.Model.C45.Basic

namespace GoaktVerif.Model.C45

/-! ### pullSourceActor backing `Of(values...)` -/

structure SrcSt where
  rest : List Val
  alive : Bool := true
  deriving Repr, Inhabited

def srcStep (s : SrcSt) : Ev → SrcSt × Out
  | .up (.req n) =>
    -- pullFn of `Of`: empty ⇒ (nil,false); else take min(n,len), hasMore = something left
    match s.rest with
    | [] => ({ s with alive := false }, { down := [.complete] })
    | _ =>
      let take := min n.toNat s.rest.length
      let rest := s.rest.drop take
      let elems := (s.rest.take take).map Down.elem
      if rest.isEmpty then ({ rest := rest, alive := false }, { down := elems ++ [.complete] })
      else ({ s with rest := rest }, { down := elems })
  | .up .cancel => ({ s with alive := false }, { down := [.complete] })
  | _ => (s, {})

/-! ### flowActor -/

structure FlowSt where
  ts : TS := {}
  credit : Int := 0
  demand : Int := 0
  buf : List Val := []
  completing : Bool := false
  alive : Bool := true
  deriving Repr, Inhabited

/-- `tryFlushOutput` -/
def FlowSt.tryFlush (s : FlowSt) : FlowSt × List Down :=
  let k := min s.demand.toNat s.buf.length
  let s1 := { s with buf := s.buf.drop k, demand := s.demand - k }
  let out := (s.buf.take k).map Down.elem
  if s1.completing && s1.buf.isEmpty then ({ s1 with alive := false }, out ++ [Down.complete])
  else (s1, out)

/-- `maybeRequestUpstream` -/
def FlowSt.maybeReq (cfg : Cfg) (s : FlowSt) : FlowSt × List Up :=
  if s.completing then (s, [])
  else
    let avail := cfg.init - s.credit - s.buf.length
    if avail ≤ 0 then (s, [])
    else if s.credit > cfg.refill then (s, [])
    else ({ s with credit := s.credit + avail }, [.req avail])

def flowStep (cfg : Cfg) (st : Stage) (s : FlowSt) : Ev → FlowSt × Out
  | .up (.req n) =>
    let s0 := { s with demand := s.demand + n }
    let r1 := s0.tryFlush
    let r2 := r1.1.maybeReq cfg
    (r2.1, { down := r1.2, up := r2.2 })
  | .down (.elem v) =>
    match xfStep st s.ts v with
    | .error e => ({ s with alive := false }, { up := [.cancel], down := [.error e] })
    | .ok (ts, outs) =>
      let s0 := { s with ts := ts, credit := s.credit - 1, buf := s.buf ++ outs }
      let r1 := s0.tryFlush
      let r2 := r1.1.maybeReq cfg
      (r2.1, { down := r1.2, up := r2.2 })
  | .down .complete =>
    let s0 := { s with completing := true }
    let r1 := s0.tryFlush
    -- second `if a.outputBuf.empty()` of the handler: streamComplete is sent AGAIN (F18)
    if r1.1.buf.isEmpty then ({ r1.1 with alive := false }, { down := r1.2 ++ [.complete] })
    else (r1.1, { down := r1.2 })
  | .down (.error e) => ({ s with alive := false }, { down := [.error e] })
  | .up .cancel => ({ s with alive := false }, { up := [.cancel] })
  | _ => (s, {})

/-! ### fusedFlowActor (a run of ≥ 2 adjacent Map/TryMap/Filter stages) -/

structure FusedSt where
  credit : Int := 0
  /-- the first downstream demand has triggered the initial pull (fix cf400b2) -/
  started : Bool := false
  alive : Bool := true
  deriving Repr, Inhabited

/-- the composed `fuseFn`: (result, pass, err) -/
def fusedFn : List Stage → Val → Except Err (Option Val)
  | [], v => .ok (some v)
  | st :: rest, v =>
    match xfStep st {} v with
    | .error e => .error e
    | .ok (_, [w]) => fusedFn rest w
    | .ok (_, _) => .ok none

def fusedStep (cfg : Cfg) (fs : List Stage) (s : FusedSt) : Ev → FusedSt × Out
  | .up (.req _) =>
    -- start pulling on the first downstream demand, not on stageWire
    if s.started then (s, {}) else ({ s with started := true, credit := cfg.init }, { up := [.req cfg.init] })
  | .down (.elem v) =>
    match fusedFn fs v with
    | .error e => ({ s with alive := false }, { down := [.error e] })
    | .ok r =>
      let d := r.toList.map Down.elem
      let c := s.credit - 1
      if c ≤ cfg.refill then ({ s with credit := cfg.init }, { down := d, up := [.req (cfg.init - c)] })
      else ({ s with credit := c }, { down := d })
  | .down .complete => ({ s with alive := false }, { down := [.complete] })
  | .down (.error e) => ({ s with alive := false }, { down := [.error e] })
  | .up .cancel => ({ s with alive := false }, { up := [.cancel], down := [.complete] })
  | _ => (s, {})

/-! ### batchFlowActor (maxWait timer = the explicit `flush` event), after fix 688097a -/

structure BatchSt where
  credit : Int := 0
  demand : Int := 0
  window : List Int := []
  /-- a flush that was due (timer / full window) found no downstream demand -/
  flushDue : Bool := false
  /-- upstream has completed; completion is propagated once the window has been delivered -/
  completing : Bool := false
  alive : Bool := true
  deriving Repr, Inhabited

/-- `flush(partial)`: batches of at most `size` while demand lasts; fuel = window length -/
def batchFlush (size : Nat) (part : Bool) : Nat → BatchSt → BatchSt × List Down
  | 0, s => (if s.window.isEmpty then { s with flushDue := false } else s, [])
  | f + 1, s =>
    if !s.window.isEmpty && (part || s.window.length ≥ size) then
      if s.demand ≤ 0 then ({ s with flushDue := s.flushDue || part }, [])
      else
        let n := min s.window.length size
        let r := batchFlush size part f { s with window := s.window.drop n, demand := s.demand - 1 }
        (r.1, .elem (.list (s.window.take n)) :: r.2)
    else (if s.window.isEmpty then { s with flushDue := false } else s, [])

def BatchSt.flush (n : Nat) (part : Bool) (s : BatchSt) : BatchSt × List Down :=
  batchFlush (max n 1) part s.window.length s

def BatchSt.maybeReq (cfg : Cfg) (s : BatchSt) : BatchSt × List Up :=
  if s.completing then (s, [])
  else
    let avail := cfg.init - s.credit - s.window.length
    if avail ≤ 0 then (s, [])
    else if s.credit > cfg.refill then (s, [])
    else ({ s with credit := s.credit + avail }, [.req avail])

def batchStep (cfg : Cfg) (n : Nat) (s : BatchSt) : Ev → BatchSt × Out
  | .up (.req k) =>
    let s0 := { s with demand := s.demand + k }
    let r1 := s0.flush n (s0.flushDue || s0.completing)
    if r1.1.completing && r1.1.window.isEmpty then
      ({ r1.1 with alive := false }, { down := r1.2 ++ [.complete] })
    else
      let r2 := r1.1.maybeReq cfg
      (r2.1, { down := r1.2, up := r2.2 })
  | .down (.elem (.int x)) =>
    let s0 := { s with credit := s.credit - 1, window := s.window ++ [x] }
    let r1 := s0.flush n s0.flushDue
    let r2 := r1.1.maybeReq cfg
    (r2.1, { down := r1.2, up := r2.2 })
  | .down (.elem (.list _)) =>
    ({ s with credit := s.credit - 1, alive := false }, { up := [.cancel], down := [.error typeErr] })
  | .flush =>
    let r := s.flush n true
    (r.1, { down := r.2 })
  | .down .complete =>
    let r := ({ s with completing := true }).flush n true
    if r.1.window.isEmpty then ({ r.1 with alive := false }, { down := r.2 ++ [.complete] })
    else (r.1, { down := r.2 })
  | .down (.error e) => ({ s with alive := false }, { down := [.error e] })
  | .up .cancel => ({ s with alive := false }, { up := [.cancel] })
  | _ => (s, {})

/-! ### parallelMapActor (ordered = OrderedParallelMap) -/

structure PMapSt where
  inFlight : Int := 0
  inSeq : Nat := 0
  nextEmit : Nat := 0
  /-- the resequencing heap, as an unordered bag of (seqNo, value) -/
  pending : List (Nat × Val) := []
  upDone : Bool := false
  /-- the first downstream demand has triggered the initial pull (fix cf400b2) -/
  started : Bool := false
  /-- the worker pool, as part of the stage: tasks dispatched and not yet answered, (seqNo, input) -/
  outst : List (Nat × Val) := []
  alive : Bool := true
  deriving Repr, Inhabited

/-- the heap's top: an entry with the least seqNo -/
def minEntry : List (Nat × Val) → Option (Nat × Val)
  | [] => none
  | x :: xs =>
    match minEntry xs with
    | none => some x
    | some y => if x.1 ≤ y.1 then some x else some y

/-- `flushOrdered`: pop while the top carries seqNo = nextEmit+1 (fuel = heap size) -/
def flushOrd : Nat → Nat → List (Nat × Val) → Nat × List (Nat × Val) × List Val
  | 0, ne, p => (ne, p, [])
  | f + 1, ne, p =>
    match minEntry p with
    | none => (ne, p, [])
    | some top =>
      if top.1 ≠ ne + 1 then (ne, p, [])
      else
        let r := flushOrd f (ne + 1) (p.filter fun x => x.1 != top.1)
        (r.1, r.2.1, top.2 :: r.2.2)

def PMapSt.flushOrdered (s : PMapSt) : PMapSt × List Down :=
  let r := flushOrd s.pending.length s.nextEmit s.pending
  ({ s with nextEmit := r.1, pending := r.2.1 }, r.2.2.map Down.elem)

def pmapStep (ordered : Bool) (w : Nat) (s : PMapSt) : Ev → PMapSt × Out
  | .up (.req _) => if s.started then (s, {}) else ({ s with started := true }, { up := [.req w] })
  | .down (.elem v) =>
    match v with
    | .int _ =>
      let q := s.inSeq + 1
      ({ s with inFlight := s.inFlight + 1, inSeq := q, outst := s.outst ++ [(q, v)] }, { tasks := [(q, v)] })
    | .list _ => ({ s with alive := false }, { up := [.cancel], down := [.error typeErr] })
  | .result q (.error e) =>
    ({ s with inFlight := s.inFlight - 1, outst := s.outst.filter (fun t => t.1 != q), alive := false },
      { up := [.cancel], down := [.error e] })
  | .result q (.ok v) =>
    let s0 := { s with inFlight := s.inFlight - 1, outst := s.outst.filter (fun t => t.1 != q) }
    let r1 := if ordered then ({ s0 with pending := (q, v) :: s0.pending }).flushOrdered else (s0, [Down.elem v])
    let u := if r1.1.upDone then [] else [Up.req 1]
    if r1.1.upDone && r1.1.inFlight == 0 then
      let r2 := if ordered then r1.1.flushOrdered else (r1.1, [])
      ({ r2.1 with alive := false }, { down := r1.2 ++ r2.2 ++ [.complete], up := u })
    else (r1.1, { down := r1.2, up := u })
  | .down .complete =>
    let s0 := { s with upDone := true }
    if s0.inFlight == 0 then
      let r := if ordered then s0.flushOrdered else (s0, [])
      ({ r.1 with alive := false }, { down := r.2 ++ [.complete] })
    else (s0, {})
  | .down (.error e) => ({ s with alive := false }, { down := [.error e] })
  | .up .cancel => ({ s with alive := false }, { up := [.cancel], down := [.complete] })
  | _ => (s, {})

/-! ### sinkActor (consumeFn = record the element; onComplete = the counted hook) -/

structure SinkSt where
  credit : Int := 0
  received : List Val := []
  /-- number of times the `onComplete` hook body actually ran -/
  hooks : Nat := 0
  /-- `completeOnce` already fired -/
  once : Bool := false
  termErr : Option Err := none
  alive : Bool := true
  deriving Repr, Inhabited

/-- `callOnComplete`: the hook runs under `sync.Once` -/
def SinkSt.callOnComplete (s : SinkSt) : SinkSt :=
  if s.once then s else { s with once := true, hooks := s.hooks + 1 }

/-- `rctx.Shutdown()` runs PostStop, which calls `callOnComplete` again -/
def SinkSt.shutdown (s : SinkSt) : SinkSt := { s.callOnComplete with alive := false }

def sinkStep (cfg : Cfg) (s : SinkSt) : Ev → SinkSt × Out
  | .wire => ({ s with credit := cfg.init }, { up := [.req cfg.init] })
  | .down (.elem v) =>
    let c := s.credit - 1
    let s0 := { s with received := s.received ++ [v] }
    if c ≤ cfg.refill then ({ s0 with credit := cfg.init }, { up := [.req (cfg.init - c)] })
    else ({ s0 with credit := c }, {})
  | .down .complete => (s.callOnComplete.shutdown, {})
  | .down (.error e) => (({ s with termErr := some e }).callOnComplete.shutdown, { up := [.cancel] })
  | _ => (s, {})

/-! ### a node of the pipeline -/

inductive Node where
  | src (s : SrcSt)
  | flow (cfg : Cfg) (st : Stage) (s : FlowSt)
  | fused (cfg : Cfg) (fs : List Stage) (s : FusedSt)
  | batch (cfg : Cfg) (n : Nat) (s : BatchSt)
  | pmap (ordered : Bool) (w : Nat) (k : Int) (bad : Option Int) (e : Err) (s : PMapSt)
  | sink (cfg : Cfg) (s : SinkSt)
  deriving Repr, Inhabited

def Node.alive : Node → Bool
  | .src s => s.alive
  | .flow _ _ s => s.alive
  | .fused _ _ s => s.alive
  | .batch _ _ s => s.alive
  | .pmap _ _ _ _ _ s => s.alive
  | .sink _ s => s.alive

/-- one handled message; a stopped actor handles nothing -/
def Node.step (nd : Node) (ev : Ev) : Node × Out :=
  if !nd.alive then (nd, {}) else
  match nd with
  | .src s => let r := srcStep s ev; (.src r.1, r.2)
  | .flow c st s => let r := flowStep c st s ev; (.flow c st r.1, r.2)
  | .fused c fs s => let r := fusedStep c fs s ev; (.fused c fs r.1, r.2)
  | .batch c n s => let r := batchStep c n s ev; (.batch c n r.1, r.2)
  | .pmap o w k b e s => let r := pmapStep o w s ev; (.pmap o w k b e r.1, r.2)
  | .sink c s => let r := sinkStep c s ev; (.sink c r.1, r.2)

end GoaktVerif.Model.C45

/-
C19 — scheduled messages (actor/scheduler.go, internal/cluster/cluster.go ClaimScheduleFire).

Three executable models of THE CODE AS IT IS:

* the reference table: goakt's `scheduledKeys` plus the go-quartz job store as goakt drives it
  (`ScheduleJob` / `DeleteJob` / `PauseJob` / `ResumeJob` of go-quartz v0.15.2 — a PARAMETER: the
  rules below are what that version does, they are sampled by the differential, not derived).
* the cluster cron claim: `claimClusterFire` (fail-open without metadata, the `lag > ttl` skip, the
  cluster-disabled error, the result mapping) over a put-if-absent-with-TTL store; nodes have
  skewed clocks.
* `cronClaimTTL`'s clamp.
-/
namespace GoaktVerif.Model.C19

/-! ### references -/

inductive Kind where
  | once | every | cron
  deriving Repr, DecidableEq

/-- a job in the quartz queue -/
structure Job where
  kind : Kind
  suspended : Bool := false
  deriving Repr, DecidableEq

inductive Res where
  | ok
  | notstarted   -- ErrSchedulerNotStarted
  | noref        -- ErrScheduledReferenceNotFound
  | nojob        -- quartz.ErrJobNotFound
  | jobExists    -- quartz.ErrJobAlreadyExists
  | suspended    -- quartz.ErrJobIsSuspended
  | active       -- quartz.ErrJobIsActive
  | expired      -- quartz.ErrTriggerExpired
  deriving Repr, DecidableEq

def Res.isErr (r : Res) : Bool := r != .ok

structure State where
  started : Bool := true
  keys : List String := []              -- scheduledKeys (and scheduledMeta)
  jobs : List (String × Job) := []      -- the quartz queue, by job key
  delivered : List String := []         -- deliveries so far (newest first)
  deriving Repr, DecidableEq

def State.job (s : State) (r : String) : Option Job := s.jobs.lookup r
def State.delJob (s : State) (r : String) : State := { s with jobs := s.jobs.filter (·.1 != r) }
def State.putJob (s : State) (r : String) (j : Job) : State := { (s.delJob r) with jobs := (r, j) :: (s.delJob r).jobs }
def State.addKey (s : State) (r : String) : State := if s.keys.contains r then s else { s with keys := r :: s.keys }
def State.delKey (s : State) (r : String) : State := { s with keys := s.keys.filter (· != r) }

inductive Op where
  | schedule (k : Kind) (r : String)   -- ScheduleOnce / Schedule / ScheduleWithCron, WithReference r
  | cancel (r : String)
  | pause (r : String)
  | resume (r : String)
  | fire (r : String)                  -- quartz reaches a tick of job r
  deriving Repr, DecidableEq

/-- `ScheduleOnce` / `Schedule` / `ScheduleWithCron` (local target, valid cron expression) -/
def schedule (s : State) (k : Kind) (r : String) : State × Res :=
  if !s.started then (s, .notstarted) else
  let s := s.addKey r
  match s.job r with
  | some _ => (s, .jobExists)      -- quartz refuses a second job under the same key; the old job stays
  | none => (s.putJob r { kind := k }, .ok)

/-- `CancelSchedule`: the deferred deletes run on every path -/
def cancel (s : State) (r : String) : State × Res :=
  if !s.started then (s.delKey r, .notstarted) else
  if !s.keys.contains r then (s.delKey r, .noref) else
  match s.job r with
  | none => (s.delKey r, .nojob)
  | some _ => ((s.delJob r).delKey r, .ok)

/-- `PauseSchedule` -/
def pause (s : State) (r : String) : State × Res :=
  if !s.started then (s, .notstarted) else
  if !s.keys.contains r then (s, .noref) else
  match s.job r with
  | none => (s, .nojob)
  | some j => if j.suspended then (s, .suspended) else (s.putJob r { j with suspended := true }, .ok)

/-- `ResumeSchedule`: quartz removes the job, asks the trigger for the next fire time and pushes
    it back.  Since c88f7fc ScheduleOnce uses goakt's own `onceTrigger`, which keeps answering until
    its single fire instant has been consumed, so a paused one-shot resumes like any other schedule
    (with quartz.RunOnceTrigger the trigger had expired at scheduling time and the job was LOST). -/
def resume (s : State) (r : String) : State × Res :=
  if !s.started then (s, .notstarted) else
  if !s.keys.contains r then (s, .noref) else
  match s.job r with
  | none => (s, .nojob)
  | some j =>
    if !j.suspended then (s, .active) else (s.putJob r { j with suspended := false }, .ok)

/-- quartz reaches a tick of job `r`: a suspended or absent job does not run; a one-shot job is
    taken off the queue, the others are re-queued -/
def fire (s : State) (r : String) : State :=
  match s.job r with
  | none => s
  | some j =>
    if j.suspended then s else
    let s := { s with delivered := r :: s.delivered }
    match j.kind with
    | .once => s.delJob r
    | _ => s

def step (s : State) : Op → State × Res
  | .schedule k r => schedule s k r
  | .cancel r => cancel s r
  | .pause r => pause s r
  | .resume r => resume s r
  | .fire r => (fire s r, .ok)

def run (s : State) : List Op → State
  | [] => s
  | o :: os => run (step s o).1 os

/-- `ListSchedules` (as a set; the harness sorts) -/
def list (s : State) : List String := s.keys.filter fun r => (s.job r).isSome

/-! ### cluster cron claim -/

/-- one node handling one tick: true time `t` of the attempt (also the store's clock), the
    node's clock skew `k` (local clock = true time + k) -/
structure Attempt where
  tick : Nat
  t : Int
  k : Int
  deriving Repr, DecidableEq

inductive Outcome where
  | win | lose | skip
  deriving Repr, DecidableEq

/-- the store: claim key ↦ expiry (true time) -/
abbrev Store := List (Nat × Int)

/-- `ClaimScheduleFire` = put-if-absent with TTL: an entry is live while `now < expiry` -/
def putNX (st : Store) (key : Nat) (now ttl : Int) : Store × Bool :=
  match st.lookup key with
  | some exp => if now < exp then (st, false) else ((key, now + ttl) :: st.filter (·.1 != key), true)
  | none => ((key, now + ttl) :: st, true)

/-- `claimClusterFire` with metadata and a cluster: `runTime` maps a tick to its scheduled fire time -/
def claim (runTime : Nat → Int) (ttl : Int) (st : Store) (a : Attempt) : Store × Outcome :=
  let lag := a.t + a.k - runTime a.tick      -- time.Since(RunTime) on the node's clock
  if lag > ttl then (st, .skip) else
  match putNX st a.tick a.t ttl with
  | (st', true) => (st', .win)
  | (st', false) => (st', .lose)

def claims (runTime : Nat → Int) (ttl : Int) : Store → List Attempt → List Outcome
  | _, [] => []
  | st, a :: as => (claim runTime ttl st a).2 :: claims runTime ttl (claim runTime ttl st a).1 as

def wins (os : List Outcome) : Nat := os.count .win

/-! ### cronClaimTTL -/

def minTTL : Int := 60 * 1000000000
def maxTTL : Int := 24 * 3600 * 1000000000

/-- the clamp of `cronClaimTTL`; `none` = one of the two NextFireTime calls failed -/
def claimTTL : Option Int → Int
  | none => minTTL
  | some period => if period < minTTL then minTTL else if period > maxTTL then maxTTL else period

end GoaktVerif.Model.C19

/-
C27 — outbound RemoteTell coalescer (internal/remoteclient/coalescer.go), the client entry
points that feed it (internal/remoteclient/client.go RemoteTell / getCoalescer / Close) and the
failure fan-out it reports to (actor/remote_server.go enqueueCoalescedFailure /
drainCoalescedFailures).

Small-step interleaving model of THE CODE AS IT IS.  Shared state: the bounded channel `in`
(FIFO buffer, capacity 4·maxBatch), the `done` flag, the failure queue (bounded), the
`shuttingDown` flag.  Threads: any number of submitters (each call of `submit` is three atomic
steps: the `done` pre-check, the non-blocking try-send, the blocking three-way select), the single
writer goroutine (`run`: select → drainReady one receive at a time → flush; after `done` it keeps
draining and flushing until the channel is empty), the closer
(`close(done)`), the failure-queue drain goroutine.  A schedule is an arbitrary `List Act`;
an action that is not enabled leaves the state unchanged (the goroutine stays blocked).
Go's `select` with several ready cases picks one at random: the pick is part of the action.

Ghost fields (never read by the transitions): `log` (messages whose submit returned nil, in
enqueue order), `begun` (messages in the order their `submit` calls started), `flushed` (every batch
handed to the transport with its outcome), `dropped`, `unhandled`, `results`.
-/
namespace GoaktVerif.Model.C27

/-- a message: (sender thread, per-thread sequence number) -/
abbrev Msg := Nat × Nat

/-- program counter of the writer goroutine (`coalescer.run`) -/
inductive WPc where
  /-- at the top-level `select { case <-done; case m := <-in }` -/
  | select
  /-- `done` observed: `c.inflight.Lock()` — waits until no `submit` call is in progress -/
  | barrier
  /-- inside `drainReady` (closing = reached through the `done` branch) -/
  | drain (closing : Bool)
  /-- about to `flush` -/
  | flush (closing : Bool)
  /-- returned (`wg.Done`) -/
  | exited
  deriving DecidableEq, Repr

/-- program counter of one `submit` call -/
inductive SubPc where
  | pre      -- `select { case <-c.done: return closed; default: }`
  | try      -- `select { case c.in <- msg: return nil; default: }`
  | blocked  -- `select { case c.in <- msg; case <-ctx.Done(); case <-c.done }`
  deriving DecidableEq, Repr

structure Pend where
  msg : Msg
  pc : SubPc
  ctxDone : Bool
  deriving DecidableEq, Repr

inductive Res where
  | ok | ctxErr | closed
  deriving DecidableEq, Repr

structure Cfg where
  /-- effective batch bound (`newCoalescer` replaces a non-positive value by 64) -/
  maxBatch : Nat
  /-- `errHandler != nil` -/
  hasHandler : Bool
  /-- `coalescedFailureQueueSize` -/
  fqCap : Nat
  deriving DecidableEq, Repr

/-- `coalescedFailureQueueSize` of the running actor system (tied to the source constant by
    `C27_fq_cap_tie` and by the differential) -/
def sysFanoutCap : Nat := 256

/-- `make(chan *RemoteMessage, maxBatch*4)` -/
def Cfg.cap (c : Cfg) : Nat := c.maxBatch * 4

/-- `newCoalescer`: `if maxBatch <= 0 { maxBatch = 64 }` -/
def effectiveMaxBatch (configured : Int) : Nat := if configured ≤ 0 then 64 else configured.toNat

structure St where
  chan : List Msg := []
  done : Bool := false
  wpc : WPc := .select
  batch : List Msg := []
  fq : List (List Msg) := []
  sysDown : Bool := false
  pend : List Pend := []
  -- ghost
  flushed : List (List Msg × Bool) := []
  dead : List Msg := []
  dropped : List (List Msg) := []
  unhandled : List (List Msg) := []
  log : List Msg := []
  begun : List Msg := []
  results : List (Msg × Res) := []
  deriving Repr

def St.init : St := {}

inductive Act where
  /-- thread `m.1` calls `submit(ctx, m)` and takes the read lock `c.inflight.RLock()` (enabled when it has
      no call in progress and the writer is not waiting for the write lock) -/
  | begin (m : Msg)
  /-- the context of thread `t`'s call in progress is cancelled / reaches its deadline -/
  | cancel (t : Nat)
  /-- thread `t` executes the next atomic step of its `submit`; `pick` resolves a select with several ready cases -/
  | sub (t : Nat) (pick : Nat)
  /-- `closeOnce.Do(close(done))` -/
  | close
  /-- the writer executes its next atomic step; `pick` resolves its select, `ok` is the transport outcome when the step is a flush -/
  | wstep (pick : Nat) (ok : Bool)
  /-- the fan-out goroutine takes one failed batch from the queue and dead-letters its messages -/
  | fdrain
  /-- `shuttingDown.Store(true)` -/
  | sysdown
  deriving DecidableEq, Repr

def hasPend (s : St) (t : Nat) : Bool := s.pend.any (fun p => p.msg.1 == t)

def findPend (s : St) (t : Nat) : Option Pend := s.pend.find? (fun p => p.msg.1 == t)

def removePend (s : St) (t : Nat) : List Pend := s.pend.filter (fun p => !(p.msg.1 == t))

def setPc (s : St) (t : Nat) (pc : SubPc) : List Pend :=
  s.pend.map (fun p => if p.msg.1 == t then { p with pc := pc } else p)

def setCtxDone (s : St) (t : Nat) : List Pend :=
  s.pend.map (fun p => if p.msg.1 == t then { p with ctxDone := true } else p)

/-- `submit` returns `r` for message `m` of thread `t` -/
def finish (s : St) (t : Nat) (m : Msg) (r : Res) : St :=
  { s with pend := removePend s t, results := s.results ++ [(m, r)] }

/-- the channel send succeeds: the message is in the buffer and `submit` returns nil -/
def accept (s : St) (t : Nat) (m : Msg) : St :=
  { s with chan := s.chan ++ [m], log := s.log ++ [m], pend := removePend s t,
           results := s.results ++ [(m, .ok)] }

/-- the ready cases of the blocking select of `submit`, in source order -/
def readyCases (c : Cfg) (s : St) (p : Pend) : List Res :=
  (if s.chan.length < c.cap then [Res.ok] else []) ++
  (if p.ctxDone then [Res.ctxErr] else []) ++
  (if s.done then [Res.closed] else [])

def subStep (c : Cfg) (s : St) (t : Nat) (pick : Nat) : St :=
  match findPend s t with
  | none => s
  | some p =>
    match p.pc with
    | .pre => if s.done then finish s t p.msg .closed else { s with pend := setPc s t .try }
    | .try => if s.chan.length < c.cap then accept s t p.msg else { s with pend := setPc s t .blocked }
    | .blocked =>
      let rs := readyCases c s p
      match rs[pick % rs.length]? with
      | none => s
      | some .ok => accept s t p.msg
      | some r => finish s t p.msg r

/-- `enqueueCoalescedFailure`: hand the batch off to the fan-out queue; when that is not possible
    (system shutting down, or queue full) dead-letter it inline (`publishCoalescedFailure`) -/
def handler (c : Cfg) (s : St) (b : List Msg) : St :=
  if s.sysDown then { s with dead := s.dead ++ b }
  else if s.fq.length < c.fqCap then { s with fq := s.fq ++ [b] }
  else { s with dead := s.dead ++ b }

/-- the body of `flush` for a non-empty batch -/
def flushBatch (c : Cfg) (s : St) (ok : Bool) : St :=
  let b := s.batch
  let s1 := { s with flushed := s.flushed ++ [(b, ok)], batch := [] }
  if ok then s1
  else if c.hasHandler then handler c s1 b
  else { s1 with unhandled := s1.unhandled ++ [b] }

def afterFlush (closing : Bool) : WPc := if closing then .exited else .select

/-- after a non-empty flush: the closing loop `for { drainReady(); if len(batch) == 0 { return }; flush() }`
    goes back to drainReady (fix 305110c); the normal loop goes back to the select -/
def afterBatch (closing : Bool) : WPc := if closing then .drain true else .select

def wStep (c : Cfg) (s : St) (pick : Nat) (ok : Bool) : St :=
  match s.wpc with
  | .exited => s
  | .select =>
    match s.done, s.chan with
    | false, [] => s                                   -- blocked
    | true, [] => { s with wpc := .barrier }
    | false, m :: rest => { s with chan := rest, batch := s.batch ++ [m], wpc := .drain false }
    | true, m :: rest =>
      if pick % 2 = 0 then { s with wpc := .barrier }
      else { s with chan := rest, batch := s.batch ++ [m], wpc := .drain false }
  | .barrier =>
    -- the write lock is granted only when no submit holds the read lock
    if s.pend.isEmpty then { s with wpc := .drain true } else s
  | .drain closing =>
    if s.batch.length < c.maxBatch then
      match s.chan with
      | [] => { s with wpc := .flush closing }
      | m :: rest => { s with chan := rest, batch := s.batch ++ [m] }
    else { s with wpc := .flush closing }
  | .flush closing =>
    match s.batch with
    | [] => { s with wpc := afterFlush closing }          -- closing: `if len(batch) == 0 { return }`
    | _ :: _ => { flushBatch c s ok with wpc := afterBatch closing }

def fdrainStep (s : St) : St :=
  match s.fq with
  | [] => s
  | b :: rest => { s with fq := rest, dead := s.dead ++ b }

def step (c : Cfg) (s : St) : Act → St
  | .begin m => if hasPend s m.1 || s.wpc == .barrier then s   -- a pending write lock blocks new read locks
                else { s with pend := s.pend ++ [{ msg := m, pc := .pre, ctxDone := false }], begun := s.begun ++ [m] }
  | .cancel t => { s with pend := setCtxDone s t }
  | .sub t pick => subStep c s t pick
  | .close => { s with done := true }
  | .wstep pick ok => wStep c s pick ok
  | .fdrain => fdrainStep s
  | .sysdown => { s with sysDown := true }

def run (c : Cfg) (s : St) (acts : List Act) : St := acts.foldl (step c) s

/-- concatenation of every batch handed to the transport, in flush order -/
def St.flushedFlat (s : St) : List Msg := (s.flushed.map (·.1)).flatten

/-- concatenation of the batches whose flush succeeded = what the remote node received -/
def St.delivered (s : St) : List Msg := ((s.flushed.filter (·.2)).map (·.1)).flatten

/-- nothing will move any more unless a new call arrives: no submit in progress, the writer holds
    no batch, the fan-out queue is drained, and the writer is either parked on an empty channel
    or gone. -/
def St.quiescent (s : St) : Bool :=
  s.pend.isEmpty && s.batch.isEmpty && s.fq.isEmpty &&
  ((s.wpc == .select && s.chan.isEmpty) || s.wpc == .exited)


/-! ### `client.getCoalescer` (internal/remoteclient/client.go): lazy, double-checked creation of THE
coalescer of a destination.  Everything above models ONE coalescer per destination; this is the
code that makes it so.  Threads: any number of first senders.  `mu` is `coalescersMu`; the program
counter of the thread inside the critical section lives in the mutex field (mutual exclusion is the
contract of sync.Mutex).  `recheck = false` is the variant WITHOUT the second lookup under the lock
(used only to show that the second lookup is what the invariant rests on). -/
namespace GC

inductive CsPc where
  | recheck | create | unlock
  deriving DecidableEq, Repr

inductive TPc where
  | lookup   -- `if c, ok := r.coalescers.Get(dest); ok { return c }` (lock-free fast path), then NetClient
  | lock     -- `r.coalescersMu.Lock()`
  | inCS
  | done
  deriving DecidableEq, Repr

structure Thread where
  pc : TPc := .lookup
  got : Option Nat := none       -- the coalescer this call returned
  deriving DecidableEq, Repr

structure GSt where
  map : Option Nat := none        -- `r.coalescers` entry of the destination
  mu : Option (Nat × CsPc) := none
  created : Nat := 0              -- number of coalescers (writer goroutines) started so far
  threads : List Thread := []
  deriving DecidableEq, Repr

inductive GAct where
  | look (t : Nat)      -- thread t: fast-path lookup
  | acquire (t : Nat)   -- thread t: Lock() succeeds (mutex free)
  | cs                  -- the lock holder executes its next statement
  deriving DecidableEq, Repr

def setThread (s : GSt) (t : Nat) (th : Thread) : GSt := { s with threads := s.threads.set t th }

def gstep (recheck : Bool) (s : GSt) : GAct → GSt
  | .look t =>
    match s.threads[t]? with
    | some th =>
      if th.pc ≠ .lookup then s else
      match s.map with
      | some c => setThread s t { pc := .done, got := some c }
      | none => setThread s t { th with pc := .lock }
    | none => s
  | .acquire t =>
    match s.threads[t]?, s.mu with
    | some th, none =>
      if th.pc ≠ .lock then s
      else { setThread s t { th with pc := .inCS } with mu := some (t, if recheck then .recheck else .create) }
    | _, _ => s
  | .cs =>
    match s.mu with
    | some (t, .recheck) =>
      match s.map with
      | some c => { setThread s t { pc := .inCS, got := some c } with mu := some (t, .unlock) }
      | none => { s with mu := some (t, .create) }
    | some (t, .create) =>
      -- `coalescer := newCoalescer(...)` (starts a writer goroutine); `r.coalescers.Set(dest, coalescer)`
      { setThread s t { pc := .inCS, got := some s.created } with
        map := some s.created, created := s.created + 1, mu := some (t, .unlock) }
    | some (t, .unlock) =>
      match s.threads[t]? with
      | some th => { setThread s t { th with pc := .done } with mu := none }
      | none => { s with mu := none }
    | none => s

def ginit (n : Nat) : GSt := { threads := List.replicate n {} }

def grun (recheck : Bool) (s : GSt) (acts : List GAct) : GSt := acts.foldl (gstep recheck) s

end GC

end GoaktVerif.Model.C27

/-
C40 — executable model of the CRDT wire codec
(internal/ddata/crdt_codec.go EncodeCRDT / DecodeCRDT and the per-type helpers,
 internal/codec/codec.go EncodeCRDTKey / DecodeCRDTKey).

CRDT states are the models of `Model/Crdt/*.lean` (field by field, delta/dirty bookkeeping
included).  The wire form mirrors the protobuf messages of protos/internal/crdt.proto:
`map<string,uint64>` fields are maps (AMap, canonical), `repeated` fields are lists in the order
the encoder appends them.  The encoders range over Go maps (`RawState()`), whose order is
unspecified; the model emits key order, and the decoders are insensitive to it (they rebuild a map).

The element / register-value / map-key serializer (`remote.Serializer`, in production
`CRDTValueSerializer` = proto | CBOR) is a PARAMETER: `Ser B` with `ser : Nat → Option B`
(`none` = Serialize returned an error) and `des : B → Option Nat`.
The nested value codec of an ORMap is a parameter too (`VCodec`), so that the ORMap theorems hold
for any value type whose codec round-trips — in particular for every flat type below and, by
iterating, for ORMaps nested to any depth.
-/
import GoaktVerif.Model.Crdt.PNCounter
import GoaktVerif.Model.Crdt.Flag
import GoaktVerif.Model.Crdt.LWWRegister
import GoaktVerif.Model.Crdt.MVRegister
import GoaktVerif.Model.Crdt.ORMap

namespace GoaktVerif.Model.C40
open GoaktVerif.Model.Crdt

/-- `remote.Serializer` restricted to the values the models carry (naturals) -/
structure Ser (B : Type) where
  ser : Nat → Option B
  des : B → Option Nat

/-! ### wire messages -/

/-- `ORSetData`: repeated `ORSetEntry{element bytes, dots}`, `clock` map -/
structure WORSet (B : Type) where
  entries : List (B × List Dot)
  clock : AMap Nat

/-- `MVRegisterData` -/
structure WMV (B : Type) where
  entries : List (B × Dot)
  clock : AMap Nat

/-- `ORMapData` with values already encoded as `W` -/
structure WORMap (B W : Type) where
  entries : List (B × W)
  /-- `key_set` (a message field: may be absent on the wire) -/
  keySet : Option (WORSet B)

/-! ### flat types -/

/-- encodeGCounter: `GCounterData{State: c.State()}` -/
def encGC (c : GCounter) : AMap Nat := c.state
/-- decodeGCounter: `GCounterFromState(pb.GetState())` -/
def decGC (w : AMap Nat) : GCounter := GCounter.fromState w

def encPN (c : PNCounter) : AMap Nat × AMap Nat := (c.increments.state, c.decrements.state)
def decPN (w : AMap Nat × AMap Nat) : PNCounter := PNCounter.fromState w.1 w.2

def encFlag (x : Flag) : Bool := x.enabled
/-- decodeFlag: `NewFlag().Enable()` when enabled (so the decoded flag is dirty), else `NewFlag()` -/
def decFlag (w : Bool) : Flag := if w then Flag.new.enable else Flag.new

variable {B : Type}

/-- encodeLWWRegister: the value goes through the serializer; a never-set register holds nil,
    which the serializer rejects -/
def encLWW (S : Ser B) (r : LWWRegister) : Option (B × Int × Nat) :=
  match r.value with
  | none => none
  | some v => (S.ser v).map fun b => (b, r.timestamp, r.nodeID)

def decLWW (S : Ser B) (w : B × Int × Nat) : Option LWWRegister :=
  (S.des w.1).map fun v => LWWRegister.fromState (some v) w.2.1 w.2.2

/-- `ORSet.RawState()`: entries with at least one dot, and the clock -/
def rawEntries (s : ORSet) : AMap (List Dot) := s.entries.filter (fun p => !p.2.isEmpty)

/-- encodeORSetEntries -/
def encEntries (S : Ser B) (es : AMap (List Dot)) : Option (List (B × List Dot)) :=
  es.mapM fun p => (S.ser p.1).map fun b => (b, p.2)

def encORSet (S : Ser B) (s : ORSet) : Option (WORSet B) :=
  (encEntries S (rawEntries s)).map fun es => ⟨es, s.clock⟩

/-- decodeORSetEntries -/
def decEntries (S : Ser B) (es : List (B × List Dot)) : Option (List (Nat × List Dot)) :=
  es.mapM fun p => (S.des p.1).map fun e => (e, p.2)

/-- decodeORSet: `ORSetFromRawState(entries, clock)` — `s.entries[e.Element] = dots` in order -/
def decORSet (S : Ser B) (w : WORSet B) : Option ORSet :=
  (decEntries S w.entries).map fun es => ORSet.fromRawState (AMap.ofList es) w.clock

def encMV (S : Ser B) (r : MVRegister) : Option (WMV B) :=
  (r.entries.mapM fun e => (S.ser e.value).map fun b => (b, e.dot)).map fun es => ⟨es, r.clock⟩

def decMV (S : Ser B) (w : WMV B) : Option MVRegister :=
  (w.entries.mapM fun p => (S.des p.1).map fun v => (⟨v, p.2⟩ : MvEntry)).map fun es =>
    MVRegister.fromRawState es w.clock

/-! ### ORMap over any value type -/

/-- the recursive `EncodeCRDT` / `DecodeCRDT` calls on the stored values -/
structure VCodec (V W : Type) where
  enc : V → Option W
  dec : W → Option V

variable {V W : Type}

/-- one `ORMapEntry`: the value through the recursive EncodeCRDT, the key through the serializer -/
def encPair (S : Ser B) (C : VCodec V W) (p : Nat × V) : Option (B × W) :=
  match C.enc p.2, S.ser p.1 with
  | some w, some b => some (b, w)
  | _, _ => none

def decPair (S : Ser B) (C : VCodec V W) (p : B × W) : Option (Nat × V) :=
  match S.des p.1, C.dec p.2 with
  | some k, some v => some (k, v)
  | _, _ => none

/-- encodeORMap: `RawState()` = (key entries, key clock, ALL of `values`) -/
def encORMap (S : Ser B) (C : VCodec V W) (m : ORMap V) : Option (WORMap B W) :=
  match encORSet S m.keys, m.values.mapM (encPair S C) with
  | some ks, some es => some ⟨es, some ks⟩
  | _, _ => none

/-- the key set of an `ORMapData` (absent message field = no entries, nil clock) -/
def decKeySet (S : Ser B) : Option (WORSet B) → Option (List (Nat × List Dot) × AMap Nat)
  | some ks => (decEntries S ks.entries).map fun es => (es, ks.clock)
  | none => some ([], [])

/-- decodeORMap: `ORMapFromRawState` (`maps.Copy` of the decoded values; fresh key-set delta) -/
def decORMap (S : Ser B) (C : VCodec V W) (w : WORMap B W) : Option (ORMap V) :=
  match decKeySet S w.keySet, w.entries.mapM (decPair S C) with
  | some (kes, kclk), some vals => some (ORMap.fromRawState (AMap.ofList kes) kclk (AMap.ofList vals))
  | _, _ => none

/-! ### the tagged union `CRDTData` for the types the driver exercises -/

/-- a CRDT value as the replicator stores it (`crdt.ReplicatedData`); ORMap values are G-counters
    or OR-sets (one level of nesting is enough for the driver: deeper nesting is the same code) -/
inductive CV where
  | gc (c : GCounter)
  | pn (c : PNCounter)
  | fl (x : Flag)
  | lw (r : LWWRegister)
  | mv (r : MVRegister)
  | os (s : ORSet)
  | om (m : ORMap GCounter)
  deriving Repr, Inhabited

/-- `CRDTData` (oneof) -/
inductive WCV (B : Type) where
  | gc (w : AMap Nat)
  | pn (w : AMap Nat × AMap Nat)
  | fl (w : Bool)
  | lw (w : B × Int × Nat)
  | mv (w : WMV B)
  | os (w : WORSet B)
  | om (w : WORMap B (AMap Nat))

def gcCodec : VCodec GCounter (AMap Nat) := ⟨fun c => some (encGC c), fun w => some (decGC w)⟩

/-- EncodeCRDT -/
def encode (S : Ser B) : CV → Option (WCV B)
  | .gc c => some (.gc (encGC c))
  | .pn c => some (.pn (encPN c))
  | .fl x => some (.fl (encFlag x))
  | .lw r => (encLWW S r).map .lw
  | .mv r => (encMV S r).map .mv
  | .os s => (encORSet S s).map .os
  | .om m => (encORMap S gcCodec m).map .om

/-- DecodeCRDT -/
def decode (S : Ser B) : WCV B → Option CV
  | .gc w => some (.gc (decGC w))
  | .pn w => some (.pn (decPN w))
  | .fl w => some (.fl (decFlag w))
  | .lw w => (decLWW S w).map .lw
  | .mv w => (decMV S w).map .mv
  | .os w => (decORSet S w).map .os
  | .om w => (decORMap S gcCodec w).map .om

/-- what a value looks like after one trip over the wire -/
def wire (S : Ser B) (v : CV) : Option CV := (encode S v).bind (decode S)

/-- Merge on `ReplicatedData`: a type mismatch returns the receiver -/
def CV.merge : CV → CV → CV
  | .gc a, .gc b => .gc (a.merge b)
  | .pn a, .pn b => .pn (a.merge b)
  | .fl a, .fl b => .fl (a.merge b)
  | .lw a, .lw b => .lw (a.merge b)
  | .mv a, .mv b => .mv (a.merge b)
  | .os a, .os b => .os (a.merge b)
  | .om a, .om b => .om (a.merge b)
  | a, _ => a

def CV.delta? : CV → Option CV
  | .gc a => a.delta?.map .gc
  | .pn a => a.delta?.map .pn
  | .fl a => a.delta?.map .fl
  | .lw a => a.delta?.map .lw
  | .mv a => a.delta?.map .mv
  | .os a => a.delta?.map .os
  | .om a => a.delta?.map .om

def CV.resetDelta : CV → CV
  | .gc a => .gc a.resetDelta
  | .pn a => .pn a.resetDelta
  | .fl a => .fl a.resetDelta
  | .lw a => .lw a.resetDelta
  | .mv a => .mv a.resetDelta
  | .os a => .os a.resetDelta
  | .om a => .om a.resetDelta

/-- `Compactable`: ORSet and ORMap -/
def CV.compact : CV → CV
  | .os a => .os a.compact
  | .om a => .om a.compact
  | a => a

/-! ### keys -/

/-- EncodeCRDTKey: `{Id, DataType: dataType + 1}` (proto enum 0 is UNSPECIFIED) -/
def encKey (id dataType : Nat) : Nat × Nat := (id, dataType + 1)

/-- DecodeCRDTKey on a non-nil key: UNSPECIFIED and out-of-range enum values are errors -/
def decKey (w : Nat × Nat) : Option (Nat × Nat) :=
  if w.2 = 0 then none
  else if w.2 < 1 ∨ w.2 > 7 then none
  else some (w.1, w.2 - 1)

/-- the identity serializer used by the driver (the real serializer's round trip is observed on
    the Go side; the model only needs A serializer satisfying the law) -/
def idSer : Ser Nat := ⟨some, some⟩

end GoaktVerif.Model.C40

/-
C28 — connection pool and request/response exchanges of internal/net/client.go
(Get / Put / Discard / Close, SendProto = SendProtoWithMetadata, SendBatchProto) as used by
internal/remoteclient/client.go RemoteAsk / RemoteBatchAsk (one SendProto per call).

A connection is a pair of FIFO byte streams; at frame granularity: `srv` = request frames the
client wrote that the server has not handled yet, `resp` = response frames the server wrote that
the client has not read yet, each tagged with the request it answers.  The server handles the
frames of ONE connection strictly one after the other (ProtoServer.handleConn is a sequential
read–dispatch–write loop), so responses enter `resp` in the order the requests left `srv`.

Ownership is structural, as in the Go code: `Get` removes the connection from the idle slice under
the mutex and hands it to exactly one caller; `Put` moves it back; `Discard` closes it.  A call is a
sequence of atomic steps (`CallAct`); a schedule interleaves the steps of any number of calls with
server steps, failures (any write / read / deadline call may fail, any wait may time out), context
cancellation between the frames of a batch, and `Close` of the client.
-/
namespace GoaktVerif.Model.C28

/-- a request frame: (index of the call, position inside the call's batch) -/
abbrev Req := Nat × Nat

structure Conn where
  id : Nat
  srv : List Req := []
  resp : List Req := []
  deadline : Bool := false
  deriving DecidableEq, Repr

inductive Pc where
  | start | needDeadline | writing | reading | putting | done
  deriving DecidableEq, Repr

/-- outcome of a finished call: `none` = an error was returned, `some l` = success with the
    responses `l` (each tagged with the request it answers) in the order they are returned -/
abbrev Result := Option (List Req)

structure Call where
  reqs : List Req
  hasDeadline : Bool
  pc : Pc := .start
  conn : Option Conn := none
  written : Nat := 0
  got : List Req := []
  result : Option Result := none
  deriving DecidableEq, Repr

structure Pool where
  /-- idle stack, head = top (Go appends and pops at the end of the slice) -/
  idle : List Conn := []
  closed : Bool := false
  nextConn : Nat := 0
  /-- ghost: ids of the connections closed by the client, in order -/
  closedConns : List Nat := []
  deriving DecidableEq, Repr

structure Cfg where
  maxIdle : Nat
  deriving DecidableEq, Repr

inductive CallAct where
  /-- `Get`: the top `stale` idle connections are past the idle timeout (closed and skipped);
      when the stack is exhausted a new connection is dialled (`dialOk`) -/
  | get (stale : Nat) (dialOk : Bool)
  /-- `conn.SetDeadline(deadline)` when the context carries one -/
  | deadline (ok : Bool)
  /-- marshal + write the next request frame -/
  | write (ok : Bool)
  /-- `ctx.Done()` observed between two frames of a batch -/
  | cancel
  /-- the server handles the oldest unhandled request frame of this call's connection and
      (reply = true) writes its response frame, or writes nothing / closes (reply = false) -/
  | serve (reply : Bool)
  /-- read + unmarshal the next response frame (`ok = false`: timeout, EOF, bad frame) -/
  | read (ok : Bool)
  /-- `Put` (`ok = false`: clearing the deadline failed) -/
  | put (ok : Bool)
  deriving DecidableEq, Repr

/-- `Discard(conn)` followed by `return err` -/
def discardConn (p : Pool) (c : Call) : Pool × Call :=
  match c.conn with
  | some cn => ({ p with closedConns := p.closedConns ++ [cn.id] },
                { c with conn := none, pc := .done, result := some none })
  | none => (p, { c with pc := .done, result := some none })

/-- the loop of `Get`: pop stale connections (closing them), return the first fresh one -/
def popIdle (p : Pool) : Nat → Pool × Option Conn
  | 0 =>
    match p.idle with
    | [] => (p, none)
    | cn :: rest => ({ p with idle := rest }, some cn)
  | stale + 1 =>
    match p.idle with
    | [] => (p, none)
    | cn :: rest => popIdle { p with idle := rest, closedConns := p.closedConns ++ [cn.id] } stale

def afterGet (c : Call) (cn : Conn) : Call :=
  { c with conn := some cn, pc := if c.hasDeadline then .needDeadline else .writing }

def callStep (cfg : Cfg) (p : Pool) (c : Call) : CallAct → Pool × Call
  | .get stale dialOk =>
    if c.pc ≠ .start then (p, c)
    else if p.closed then (p, { c with pc := .done, result := some none })   -- ErrClientClosed
    else
      match popIdle p stale with
      | (p', some cn) => (p', afterGet c cn)
      | (p', none) =>
        if dialOk then ({ p' with nextConn := p'.nextConn + 1 }, afterGet c { id := p'.nextConn })
        else (p', { c with pc := .done, result := some none })
  | .deadline ok =>
    if c.pc ≠ .needDeadline then (p, c)
    else if ok then (p, { c with conn := c.conn.map ({ · with deadline := true }), pc := .writing })
    else discardConn p c
  | .write ok =>
    if c.pc ≠ .writing then (p, c)
    else if !ok then discardConn p c
    else
      match c.reqs[c.written]?, c.conn with
      | some r, some cn =>
        let w := c.written + 1
        (p, { c with conn := some { cn with srv := cn.srv ++ [r] }, written := w,
                     pc := if w < c.reqs.length then .writing else .reading })
      | _, _ => (p, { c with pc := .reading })     -- empty batch: nothing to write
  | .cancel =>
    if (c.pc = .writing ∧ 0 < c.written) ∨ (c.pc = .reading ∧ 0 < c.got.length ∧ c.got.length < c.reqs.length)
    then discardConn p c else (p, c)
  | .serve reply =>
    match c.conn with
    | some cn =>
      match cn.srv with
      | [] => (p, c)
      | r :: rest =>
        (p, { c with conn := some { cn with srv := rest, resp := if reply then cn.resp ++ [r] else cn.resp } })
    | none => (p, c)
  | .read ok =>
    if c.pc ≠ .reading then (p, c)
    else if c.got.length ≥ c.reqs.length then (p, { c with pc := .putting })   -- empty batch
    else if !ok then discardConn p c
    else
      match c.conn with
      | some cn =>
        match cn.resp with
        | [] => (p, c)                                  -- blocked on the socket
        | r :: rest =>
          let g := c.got ++ [r]
          (p, { c with conn := some { cn with resp := rest }, got := g,
                       pc := if g.length < c.reqs.length then .reading else .putting })
      | none => (p, c)
  | .put ok =>
    if c.pc ≠ .putting then (p, c)
    else
      match c.conn with
      | some cn =>
        let fin : Call := { c with conn := none, pc := .done, result := some (some c.got) }
        if p.closed then ({ p with closedConns := p.closedConns ++ [cn.id] }, fin)
        else if !ok then ({ p with closedConns := p.closedConns ++ [cn.id] }, fin)
        else if p.idle.length < cfg.maxIdle then
          ({ p with idle := { cn with deadline := false } :: p.idle }, fin)
        else ({ p with closedConns := p.closedConns ++ [cn.id] }, fin)
      | none => (p, c)

structure St where
  pool : Pool := {}
  calls : List Call := []
  deriving DecidableEq, Repr

inductive Act where
  /-- a caller starts an exchange of `n` request frames (SendProto: n = 1) -/
  | newCall (n : Nat) (hasDeadline : Bool)
  /-- call number `k` performs its next step -/
  | call (k : Nat) (a : CallAct)
  /-- `Client.Close` -/
  | closeClient
  deriving DecidableEq, Repr

def mkReqs (k n : Nat) : List Req := (List.range n).map fun i => (k, i)

def step (cfg : Cfg) (s : St) : Act → St
  | .newCall n hasDeadline =>
    { s with calls := s.calls ++ [{ reqs := mkReqs s.calls.length n, hasDeadline := hasDeadline }] }
  | .call k a =>
    match s.calls[k]? with
    | none => s
    | some c =>
      let (p', c') := callStep cfg s.pool c a
      { pool := p', calls := s.calls.set k c' }
  | .closeClient =>
    { s with pool := { s.pool with closed := true, idle := [],
                                   closedConns := s.pool.closedConns ++ s.pool.idle.map (·.id) } }

def run (cfg : Cfg) (s : St) (acts : List Act) : St := acts.foldl (step cfg) s


/-! ### payload frames of `RemoteAsk` (internal/remoteclient/client.go `serializePayload` + `payloadPool`)

The request a call writes is built in a pooled byte buffer that the envelope references until `SendProto` has
marshalled it.  `write` above appends the caller's OWN request: that presupposes that no other call writes into
the same buffer meanwhile.  The pool discipline that guarantees it: a buffer is taken with `Get`, owned by one
call, and given back with `Put` exactly once (the single `defer r.payloadPool.Put(marshaled)`).  The pool is a
bag of boxes, each box references a backing array (sync.Pool does not de-duplicate). -/
namespace Payload

structure PSt where
  pool : List Nat := []              -- backing arrays referenced by the boxes in the pool
  owned : List (Nat × Nat) := []     -- (call, backing array) for calls between serializePayload and their Put
  next : Nat := 0                    -- next fresh array
  deriving DecidableEq, Repr

inductive PAct where
  /-- `serializePayload`: `payloadPool.Get` — a pooled box if there is one, else a fresh array -/
  | get (call : Nat)
  /-- the deferred `payloadPool.Put(marshaled)` of call `call` (runs once: the entry leaves `owned`) -/
  | put (call : Nat)
  /-- NOT in the code: a second `Put` of a buffer that was already given back (`arr` chosen by the schedule);
      only used to show what the discipline excludes -/
  | putAgain (arr : Nat)
  deriving DecidableEq, Repr

def pstep (s : PSt) : PAct → PSt
  | .get call =>
    if s.owned.any (·.1 == call) then s else
    match s.pool with
    | b :: rest => { s with pool := rest, owned := (call, b) :: s.owned }
    | [] => { s with owned := (call, s.next) :: s.owned, next := s.next + 1 }
  | .put call =>
    match s.owned.find? (·.1 == call) with
    | some e => { s with owned := s.owned.filter (fun x => !(x.1 == call)), pool := e.2 :: s.pool }
    | none => s
  | .putAgain arr => { s with pool := arr :: s.pool }

/-- the actions the code can perform -/
def PAct.legal : PAct → Bool
  | .putAgain _ => false
  | _ => true

def prun (s : PSt) (acts : List PAct) : PSt := acts.foldl pstep s

end Payload

end GoaktVerif.Model.C28

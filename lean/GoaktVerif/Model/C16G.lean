/-
C16, second model — a GRAIN as the requester (actor/grain_pid.go, actor/grain_context.go).

What differs from the actor (Model/C16.lean): a blocking (StashNonReentrant) request PAUSES the user
mailbox — nothing is stashed, buffered messages wait in place in arrival order; AsyncResponse envelopes
travel in their own queue and are always taken first; an admission failure (disabled / in-flight limit)
returns an already completed call whose `Then` runs at once with the error; a shutdown cancels the
in-flight requests THROUGH the response queue and then sends a PoisonPill through the user mailbox;
whatever is still in flight when the pill is handled is torn down WITH its continuation
(teardownInFlightRequests), on that turn.
-/
import GoaktVerif.Model.C16

namespace GoaktVerif.Model.C16G
open GoaktVerif.Model.C16 (Mode)

inductive Outcome | ok | timeout | canceled | limit | disabled
  deriving DecidableEq, Repr

/-- requestState (or the completed stand-in of a refused request) + what the script knows -/
structure Req where
  mode : Mode
  completed : Bool := false
  outcome : Outcome := .ok
  hasCb : Bool := false
  cancelRequested : Bool := false
  inMap : Bool := true       -- present in requestStates
  sent : Bool := true        -- the request envelope reached the responder
  replied : Bool := false    -- a grain responder's GrainReply was completed (completing it again is a no-op)
  fired : Nat := 0           -- ghost: how often the continuation ran
  deriving DecidableEq, Repr

inductive Msg
  | user (k : Nat)
  | hold
  | reqCmd (k : Nat) (m : Option Mode) (thenNow : Bool)
  | pill
  deriving DecidableEq, Repr

inductive Entry
  | handled (k : Nat)
  | held
  | req (k : Nat)
  | cb (k : Nat) (o : Outcome) (onTurn : Bool)
  | deactivated
  deriving DecidableEq, Repr

structure St where
  installed : Bool
  defMode : Mode
  maxInFlight : Nat
  grainTarget : Bool := false
  reqs : List (Nat × Req) := []
  inFlight : Int := 0
  blocking : Int := 0
  queue : List Msg := []                 -- user mailbox
  responses : List (Nat × Outcome) := [] -- response queue
  held : Bool := false
  permits : Nat := 0
  poisoned : Bool := false               -- the script sent S: nothing more is delivered
  active : Bool := true
  log : List Entry := []
  deriving Repr

def getReq (l : List (Nat × Req)) (k : Nat) : Option Req :=
  match l with
  | [] => none
  | (k', r) :: rest => if k' = k then some r else getReq rest k

def setReq (l : List (Nat × Req)) (k : Nat) (r : Req) : List (Nat × Req) :=
  match l with
  | [] => [(k, r)]
  | (k', r') :: rest => if k' = k then (k, r) :: rest else (k', r') :: setReq rest k r

/-- a refused request: `completedRequestCall(err)`; its Then (if registered in the handler) runs at once -/
def refuse (s : St) (k : Nat) (o : Outcome) (thenNow : Bool) : St :=
  { s with
    reqs := setReq s.reqs k { mode := .off, completed := true, outcome := o, hasCb := thenNow, inMap := false,
                              sent := false, fired := if thenNow then 1 else 0 },
    log := s.log ++ [Entry.req k] ++ (if thenNow then [Entry.cb k o true] else []) }

/-- `GrainContext.RequestGrain` / `RequestActor` from inside OnReceive: admitRequest + registerRequestState -/
def doRequest (s : St) (k : Nat) (m : Option Mode) (thenNow : Bool) : St :=
  -- a label is a correlation id and is never issued twice (the parsers reject such scripts)
  if (getReq s.reqs k).isSome then { s with log := s.log ++ [Entry.req k] } else
  if !s.installed then refuse s k .disabled thenNow else
  let mode := m.getD s.defMode
  if mode = .off then refuse s k .disabled thenNow else
  if s.maxInFlight > 0 ∧ s.inFlight ≥ s.maxInFlight then refuse s k .limit thenNow else
  { s with
    inFlight := s.inFlight + 1,
    blocking := if mode = .stash then s.blocking + 1 else s.blocking,
    reqs := setReq s.reqs k { mode := mode, hasCb := thenNow },
    log := s.log ++ [Entry.req k] }

/-- `completeRequest` for a dequeued AsyncResponse: first completion wins, deregister, continuation inline -/
def doResponse (s : St) (k : Nat) (o : Outcome) : St :=
  if !s.installed then s else
  match getReq s.reqs k with
  | none => s
  | some r =>
    if !r.inMap then s else
    if r.completed then s else
    { s with
      reqs := setReq s.reqs k { r with completed := true, outcome := o, inMap := false,
                                       fired := if r.hasCb then r.fired + 1 else r.fired },
      inFlight := s.inFlight - 1,
      blocking := if r.mode = .stash then s.blocking - 1 else s.blocking,
      log := if r.hasCb then s.log ++ [Entry.cb k o true] else s.log }

/-- `teardownInFlightRequests`: every tracked request is completed with ErrRequestCanceled and its
    continuation runs on this (deactivating) turn; then reset -/
def teardownReqs : List (Nat × Req) → List (Nat × Req) × List Entry
  | [] => ([], [])
  | (k, r) :: rest =>
    let (rest', ev) := teardownReqs rest
    if r.inMap && !r.completed then
      ((k, { r with completed := true, outcome := .canceled, inMap := false,
                    fired := if r.hasCb then r.fired + 1 else r.fired }) :: rest',
       (if r.hasCb then [Entry.cb k .canceled true] else []) ++ ev)
    else ((k, { r with inMap := false }) :: rest', ev)

/-- one user-mailbox message -/
def dispatch (s : St) (m : Msg) : St :=
  match m with
  | .user k => { s with log := s.log ++ [Entry.handled k] }
  | .hold =>
    let s : St := { s with log := s.log ++ [Entry.held] }
    if s.permits > 0 then { s with permits := s.permits - 1 } else { s with held := true }
  | .reqCmd k m t => doRequest s k m t
  | .pill =>
    let (reqs', ev) := teardownReqs s.reqs
    { s with reqs := reqs', inFlight := 0, blocking := 0, active := false, log := s.log ++ ev ++ [Entry.deactivated] }

def paused (s : St) : Bool := s.installed && decide (s.blocking > 0)

/-- `runTurn`: responses first; the user mailbox only while not paused -/
def pump : Nat → St → St
  | 0, s => s
  | fuel + 1, s =>
    if s.held || !s.active then s else
    match s.responses with
    | (k, o) :: rest => pump fuel (doResponse { s with responses := rest } k o)
    | [] =>
      if paused s then s else
      match s.queue with
      | [] => s
      | m :: rest => pump fuel (dispatch { s with queue := rest } m)

def drain (s : St) : St := pump (s.queue.length + s.responses.length + 1) s

/-! ### ops -/

inductive Op
  | q (k : Nat) (m : Option Mode) (thenNow : Bool)
  | m (k : Nat)
  | r (k : Nat)
  | x (k : Nat)
  | c (k : Nat)
  | T (k : Nat)
  | H
  | L
  | S
  deriving Repr

inductive Res | ok | none | gone
  deriving DecidableEq, Repr

def deliver (s : St) (m : Msg) : St × Res :=
  if s.poisoned then (s, .gone) else (drain { s with queue := s.queue ++ [m] }, .ok)

def respond (s : St) (k : Nat) (o : Outcome) : St :=
  -- an envelope for a deactivated grain re-activates the virtual grain; nothing of that is compared
  if !s.active then s else drain { s with responses := s.responses ++ [(k, o)] }

/-- `enqueueInFlightCancellations`: `state.cancel()` for every tracked request (canonical label order) -/
def cancelTargets (l : List (Nat × Req)) : List Nat :=
  (l.filter fun p => p.2.inMap && !p.2.completed && !p.2.cancelRequested).map (·.1)

def insertNat (x : Nat) : List Nat → List Nat
  | [] => [x]
  | y :: ys => if x ≤ y then x :: y :: ys else y :: insertNat x ys

def sortNat (l : List Nat) : List Nat := l.foldr insertNat []

def markCancel (l : List (Nat × Req)) : List (Nat × Req) :=
  l.map fun p => if p.2.inMap && !p.2.completed && !p.2.cancelRequested then (p.1, { p.2 with cancelRequested := true }) else p

def step (s : St) (op : Op) : St × Res :=
  match op with
  | .q k m t => deliver s (.reqCmd k m t)
  | .m k => deliver s (.user k)
  | .H => deliver s .hold
  | .L => if s.held then (drain { s with held := false }, .ok) else ({ s with permits := s.permits + 1 }, .ok)
  | .r k =>
    match getReq s.reqs k with
    | none => (s, .none)
    | some r =>
      if !r.sent then (s, .none)
      else if s.grainTarget && r.replied then (s, .ok)
      else (respond { s with reqs := setReq s.reqs k { r with replied := true } } k .ok, .ok)
  | .x k =>
    match getReq s.reqs k with
    | none => (s, .none)
    | some r => if !r.sent then (s, .none) else (respond s k .timeout, .ok)
  | .c k =>
    match getReq s.reqs k with
    | none => (s, .none)
    | some r =>
      if r.completed || r.cancelRequested then (s, .ok)
      else (respond { s with reqs := setReq s.reqs k { r with cancelRequested := true } } k .canceled, .ok)
  | .T k =>
    match getReq s.reqs k with
    | none => (s, .none)
    | some r =>
      if r.hasCb then (s, .ok)
      else if r.completed then
        ({ s with reqs := setReq s.reqs k { r with hasCb := true, fired := r.fired + 1 },
                  log := s.log ++ [Entry.cb k r.outcome false] }, .ok)
      else ({ s with reqs := setReq s.reqs k { r with hasCb := true } }, .ok)
  | .S =>
    if s.poisoned then (s, .gone) else
    let ks := sortNat (cancelTargets s.reqs)
    (drain { s with poisoned := true, reqs := markCancel s.reqs,
                    responses := s.responses ++ ks.map (fun k => (k, Outcome.canceled)),
                    queue := s.queue ++ [.pill] }, .ok)

def St.init (installed : Bool) (defMode : Mode) (max : Nat) (grainTarget : Bool := false) : St :=
  { installed := installed, defMode := defMode, maxInFlight := max, grainTarget := grainTarget }

def run (s : St) : List Op → List (St × Res)
  | [] => []
  | op :: ops => let r := step s op; r :: run r.1 ops

end GoaktVerif.Model.C16G

/-
C47 — circuit breaker (breaker/breaker.go, bucket.go, state.go, options.go).
Hand-written executable model of the code as it is.

* `BW` is `bucketWindow`: ring `buf` of (succ, fail) counters, `cursor`, `lastUpdate`;
  `advance` (with the hard reset when the whole window went stale), `add`, `totals`, `reset`.
  (The per-bucket `start` field is written but never read by the code and is left out.)
* `Br` is `CircuitBreaker`: `state`, `openUntil`, the half-open semaphore as the number of tokens
  in the channel, the window, `lastFailure`/`lastSuccess`.
* The threshold `failureRate` is a rational `p/q`; `float64(fail)/float64(total) >= rate` is
  modelled as `fail*q ≥ p*total` (exact for the dyadic rates and counts < 2^20 used by the tie).
* Two granularities:
  - call level (`tryAcquire`, `record`, `release`, and `Sys`/`cstep`): `Execute` split into
    acquire → outcome → record → release; concurrent callers interleave between these.
  - atomic level (`Pc`, `fstep`): every shared-memory access of `tryAcquire`/`record` is its
    own step: the unlocked `State()` read, then `openToHalfOpen()` / `halfOpenToClosed()` /
    `toOpen()` each as ONE critical section of `b.mu` that re-validates the source state
    (code after fix 42b281d).
-/
namespace GoaktVerif.Model.C47

inductive St where
  | closed
  | opened
  | halfOpen
  deriving Repr, DecidableEq

/-- sanitized options -/
structure Conf where
  p : Nat                -- failureRate = p / q
  q : Nat
  minReq : Nat
  openTimeout : Int
  bucketNanos : Int      -- window / buckets (1 if that is not positive)
  num : Nat              -- number of buckets
  hmax : Nat             -- halfOpenMaxCalls (capacity of semCh)
  deriving Repr, DecidableEq

/-! ### options.go: defaults and Sanitize (rate kept as p/q; `rateValid` = 0 ≤ rate ≤ 1) -/

structure RawOpts where
  p : Int                -- failureRate = p / q  (q > 0); valid iff 0 ≤ p ≤ q
  q : Nat
  minReq : Int
  openTimeout : Int
  window : Int
  buckets : Int
  hmax : Int
  deriving Repr, DecidableEq

def defaults : RawOpts := ⟨1, 2, 10, 30000000000, 60000000000, 12, 1⟩

def RawOpts.rateValid (o : RawOpts) : Bool := decide (0 ≤ o.p) && decide (o.p ≤ (o.q : Int))

/-- `Sanitize()` (the buckets/window pair is sanitized field by field, as in the code) -/
def sanitize (o : RawOpts) : RawOpts :=
  let d := defaults
  { p := if o.rateValid then o.p else d.p,
    q := if o.rateValid then o.q else d.q,
    minReq := if o.minReq < 1 then d.minReq else o.minReq,
    openTimeout := if o.openTimeout ≤ 0 then d.openTimeout else o.openTimeout,
    window := if o.window ≤ 0 then d.window else o.window,
    buckets := if o.buckets < 1 then d.buckets else o.buckets,
    hmax := if o.hmax < 1 then d.hmax else o.hmax }

/-- `newCircuitBreaker` / `newBuckets`: derive the constants used at run time -/
def mkConf (o : RawOpts) : Conf :=
  let n : Int := if o.buckets < 1 then 1 else o.buckets
  let bd := Int.tdiv o.window n
  { p := o.p.toNat, q := o.q, minReq := o.minReq.toNat, openTimeout := o.openTimeout,
    bucketNanos := if bd ≤ 0 then 1 else bd, num := n.toNat, hmax := o.hmax.toNat }

/-! ### bucket.go -/

structure BW where
  buf : List (Nat × Nat)
  cursor : Nat
  lastUpdate : Int
  deriving Repr, DecidableEq

/-- `hardResetLocked(now)` -/
def BW.hardReset (w : BW) (now : Int) : BW :=
  ⟨w.buf.map (fun _ => (0, 0)), 0, now⟩

def BW.new (num : Nat) (now : Int) : BW := ⟨List.replicate num (0, 0), 0, now⟩

/-- the `for range steps` loop of `advanceLocked` -/
def BW.rotate (num : Nat) (bn : Int) : Nat → BW → BW
  | 0, w => w
  | n + 1, w =>
    let c := (w.cursor + 1) % num
    BW.rotate num bn n ⟨w.buf.set c (0, 0), c, w.lastUpdate + bn⟩

/-- `advanceLocked(now)` -/
def BW.advance (cf : Conf) (now : Int) (w : BW) : BW :=
  let elapsed := now - w.lastUpdate
  if elapsed < cf.bucketNanos then w
  else
    let steps := Int.tdiv elapsed cf.bucketNanos
    if steps ≥ (cf.num : Int) then w.hardReset now
    else BW.rotate cf.num cf.bucketNanos steps.toNat w

/-- `totalsLocked()` -/
def BW.totals (w : BW) : Nat × Nat :=
  w.buf.foldl (fun acc b => (acc.1 + b.1, acc.2 + b.2)) (0, 0)

/-- `buf[cursor].succ++` / `.fail++` -/
def bumpBucket (success : Bool) (b : Nat × Nat) : Nat × Nat :=
  if success then (b.1 + 1, b.2) else (b.1, b.2 + 1)

/-- `add(now, success)`: advance, count, return the totals seen under the same lock -/
def BW.add (cf : Conf) (now : Int) (success : Bool) (w : BW) : BW × (Nat × Nat) :=
  let w1 := w.advance cf now
  let w2 : BW := { w1 with buf := w1.buf.modify w1.cursor (bumpBucket success) }
  (w2, w2.totals)

/-- `snapshot()` (used by Metrics): advance and total -/
def BW.snapshot (cf : Conf) (now : Int) (w : BW) : BW × (Nat × Nat) :=
  let w1 := w.advance cf now
  (w1, w1.totals)

/-! ### breaker.go -/

structure Br where
  state : St
  openUntil : Int
  sem : Nat                 -- tokens currently in `semCh`
  w : BW
  lastFailure : Int
  lastSuccess : Int
  deriving Repr, DecidableEq

def Br.new (cf : Conf) (now : Int) : Br := ⟨.closed, 0, 0, BW.new cf.num now, 0, 0⟩

/-- `transitionTo(target)` (one critical section of `b.mu`) -/
def transitionTo (cf : Conf) (now : Int) (target : St) (b : Br) : Br :=
  if b.state = target then b
  else
    match target with
    | .opened => { b with openUntil := now + cf.openTimeout, state := .opened }
    | t => { b with w := b.w.hardReset now, state := t }

/-- the select on `semCh` -/
def trySem (cf : Conf) (b : Br) : (Bool × Bool) × Br :=
  if b.sem < cf.hmax then ((true, true), { b with sem := b.sem + 1 }) else ((false, false), b)

/-- `openToHalfOpen()` (one critical section of `b.mu`): Open → HalfOpen only if the breaker is
    still Open and the deadline has passed; returns the state it is in afterwards -/
def openToHalfOpen (now : Int) (b : Br) : St × Br :=
  if b.state ≠ .opened then (b.state, b)
  else if now < b.openUntil then (.opened, b)
  else (.halfOpen, { b with w := b.w.hardReset now, state := .halfOpen })

/-- `halfOpenToClosed()` (one critical section of `b.mu`): closes only a breaker that is still HalfOpen -/
def halfOpenToClosed (now : Int) (b : Br) : Br :=
  if b.state ≠ .halfOpen then b
  else { b with w := b.w.hardReset now, state := .closed }

/-- what `tryAcquire` does with the state reported by `openToHalfOpen()` -/
def afterOpenCheck (cf : Conf) (r : St × Br) : (Bool × Bool) × Br :=
  match r.1 with
  | .closed => ((true, false), r.2)
  | .opened => ((false, false), r.2)
  | .halfOpen => trySem cf r.2

/-- `tryAcquire()` run without interference: (allowed, acquired) and the new state -/
def tryAcquire (cf : Conf) (now : Int) (b : Br) : (Bool × Bool) × Br :=
  match b.state with
  | .closed => ((true, false), b)
  | .opened => afterOpenCheck cf (openToHalfOpen now b)
  | .halfOpen => trySem cf b

/-- the threshold test of `record` on the totals returned by `add` -/
def tripped (cf : Conf) (t : Nat × Nat) : Bool := decide (t.2 * cf.q ≥ cf.p * (t.1 + t.2))

def enough (cf : Conf) (t : Nat × Nat) : Bool := decide (cf.minReq ≤ t.1 + t.2)

/-- `record(success)` run without interference -/
def record (cf : Conf) (now : Int) (success : Bool) (b : Br) : Br :=
  let r := b.w.add cf now success
  let b1 : Br := if success then { b with w := r.1, lastSuccess := now } else { b with w := r.1, lastFailure := now }
  if !enough cf r.2 then b1
  else if tripped cf r.2 then transitionTo cf now .opened b1
  else halfOpenToClosed now b1

/-- `release()` -/
def release (b : Br) : Br := { b with sem := b.sem - 1 }

/-- how the protected function ended, as far as `Execute` cares:
    `ok` (nil error), `fail` (error, panic, or deadline expiry), `cancel` (the caller cancelled ctx) -/
inductive Outcome where
  | ok
  | fail
  | cancel
  deriving Repr, DecidableEq

/-- everything `Execute` does after `fn` returned: record (unless cancelled), then release -/
def finish (cf : Conf) (now : Int) (o : Outcome) (acquired : Bool) (b : Br) : Br :=
  let b1 := match o with
    | .ok => record cf now true b
    | .fail => record cf now false b
    | .cancel => b
  if acquired then release b1 else b1

/-- `Metrics()`: only the window is touched (advanced) -/
def metrics (cf : Conf) (now : Int) (b : Br) : Br × (Nat × Nat) :=
  let r := b.w.snapshot cf now
  ({ b with w := r.1 }, r.2)

/-! ### call-level system: any number of callers, interleaving at acquire / finish -/

structure Sys where
  now : Int
  b : Br
  inflight : List (Nat × Bool)     -- (caller id, holds a half-open token)
  deriving Repr, DecidableEq

inductive COp where
  | begin (id : Nat)                 -- caller `id` runs `tryAcquire` (ctx not done)
  | finish (id : Nat) (o : Outcome)  -- `fn` of caller `id` returns; record + release
  | precancelled                     -- `Execute` with a ctx that is already done: nothing happens
  | staleToHalfOpen                  -- a caller preempted after reading `state == Open` resumes: `openToHalfOpen()`
  | staleToClosed                    -- a `record` preempted after its evaluation resumes: `halfOpenToClosed()`
  | metrics
  | tick (d : Nat)
  deriving Repr, DecidableEq

inductive COut where
  | unit
  | admitted (token : Bool)
  | rejected
  | totals (s f : Nat)
  | unknownCaller
  deriving Repr, DecidableEq

def Sys.new (cf : Conf) (t0 : Int) : Sys := ⟨t0, Br.new cf t0, []⟩

def cstep (cf : Conf) (s : Sys) : COp → Sys × COut
  | .begin id =>
    if s.inflight.any (fun c => c.1 == id) then (s, .unknownCaller)   -- ids name callers: no reuse while in flight
    else
      let r := tryAcquire cf s.now s.b
      if r.1.1 then ({ s with b := r.2, inflight := (id, r.1.2) :: s.inflight }, .admitted r.1.2)
      else ({ s with b := r.2 }, .rejected)
  | .finish id o =>
    match s.inflight.find? (fun c => c.1 == id) with
    | none => (s, .unknownCaller)
    | some c =>
      ({ s with b := finish cf s.now o c.2 s.b, inflight := s.inflight.filter (fun c => c.1 != id) }, .unit)
  | .precancelled => (s, .unit)
  | .staleToHalfOpen => ({ s with b := (openToHalfOpen s.now s.b).2 }, .unit)
  | .staleToClosed => ({ s with b := halfOpenToClosed s.now s.b }, .unit)
  | .metrics => let r := metrics cf s.now s.b; ({ s with b := r.1 }, .totals r.2.1 r.2.2)
  | .tick d => ({ s with now := s.now + d }, .unit)

def crun (cf : Conf) (s : Sys) : List COp → Sys × List COut
  | [] => (s, [])
  | op :: ops =>
    let r := cstep cf s op
    let r' := crun cf r.1 ops
    (r'.1, r.2 :: r'.2)

/-! ### atomic-level system: one step per shared-memory access -/

inductive Pc where
  | idle
  | acqOpen                           -- read `state == Open`; next: `openToHalfOpen()`
  | acqSem                            -- about to try the semaphore
  | running (tok : Bool)              -- inside `fn`
  | recEval (tok : Bool) (t : Nat × Nat)   -- `add` done, totals in hand
  | recToClosed (tok : Bool)          -- acceptable rate: next is `halfOpenToClosed()`
  | rel (tok : Bool)
  | done (admitted : Bool)
  deriving Repr, DecidableEq

structure FSys where
  now : Int
  b : Br
  pcs : List Pc                       -- thread id = position
  deriving Repr, DecidableEq

def FSys.new (cf : Conf) (t0 : Int) (nthreads : Nat) : FSys := ⟨t0, Br.new cf t0, List.replicate nthreads .idle⟩

/-- schedule labels: let thread `tid` take its next atomic step (the `Outcome` is used only when
    that step is the return of `fn`), or advance the clock -/
inductive FLabel where
  | thr (tid : Nat) (o : Outcome)
  | tick (d : Nat)
  deriving Repr, DecidableEq

/-- one atomic step of one thread: new breaker state and new pc; `none` when the thread is finished -/
def pcStep (cf : Conf) (now : Int) (b : Br) (o : Outcome) : Pc → Option (Br × Pc)
  | .idle =>
    match b.state with
    | .closed => some (b, .running false)
    | .opened => some (b, .acqOpen)
    | .halfOpen => some (b, .acqSem)
  | .acqOpen =>
    let r := openToHalfOpen now b
    match r.1 with
    | .closed => some (r.2, .running false)
    | .opened => some (r.2, .done false)
    | .halfOpen => some (r.2, .acqSem)
  | .acqSem =>
    let r := trySem cf b
    if r.1.1 then some (r.2, .running true) else some (r.2, .done false)
  | .running tok =>
    match o with
    | .cancel => some (b, .rel tok)
    | .ok =>
      let r := b.w.add cf now true
      some ({ b with w := r.1, lastSuccess := now }, .recEval tok r.2)
    | .fail =>
      let r := b.w.add cf now false
      some ({ b with w := r.1, lastFailure := now }, .recEval tok r.2)
  | .recEval tok t =>
    if !enough cf t then some (b, .rel tok)
    else if tripped cf t then some (transitionTo cf now .opened b, .rel tok)
    else some (b, .recToClosed tok)
  | .recToClosed tok => some (halfOpenToClosed now b, .rel tok)
  | .rel tok => some (if tok then release b else b, .done true)
  | .done _ => none

def fstep (cf : Conf) (s : FSys) : FLabel → Option FSys
  | .tick d => some { s with now := s.now + d }
  | .thr tid o =>
    match s.pcs[tid]? with
    | none => none
    | some pc =>
      match pcStep cf s.now s.b o pc with
      | none => none
      | some (b', pc') => some { s with b := b', pcs := s.pcs.set tid pc' }

/-- run a schedule; labels that are not enabled are skipped -/
def frun (cf : Conf) (s : FSys) : List FLabel → FSys
  | [] => s
  | l :: ls => frun cf ((fstep cf s l).getD s) ls

/-- the trace of breaker states visited by a schedule (for witnesses) -/
def ftrace (cf : Conf) (s : FSys) : List FLabel → List (St × Int × Int)
  | [] => []
  | l :: ls =>
    let s' := (fstep cf s l).getD s
    (s'.b.state, s'.now, s'.b.openUntil) :: ftrace cf s' ls

end GoaktVerif.Model.C47

/-
C25 model — message serializers and their per-type dispatch.

Anchors (goakt, as the code is now):
  remote/proto_serializer.go, remote/cbor_serializer.go, remote/json_serializer.go   (shared frame layout)
  internal/remoteclient/serializer_dispatch.go  (+ client.resolveSerializer, the send-path selection)
  actor/terminated_serializer.go, actor/poison_pill_serializer.go, internal/commands/delivery_serializer.go

Bytes are `Nat`s (a well-formed byte is `< 256`; every encoder below only produces such values).
The third-party encoders (protobuf, CBOR, sonic/JSON) and `address.Parse` are PARAMETERS: records of
functions, no axioms.  Everything goakt itself does — the length-prefixed frame, the header checks,
the magic numbers, the validation of delivery commands, the selection loops — is modelled exactly.
-/
namespace GoaktVerif.Model.C25

abbrev Bytes := List Nat

/-! ### fixed-width big-endian integers -/

/-- `binary.BigEndian.PutUint32(_, uint32(n))`: the Go conversion truncates modulo 2^32 -/
def be32 (n : Nat) : Bytes := [n / 16777216 % 256, n / 65536 % 256, n / 256 % 256, n % 256]

/-- `binary.BigEndian.Uint32(data[:4])`; the callers check the length first (0 when too short) -/
def rd32 : Bytes → Nat
  | a :: b :: c :: d :: _ => a * 16777216 + b * 65536 + c * 256 + d
  | _ => 0

/-- `binary.BigEndian.AppendUint64(_, n)` for `n < 2^64` (taken modulo 2^64) -/
def be64 (n : Nat) : Bytes := be32 (n / 4294967296) ++ be32 n

def rd64 (d : Bytes) : Nat := rd32 d * 4294967296 + rd32 (d.drop 4)

/-- `uint64(i)` for an `int64` value -/
def toU64 (i : Int) : Nat := (i % 18446744073709551616).toNat

/-- `int64(u)` for a `uint64` value -/
def toI64 (u : Nat) : Int :=
  let u := u % 18446744073709551616
  if u < 9223372036854775808 then (u : Int) else (u : Int) - 18446744073709551616

/-! ### the shared frame `[totalLen|nameLen|name|payload]` -/

/-- the frame the three built-in serializers build (`totalLen = 4 + 4 + N + M`) -/
def frame (name payload : Bytes) : Bytes :=
  be32 (8 + name.length + payload.length) ++ be32 name.length ++ name ++ payload

/-- header checks of `ProtoSerializer/CBORSerializer/JSONSerializer.Deserialize` (identical in the three);
    returns the name slice `data[8:8+nameLen]` and the payload slice `data[8+nameLen:totalLen]` -/
def unframe (data : Bytes) : Option (Bytes × Bytes) :=
  if data.length < 8 then none else
  let total := rd32 data
  if data.length < total || total < 8 then none else
  let nameLen := rd32 (data.drop 4)
  if 8 + nameLen > total then none else
  some ((data.drop 8).take nameLen, (data.drop (8 + nameLen)).take (total - (8 + nameLen)))

/-- `frameTypeName` of serializer_dispatch.go: same checks plus `nameLen <= 0` rejected -/
def frameTypeName (data : Bytes) : Option Bytes :=
  if data.length < 8 then none else
  let total := rd32 data
  let nameLen := rd32 (data.drop 4)
  if total < 8 || data.length < total || nameLen = 0 || 8 + nameLen > total then none else
  some ((data.drop 8).take nameLen)

/-! ### errors (a small enum: what the harness canonicalises Go errors to) -/

inductive Err
  | notProto | unknownType | marshal | unmarshal | invalidFrame | nilMessage | notRegistered
  | notEnvelope | invalidMessage | noEncode | noDecode | noSerializer | custom
  deriving DecidableEq, Repr, Inhabited

def Err.str : Err → String
  | .notProto => "not-proto" | .unknownType => "unknown-type" | .marshal => "marshal" | .unmarshal => "unmarshal"
  | .invalidFrame => "invalid-frame" | .nilMessage => "nil-message" | .notRegistered => "not-registered"
  | .notEnvelope => "not-envelope" | .invalidMessage => "invalid-message" | .noEncode => "no-encode"
  | .noDecode => "no-decode" | .noSerializer => "no-serializer" | .custom => "custom"

/-! ### the three built-in serializers over abstract encoders -/

/-- protobuf as a parameter: `message.(proto.Message)`, `proto.MessageName`, `MarshalAppend`,
    `inet.FindMessageType`, `proto.Unmarshal` into a fresh message of the named type -/
structure ProtoCodec (M : Type) where
  isProto : M → Bool
  nameOf : M → Bytes
  marshal : M → Option Bytes
  registered : Bytes → Bool
  unmarshal : Bytes → Bytes → Option M

def protoSerialize {M} (c : ProtoCodec M) (m : M) : Except Err Bytes :=
  if !c.isProto m then .error .notProto else
  let n := c.nameOf m
  if n.length = 0 then .error .unknownType else
  match c.marshal m with
  | none => .error .marshal
  | some p => .ok (frame n p)

/-- after the header checks: registry lookup, then the library's Unmarshal -/
def protoDecodeFrame {M} (c : ProtoCodec M) : Option (Bytes × Bytes) → Except Err M
  | none => .error .invalidFrame
  | some (n, p) =>
    if !c.registered n then .error .unknownType else
    match c.unmarshal n p with
    | none => .error .unmarshal
    | some m => .ok m

def protoDeserialize {M} (c : ProtoCodec M) (data : Bytes) : Except Err M := protoDecodeFrame c (unframe data)

/-- CBOR / JSON as a parameter: `reflect.TypeOf(message) == nil`, the lower-cased type string,
    the global types registry, the library's Marshal / Unmarshal into `reflect.New(elemType)`
    (incl. the primitive-by-value rule, which is part of `unmarshal` here) -/
structure RegCodec (M : Type) where
  isNil : M → Bool
  nameOf : M → Bytes
  registered : Bytes → Bool
  marshal : M → Option Bytes
  unmarshal : Bytes → Bytes → Option M

def regSerialize {M} (c : RegCodec M) (m : M) : Except Err Bytes :=
  if c.isNil m then .error .nilMessage else
  let n := c.nameOf m
  if !c.registered n then .error .notRegistered else
  match c.marshal m with
  | none => .error .marshal
  | some p => .ok (frame n p)

def regDecodeFrame {M} (c : RegCodec M) : Option (Bytes × Bytes) → Except Err M
  | none => .error .invalidFrame
  | some (n, p) =>
    if !c.registered n then .error .notRegistered else
    match c.unmarshal n p with
    | none => .error .unmarshal
    | some m => .ok m

def regDeserialize {M} (c : RegCodec M) (data : Bytes) : Except Err M := regDecodeFrame c (unframe data)

/-! ### the dispatch -/

/-- one `ifaceEntry`: the type test `resolveSerializer` applies (`Implements` for an interface entry,
    type identity for a concrete entry), whether it is a concrete (exact-type) entry, the serializer's two
    methods, and whether the serializer is a `*remote.ProtoSerializer` -/
structure Entry (M : Type) where
  accepts : M → Bool
  exact : Bool
  ser : M → Except Err Bytes
  deser : Bytes → Except Err M
  isProto : Bool

/-- `client.resolveSerializer(message)` for a non-nil message (after fix C25-F1): one loop that returns an
    exact-type entry as soon as it meets one and otherwise remembers the FIRST interface entry the message
    implements — the dispatch order documented on `WithClientSerializers` -/
def resolveFrom {M} : List (Entry M) → M → Nat → Option Nat → Option Nat
  | [], _, _, firstIface => firstIface
  | e :: es, m, i, firstIface =>
    if e.accepts m then
      if e.exact then some i
      else resolveFrom es m (i + 1) (match firstIface with | some j => some j | none => some i)
    else resolveFrom es m (i + 1) firstIface

def resolve {M} (es : List (Entry M)) (m : M) : Option Nat := resolveFrom es m 0 none

/-- the send path (`RemoteTell/RemoteAsk/…`): `resolveSerializer`, nil → "no serializer found", else `Serialize` -/
def sendSerialize {M} (es : List (Entry M)) (m : M) : Except Err Bytes :=
  match resolve es m with
  | none => .error .noSerializer
  | some i =>
    match es[i]? with
    | some e => e.ser m
    | none => .error .noSerializer

/-- `serializerDispatch.Serialize`: first successful encoding in registration order, else the last error -/
def serLoop {M} : List (Entry M) → M → Option Err → Except Err Bytes
  | [], _, some e => .error e
  | [], _, none => .error .noEncode
  | e :: es, m, _ =>
    match e.ser m with
    | .ok d => .ok d
    | .error err => serLoop es m (some err)

def dispSerialize {M} (es : List (Entry M)) (m : M) : Except Err Bytes := serLoop es m none

def deserLoop {M} : List (Entry M) → Bytes → Option Err → Except Err M
  | [], _, some e => .error e
  | [], _, none => .error .noDecode
  | e :: es, d, _ =>
    match e.deser d with
    | .ok m => .ok m
    | .error err => deserLoop es d (some err)

/-- `newSerializerDispatch`: the first entry whose serializer is a `*remote.ProtoSerializer` -/
def firstProto {M} : List (Entry M) → Option (Entry M)
  | [] => none
  | e :: es => if e.isProto then some e else firstProto es

/-- `serializerDispatch.Deserialize`; `protoReg` = `inet.FindMessageType(name)` succeeds -/
def dispDeserialize {M} (protoReg : Bytes → Bool) (es : List (Entry M)) (data : Bytes) : Except Err M :=
  match firstProto es with
  | none => deserLoop es data none
  | some p =>
    match frameTypeName data with
    | none => deserLoop es data none
    | some n =>
      if protoReg n then
        match p.deser data with
        | .ok m => .ok m
        | .error _ => deserLoop es data none
      else deserLoop es data none

/-- the rule the documentation of `WithClientSerializers` states ("Dispatch order: 1. exact concrete type,
    2. first registered interface the message implements"): used by the SPEC, not by the code -/
def resolveDocFrom {M} : List (Entry M) → M → Nat → Option Nat → Option Nat
  | [], _, _, firstIface => firstIface
  | e :: es, m, i, firstIface =>
    if e.accepts m then
      if e.exact then some i
      else resolveDocFrom es m (i + 1) (match firstIface with | some j => some j | none => some i)
    else resolveDocFrom es m (i + 1) firstIface

def resolveDoc {M} (es : List (Entry M)) (m : M) : Option Nat := resolveDocFrom es m 0 none

/-! ### PoisonPill and Terminated envelopes (byte-exact) -/

def poisonMagic : Bytes := [0xDE, 0xAD, 0xBE, 0xEF, 0xCA, 0xFE, 0xBA, 0xBE]

/-- `poisonPillSerializer.Serialize` on a `*PoisonPill` -/
def poisonEncode : Bytes := poisonMagic

/-- `poisonPillSerializer.Deserialize`: `true` = a fresh PoisonPill -/
def poisonDecode (data : Bytes) : Bool := data.length = 8 && data == poisonMagic

def termMagic : Bytes := [0xDE, 0xAD, 0xAC, 0x70, 0x52, 0xBE, 0xEF, 0xED]

/-- `Terminated` as the serializer sees it: `actorPath.String()` as bytes ([] for a nil path) and
    `terminatedAt.UnixNano()` -/
structure Terminated where
  path : Bytes
  nanos : Int
  deriving DecidableEq, Repr

def termEncode (t : Terminated) : Bytes :=
  termMagic ++ be32 t.path.length ++ t.path ++ be64 (toU64 t.nanos)

/-- `terminatedSerializer.Deserialize`; `parse` = `address.Parse(string(pathBytes))` succeeds (C26's subject) -/
def termDecode (parse : Bytes → Bool) (data : Bytes) : Option Terminated :=
  if data.length < 20 || data.take 8 != termMagic then none else
  let pathLen := rd32 (data.drop 8)
  if 12 + pathLen + 8 != data.length then none else
  let path := (data.drop 12).take pathLen
  let nanos := toI64 (rd64 (data.drop (12 + pathLen)))
  if path.length > 0 && !parse path then none else
  some ⟨path, nanos⟩

/-! ### reliable-delivery envelope -/

def deliveryMagic : Bytes := [0xFF, 0xFF, 0xFF, 0xFF, 0x52, 0x44, 0x45, 0x4C]   -- FF FF FF FF 'R' 'D' 'E' 'L'

/-- the five commands of internal/commands/delivery.go (strings as bytes) -/
inductive Cmd
  | registerConsumer (nonce : Bytes)
  | registrationAck (session : Bytes) (nextSeq : Int) (nonce : Bytes)
  | request (session nonce : Bytes) (confirmed upTo : Int) (viaTimeout : Bool)
  | ack (session nonce : Bytes) (confirmed : Int)
  | sequenced (session msgId : Bytes) (seq : Int) (payload : Bytes) (chunked first last : Bool)
  deriving DecidableEq, Repr

/-- `internalpb.DeliveryEnvelope` as a value (what protobuf marshals): the oneof, `payload` and `chunk_info`
    are message-typed fields, hence optional -/
inductive Env
  | none
  | registerConsumer (nonce : Bytes)
  | registrationAck (session : Bytes) (nextSeq : Int) (nonce : Bytes)
  | request (session nonce : Bytes) (confirmed upTo : Int) (viaTimeout : Bool)
  | ack (session nonce : Bytes) (confirmed : Int)
  | sequenced (session msgId : Bytes) (seq : Int) (payload : Option Bytes) (chunk : Option (Bool × Bool))
  deriving DecidableEq, Repr

/-- `types.IsBlank` = `strings.TrimSpace(s) == ""`; on ASCII bytes: only white space -/
def isSpaceByte (b : Nat) : Bool := b = 32 || (9 ≤ b && b ≤ 13)
def isBlank (s : Bytes) : Bool := s.all isSpaceByte

/-- the `validate()` methods -/
def Cmd.valid : Cmd → Bool
  | .registerConsumer nonce => !isBlank nonce
  | .registrationAck s n nonce => !isBlank s && decide (0 < n) && !isBlank nonce
  | .request s nonce c u _ => !isBlank s && !isBlank nonce && decide (0 ≤ c) && decide (c ≤ u)
  | .ack s nonce c => !isBlank s && !isBlank nonce && decide (0 ≤ c)
  | .sequenced s id seq p _ _ _ => !isBlank s && !isBlank id && decide (0 < seq) && decide (0 < p.length)

/-- invariant of the constructors (`NewSequencedMessage` / `NewChunkedSequencedMessage`; the fields are
    unexported): the chunk flags are only set on a chunked message -/
def Cmd.wf : Cmd → Bool
  | .sequenced _ _ _ _ chunked f l => chunked || (!f && !l)
  | _ => true

/-- the `switch` of `DeliverySerializer.Serialize` (after `validate`) -/
def Cmd.toEnv : Cmd → Env
  | .registerConsumer nonce => .registerConsumer nonce
  | .registrationAck s n nonce => .registrationAck s n nonce
  | .request s nonce c u v => .request s nonce c u v
  | .ack s nonce c => .ack s nonce c
  | .sequenced s id seq p chunked f l => .sequenced s id seq (some p) (if chunked then some (f, l) else none)

/-- the `switch` of `DeliverySerializer.Deserialize`: rebuild through the validating constructors -/
def Env.toCmd : Env → Except Err Cmd
  | .none => .error .invalidMessage
  | .registerConsumer nonce => let c := Cmd.registerConsumer nonce; if c.valid then .ok c else .error .invalidMessage
  | .registrationAck s n nonce => let c := Cmd.registrationAck s n nonce; if c.valid then .ok c else .error .invalidMessage
  | .request s nonce c u v => let k := Cmd.request s nonce c u v; if k.valid then .ok k else .error .invalidMessage
  | .ack s nonce c => let k := Cmd.ack s nonce c; if k.valid then .ok k else .error .invalidMessage
  | .sequenced _ _ _ Option.none _ => .error .invalidMessage
  | .sequenced s id seq (some p) Option.none =>
    let k := Cmd.sequenced s id seq p false false false; if k.valid then .ok k else .error .invalidMessage
  | .sequenced s id seq (some p) (some (f, l)) =>
    let k := Cmd.sequenced s id seq p true f l; if k.valid then .ok k else .error .invalidMessage

/-- protobuf marshalling of the envelope as a parameter -/
structure EnvCodec where
  marshal : Env → Option Bytes
  unmarshal : Bytes → Option Env

def deliveryEncode (pc : EnvCodec) (c : Cmd) : Except Err Bytes :=
  if !c.valid then .error .invalidMessage else
  match pc.marshal c.toEnv with
  | none => .error .marshal
  | some b => .ok (deliveryMagic ++ b)

def deliveryDecode (pc : EnvCodec) (data : Bytes) : Except Err Cmd :=
  if data.length < 8 || data.take 8 != deliveryMagic then .error .notEnvelope else
  match pc.unmarshal (data.drop 8) with
  | none => .error .unmarshal
  | some e => e.toCmd

end GoaktVerif.Model.C25

/-
C48 — TTL map (internal/xsync/ttlmap.go).  Hand-written executable model of the concrete
structure: `items` (Go map key → index into `order`), the append-only `order` slice, the `head`
offset, `evict`, `maybeCompact` (fast path and slow path) and the injected clock `now`.

Keys are `Nat`, values `Int`, time is `Int` nanoseconds (the int64 sum `now + ttl` is assumed
not to overflow: see TRUSTED).  The clock is an explicit argument of every operation that reads
it, exactly like the `now func() int64` field.

Go's `map[K]int` is modelled as an association list with at most one pair per key (`put`
erases before it inserts), so `len(s.items)` is the list length.
-/
namespace GoaktVerif.Model.C48

/-- `ttlEntry` -/
structure Entry where
  key : Nat
  val : Int
  exp : Int
  deriving Repr, DecidableEq

/-- the Go map `items` -/
abbrev Items := List (Nat × Nat)

def Items.find (m : Items) (k : Nat) : Option Nat :=
  match m with
  | [] => none
  | (k', i) :: rest => if k' = k then some i else Items.find rest k

/-- `delete(items, k)` -/
def Items.del (m : Items) (k : Nat) : Items := m.filter (fun p => p.1 ≠ k)

/-- `items[k] = i` -/
def Items.put (m : Items) (k i : Nat) : Items := (k, i) :: Items.del m k

structure TTL where
  ttl : Int
  items : Items
  order : List Entry
  head : Nat
  deriving Repr, DecidableEq

def TTL.new (ttl : Int) : TTL := ⟨ttl, [], [], 0⟩

/-- the loop of `evict`, running over the slots `order[head:]` (first argument):
    stop at the first live entry; otherwise unmap the key if this slot is its live mapping,
    and advance the head -/
def evictGo (now : Int) : List Entry → Nat → Items → Nat × Items
  | [], h, it => (h, it)
  | e :: rest, h, it =>
    if now < e.exp then (h, it)
    else evictGo now rest (h + 1) (if it.find e.key = some h then it.del e.key else it)

def evict (now : Int) (s : TTL) : TTL :=
  let r := evictGo now (s.order.drop s.head) s.head s.items
  { s with head := r.1, items := r.2 }

/-- slow path of `maybeCompact`: keep the slots of `order[i:]` that are still the live mapping
    of their key (`i` = index of the first slot of the list argument) -/
def compactSlow (it : Items) : List Entry → Nat → List Entry
  | [], _ => []
  | e :: rest, i =>
    if it.find e.key = some i then e :: compactSlow it rest (i + 1) else compactSlow it rest (i + 1)

/-- `for i := range s.order { s.items[s.order[i].key] = i }` -/
def reindex : List Entry → Nat → Items → Items
  | [], _, it => it
  | e :: rest, i, it => reindex rest (i + 1) (it.put e.key i)

def maybeCompact (s : TTL) : TTL :=
  if s.head = 0 ∨ s.head < s.order.length / 2 then s
  else
    let region := s.order.drop s.head
    let kept :=
      if s.items.length = s.order.length - s.head then region   -- fast path: one bulk move
      else compactSlow s.items region s.head                      -- slow path: filter
    { s with order := kept, items := reindex kept 0 s.items, head := 0 }

/-- `Set(k, v)` with the clock reading `now` -/
def set (now : Int) (k : Nat) (v : Int) (s : TTL) : TTL :=
  let exp := now + s.ttl
  let s1 : TTL :=
    match s.items.find k with
    | some idx => { s with order := s.order.modify idx (fun e => { e with val := v, exp := exp }) }
    | none => { s with items := s.items.put k s.order.length, order := s.order ++ [⟨k, v, exp⟩] }
  maybeCompact (evict now s1)

/-- `Get(k)`: value if a live entry exists; an expired entry is unmapped -/
def get (now : Int) (k : Nat) (s : TTL) : Option Int × TTL :=
  match s.items.find k with
  | none => (none, s)
  | some idx =>
    match s.order[idx]? with
    | none => (none, s)            -- Go would panic (index out of range); unreachable, see `Inv`
    | some e => if now < e.exp then (some e.val, s) else (none, { s with items := s.items.del k })

def delete (k : Nat) (s : TTL) : TTL := { s with items := s.items.del k }

def reset (s : TTL) : TTL := { s with items := [], order := [], head := 0 }

def len (s : TTL) : Nat := s.items.length

/-- is the pair `(k, idx)` of `items` live at `now` -/
def liveSlot (now : Int) (order : List Entry) (p : Nat × Nat) : Bool :=
  match order[p.2]? with
  | some e => decide (now < e.exp)
  | none => false

/-- `ActiveLen()`: counts live entries and unmaps the expired ones (map iteration with
    delete-during-range; the result does not depend on the iteration order) -/
def activeLen (now : Int) (s : TTL) : Nat × TTL :=
  let live := s.items.filter (liveSlot now s.order)
  (live.length, { s with items := live })

/-! ### histories -/

inductive Op where
  | set (k : Nat) (v : Int)
  | get (k : Nat)
  | del (k : Nat)
  | reset
  | len
  | activeLen
  | tick (d : Nat)        -- the clock advances by `d ≥ 0` nanoseconds
  deriving Repr, DecidableEq

inductive Out where
  | unit
  | val (o : Option Int)
  | num (n : Nat)
  deriving Repr, DecidableEq

structure Cfg where
  now : Int
  s : TTL
  deriving Repr, DecidableEq

def step (c : Cfg) : Op → Cfg × Out
  | .set k v => ({ c with s := set c.now k v c.s }, .unit)
  | .get k => let r := get c.now k c.s; ({ c with s := r.2 }, .val r.1)
  | .del k => ({ c with s := delete k c.s }, .unit)
  | .reset => ({ c with s := reset c.s }, .unit)
  | .len => (c, .num (len c.s))
  | .activeLen => let r := activeLen c.now c.s; ({ c with s := r.2 }, .num r.1)
  | .tick d => ({ c with now := c.now + d }, .unit)

def run (c : Cfg) : List Op → Cfg × List Out
  | [] => (c, [])
  | op :: ops =>
    let r := step c op
    let r' := run r.1 ops
    (r'.1, r.2 :: r'.2)

end GoaktVerif.Model.C48

/-
C13 model — stash / unstash / unstashAll, mirroring actor/stash.go, the Stash/Unstash/UnstashAll
methods of actor/receive_context.go and the re-entry through PID.doReceive:

  stash(ctx):     stashState == nil || box == nil ⇒ ErrStashBufferNotSet (nothing changes)
                  else box.Enqueue(cloneContext(ctx))                    -- stash tail
  unstash():      no buffer ⇒ ErrStashBufferNotSet
                  received := box.Dequeue(); nil ⇒ error "stash buffer may be closed"
                  else doReceive(cloneContext(received))                 -- oldest → main mailbox TAIL
  unstashAll():   no buffer ⇒ ErrStashBufferNotSet
                  for !box.IsEmpty() { doReceive(clone(box.Dequeue())) } -- all, oldest first

The mailbox and the stash box are FIFO lists (UnboundedMailbox), `stash = none` means no stash
buffer was configured.  `cloneContext` copies the message-scoped fields, so a message is its
payload `α`.  Every step also emits ghost events (arrived / delivered / stashed / restored /
result) — they do not influence the state; the theorems in Props/C13 are about them.
Core Lean only.
-/
namespace GoaktVerif.Model.C13

structure Core (α : Type) where
  mailbox : List α
  stash : Option (List α)
  deriving Repr, DecidableEq

/-- the three calls a handler can make -/
inductive Act where
  | stash | unstash | unstashAll
  deriving Repr, DecidableEq

/-- what the call recorded with ctx.Err: nothing, ErrStashBufferNotSet, or "stash buffer may be closed" -/
inductive Code where
  | ok | notSet | empty
  deriving Repr, DecidableEq

inductive Ev (α : Type) where
  | arrived (m : α)      -- external Tell put m at the mailbox tail
  | delivered (m : α)    -- m was dequeued and handed to the handler
  | stashed (m : α)      -- a clone of m was appended to the stash box
  | restored (m : α)     -- m left the stash box and was re-enqueued at the mailbox tail
  | result (c : Code)    -- outcome of one Stash/Unstash/UnstashAll call
  deriving Repr, DecidableEq

variable {α : Type}

def doStash (c : Core α) (cur : α) : Core α × List (Ev α) :=
  match c.stash with
  | none => (c, [.result .notSet])
  | some box => ({ c with stash := some (box ++ [cur]) }, [.stashed cur, .result .ok])

def doUnstash (c : Core α) : Core α × List (Ev α) :=
  match c.stash with
  | none => (c, [.result .notSet])
  | some [] => (c, [.result .empty])
  | some (x :: xs) => ({ mailbox := c.mailbox ++ [x], stash := some xs }, [.restored x, .result .ok])

/-- the loop of unstashAll: dequeue the oldest, doReceive it, until the box is empty -/
def drain : List α → List α → List α
  | [], mb => mb
  | x :: xs, mb => drain xs (mb ++ [x])

def doUnstashAll (c : Core α) : Core α × List (Ev α) :=
  match c.stash with
  | none => (c, [.result .notSet])
  | some box => ({ mailbox := drain box c.mailbox, stash := some [] }, box.map .restored ++ [.result .ok])

def doAct (c : Core α) (cur : α) : Act → Core α × List (Ev α)
  | .stash => doStash c cur
  | .unstash => doUnstash c
  | .unstashAll => doUnstashAll c

/-- a handler invocation: the calls it makes, in order, while `cur` is being handled -/
def runActs (c : Core α) (cur : α) : List Act → Core α × List (Ev α)
  | [] => (c, [])
  | a :: as =>
    let r := doAct c cur a
    let r' := runActs r.1 cur as
    (r'.1, r.2 ++ r'.2)

/-- the two things that can happen to an actor: somebody sends it a message, or the dispatcher
    delivers the mailbox head to the handler, which makes an arbitrary list of stash calls -/
inductive Step (α : Type) where
  | arrive (m : α)
  | deliver (acts : List Act)
  deriving Repr

def sysStep (c : Core α) : Step α → Core α × List (Ev α)
  | .arrive m => ({ c with mailbox := c.mailbox ++ [m] }, [.arrived m])
  | .deliver acts =>
    match c.mailbox with
    | [] => (c, [])
    | m :: rest =>
      let r := runActs { c with mailbox := rest } m acts
      (r.1, .delivered m :: r.2)

def runSteps (c : Core α) : List (Step α) → Core α × List (Ev α)
  | [] => (c, [])
  | s :: ss =>
    let r := sysStep c s
    let r' := runSteps r.1 ss
    (r'.1, r.2 ++ r'.2)

/-! ### the scripted actor of the harness (gates make the arrival order deterministic) -/

inductive Msg where
  | user (id : Nat)
  | gate (i : Nat)
  deriving Repr, DecidableEq

def codesOf (evs : List (Ev Msg)) : List Code :=
  evs.filterMap fun | .result c => some c | _ => none

/-- steps performed when the mailbox head is handled: a gate handler makes no call, and while it is
    parked the harness sends batch i (and the next gate); a user message consumes one decision -/
def stepsFor (batches : List (List Nat)) (decision : List Act) : Msg → List (Step Msg)
  | .gate i =>
    .deliver [] :: ((batches.getD (i - 1) []).map fun id => Step.arrive (.user id))
      ++ (if i < batches.length then [Step.arrive (.gate (i + 1))] else [])
  | .user _ => [.deliver decision]

/-- run until the mailbox is empty (fuel bounds the number of deliveries).  Returns the final core,
    the per-delivery observations (id, acts were non-empty, codes) and the full ghost trace. -/
def caseLoop (batches : List (List Nat)) :
    Nat → Core Msg → List (List Act) → Core Msg × List (Nat × Bool × List Code) × List (Ev Msg)
  | 0, c, _ => (c, [], [])
  | fuel + 1, c, ds =>
    match c.mailbox with
    | [] => (c, [], [])
    | m :: _ =>
      let d := match m with | .user _ => ds.headD [] | .gate _ => []
      let ds' := match m with | .user _ => ds.tail | .gate _ => ds
      let r := runSteps c (stepsFor batches d m)
      let rest := caseLoop batches fuel r.1 ds'
      let obs := match m with
        | .user id => [(id, !d.isEmpty, codesOf r.2)]
        | .gate _ => []
      (rest.1, obs ++ rest.2.1, r.2 ++ rest.2.2)

/-- a freshly spawned actor: empty mailbox, stash buffer absent (`none`) or empty -/
def fresh {α : Type} (buf : Bool) : Core α := { mailbox := [], stash := if buf then some [] else none }

/-- the harness first sends gate 1 (if there is any batch) -/
def firstSteps (batches : List (List Nat)) : List (Step Msg) :=
  if batches.isEmpty then [] else [.arrive (.gate 1)]

/-- enough fuel: every delivery is a gate, a first delivery, or a re-delivery that needed its own Stash call -/
def fuelFor (batches : List (List Nat)) (ds : List (List Act)) : Nat :=
  batches.length + (batches.map List.length).sum + (ds.map fun d => (d.filter (· = .stash)).length).sum + 1

def runCase (buf : Bool) (batches : List (List Nat)) (ds : List (List Act)) :
    Core Msg × List (Nat × Bool × List Code) × List (Ev Msg) :=
  let r0 := runSteps (fresh buf) (firstSteps batches)
  let r := caseLoop batches (fuelFor batches ds) r0.1 ds
  (r.1, r.2.1, r0.2 ++ r.2.2)

end GoaktVerif.Model.C13

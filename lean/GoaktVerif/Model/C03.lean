/-
C03 — sequential model of what the harness's recorder actor does with its mailbox (actor/stash.go,
PID.Tell / BatchTell, api.Tell / BatchTell): `Tell` appends to the mailbox, `BatchTell` is `Tell` for
each message in order, `Stash` appends (a clone) to the stash buffer, `Unstash` re-enqueues the OLDEST
stashed message at the tail of the mailbox, `UnstashAll` re-enqueues all of them, oldest first.
-/
namespace GoaktVerif.Model.C03

inductive Item where
  | msg (id : Nat)
  | stashOn          -- control message: start stashing every user message
  | unstashAll       -- control message: stop stashing, ctx.UnstashAll()
  | unstashOne       -- control message: stop stashing, ctx.Unstash()
  deriving Repr, DecidableEq

/-- `Tell`: doReceive → mailbox.Enqueue -/
def tell (mailbox : List Item) (m : Item) : List Item := mailbox ++ [m]

/-- `BatchTell`: `for _, message := range messages { Tell(message) }` -/
def batchTell (mailbox : List Item) (ms : List Item) : List Item := ms.foldl tell mailbox

structure A where
  mailbox : List Item
  stash : List Nat        -- stashState.box, oldest first
  stashing : Bool
  handled : List Nat      -- user messages handled (not stashed), oldest first
  deriving Repr, DecidableEq

/-- the actor handles the head of its mailbox -/
def deliver (a : A) : A :=
  match a.mailbox with
  | [] => a
  | .msg id :: rest =>
    if a.stashing then { a with mailbox := rest, stash := a.stash ++ [id] }
    else { a with mailbox := rest, handled := a.handled ++ [id] }
  | .stashOn :: rest => { a with mailbox := rest, stashing := true }
  | .unstashAll :: rest =>
    { a with mailbox := rest ++ a.stash.map .msg, stash := [], stashing := false }
  | .unstashOne :: rest =>
    match a.stash with
    | [] => { a with mailbox := rest, stashing := false }
    | x :: st => { a with mailbox := rest ++ [.msg x], stash := st, stashing := false }

def deliverN : Nat → A → A
  | 0, a => a
  | n + 1, a => deliverN n (deliver a)

/-- run until the mailbox is empty (fuel bounds the number of deliveries) -/
def runA : Nat → A → A
  | 0, a => a
  | n + 1, a => if a.mailbox.isEmpty then a else runA n (deliver a)

end GoaktVerif.Model.C03

/-
C09 / C10 — the stop path over the tree model: actor/pid.go `Shutdown` → `doStop` →
`freeWatchees`, `freeChildren` (children first, recursively), `PostStop`, `freeWatchers`
(one `Terminated` per running watcher), and actor/death_watch.go `handleTerminated` (→ `deleteNode`).

Actor state is the bit set pid.go uses, reduced to the three bits the stop path reads:
`running` (runningState), `suspended` (suspendedState), `stopping` (stoppingState, set by `Shutdown` for
the duration of `doStop`; `reset()` clears all three).  `PID.IsRunning()` = running ∧ ¬stopping ∧ ¬suspended.

`freeChildren` runs the children in an errgroup (concurrently) and joins them before `PostStop`; the
model runs them one after the other in the order of the `children` snapshot.  The recursion follows the
tree's `descendants`, which is a runtime structure: the model recurses with explicit fuel and returns
`none` when it runs out (never on an acyclic tree with fuel > number of nodes; the theorems are stated
for every run that returns `some`).
-/
import GoaktVerif.Model.C09

namespace GoaktVerif.Model.C09

inductive Ev where
  | postStop (p : Nat)                 -- PostStop of actor p ran (to completion)
  | terminated (watcher about : Nat)   -- `Terminated(about)` was enqueued into `watcher`'s mailbox
  deriving DecidableEq, Repr

structure Sys where
  tree : Tree
  running : List Nat
  suspended : List Nat
  stopping : List Nat
  log : List Ev
  deriving Repr

def mkPid (id : Nat) : Pid := ⟨0, id, 0⟩

/-- `PID.IsRunning()` -/
def Sys.isRunning (s : Sys) (p : Nat) : Bool :=
  s.running.contains p && !s.stopping.contains p && !s.suspended.contains p

/-- `watcher.UnWatch(watchee)` for local actors = `tree.removeWatcher(watchee, watcher)` -/
def Sys.unwatch (s : Sys) (watcher watchee : Nat) : Sys :=
  { s with tree := s.tree.removeWatcher (mkPid watchee) (mkPid watcher) }

/-- `watcher.Watch(watchee)` -/
def Sys.watch (s : Sys) (watcher watchee : Pid) : Sys :=
  { s with tree := s.tree.addWatcher watchee watcher }

/-- `freeWatchees`: snapshot `tree.watchees(p)`, `p.UnWatch(w)` for each -/
def Sys.freeWatchees (s : Sys) (p : Nat) : Sys :=
  match s.tree.watchees p with
  | none => s
  | some ws => ws.foldl (fun s w => s.unwatch p w.id) s

/-- one iteration of the loop in `freeWatchers` -/
def Sys.notify (p : Nat) (s : Sys) (w : Pid) : Sys :=
  if s.isRunning w.id then { (s.unwatch w.id p) with log := s.log ++ [Ev.terminated w.id p] } else s

/-- `freeWatchers`: snapshot `tree.watchers(p)`; every watcher that `IsRunning()` gets one
    `Terminated(p)` and is un-watched -/
def Sys.freeWatchers (s : Sys) (p : Nat) : Sys :=
  match s.tree.watchers p with
  | none => s
  | some ws => ws.foldl (Sys.notify p) s

/-- the deferred part of `doStop`: `setState(runningState,false)` and `reset()` -/
def Sys.offline (s : Sys) (p : Nat) : Sys :=
  { s with running := s.running.filter (· != p), stopping := s.stopping.filter (· != p),
           suspended := s.suspended.filter (· != p) }

/-- one iteration of the loop in `freeChildren(p)` for child `c`; `rec` is the child's `Shutdown`:
    `p.UnWatch(c)`, `removeDescendant(p, c)`, then `c.Shutdown()` if `c.IsSuspended() || c.IsRunning()` -/
def Sys.childStep (rec : Sys → Nat → Option Sys) (p : Nat) (s : Sys) (c : Pid) : Option Sys :=
  let s := s.unwatch p c.id
  let s := { s with tree := s.tree.removeDescendant p c.id }
  if s.suspended.contains c.id || s.isRunning c.id then rec s c.id else some s

/-- `Shutdown(p)`; `none` = out of fuel -/
def Sys.shutdown : Nat → Sys → Nat → Option Sys
  | 0, _, _ => none
  | fuel + 1, s, p =>
    if !s.running.contains p then some s            -- "actor is offline, maybe passivated or stopped already"
    else
      let s1 := ({ s with stopping := p :: s.stopping }).freeWatchees p
      let s2 : Option Sys := match s1.tree.children p with
        | none => some s1                           -- node not found in the tree: no children to free
        | some cs => cs.foldlM (Sys.childStep (Sys.shutdown fuel) p) s1
      s2.bind fun s2 =>
        let s3 := { s2 with log := s2.log ++ [Ev.postStop p] }
        some ((s3.freeWatchers p).offline p)

/-- death watch handling `Terminated(p)`: `deleteNode` of whatever is registered under that path -/
def Sys.deathWatch (s : Sys) (p : Nat) : Sys :=
  { s with tree := s.tree.deleteNode (mkPid p) }

/-- the actors named in the `Terminated` messages sent to watcher `dw`, in order -/
def terminatedTo (dw : Nat) (l : List Ev) : List Nat :=
  l.filterMap (fun e => match e with
    | .terminated w about => if w = dw then some about else none
    | _ => none)

/-- death watch handling, in order, every `Terminated` logged from position `since` on -/
def Sys.drainDeathWatch (s : Sys) (dw : Nat) (since : Nat) : Sys :=
  (terminatedTo dw (s.log.drop since)).foldl Sys.deathWatch s

/-! ### spawn and restart (used by the scenario differential; no theorem depends on `restart`) -/

/-- `attachAndPublish`: `addNode(parent, p)`, `addWatcher(p, deathWatch)`; the actor is running -/
def Sys.spawn (s : Sys) (dw : Nat) (parent p : Pid) : Sys :=
  let t := (s.tree.addNode parent p).1
  { s with tree := t.addWatcher p (mkPid dw), running := p.id :: s.running }

/-- `buildRestartSubtree`: pre-order list of (actor, parent, ids the actor watches at snapshot time) below
    `root`, restricted to running-or-suspended descendants whose parent is `root` or another listed descendant -/
def Sys.restartPlan (s : Sys) : Nat → Nat → List (Nat × Nat × List Nat)
  | 0, _ => []
  | fuel + 1, x =>
    let ds := ((s.tree.descendants x).getD []).map (·.id)
    let alive := ds.filter (fun d => s.isRunning d || s.suspended.contains d)
    let kids := (alive.filter (fun d => ((s.tree.parent d).map (·.id)) == some x)).eraseDups
    kids.flatMap (fun k => (k, x, ((s.tree.watchees k).getD []).map (·.id)) :: s.restartPlan fuel k)

/-- `restartSubtree` for one actor `x` under `parent` (children are handled by the caller, in plan order);
    `watched` = what `x` was watching when the restart began: a restart is not an UnWatch, the watches are
    registered again after the re-attach (no-op for watchees that are gone) -/
def Sys.restartOne (s : Sys) (fuel dw : Nat) (x parent : Nat) (watched : List Nat) : Option Sys := do
  let since := s.log.length
  let s ← if s.isRunning x then s.shutdown fuel x else some s
  let s := s.drainDeathWatch dw since          -- the model lets death watch run before the re-attach
  let s := { s with running := x :: s.running.filter (· != x), suspended := s.suspended.filter (· != x) }
  let t := (s.tree.addOrAttach (mkPid parent) ⟨x, x, 0⟩).1
  let t := t.addWatcher ⟨x, x, 0⟩ (mkPid dw)
  some { s with tree := watched.foldl (fun t w => t.addWatcher ⟨w, w, 0⟩ ⟨x, x, 0⟩) t }

/-- `PID.Restart` -/
def Sys.restart (s : Sys) (fuel dw : Nat) (x : Nat) : Option Sys := do
  let plan := s.restartPlan fuel x
  let parent := ((s.tree.parent x).map (·.id)).getD NOS
  let s ← s.restartOne fuel dw x parent (((s.tree.watchees x).getD []).map (·.id))
  plan.foldlM (fun s e => s.restartOne fuel dw e.1 e.2.1 e.2.2) s

/-- the PostStop order recorded in a log -/
def postStops (l : List Ev) : List Nat :=
  l.filterMap (fun e => match e with | .postStop p => some p | _ => none)

/-- how many `Terminated(about)` watcher `w` was sent -/
def terminatedCount (l : List Ev) (w about : Nat) : Nat :=
  (l.filter (· == Ev.terminated w about)).length

end GoaktVerif.Model.C09

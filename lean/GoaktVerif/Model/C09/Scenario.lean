/-
C09 / C10 — interpreter of `sys` scenario scripts over the stop model (pure; shared by Driver/C09 and Driver/C10).
Actor `a<k>` has id 10+k; root guardian 1, system guardian 2, user guardian 3, death watch 4.
-/
import GoaktVerif.Model.C09.Stop

namespace GoaktVerif.Model.C09.Scenario
open GoaktVerif.Model.C09

def sortNats (l : List Nat) : List Nat := l.mergeSort (fun a b => a ≤ b)

def ROOT : Nat := 1
def SYSG : Nat := 2
def USERG : Nat := 3
def DW : Nat := 4

def actorId? (s : String) : Option Nat :=
  if s.startsWith "a" then (s.drop 1).toString.toNat?.map (· + 10) else none

def actorName (id : Nat) : String := "a" ++ toString (id - 10)

def sysPid (id : Nat) : Pid := ⟨id, id, 0⟩

/-- the tree of a freshly started system (the guardians and the death watch) -/
def sys0 : Sys :=
  let t := (Tree.empty.addRoot (sysPid ROOT)).1
  let t := (t.addNode (sysPid ROOT) (sysPid SYSG)).1
  let t := (t.addNode (sysPid ROOT) (sysPid USERG)).1
  let t := (t.addNode (sysPid SYSG) (sysPid DW)).1
  { tree := t, running := [ROOT, SYSG, USERG, DW], suspended := [], stopping := [], log := [] }

def sysFuel (s : Sys) : Nat := s.tree.pids.length + 2

def showNames (ids : List Nat) : String := ",".intercalate ((sortNats ids).map actorName)

/-- a stop-like op on actor `x`: `Shutdown`, then death watch handles what it was sent -/
def sysStop (s : Sys) (tag : String) (x : Nat) : Option (Sys × String) :=
  let since := s.log.length
  match s.shutdown (sysFuel s) x with
  | none => none
  | some s' =>
    let stopped := (postStops (s'.log.drop since)).filter (· ≥ 10)
    some (s'.drainDeathWatch DW since, s!"{tag}:stopped={showNames stopped}")

def sysOp (s : Sys) (tok : String) : Option (Sys × String) :=
  match tok.splitOn ":" with
  | ["S", x] => do
    let x ← actorId? x
    some (s.spawn DW (sysPid USERG) (sysPid x), "S:ok")
  | ["C", p, x] => do
    let p ← actorId? p
    let x ← actorId? x
    if s.isRunning p then some (s.spawn DW (sysPid p) (sysPid x), "C:ok") else some (s, "C:err")
  | ["W", a, b] => do
    some (s.watch (sysPid (← actorId? a)) (sysPid (← actorId? b)), "W:ok")
  | ["U", a, b] => do
    some (s.unwatch (← actorId? a) (← actorId? b), "U:ok")
  | ["H", _, _, _] =>
    -- hook: a SpawnChild issued from inside a PostStop of the subtree that is being stopped.  The parent it
    -- targets is in the middle of its stop (`stopping` set, hence not `IsRunning()`), so the spawn is refused
    -- and nothing changes; the harness reports `hook=<y>:err`
    some (s, "H:ok")
  | ["F", x] => do
    -- a failure with no matching supervisor directive: `notifyParent` suspends the actor
    let x ← actorId? x
    if s.isRunning x then some ({ s with suspended := x :: s.suspended }, "F:ok") else some (s, "F:err")
  | ["K", x] => do sysStop s "K" (← actorId? x)
  | ["P", x] => do sysStop s "P" (← actorId? x)
  | ["Q", x] => do sysStop s "Q" (← actorId? x)
  | ["T", _, x] => do sysStop s "T" (← actorId? x)
  | ["Z"] => sysStop s "Z" USERG
  | ["R", x] => do
    let x ← actorId? x
    let since := s.log.length
    let s' ← s.restart (sysFuel s) DW x
    let stopped := (postStops (s'.log.drop since)).filter (· ≥ 10)
    some (s', s!"R:stopped={showNames stopped}")
  | _ => none

def sysRun : Sys → List String → List String → Option (Sys × List String)
  | s, [], acc => some (s, acc.reverse)
  | s, tok :: toks, acc =>
    match sysOp s tok with
    | none => none
    | some (s', out) => sysRun s' toks (out :: acc)

def sysEnd (s : Sys) : String :=
  let pairs := (s.log.filterMap (fun e => match e with
    | .terminated w about => if w ≥ 10 && about ≥ 10 then some (w, about) else none
    | _ => none)).eraseDups
  let terms := pairs.map fun (w, a) => s!"{actorName w}>{actorName a}={terminatedCount s.log w a}"
  let reg := (akeys s.tree.pids).filter (· ≥ 10)
  "end:term=" ++ ",".intercalate terms ++ ";tree=" ++ showNames reg

end GoaktVerif.Model.C09.Scenario

/-
C09 — the pointer-free dump of a model tree (same shape as what the harness prints of the real tree).
-/
import GoaktVerif.Model.C09
import GoaktVerif.Spec.C09

namespace GoaktVerif.Model.C09
open GoaktVerif.Spec.C09

def Tree.dumpNode (t : Tree) (n : Node) : DNode :=
  { id := n.pid.id, tag := n.pid.tag, name := n.pid.name
    parent := n.parent.map (fun pp => (pp.id, (t.live pp).isSome))
    watchers := n.watchers.map (fun e => (e.1, e.2.tag))
    watchees := n.watchees.map (fun e => (e.1, e.2.tag))
    desc := n.desc.map (fun e => (e.1, (t.live ⟨e.1, e.2⟩).isSome)) }

def Tree.toDump (t : Tree) : Dump :=
  { counter := t.counter
    names := t.names.map (fun e => (e.1, e.2.id, (t.live e.2).isSome))
    shadowed := t.shadowed.map (fun e => (e.1, e.2.map (fun q => (q.id, (t.live q).isSome))))
    nodes := t.pids.map (fun e => t.dumpNode e.2) }

end GoaktVerif.Model.C09

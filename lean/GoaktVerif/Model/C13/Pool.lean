/-
C13, physical layer — which ReceiveContext OBJECT sits where (actor/pools.go getContext/cloneContext,
the intrusive UnboundedMailbox of actor/unbounded_mailbox.go, actor/stash.go).

A ReceiveContext is a node of at most one mailbox at a time (its `next` field is the link).  A
mailbox keeps the context it handed out last as its sentinel; the NEXT Dequeue resets that old
sentinel and puts it into the global pool (`contextCh`), from where getContext hands it out again.
So stashing must enqueue a CLONE (the original is the main mailbox's sentinel) and unstashing must
re-enqueue a CLONE (the dequeued one is now the stash mailbox's sentinel).

State: contexts are numbers; `main`/`stash` = (sentinel, queued contexts); `pool` = free contexts;
`fresh` = next never-used number (getContext falls back to `new(ReceiveContext)`).
`fast = true` is the seeded defect C13-m2 (unstash re-enqueues the dequeued context itself when the
stash became empty).  Core Lean only.
-/
namespace GoaktVerif.Model.C13.Pool

structure MBox where
  sent : Nat
  q : List Nat
  deriving Repr, DecidableEq

structure S where
  main : MBox
  stash : Option MBox
  pool : List Nat
  fresh : Nat
  deriving Repr, DecidableEq

def stashIds (s : S) : List Nat :=
  match s.stash with
  | none => []
  | some b => b.sent :: b.q

/-- every place a context can be in (the handler's current context is `main.sent`) -/
def ids (s : S) : List Nat := s.main.sent :: (s.main.q ++ (stashIds s ++ s.pool))

/-- getContext + Enqueue on the main mailbox (a Tell, or the re-entry of an unstashed clone) -/
def putMain (s : S) : S :=
  match s.pool with
  | x :: r => { s with pool := r, main := { s.main with q := s.main.q ++ [x] } }
  | [] => { s with fresh := s.fresh + 1, main := { s.main with q := s.main.q ++ [s.fresh] } }

/-- cloneContext + Enqueue on the stash mailbox -/
def putStash (s : S) : S :=
  match s.stash with
  | none => s
  | some b =>
    match s.pool with
    | x :: r => { s with pool := r, stash := some { b with q := b.q ++ [x] } }
    | [] => { s with fresh := s.fresh + 1, stash := some { b with q := b.q ++ [s.fresh] } }

/-- main.Dequeue: the head of the queue becomes the sentinel (= the handler's context), the old sentinel is reset and pooled -/
def popMain (s : S) : S :=
  match s.main.q with
  | [] => s
  | x :: r => { s with main := ⟨x, r⟩, pool := s.pool ++ [s.main.sent] }

/-- stash.Dequeue, likewise -/
def popStash (s : S) : S :=
  match s.stash with
  | none => s
  | some b =>
    match b.q with
    | [] => s
    | x :: r => { s with stash := some ⟨x, r⟩, pool := s.pool ++ [b.sent] }

/-- unstash of actor/stash.go: Dequeue from the stash, re-enqueue a clone on the main mailbox.
    `fast` = the seeded variant: if the stash is now empty, re-enqueue the dequeued context ITSELF. -/
def unstash (fast : Bool) (s : S) : S :=
  match s.stash with
  | none => s
  | some b =>
    match b.q with
    | [] => s
    | x :: r =>
      let s1 := popStash s
      if fast && r.isEmpty then { s1 with main := { s1.main with q := s1.main.q ++ [x] } }
      else putMain s1

def unstashAll (s : S) : Nat → S
  | 0 => s
  | n + 1 => unstashAll (unstash false s) n

inductive Step where
  | tell          -- somebody sends a message
  | deliver       -- the dispatcher dequeues the next message
  | stash | unstash | unstashAll
  | envTake       -- another actor takes a free context out of the global pool
  deriving Repr, DecidableEq

def step (fast : Bool) (s : S) : Step → S
  | .tell => putMain s
  | .deliver => popMain s
  | .stash => putStash s
  | .unstash => unstash fast s
  | .unstashAll => unstashAll s ((stashIds s).length)
  | .envTake => { s with pool := s.pool.tail }

def run (fast : Bool) (s : S) : List Step → S
  | [] => s
  | x :: xs => run fast (step fast s x) xs

/-- a freshly spawned actor: two mailboxes with their initial sentinels, empty pool -/
def init (buf : Bool) : S := { main := ⟨0, []⟩, stash := if buf then some ⟨1, []⟩ else none, pool := [], fresh := 2 }

end GoaktVerif.Model.C13.Pool

/-
C16 — model of goakt's reentrant request machinery AS THE CODE IS (core Lean only).

Anchors: actor/reentrancy.go (requestState.complete / setCallback / cancel, reentrancyState),
actor/pid.go (request, registerRequestState, deregisterRequestState, completeRequest,
enqueueAsyncError, cancelInFlightRequests, dispatchOne + enableReentrancyStash, handleAsyncResponse),
actor/stash.go (stash, unstashAll).

One requester actor.  Its mailbox is a FIFO `queue`; `dispatch` is one `dispatchOne`; `pump` is the
dispatcher draining the mailbox.  Requests are named by the labels of the case script (the
correlation id).  The responder only matters through the AsyncResponse it sends when told to.
-/
namespace GoaktVerif.Model.C16

inductive Mode | off | allowAll | stash
  deriving DecidableEq, Repr

inductive Outcome | ok | timeout | canceled
  deriving DecidableEq, Repr

/-- who completed a request: the AsyncResponse envelope dequeued on the requester's turn, or
    cancelInFlightRequests (shutdown), which completes without invoking callbacks -/
inductive By | envelope | shutdown
  deriving DecidableEq, Repr

/-- requestState + what the script knows about the request -/
structure Req where
  mode : Mode
  completed : Bool := false
  outcome : Outcome := .ok
  who : By := .envelope             -- ghost, meaningful when completed
  hasCb : Bool := false             -- a continuation is registered (Then)
  cancelRequested : Bool := false
  inMap : Bool := true              -- present in requestStates
  fired : Nat := 0                  -- ghost: how often the continuation ran
  deriving DecidableEq, Repr

inductive Msg
  | user (k : Nat)
  | hold
  | reqCmd (k : Nat) (m : Option Mode) (thenNow : Bool)
  | resp (k : Nat) (o : Outcome)
  deriving DecidableEq, Repr

def Msg.isResp : Msg → Bool
  | .resp _ _ => true
  | _ => false

inductive QRes | ok | lim | dis
  deriving DecidableEq, Repr

inductive Entry
  | handled (k : Nat)                       -- `m<k>`
  | held                                    -- `H`
  | req (k : Nat) (r : QRes)                -- `q<k>=..`
  | cb (k : Nat) (o : Outcome) (onTurn : Bool)
  deriving DecidableEq, Repr

structure St where
  installed : Bool       -- pid.reentrancy != nil
  defMode : Mode
  maxInFlight : Nat      -- 0 = unlimited
  grainTarget : Bool := false   -- requests go to a grain (RequestGrain); only the reply route differs
  reqs : List (Nat × Req) := []
  inFlight : Int := 0
  blocking : Int := 0
  queue : List Msg := []
  stash : List Msg := []
  held : Bool := false
  permits : Nat := 0
  running : Bool := true
  log : List Entry := []
  deriving Repr

def getReq (l : List (Nat × Req)) (k : Nat) : Option Req :=
  match l with
  | [] => none
  | (k', r) :: rest => if k' = k then some r else getReq rest k

def setReq (l : List (Nat × Req)) (k : Nat) (r : Req) : List (Nat × Req) :=
  match l with
  | [] => [(k, r)]
  | (k', r') :: rest => if k' = k then (k, r) :: rest else (k', r') :: setReq rest k r

/-- `registerRequestState` + the rest of `request` for a message `reqCmd k m thenNow` handled by the requester -/
def doRequest (s : St) (k : Nat) (m : Option Mode) (thenNow : Bool) : St :=
  -- labels are correlation ids (fresh UUIDs in the code): a script never issues a label twice
  -- (the parsers reject it); the model ignores such a command so that every theorem is unconditional
  if (getReq s.reqs k).isSome then s else
  if !s.installed then { s with log := s.log ++ [.req k .dis] } else
  let mode := m.getD s.defMode
  if mode = .off then { s with log := s.log ++ [.req k .dis] } else
  if s.maxInFlight > 0 ∧ s.inFlight ≥ s.maxInFlight then { s with log := s.log ++ [.req k .lim] } else
  { s with
    inFlight := s.inFlight + 1,
    blocking := if mode = .stash then s.blocking + 1 else s.blocking,
    reqs := setReq s.reqs k { mode := mode, hasCb := thenNow },
    log := s.log ++ [.req k .ok] }

/-- `completeRequest` for an AsyncResponse dequeued by the requester: complete (first wins),
    deregisterRequestState (unstashAll when the last blocking request goes), then the continuation -/
def doResponse (s : St) (k : Nat) (o : Outcome) : St :=
  if !s.installed then s else
  match getReq s.reqs k with
  | none => s
  | some r =>
    if !r.inMap then s else          -- unknown correlation id: dropped
    if r.completed then s else
    let r' := { r with completed := true, outcome := o, who := .envelope, inMap := false,
                       fired := if r.hasCb then r.fired + 1 else r.fired }
    let blocking' := if r.mode = .stash then s.blocking - 1 else s.blocking
    let release := r.mode = .stash ∧ blocking' = 0
    { s with
      reqs := setReq s.reqs k r',
      inFlight := s.inFlight - 1,
      blocking := blocking',
      queue := if release then s.queue ++ s.stash else s.queue,
      stash := if release then [] else s.stash,
      log := if r.hasCb then s.log ++ [.cb k o true] else s.log }

/-- one `dispatchOne` on message `m` (already dequeued) -/
def dispatch (s : St) (m : Msg) : St :=
  if s.installed && decide (s.blocking > 0) && !m.isResp then { s with stash := s.stash ++ [m] } else
  match m with
  | .user k => { s with log := s.log ++ [.handled k] }
  | .hold =>
    let s : St := { s with log := s.log ++ [Entry.held] }
    if s.permits > 0 then { s with permits := s.permits - 1 } else { s with held := true }
  | .reqCmd k m t => doRequest s k m t
  | .resp k o => doResponse s k o

/-- the dispatcher drains the mailbox until it is empty or a handler parks -/
def pump : Nat → St → St
  | 0, s => s
  | fuel + 1, s =>
    if s.held then s else
    match s.queue with
    | [] => s
    | m :: rest => pump fuel (dispatch { s with queue := rest } m)

def countResp (l : List Msg) : Nat := (l.filter Msg.isResp).length

/-- enough fuel: every iteration either consumes a response (the only thing that can grow the queue)
    or shortens the queue -/
def fuelFor (s : St) : Nat := (countResp s.queue + 1) * (s.queue.length + s.stash.length + 1) + 1

def drain (s : St) : St := pump (fuelFor s) s

/-! ### ops of the script -/

inductive Op
  | q (k : Nat) (m : Option Mode) (thenNow : Bool)
  | m (k : Nat)
  | a (k : Nat)     -- another actor sends a Request to the requester: an AsyncRequest envelope carrying an ordinary message
  | r (k : Nat)
  | x (k : Nat)
  | c (k : Nat)
  | T (k : Nat)
  | H
  | L
  | S
  deriving Repr

inductive Res | ok | dead | none | gone | err | held
  deriving DecidableEq, Repr

def enqueue (s : St) (m : Msg) : St := drain { s with queue := s.queue ++ [m] }

/-- `cancelInFlightRequests` (completes every tracked request with ErrRequestCanceled, no callback) -/
def cancelAll (l : List (Nat × Req)) : List (Nat × Req) :=
  l.map fun (k, r) =>
    if r.inMap && !r.completed then (k, { r with completed := true, outcome := .canceled, who := .shutdown, inMap := false })
    else (k, { r with inMap := false })

def step (s : St) (op : Op) : St × Res :=
  match op with
  | .q k m t => if !s.running then (s, .dead) else (enqueue s (.reqCmd k m t), .ok)
  | .m k => if !s.running then (s, .dead) else (enqueue s (.user k), .ok)
  -- the envelope is an ordinary message for the stash gate (only AsyncResponse bypasses it); the peer's send
  -- fails silently when the requester is gone.  Its handling is logged as user message 100 + k.
  | .a k => if !s.running then (s, .ok) else (enqueue s (.user (100 + k)), .ok)
  | .H => if !s.running then (s, .dead) else (enqueue s .hold, .ok)
  | .L => if s.held then (drain { s with held := false }, .ok) else ({ s with permits := s.permits + 1 }, .ok)
  | .r k =>
    -- the responder holds a reply route only for requests that were sent
    match getReq s.reqs k with
    | none => (s, .none)
    | some _ =>
      -- an actor responder's reply route reports the dead requester; a GrainReply only logs it
      if !s.running then (s, if s.grainTarget then .ok else .err) else (enqueue s (.resp k .ok), .ok)
  | .x k =>
    match getReq s.reqs k with
    | none => (s, .none)
    | some _ => if !s.running then (s, .gone) else (enqueue s (.resp k .timeout), .ok)
  | .c k =>
    match getReq s.reqs k with
    | none => (s, .none)
    | some r =>
      if !s.running then (s, .gone) else
      -- requestState.cancel: nothing when completed or already requested
      if r.completed || r.cancelRequested then (s, .ok)
      else (enqueue { s with reqs := setReq s.reqs k { r with cancelRequested := true } } (.resp k .canceled), .ok)
  | .T k =>
    match getReq s.reqs k with
    | none => (s, .none)
    | some r =>
      -- requestState.setCallback, called off the requester's turn
      if r.hasCb then (s, .ok)
      else if r.completed then
        ({ s with reqs := setReq s.reqs k { r with hasCb := true, fired := r.fired + 1 },
                  log := s.log ++ [.cb k r.outcome false] }, .ok)
      else ({ s with reqs := setReq s.reqs k { r with hasCb := true } }, .ok)
  | .S =>
    if s.held then (s, .held) else
    if !s.running then (s, .gone) else
    ({ s with running := false, reqs := cancelAll s.reqs, inFlight := 0, blocking := 0 }, .ok)

def St.init (installed : Bool) (defMode : Mode) (max : Nat) (grainTarget : Bool := false) : St :=
  { installed := installed, defMode := defMode, maxInFlight := max, grainTarget := grainTarget }

/-- run a script, returning after each op the state and the op's result -/
def run (s : St) : List Op → List (St × Res)
  | [] => []
  | op :: ops => let r := step s op; r :: run r.1 ops

end GoaktVerif.Model.C16

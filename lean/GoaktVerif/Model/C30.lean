/-
C30 — small-step model of goakt's grain activation protocol
(actor/grain_engine.go: ensureGrainProcess / ensureExistingGrainProcess / ensureNewGrainProcess /
ensureGrainOwnership / getGrainOwner / tryClaimGrain / finalizeGrainActivation;
actor/grain_pid.go: activate / deactivate; internal/cluster/cluster.go: GrainExists / GetGrain /
putGrainIfAbsent / PutGrain / RemoveGrain) for ONE grain identity on several nodes that share the
cluster registry.

One transition per schedule point of the E3 harness:
  `op:<op>`            start of an operation on a logical thread
  `Load:running`       first point of every registry method of cluster.go (a stutter: reads a constant)
  `RLock:mu`/`Lock:mu` the registry method takes its lock, accesses the store and returns
  `grain:OnActivate` / `grain:OnDeactivate`   the user hooks
The code that runs between two points is executed by the step that leaves the first one.

The registry is a single cell `reg : Option Node` (who the stored record names): the store behind it
is atomic per operation (assumed contract of olric, see the trusted base).

Model of the code AS IT IS, including
  * `tryClaimGrain` returning (false, nil, nil) when the NX put is refused and the owner record has
    vanished before the re-read: the caller then activates WITHOUT a claim (`claimGet`, `fix = false`);
  * `deactivate` removing the registry record unconditionally, outside the activation single flight.
`fix = true` is the proposed repair of the first point (retry the claim).
-/
namespace GoaktVerif.Model.C30

abbrev Node := Nat
abbrev ProcId := Nat

/-- one `grainPID` (local process object) -/
structure Proc where
  node : Node
  /-- `grainPID.activated` -/
  activated : Bool
  /-- the grain instance is ACTIVE: OnActivate returned nil and OnDeactivate was not entered since -/
  hook : Bool
  deriving Repr, DecidableEq

/-- operations of a logical thread -/
inductive Op where
  | s   -- ensureGrainProcess
  | sa  -- ensureGrainProcess, OnActivate fails
  | sp  -- ensureGrainProcess, the publication (plain put) fails
  | d   -- grainPID.deactivate on the process in the local table
  | t   -- time passes: leased registry records expire (the code as it is writes none)
  deriving Repr, DecidableEq

inductive Res where
  | ok | own (n : Node) | eact | ereg | none | tick
  deriving Repr, DecidableEq

/-- registry log entries (who, what) -/
inductive RegEv where
  | getHit (n : Node) | getMiss (n : Node) | put (n : Node) | putFail (n : Node)
  | nxOk (n : Node) | nxRefused (n : Node) | del (n : Node)
  deriving Repr, DecidableEq

inductive HookEv where
  | act (n : Node) | fail (n : Node) | deact (n : Node) | deactIdle (n : Node)
  deriving Repr, DecidableEq

inductive PC where
  | opStart                       -- at `op:<op>`
  | ownExists (p : ProcId)         -- getGrainOwner: GrainExists                         (RLock)
  | ownGet (p : ProcId)            -- getGrainOwner: GetGrain                            (RLock)
  | claimNx (p : ProcId)           -- tryClaimGrain: putGrainIfAbsent                    (Lock)
  | claimGet (p : ProcId)          -- tryClaimGrain: GetGrain after a refused NX put     (RLock)
  | activate (p : ProcId) (claimed : Bool)   -- grainPID.activate: at grain:OnActivate
  | failDel (p : ProcId)           -- RemoveGrain after a failed activation that held a claim (Lock)
  | finPut (p : ProcId)            -- finalizeGrainActivation: PutGrain                  (Lock)
  | rbHook (p : ProcId)            -- rollback after failed publication: deactivate, at grain:OnDeactivate
  | rbDel (p : ProcId)             -- rollback: RemoveGrain                              (Lock)
  | dHook (p : ProcId)             -- deactivate: at grain:OnDeactivate
  | dDel (p : ProcId)              -- deactivate: RemoveGrain                            (Lock)
  deriving Repr, DecidableEq

/-- registry methods start with the `Load:running` stutter -/
def PC.isReg : PC → Bool
  | .ownExists _ | .ownGet _ | .claimNx _ | .claimGet _ | .failDel _ | .finPut _ | .rbDel _ | .dDel _ => true
  | _ => false

structure Thread where
  node : Node
  pc : Option PC          -- none = finished
  pre : Bool              -- parked at `Load:running` in front of the registry method of `pc`
  cur : Op                -- operation in progress
  prog : List Op          -- operations still to run after the current one
  results : List Res      -- reversed
  deriving Repr, DecidableEq

/-- shared state -/
structure Sh where
  nn : Nat                          -- number of nodes
  reg : Option Node                 -- the registry record of the grain: which node it names
  nprocs : Nat
  procs : ProcId → Proc
  tbl : Node → Option ProcId        -- the local `grains` table of every node
  maxAct : Nat
  ev : List HookEv                  -- reversed
  log : List RegEv                  -- reversed

structure Cfg where
  sh : Sh
  threads : List Thread

def upd {α : Type} (f : Nat → α) (k : Nat) (v : α) : Nat → α := fun i => if i = k then v else f i

/-- number of ACTIVE grain instances in the whole cluster -/
def activeCount (sh : Sh) : Nat := ((List.range sh.nprocs).filter fun q => (sh.procs q).hook).length

def activeOn (sh : Sh) (n : Node) : Nat :=
  ((List.range sh.nprocs).filter fun q => (sh.procs q).hook && (sh.procs q).node == n).length

def goto (t : Thread) (pc : PC) : Thread := { t with pc := some pc, pre := pc.isReg }

/-- the current operation returned `r`; park at the start of the next one -/
def finish (t : Thread) (r : Res) : Thread :=
  match t.prog with
  | [] => { t with pc := none, pre := false, prog := [], results := r :: t.results }
  | op :: rest => { t with pc := some .opStart, pre := false, cur := op, prog := rest, results := r :: t.results }

def setProc (sh : Sh) (p : ProcId) (f : Proc → Proc) : Sh := { sh with procs := upd sh.procs p (f (sh.procs p)) }

/-- the OnDeactivate hook followed by `grains.Delete` (first half of `grainPID.deactivate`) -/
def hookOff (sh : Sh) (n : Node) (p : ProcId) : Sh :=
  let e := if (sh.procs p).hook then HookEv.deact n else HookEv.deactIdle n
  { setProc sh p (fun pr => { pr with hook := false }) with tbl := upd sh.tbl n none, ev := e :: sh.ev }

/-- RemoveGrain followed by the deferred `activated.Store(false)` (second half of `deactivate`) -/
def delOff (sh : Sh) (n : Node) (p : ProcId) : Sh :=
  { setProc sh p (fun pr => { pr with activated := false }) with reg := none, log := .del n :: sh.log }

/-- successful OnActivate, `activated.Store(true)`, then `grains.Set` of finalizeGrainActivation -/
def activateOn (sh : Sh) (n : Node) (p : ProcId) : Sh :=
  let sh2 : Sh := { setProc sh p (fun pr => { pr with activated := true, hook := true }) with
    tbl := upd sh.tbl n (some p), ev := .act n :: sh.ev }
  { sh2 with maxAct := max sh2.maxAct (activeCount sh2) }

/-- `newGrainPID` of ensureNewGrainProcess -/
def newProc (sh : Sh) (n : Node) : Sh :=
  { sh with nprocs := sh.nprocs + 1, procs := upd sh.procs sh.nprocs { node := n, activated := false, hook := false } }

/-- a registry read / refused write: only the log grows -/
def logReg (sh : Sh) (e : RegEv) : Sh := { sh with log := e :: sh.log }

/-- a registry write -/
def setReg (sh : Sh) (r : Option Node) (e : RegEv) : Sh := { sh with reg := r, log := e :: sh.log }

def logEv (sh : Sh) (e : HookEv) : Sh := { sh with ev := e :: sh.ev }

/-- effect of the step that leaves the point `pc` (registry methods: the step that takes the lock) -/
def exec (fix : Bool) (sh : Sh) (t : Thread) : PC → Sh × Thread
  | .opStart =>
    match t.cur with
    | .t => (sh, finish t .tick)
    | .d =>
      match sh.tbl t.node with
      | none => (sh, finish t .none)
      | some p => (sh, goto t (.dHook p))
    | _ =>
      match sh.tbl t.node with
      | some p =>
        if (sh.procs p).activated then (sh, finish t .ok)       -- fast path / already active inside the flight
        else (sh, goto t (.ownExists p))                          -- ensureExistingGrainProcess
      | none => (newProc sh t.node, goto t (.ownExists sh.nprocs)) -- ensureNewGrainProcess
  | .ownExists p =>
    match sh.reg with
    | none => (logReg sh (.getMiss t.node), goto t (.claimNx p))
    | some _ => (logReg sh (.getHit t.node), goto t (.ownGet p))
  | .ownGet p =>
    match sh.reg with
    | none => (logReg sh (.getMiss t.node), goto t (.claimNx p))
    | some o =>
      if o = t.node then (logReg sh (.getHit t.node), goto t (.activate p false))
      else (logReg sh (.getHit t.node), finish t (.own o))
  | .claimNx p =>
    match sh.reg with
    | none => (setReg sh (some t.node) (.nxOk t.node), goto t (.activate p true))
    | some _ => (logReg sh (.nxRefused t.node), goto t (.claimGet p))
  | .claimGet p =>
    match sh.reg with
    | none =>
      -- tryClaimGrain returns (false, nil, nil): the caller goes on WITHOUT a claim
      if fix then (logReg sh (.getMiss t.node), goto t (.claimNx p))
      else (logReg sh (.getMiss t.node), goto t (.activate p false))
    | some o =>
      if o = t.node then (logReg sh (.getHit t.node), goto t (.activate p false))
      else (logReg sh (.getHit t.node), finish t (.own o))
  | .activate p claimed =>
    if t.cur = .sa then
      if claimed then (logEv sh (.fail t.node), goto t (.failDel p))
      else (logEv sh (.fail t.node), finish t .eact)
    else
      -- OnActivate ok; activated.Store(true); finalize: grains.Set; PutGrain (next point)
      (activateOn sh t.node p, goto t (.finPut p))
  | .failDel _ => (setReg sh none (.del t.node), finish t .eact)
  | .finPut p =>
    if t.cur = .sp then (logReg sh (.putFail t.node), goto t (.rbHook p))
    else (setReg sh (some t.node) (.put t.node), finish t .ok)
  | .rbHook p => (hookOff sh t.node p, goto t (.rbDel p))
  | .rbDel p => (delOff sh t.node p, finish t .ereg)
  | .dHook p => (hookOff sh t.node p, goto t (.dDel p))
  | .dDel p => (delOff sh t.node p, finish t .ok)

def opName : Op → String
  | .s => "s" | .sa => "sa" | .sp => "sp" | .d => "d" | .t => "t"

def label (t : Thread) : PC → String
  | .opStart => "op:" ++ opName t.cur
  | .ownExists _ | .ownGet _ | .claimGet _ => "RLock:mu"
  | .claimNx _ | .failDel _ | .finPut _ | .rbDel _ | .dDel _ => "Lock:mu"
  | .activate _ _ => "grain:OnActivate"
  | .rbHook _ | .dHook _ => "grain:OnDeactivate"

/-- one step of thread `tid`, with the label of the point it leaves -/
def stepL (fix : Bool) (c : Cfg) (tid : Nat) : String × Cfg :=
  match c.threads[tid]? with
  | none => ("!nothread", c)
  | some t =>
    match t.pc with
    | none => ("!done", c)
    | some pc =>
      if t.pre then ("Load:running", { c with threads := c.threads.set tid { t with pre := false } })
      else
        let (sh', t') := exec fix c.sh t pc
        (label t pc, { sh := sh', threads := c.threads.set tid t' })

def step (fix : Bool) (c : Cfg) (tid : Nat) : Cfg := (stepL fix c tid).2

def mkThread (node : Node) (prog : List Op) : Thread :=
  match prog with
  | [] => { node, pc := none, pre := false, cur := .s, prog := [], results := [] }
  | op :: rest => { node, pc := some .opStart, pre := false, cur := op, prog := rest, results := [] }

def initSh (nn : Nat) : Sh :=
  { nn, reg := none, nprocs := 0, procs := fun _ => { node := 0, activated := false, hook := false },
    tbl := fun _ => none, maxAct := 0, ev := [], log := [] }

def init (nn : Nat) (thr : List (Node × List Op)) : Cfg :=
  { sh := initSh nn, threads := thr.map fun (n, prog) => mkThread n prog }

def done (c : Cfg) (tid : Nat) : Bool :=
  match c.threads[tid]? with
  | some t => t.pc.isNone
  | none => true

def run (fix : Bool) (c : Cfg) : List Nat → Cfg
  | [] => c
  | tid :: rest => run fix (step fix c tid) rest

end GoaktVerif.Model.C30

/-
C01 / C02 — the per-actor dispatch machine (actor/dispatch_state.go, actor/pid.go doReceive /
runTurn / finishOrReclaim / restartSubtree, actor/dispatcher.go schedule, actor/worker.go reschedule)
as a small-step model, one transition per atomic operation, labelled exactly as tools/yieldinject
labels the sites of the Go code.

The user mailbox is the RESERVATION QUEUE (the sequential spec every Vyukov-style mailbox refines,
see C04): `cells` in reservation order, a cell is `ready` once published; a dequeue / IsEmpty looks at
the head cell only and answers "nothing" while it is unpublished.  The mailbox-internal atomic
operations that are not linearisation points are stutter steps with the same labels as the code
(`Store:next`, `Load:head`, `Store:head` …), so a schedule of the real, instrumented code can be
replayed step by step.  The system mailbox is always empty here (no control messages are sent).
The ready queue is abstracted to the number `rq` of entries for this actor (all rings together).

Threads: senders (`t<k>` = Tell message k), dispatcher workers (`w<i>` = one take-and-run-turn
attempt), and a restart thread (`r`, first op only: `Load:restartCount` snapshot, whose step also performs the
Shutdown; then the wait loop, init, `Store:restartCount` and its own PostStart message, id 0).
-/
namespace GoaktVerif.Model.C01

inductive Sched where
  | idle | scheduled | processing
  deriving Repr, DecidableEq

structure Cell where
  id : Nat
  ready : Bool
  deriving Repr, DecidableEq

inductive PC where
  -- sender: mailbox.Enqueue ; schedState.TrySchedule ; dispatcher.schedule
  | sE0 (m : Nat) | sE1 (m : Nat) | sE2 (m : Nat)
  | sT1 | sT2 | sPush
  -- worker
  | wTake | wTfp
  | wSys1 (b : Nat) | wSys2 (b : Nat)
  | wDeq1 (b : Nat) | wDeq2 (b : Nat)
  | wDeq3 (b m : Nat) | wDeq4 (b m : Nat)
  | wRecv (b m : Nat)
  | wReset (b : Nat)
  | wEmp1 (b : Nat) | wEmp2 (b : Nat)
  | wSEmp1 (b : Nat) | wSEmp2 (b : Nat)
  | wTs1 (b : Nat) | wTs2 (b : Nat)
  | wRetake (b : Nat)
  | wYield | wResched
  -- restart thread
  | rLoad | rWait | rCount
  deriving Repr, DecidableEq

/-- thread operations: `t<k>` Tell message k, `w<i>` one take-and-run-turn attempt, `r` Restart -/
inductive Op where
  | tell (m : Nat) | work | restart | bad
  deriving Repr, DecidableEq

structure Thread where
  pc : Option PC
  prog : List Op
  results : List String   -- reversed
  deriving Repr, DecidableEq

/-- everything except the threads -/
structure Shared where
  sched : Sched
  cells : List Cell
  rq : Nat
  running : Bool
  budget : Nat
  handled : List Nat      -- reversed, in handler-exit order
  accepted : List Nat     -- ghost: ids whose reservation step executed, in reservation order
  dropped : List Nat      -- ghost: ids dequeued while the actor was stopped (not handed to the handler)
  maxIn : Nat             -- history: max number of handlers in progress at once
  deriving Repr, DecidableEq

structure Cfg where
  sh : Shared
  threads : List Thread
  deriving Repr, DecidableEq

def label : PC → String
  | .sE0 _ => "Store:next" | .sE1 _ => "Swap:tail" | .sE2 _ => "Store:next"
  | .sT1 => "Load:v" | .sT2 => "CAS:v" | .sPush => "Call:schedule"
  | .wTake => "take" | .wTfp => "CAS:v"
  | .wSys1 _ => "Load:head" | .wSys2 _ => "Load:next"
  | .wDeq1 _ => "Load:head" | .wDeq2 _ => "Load:next"
  | .wDeq3 _ _ => "Store:head" | .wDeq4 _ _ => "Store:next"
  | .wRecv _ _ => "Recv"
  | .wReset _ => "Store:v"
  | .wEmp1 _ => "Load:head" | .wEmp2 _ => "Load:next"
  | .wSEmp1 _ => "Load:head" | .wSEmp2 _ => "Load:next"
  | .wTs1 _ => "Load:v" | .wTs2 _ => "CAS:v"
  | .wRetake _ => "CAS:v"
  | .wYield => "Store:v" | .wResched => "Call:reschedule"
  | .rLoad => "Load:restartCount" | .rWait => "Load:v" | .rCount => "Store:restartCount"

/-- Begin operation `op` in shared state `s`: either it completes at once with a result (no
    schedule point inside), or the thread parks at the operation's first point.
    `t<k>`: Tell checks IsRunning first. `r` is handled by `spawn` (first op only). -/
def startOp (s : Shared) : Op → Sum String PC
  | .tell m => if s.running then .inr (.sE0 m) else .inl "err"
  | .work => .inr .wTake
  | _ => .inl "bad-op"

/-- advance a thread to the first point of its next operation, completing point-free ops on the way -/
def nextOp (s : Shared) : List Op → List String → Thread
  | [], res => { pc := none, prog := [], results := res }
  | op :: rest, res =>
    match startOp s op with
    | .inr pc => { pc := some pc, prog := rest, results := res }
    | .inl r => nextOp s rest (r :: res)

def finishOp (s : Shared) (t : Thread) (r : String) : Thread := nextOp s t.prog (r :: t.results)

/-- number of threads currently inside the handler -/
def inRecv (t : Thread) : Nat := match t.pc with | some (.wRecv _ _) => 1 | _ => 0

/-- the head cell is published -/
def headReady (cells : List Cell) : Option Nat :=
  match cells with
  | c :: _ => if c.ready then some c.id else none
  | [] => none

def publish (m : Nat) : List Cell → List Cell
  | [] => []
  | c :: cs => if c.id = m ∧ c.ready = false then { c with ready := true } :: cs else c :: publish m cs

/-- loop bookkeeping: an iteration of `for range budget` ended with `b` iterations left (incl. this one) -/
def nextIter (b : Nat) : PC := if b ≤ 1 then .wYield else .wSys1 (b - 1)

/-- effect of the operation at `pc`.  `others` = number of OTHER threads inside the handler (for the
    history variable `maxIn`). -/
def exec (s : Shared) (t : Thread) (others : Nat) : PC → Shared × Thread
  -- sender
  | .sE0 m => (s, { t with pc := some (.sE1 m) })
  | .sE1 m => ({ s with cells := s.cells ++ [⟨m, false⟩], accepted := s.accepted ++ [m] }, { t with pc := some (.sE2 m) })
  | .sE2 m => ({ s with cells := publish m s.cells }, { t with pc := some .sT1 })
  | .sT1 => if s.sched = .idle then (s, { t with pc := some .sT2 }) else (s, finishOp s t "ok")
  | .sT2 => if s.sched = .idle then ({ s with sched := .scheduled }, { t with pc := some .sPush }) else (s, finishOp s t "ok")
  | .sPush => let s' := { s with rq := s.rq + 1 }; (s', finishOp s' t "ok")
  -- worker
  | .wTake => if s.rq > 0 then ({ s with rq := s.rq - 1 }, { t with pc := some .wTfp }) else (s, finishOp s t "idle")
  | .wTfp => if s.sched = .scheduled then ({ s with sched := .processing }, { t with pc := some (.wSys1 s.budget) }) else (s, finishOp s t "turn")
  | .wSys1 b => (s, { t with pc := some (.wSys2 b) })
  | .wSys2 b => (s, { t with pc := some (.wDeq1 b) })
  | .wDeq1 b => (s, { t with pc := some (.wDeq2 b) })
  | .wDeq2 b =>
    match headReady s.cells with
    | some m => ({ s with cells := s.cells.tail }, { t with pc := some (.wDeq3 b m) })
    | none => (s, { t with pc := some (.wReset b) })
  | .wDeq3 b m => (s, { t with pc := some (.wDeq4 b m) })
  | .wDeq4 b m =>
    -- dispatchOne → handleReceived: the handler runs only if a behavior is installed, i.e. the actor
    -- is not stopped (between a restart's Shutdown and its init the message is dropped silently)
    if s.running then ({ s with maxIn := max s.maxIn (others + 1) }, { t with pc := some (.wRecv b m) })
    else ({ s with dropped := m :: s.dropped }, { t with pc := some (nextIter b) })
  | .wRecv b m => ({ s with handled := m :: s.handled }, { t with pc := some (nextIter b) })
  | .wReset b => ({ s with sched := .idle }, { t with pc := some (.wEmp1 b) })
  | .wEmp1 b => (s, { t with pc := some (.wEmp2 b) })
  | .wEmp2 b => if (headReady s.cells).isNone then (s, { t with pc := some (.wSEmp1 b) }) else (s, { t with pc := some (.wTs1 b) })
  | .wSEmp1 b => (s, { t with pc := some (.wSEmp2 b) })
  | .wSEmp2 _ => (s, finishOp s t "turn")
  | .wTs1 b => if s.sched = .idle then (s, { t with pc := some (.wTs2 b) }) else (s, finishOp s t "turn")
  | .wTs2 b => if s.sched = .idle then ({ s with sched := .scheduled }, { t with pc := some (.wRetake b) }) else (s, finishOp s t "turn")
  | .wRetake b => if s.sched = .scheduled then ({ s with sched := .processing }, { t with pc := some (nextIter b) }) else (s, finishOp s t "turn")
  | .wYield => ({ s with sched := .scheduled }, { t with pc := some .wResched })
  | .wResched => let s' := { s with rq := s.rq + 1 }; (s', finishOp s' t "turn")
  -- restart thread: counter snapshot, then Shutdown (the actor stops running); wait loop, then init
  -- (actor runs again); restart counter; PostStart = message 0
  | .rLoad => ({ s with running := false }, { t with pc := some .rWait })
  | .rWait => if s.sched = .idle then ({ s with running := true }, { t with pc := some .rCount }) else (s, t)
  | .rCount => (s, { t with pc := some (.sE0 0) })

def sumBy (f : Thread → Nat) : List Thread → Nat
  | [] => 0
  | t :: ts => f t + sumBy f ts

def step (c : Cfg) (tid : Nat) : String × Cfg :=
  match c.threads[tid]? with
  | none => ("!nothread", c)
  | some t =>
    match t.pc with
    | none => ("!done", c)
    | some pc =>
      let others := sumBy inRecv c.threads - inRecv t
      let (s', t') := exec c.sh t others pc
      (label pc, { sh := s', threads := c.threads.set tid t' })

/-- spawn the threads in tid order; each runs to its first point.  `r` (first op only) parks at its
    first point, the restart-counter snapshot. -/
def spawn (s : Shared) : List (List Op) → Shared × List Thread
  | [] => (s, [])
  | prog :: rest =>
    let (s1, t) :=
      match prog with
      | .restart :: ops => (s, ({ pc := some .rLoad, prog := ops, results := [] } : Thread))
      | _ => (s, nextOp s prog [])
    let (s2, ts) := spawn s1 rest
    (s2, t :: ts)

def initShared (budget : Nat) : Shared :=
  { sched := .idle, cells := [], rq := 0, running := true, budget := budget,
    handled := [], accepted := [], dropped := [], maxIn := 0 }

def init (budget : Nat) (progs : List (List Op)) : Cfg :=
  let (s, ts) := spawn (initShared budget) progs
  { sh := s, threads := ts }

def done (c : Cfg) (tid : Nat) : Bool :=
  match c.threads[tid]? with
  | some t => t.pc.isNone
  | none => true

/-- the restart op is only supported as the first op of its thread -/
def wellFormed (progs : List (List Op)) : Bool :=
  progs.all fun p => (p.drop 1).all (· ≠ .restart)

def parseOp (op : String) : Op :=
  if op = "r" then .restart
  else if op.startsWith "t" then
    match (op.drop 1).toString.toNat? with
    | some m => .tell m
    | none => .bad
  else if op.startsWith "w" then .work
  else .bad

/-! ### sequential completion used for the final digest (worker 0 runs turns until idle) -/

def runThread (fuel : Nat) (c : Cfg) (tid : Nat) : Cfg :=
  match fuel with
  | 0 => c
  | f + 1 => if done c tid then c else runThread f (step c tid).2 tid

def drainTurns (rounds : Nat) (c : Cfg) : Cfg :=
  match rounds with
  | 0 => c
  | r + 1 =>
    let tid := c.threads.length
    let c1 : Cfg := { c with threads := c.threads ++ [nextOp c.sh [.work] []] }
    let c2 := runThread 100000 c1 tid
    let took := match c2.threads[tid]? with | some t => t.results.head? == some "turn" | none => false
    let c3 : Cfg := { c2 with threads := c2.threads.take tid }
    if took then drainTurns r c3 else c3

def showId (m : Nat) : String := if m = 0 then "ps" else toString m

def final (c : Cfg) : String :=
  let c' := drainTurns 64 c
  let s := c'.sh
  let st := match s.sched with | .idle => "0" | .scheduled => "1" | .processing => "2"
  "H=" ++ ",".intercalate (s.handled.reverse.map showId) ++ s!" O={s.maxIn} E={s.rq} S={st} P=" ++
    (if (headReady s.cells).isSome then "true" else "false")

end GoaktVerif.Model.C01

import GoaktVerif.Model.C42

/-!
C44 — work-pulling producer controller (actor/reliable_delivery_work_pulling_controller.go), volatile path
(`queue == nil`; chunking is rejected for work-pulling endpoints).

Executable model, field by field, of `workPullingProducerController`: the shared pending pool, the worker
bindings (one point-to-point sub-flow per worker: own sequence space, demand window, unconfirmed list), the
round-robin dispatch cursor, and the producer-endpoint handshake (same RequestNext / Produced / Stored /
StoredAck contract as the point-to-point controller).  The Go `bindings` map plus `bindingOrder` slice is one
ordered list here (`bindingOrder` holds exactly the map's keys, in registration order).
A worker is identified by its endpoint name (`name`) and the companion PID that registered (`comp`): a
restarted worker endpoint comes back under the same name with another companion.
Sender authentication (`authenticateWorkPullingWorker`) is an input: the handler receives the verified
`(name, comp)` pair.  uuids are counters, MessageIDs / payloads are natural numbers, `0` is the empty string.
The message types of the wire protocol are those of Model/C42.
-/
namespace GoaktVerif.Model.C44
open GoaktVerif.Model.C42 (HS PMsg PUMsg maxWindow)

/-- `pendingWork` -/
structure Job where
  id : Nat
  storeSeq : Nat
  payload : Nat
  deriving DecidableEq, Repr, Inhabited

/-- `dispatchedWork` -/
structure Disp where
  id : Nat
  workerSeq : Nat
  storeSeq : Nat
  payload : Nat
  deriving DecidableEq, Repr, Inhabited

def Disp.job (d : Disp) : Job := ⟨d.id, d.storeSeq, d.payload⟩

/-- `bindingWork` -/
structure Binding where
  /-- endpointName -/
  name : Nat
  /-- controller (the registered companion PID) -/
  comp : Nat
  nonce : Nat
  currentSeq : Nat := 0
  confirmedSeq : Nat := 0
  demandUpTo : Nat := 0
  unconfirmed : List Disp := []
  deriving DecidableEq, Repr, Inhabited

/-- `freeDemand` -/
def Binding.freeDemand (b : Binding) : Nat := b.demandUpTo - b.currentSeq

/-- what a handler sends, in program order -/
inductive WOut
  /-- to the companion `comp` of worker `name` -/
  | toWorker (name comp : Nat) (m : PMsg)
  | toUser (m : PUMsg)
  deriving DecidableEq, Repr, Inhabited

structure WP where
  session : Nat := 1
  deliveryConfirmation : Bool := false
  storeSeq : Nat := 0
  pending : List Job := []
  /-- bindings in `bindingOrder` order -/
  bindings : List Binding := []
  nextWorker : Nat := 0
  handshake : HS := .idle
  token : Nat := 0
  pendingId : Nat := 0
  pendingStoreSeq : Nat := 0
  pendingPayload : Nat := 0
  storedMessage : Option PUMsg := none
  lastToken : Nat := 0
  lastId : Nat := 0
  tokenCtr : Nat := 0
  failed : Bool := false
  deriving DecidableEq, Repr, Inhabited

namespace WP

def find (x : WP) (name : Nat) : Option Binding := x.bindings.find? (fun b => b.name == name)

/-- `nextEligibleBinding` over `n` remaining probes: the index picked (if any) and the cursor afterwards -/
def nextEligible (bs : List Binding) : Nat → Nat → Option Nat × Nat
  | 0, nw => (none, nw)
  | k + 1, nw =>
    let nw0 := if nw ≥ bs.length then 0 else nw
    match bs[nw0]? with
    | some b => if b.freeDemand > 0 then (some nw0, nw0 + 1) else nextEligible bs k (nw0 + 1)
    | none => nextEligible bs k (nw0 + 1)

/-- `emitSequenced` to one binding -/
def emit (session : Nat) (b : Binding) (d : Disp) : List WOut :=
  if d.workerSeq > b.demandUpTo then [] else [.toWorker b.name b.comp (.sequenced session d.id d.workerSeq d.payload)]

/-- `dispatchPending`: structural on the pending pool -/
def dispatchLoop (session : Nat) : List Job → List Binding → Nat → List Job × List Binding × Nat × List WOut
  | [], bs, nw => ([], bs, nw, [])
  | j :: rest, bs, nw =>
    if bs.isEmpty then (j :: rest, bs, nw, [])
    else match nextEligible bs bs.length nw with
      | (none, nw') => (j :: rest, bs, nw', [])
      | (some i, nw') =>
        match bs[i]? with
        | none => (j :: rest, bs, nw', [])
        | some b =>
          let d : Disp := ⟨j.id, b.currentSeq + 1, j.storeSeq, j.payload⟩
          let b' := { b with currentSeq := b.currentSeq + 1, unconfirmed := b.unconfirmed ++ [d] }
          let (p2, bs2, nw2, o2) := dispatchLoop session rest (bs.set i b') nw'
          (p2, bs2, nw2, emit session b' d ++ o2)

def dispatchPending (x : WP) : WP × List WOut :=
  let (p, bs, nw, o) := dispatchLoop x.session x.pending x.bindings x.nextWorker
  ({ x with pending := p, bindings := bs, nextWorker := nw }, o)

/-- `aggregateFreeDemand` -/
def aggregateFree (x : WP) : Nat := (x.bindings.map Binding.freeDemand).sum

/-- `allowNextRequest` + `sendRequestNext` -/
def allowNextRequest (x : WP) : WP × List WOut :=
  if x.handshake != .idle then (x, [])
  else if x.aggregateFree ≤ x.pending.length then (x, [])
  else
    let t := x.tokenCtr + 1
    ({ x with handshake := .credit, token := t, tokenCtr := t }, [.toUser (.requestNext x.session t)])

/-- `progress` -/
def progress (x : WP) : WP × List WOut :=
  let (x1, o1) := x.dispatchPending
  let (x2, o2) := x1.allowNextRequest
  (x2, o1 ++ o2)

/-- `endBinding` -/
def endBinding (x : WP) (name : Nat) : WP :=
  match x.find name with
  | none => x
  | some b =>
    let bs := x.bindings.filter (fun b' => b'.name != name)
    { x with pending := b.unconfirmed.map Disp.job ++ x.pending, bindings := bs,
             nextWorker := if x.nextWorker > bs.length then 0 else x.nextWorker }

def newBinding (name comp nonce : Nat) : Binding := { name := name, comp := comp, nonce := nonce }

/-- in-place update of the binding of worker `name` (Go mutates through the `*bindingWork` pointer) -/
def updateBinding (x : WP) (name : Nat) (f : Binding → Binding) : WP :=
  { x with bindings := x.bindings.map (fun b => if b.name == name then f b else b) }

/-- `terminate` -/
def terminate (x : WP) : WP × List WOut := ({ x with failed := true }, [])

/-- the `switch` of `handleRegisterConsumer`: new worker / replaced companion / refreshed nonce / repeat -/
def registerBinding (x : WP) (name comp nonce : Nat) : WP :=
  match x.find name with
  | none => { x with bindings := x.bindings ++ [newBinding name comp nonce] }
  | some b =>
    if b.comp != comp then
      let x0 := x.endBinding name
      { x0 with bindings := x0.bindings ++ [newBinding name comp nonce] }
    else if b.nonce != nonce then
      x.updateBinding name (fun b' => { b' with nonce := nonce })
    else x

/-- `handleRegisterConsumer` for the authenticated worker `(name, comp)` -/
def handleRegister (x : WP) (name comp nonce : Nat) : WP × List WOut :=
  let x1 := x.registerBinding name comp nonce
  match x1.find name with
  | none => (x1, [])
  | some b =>
    let (x2, o2) := x1.progress
    (x2, .toWorker b.name b.comp (.regAck x1.session (b.confirmedSeq + 1) b.nonce) :: o2)

/-- `bindingFrom` -/
def bindingFrom (x : WP) (name comp session nonce : Nat) : Option Binding :=
  if session != x.session then none
  else x.bindings.find? (fun b => b.name == name && b.comp == comp && b.nonce == nonce)

/-- `sendConfirmation` -/
def confirmations (x : WP) (cut : List Disp) : List WOut :=
  if x.deliveryConfirmation then cut.map (fun d => .toUser (.deliveryConfirmed x.session d.id d.storeSeq)) else []

/-- `advanceConfirmed` on the binding of worker `name` -/
def advanceConfirmed (x : WP) (b : Binding) (confirmed : Nat) : WP × List WOut :=
  if confirmed ≤ b.confirmedSeq then (x, [])
  else
    let cut := b.unconfirmed.takeWhile (fun d => d.workerSeq ≤ confirmed)
    let rest := b.unconfirmed.dropWhile (fun d => d.workerSeq ≤ confirmed)
    let b' := { b with confirmedSeq := confirmed, unconfirmed := rest }
    (x.updateBinding b.name (fun _ => b'),
      if cut.isEmpty then [] else x.confirmations cut)

/-- `resendUnconfirmed` -/
def resend (session : Nat) (b : Binding) : List WOut :=
  (b.unconfirmed.takeWhile (fun d => d.workerSeq ≤ b.currentSeq && d.workerSeq ≤ b.demandUpTo)).flatMap (emit session b)

/-- `resendUnconfirmed` for the binding of worker `name` (as it is after the demand update) -/
def resendFor (x : WP) (name : Nat) : List WOut :=
  match x.find name with
  | some b => resend x.session b
  | none => []

/-- `handleRequest` from the authenticated sender `(name, comp)` -/
def handleRequest (x : WP) (name comp session nonce confirmed upTo : Nat) (viaTimeout : Bool) : WP × List WOut :=
  match x.bindingFrom name comp session nonce with
  | none => (x, [])
  | some b =>
    if confirmed > b.currentSeq || upTo < confirmed || upTo > confirmed + maxWindow then
      (x.endBinding b.name).progress
    else
      let (x1, o1) := x.advanceConfirmed b confirmed
      let x2 := x1.updateBinding b.name (fun b0 => { b0 with demandUpTo := upTo })
      let o2 := if viaTimeout then x2.resendFor b.name else []
      let (x3, o3) := x2.progress
      (x3, o1 ++ o2 ++ o3)

/-- `handleAck` -/
def handleAck (x : WP) (name comp session nonce confirmed : Nat) : WP × List WOut :=
  match x.bindingFrom name comp session nonce with
  | none => (x, [])
  | some b =>
    if confirmed > b.currentSeq then (x.endBinding b.name).progress
    else
      let (x1, o1) := x.advanceConfirmed b confirmed
      let (x2, o2) := x1.progress
      (x2, o1 ++ o2)

/-- `owns` -/
def owns (x : WP) (id : Nat) : Bool :=
  x.pending.any (fun j => j.id == id) || x.bindings.any (fun b => b.unconfirmed.any (fun d => d.id == id))

/-- `resetHandshake` -/
def resetHandshake (x : WP) : WP :=
  { x with handshake := .idle, token := 0, pendingId := 0, pendingStoreSeq := 0, pendingPayload := 0, storedMessage := none }

/-- `startStore` → `completeStore` → `replyStored` (volatile) -/
def completeStore (x : WP) (id payload : Nat) : WP × List WOut :=
  let seq := x.storeSeq + 1
  let st := PUMsg.stored x.session x.token id seq
  ({ x with handshake := .storedAck, pendingId := id, pendingPayload := payload, pendingStoreSeq := seq,
            storeSeq := seq, storedMessage := some st }, [.toUser st])

/-- `handleProduced` -/
def handleProduced (x : WP) (session token id payload : Nat) : WP × List WOut :=
  if session != x.session then (x, [])
  else if x.handshake != .idle && x.handshake != .credit && token == x.token && id == x.pendingId then (x, [])
  else if token == x.lastToken && id == x.lastId then (x, [])
  else if x.handshake != .credit then x.terminate
  else if token != x.token then x.terminate
  else x.completeStore id payload

/-- the message enters the pending pool unless it is already owned (a first-write-wins resubmit) -/
def acceptPending (x : WP) : WP :=
  if !x.owns x.pendingId then { x with pending := x.pending ++ [⟨x.pendingId, x.pendingStoreSeq, x.pendingPayload⟩] } else x

/-- `completeAccept` -/
def completeAccept (x : WP) : WP × List WOut :=
  let x1 := x.acceptPending
  let x2 := { x1 with lastToken := x1.token, lastId := x1.pendingId }
  x2.resetHandshake.progress

/-- `handleStoredAck` -/
def handleStoredAck (x : WP) (session token id : Nat) : WP × List WOut :=
  if session != x.session then (x, [])
  else if x.handshake == .storedAck && token == x.token && id == x.pendingId then
    completeAccept { x with handshake := .accept, storedMessage := none }
  else if x.handshake == .accept && token == x.token && id == x.pendingId then (x, [])
  else if token == x.lastToken && id == x.lastId then (x, [])
  else x.terminate

/-- `handleTick` -/
def handleTick (x : WP) : WP × List WOut :=
  match x.handshake with
  | .credit => (x, [.toUser (.requestNext x.session x.token)])
  | .storedAck => (x, match x.storedMessage with | some m => [.toUser m] | none => [])
  | _ => (x, [])

/-- `handleTerminated` for a worker companion -/
def handleTerminated (x : WP) (name comp : Nat) : WP × List WOut :=
  match x.bindings.find? (fun b => b.name == name && b.comp == comp) with
  | none => (x, [])
  | some b => (x.endBinding b.name).progress

end WP

/-- what the work-pulling controller's mailbox can receive (worker messages carry the authenticated sender) -/
inductive WIn
  | register (name comp nonce : Nat)
  | request (name comp session nonce confirmed upTo : Nat) (viaTimeout : Bool)
  | ack (name comp session nonce confirmed : Nat)
  | terminated (name comp : Nat)
  | produced (session token id payload : Nat)
  | storedAck (session token id : Nat)
  | tick
  deriving DecidableEq, Repr, Inhabited

/-- `workPullingProducerController.Receive` -/
def WP.handle (x : WP) (m : WIn) : WP × List WOut :=
  if x.failed then (x, [])
  else match m with
    | .register n c k => x.handleRegister n c k
    | .request n c s k cf u v => x.handleRequest n c s k cf u v
    | .ack n c s k cf => x.handleAck n c s k cf
    | .terminated n c => x.handleTerminated n c
    | .produced s t i pl => x.handleProduced s t i pl
    | .storedAck s t i => x.handleStoredAck s t i
    | .tick => x.handleTick

end GoaktVerif.Model.C44

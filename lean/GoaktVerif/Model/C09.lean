/-
C09 — the actor tree (actor/pid_tree.go), executable model.

Go maps are association lists keyed by `Nat` (`aget/aset/adel`); strings (PID.ID(), PID.Name())
are abstracted to `Nat` codes.  Pointer identity matters in two places of the Go code and is kept:

* `*PID` objects: a `Pid` carries a `tag` (the pointer identity), its `id` (= PID.ID()) and its
  `name` (= PID.Name()).  `PID.Equals` compares IDs only.  The `watchers/watchees` maps store `*PID`
  values under the ID key, so the model stores the whole `Pid` (with its tag).
* `*pidNode` objects: `descendants`, `parentNode`, the `names` index and the `shadowed` lists hold node POINTERS.  A pointer
  is modelled as `Ptr = (id, ref)`: the (immutable) `id` field of the node object and its allocation
  number `ref`.  Only LIVE node objects (those whose `pid` field is non-nil, i.e. exactly the values
  of `tree.pids`) are kept in the model; a pointer whose `ref` is not the one stored under its id in
  `pids` is a dangling pointer to a node object that `deleteNode` has already cleared
  (`pid.Store(nil)`).  Every reader in pid_tree.go skips such objects, and everything reachable from
  a cleared node through `descendants` was cleared by the same `deleteNode` call, so cleared objects
  have no observable behaviour; the differential run against the real `tree` checks that claim.

Left out (the driver prints `unsupported`, the generator never produces these):
* `addRootNode` once the root slot has been used (it would alias or revive the single `rootNode`
  object: two keys of `pids` pointing to one node / a node with nil maps);
* `attachNodeLocked(parent, pid)` when `parent` lies in the subtree of `pid` (it would close a cycle in
  `descendants`, on which `deleteNode`/`descendants` do not terminate).  The guard is part of the model.
* nil `*PID` arguments (each op returns at once).
-/
namespace GoaktVerif.Model.C09

/-! ### Go maps as association lists -/

def aget {α : Type} (k : Nat) : List (Nat × α) → Option α
  | [] => none
  | e :: l => if e.1 = k then some e.2 else aget k l

def adel {α : Type} (k : Nat) (l : List (Nat × α)) : List (Nat × α) :=
  l.filter (fun e => e.1 != k)

def aset {α : Type} (k : Nat) (v : α) (l : List (Nat × α)) : List (Nat × α) :=
  (k, v) :: adel k l

/-- apply `f` to the value stored under `k` (if any) -/
def amod {α : Type} (k : Nat) (f : α → α) (l : List (Nat × α)) : List (Nat × α) :=
  l.map (fun e => if e.1 = k then (e.1, f e.2) else e)

/-- apply `f` to every value -/
def amapv {α : Type} (f : α → α) (l : List (Nat × α)) : List (Nat × α) :=
  l.map (fun e => (e.1, f e.2))

def akeys {α : Type} (l : List (Nat × α)) : List Nat := l.map (·.1)

/-! ### PIDs, node pointers, nodes, the tree -/

structure Pid where
  tag : Nat
  id : Nat
  name : Nat
  deriving DecidableEq, Repr

structure Ptr where
  id : Nat
  ref : Nat
  deriving DecidableEq, Repr

structure Node where
  ref : Nat
  pid : Pid
  parent : Option Ptr
  watchers : List (Nat × Pid)
  watchees : List (Nat × Pid)
  desc : List (Nat × Nat)          -- child id ↦ ref of the child node object
  deriving Repr

structure Tree where
  pids : List (Nat × Node)
  names : List (Nat × Ptr)
  /-- per name, the node objects whose `names` entry was taken over by a later node of the same name
      (oldest first); `deleteNode` hands the entry back to the most recent survivor -/
  shadowed : List (Nat × List Ptr)
  counter : Int
  next : Nat                       -- allocation counter for node objects
  rootUsed : Bool                  -- the single rootNode object has been handed out
  deriving Repr

def Tree.empty : Tree := ⟨[], [], [], 0, 0, false⟩

/-- ID of the system's NoSender PID -/
def NOS : Nat := 0

inductive Res where
  | ok | noSender | pidExists | parentNoSender | parentMissing | pidMissing | unsupported
  deriving DecidableEq, Repr

/-- dereference a node pointer: the live node object it points to, if it still is live -/
def Tree.live (t : Tree) (p : Ptr) : Option Node :=
  match aget p.id t.pids with
  | some n => if n.ref = p.ref then some n else none
  | none => none

/-! field updates of one node (the map writes the Go code performs on a `pidNode`) -/
def Node.setWatcher (k : Nat) (p : Pid) (n : Node) : Node := { n with watchers := aset k p n.watchers }
def Node.delWatcher (k : Nat) (n : Node) : Node := { n with watchers := adel k n.watchers }
def Node.setWatchee (k : Nat) (p : Pid) (n : Node) : Node := { n with watchees := aset k p n.watchees }
def Node.delWatchee (k : Nat) (n : Node) : Node := { n with watchees := adel k n.watchees }
def Node.setDesc (k r : Nat) (n : Node) : Node := { n with desc := aset k r n.desc }
def Node.delDesc (k : Nat) (n : Node) : Node := { n with desc := adel k n.desc }
def Node.setParent (p : Ptr) (n : Node) : Node := { n with parent := some p }

def Tree.modNode (t : Tree) (id : Nat) (f : Node → Node) : Tree :=
  { t with pids := amod id f t.pids }

/-! ### traversal (deleteNode / descendants): depth-bounded DFS over live `descendants` pointers -/

/-- the live node objects reachable from pointer `p` (pre-order, with repetitions if a node is
    reachable twice), exploring to depth `fuel` -/
def Tree.subtree (t : Tree) : Nat → Ptr → List Ptr
  | 0, _ => []
  | fuel + 1, p =>
    match t.live p with
    | none => []
    | some n => p :: n.desc.flatMap (fun e => t.subtree fuel ⟨e.1, e.2⟩)

/-- the fuel used by every traversal: more than the number of live nodes, hence (the live
    `descendants` graph being acyclic, see `WF`) more than any path length -/
def Tree.fuel (t : Tree) : Nat := t.pids.length + 1

/-- ids of the nodes `deleteNode`/`descendants` visit from the node registered under `id` -/
def Tree.reachIds (t : Tree) (id : Nat) : List Nat :=
  match aget id t.pids with
  | none => []
  | some n => (t.subtree t.fuel ⟨id, n.ref⟩).map (·.id)

/-! ### writers -/

def Tree.addRoot (t : Tree) (p : Pid) : Tree × Res :=
  if p.id = NOS then (t, .noSender)
  else if (aget p.id t.pids).isSome then (t, .pidExists)
  else if t.rootUsed then (t, .unsupported)
  else
    let n : Node := { ref := t.next, pid := p, parent := none, watchers := [], watchees := [], desc := [] }
    ({ t with pids := aset p.id n t.pids, names := aset p.name ⟨p.id, t.next⟩ t.names,
              counter := t.counter + 1, next := t.next + 1, rootUsed := true }, .ok)

/-- addNodeLocked -/
def Tree.addNode (t : Tree) (parent p : Pid) : Tree × Res :=
  if parent.id = NOS then (t, .parentNoSender)
  else if (aget p.id t.pids).isSome then (t, .pidExists)
  else
    match aget parent.id t.pids with
    | none => (t, .parentMissing)
    | some pn =>
      let c : Node := { ref := t.next, pid := p, parent := some ⟨parent.id, pn.ref⟩,
                        watchers := [(parent.id, parent)], watchees := [], desc := [] }
      let t1 := (t.modNode parent.id (Node.setDesc p.id t.next)).modNode parent.id (Node.setWatchee p.id p)
      -- `if prev, taken := x.names[name]; taken && prev != childNode`: the new node object is never `prev`
      let sh := match aget p.name t.names with
        | some prev => aset p.name ((aget p.name t.shadowed).getD [] ++ [prev]) t.shadowed
        | none => t.shadowed
      ({ t1 with pids := aset p.id c t1.pids, names := aset p.name ⟨p.id, t.next⟩ t1.names, shadowed := sh,
                 counter := t.counter + 1, next := t.next + 1 }, .ok)

/-- attachNodeLocked; the cycle guard is explained in the header -/
def Tree.attach (t : Tree) (parent p : Pid) : Tree × Res :=
  if parent.id = NOS then (t, .parentNoSender)
  else
    match aget parent.id t.pids with
    | none => (t, .parentMissing)
    | some pn =>
      match aget p.id t.pids with
      | none => (t, .pidMissing)
      | some cn =>
        if (t.reachIds p.id).contains parent.id then (t, .unsupported)
        else
          let t1 := t.modNode p.id (Node.setParent ⟨parent.id, pn.ref⟩)
          let t2 := (t1.modNode parent.id (Node.setDesc p.id cn.ref)).modNode parent.id (Node.setWatchee p.id p)
          let t3 := t2.modNode p.id (Node.setWatcher parent.id parent)
          (t3, .ok)

def Tree.addOrAttach (t : Tree) (parent p : Pid) : Tree × Res :=
  if parent.id = NOS then (t, .ok)
  else if (aget p.id t.pids).isSome then t.attach parent p
  else t.addNode parent p

def Tree.removeWatcher (t : Tree) (watchee watcher : Pid) : Tree :=
  (t.modNode watcher.id (Node.delWatchee watchee.id)).modNode watchee.id (Node.delWatcher watcher.id)

def Tree.removeDescendant (t : Tree) (parentId childId : Nat) : Tree :=
  t.modNode parentId (Node.delDesc childId)

def Tree.addWatcher (t : Tree) (p watcher : Pid) : Tree :=
  if p.id = NOS ∨ watcher.id = NOS then t
  else if (aget p.id t.pids).isNone ∨ (aget watcher.id t.pids).isNone then t
  else
    (t.modNode p.id (Node.setWatcher watcher.id watcher)).modNode watcher.id (Node.setWatchee p.id p)

/-- what the body of deleteNode's second loop does to every OTHER node when node `n` goes -/
def scrub (n : Node) (m : Node) : Node :=
  let isParent : Bool := match n.parent with
    | some pp => pp.id == m.pid.id && pp.ref == m.ref
    | none => false
  { m with
    watchees := if (aget m.pid.id n.watchers).isSome || isParent then adel n.pid.id m.watchees else m.watchees
    watchers := if (aget m.pid.id n.watchees).isSome then adel n.pid.id m.watchers else m.watchers
    desc := if isParent then adel n.pid.id m.desc else m.desc }

/-- the name bookkeeping of one iteration of deleteNode's second loop: `(names, shadowed)` after the node
    object `p` (a live node named `name`) is gone -/
def dropName (names : List (Nat × Ptr)) (shadowed : List (Nat × List Ptr)) (name : Nat) (p : Ptr) :
    List (Nat × Ptr) × List (Nat × List Ptr) :=
  let prevs := (aget name shadowed).getD []
  if aget name names = some p then
    -- `delete(x.names, n.name)`, then hand the name back to the most recent survivor it was taken from
    match prevs.getLast? with
    | some q => (aset name q names, if prevs.length = 1 then adel name shadowed else aset name prevs.dropLast shadowed)
    | none => (adel name names, shadowed)
  else
    -- `n` lost the entry earlier: it must not be handed back to a dead node
    let kept := prevs.filter (· != p)
    if prevs.isEmpty then (names, shadowed)
    else (names, if kept.isEmpty then adel name shadowed else aset name kept shadowed)

/-- one iteration of deleteNode's second loop for the node object `p` points to -/
def Tree.removeNode (t : Tree) (p : Ptr) : Tree :=
  match t.live p with
  | none => t                                   -- `n.pid.Load() == nil`: already cleared
  | some n =>
    let ns := dropName t.names t.shadowed n.pid.name p
    { t with
      pids := amapv (scrub n) (adel p.id t.pids)
      names := ns.1
      shadowed := ns.2
      counter := t.counter - 1 }

def Tree.deleteNode (t : Tree) (p : Pid) : Tree :=
  if p.id = NOS then t
  else
    match aget p.id t.pids with
    | none => t
    | some n => (t.subtree t.fuel ⟨p.id, n.ref⟩).reverse.foldl Tree.removeNode t

def Tree.reset (t : Tree) : Tree := { Tree.empty with next := t.next }

/-! ### readers -/

/-- `tree.children`: live direct children -/
def Tree.children (t : Tree) (id : Nat) : Option (List Pid) :=
  if id = NOS then none else
  match aget id t.pids with
  | none => none
  | some n => some (n.desc.filterMap (fun e => (t.live ⟨e.1, e.2⟩).map (·.pid)))

/-- `tree.descendants` -/
def Tree.descendants (t : Tree) (id : Nat) : Option (List Pid) :=
  if id = NOS then none else
  match aget id t.pids with
  | none => none
  | some n =>
    some ((n.desc.flatMap (fun e => t.subtree t.fuel ⟨e.1, e.2⟩)).filterMap (fun q => (t.live q).map (·.pid)))

/-- `tree.parent` -/
def Tree.parent (t : Tree) (id : Nat) : Option Pid :=
  if id = NOS then none else
  match aget id t.pids with
  | none => none
  | some n => match n.parent with
    | none => none
    | some pp => (t.live pp).map (·.pid)

def Tree.watchers (t : Tree) (id : Nat) : Option (List Pid) :=
  if id = NOS then none else (aget id t.pids).map (fun n => n.watchers.map (·.2))

def Tree.watchees (t : Tree) (id : Nat) : Option (List Pid) :=
  if id = NOS then none else (aget id t.pids).map (fun n => n.watchees.map (·.2))

/-- `tree.siblings`: note the `len(parentNode.descendants) <= 1` shortcut counts cleared entries too -/
def Tree.siblings (t : Tree) (id : Nat) : Option (List Pid) :=
  if id = NOS then none else
  match aget id t.pids with
  | none => none
  | some n => match n.parent with
    | none => none
    | some pp =>
      match t.live pp with
      | none => some []            -- parent object cleared: nothing live hangs below it
      | some pn =>
        if pn.desc.length ≤ 1 then some []
        else some ((pn.desc.filterMap (fun e => (t.live ⟨e.1, e.2⟩).map (·.pid))).filter (fun q => q.id != id))

def Tree.nodeByName (t : Tree) (name : Nat) : Option Pid :=
  match aget name t.names with
  | none => none
  | some p => (t.live p).map (·.pid)

/-! ### op scripts (the differential's case language) -/

inductive Op where
  | addRoot (p : Pid)
  | addNode (parent p : Pid)
  | attach (parent p : Pid)
  | addOrAttach (parent p : Pid)
  | addWatcher (p watcher : Pid)
  | removeWatcher (watchee watcher : Pid)
  | removeDescendant (parentId childId : Nat)
  | deleteNode (p : Pid)
  | reset
  deriving Repr

def Tree.step (t : Tree) : Op → Tree × Res
  | .addRoot p => t.addRoot p
  | .addNode a p => t.addNode a p
  | .attach a p => t.attach a p
  | .addOrAttach a p => t.addOrAttach a p
  | .addWatcher p w => (t.addWatcher p w, .ok)
  | .removeWatcher e w => (t.removeWatcher e w, .ok)
  | .removeDescendant a c => (t.removeDescendant a c, .ok)
  | .deleteNode p => (t.deleteNode p, .ok)
  | .reset => (t.reset, .ok)

def Tree.run (t : Tree) (ops : List Op) : Tree := ops.foldl (fun t o => (t.step o).1) t

end GoaktVerif.Model.C09

/-
C06 — small-step model of ONE actor's lifecycle as actor/pid.go implements it, composed with an
abstract dispatch turn.

What is modelled (file:function → here):
  * pid.go Shutdown + doStop + reset (`acquire`, `csStep`): stopLocker.Lock; `!running` → unlock,
    return; stopping := true; [freeWatchees, freeChildren]; PostStop; [freeWatchers]; deferred
    running := false and reset() (behaviour stack cleared, stopping/suspended/passivating cleared);
    stopLocker.Unlock.  NOTHING in it looks at the dispatch state.  The progress of the thread
    inside the critical section is kept with the lock (`Holder.pc`): only the holder moves it.
  * pid.go runTurn/dispatchOne/handleReceived (`wStep`): Scheduled→Processing; per iteration the
    system mailbox first (a PoisonPill is handled by calling Shutdown INSIDE the turn), then one user
    message: `behaviorStack.Peek() ≠ nil` → Receive, else the message is dropped; budget exhausted →
    Scheduled; both mailboxes empty → Idle.  The turn is abstract: "the worker" is goroutine 0 and at
    most one turn exists at a time (mutual exclusion of turns is C01's theorem, lost-wake-up freedom
    of finishOrReclaim is C02's; both are assumed here by construction).
  * api.go Tell / pid.go Tell + doReceive (`tCheck`,`tEnq`): flag test (running ∧ ¬stopping ∧
    ¬passivating ∧ ¬suspended), then — a separate step — enqueue and TrySchedule.
  * external stops (system.Kill, PID.Stop, parent's freeChildren, supervisor's handleStopDirective,
    ReceiveContext.Stop from another actor's turn): an optional flag pre-check, then Shutdown on the
    CALLER's goroutine (`xPre`,`sdLock`,`sdIn`).
  * pid.go tryPassivation, called by the passivation manager goroutine (`pCheck`, then the same
    critical section with `Via.pass`): stopping ∨ suspended → give up; passivating := true;
    stopLocker.Lock; `!running` → give up (fix 6f92e10); doStop; unlock; passivating := false.
  * pid.go restartSubtree for a single node (`rCheck` …): IsRunning → Shutdown, wait ¬IsRunning;
    spin until the dispatch state is Idle (fix 4b1d5a5; it was: while Processing); resetBehavior; init (PreStart, running := true);
    suspended := false; fire PostStart (no schedState.reset() since fix a5d978b).

Not modelled: children and watchers (C09/C10/C17), the handler failing (C07), ctx.Shutdown() from
inside the handler (checked on the implementation by the monitor only), reentrancy stash,
message-count passivation triggers, the system-wide shutdown gate (C17), PreStart failing.

Ghost state: `log` (hook events, newest first), `mon` (= `Spec.monOf log`, proved), `win` (the pool
thread that is between restart's spin-loop exit and its last step).
-/
import GoaktVerif.Spec.C06

namespace GoaktVerif.Model.C06
open GoaktVerif.Spec.C06

inductive Sched where
  | idle | scheduled | processing
  deriving DecidableEq, Repr, Inhabited

/-- program counter inside the stop critical section (names the step ABOUT to be executed) -/
inductive SD where
  | check | postB | postE | reset | unlock
  deriving DecidableEq, Repr, Inhabited

/-- who holds stopLocker, on which stop path, and where it is in the critical section -/
structure Holder where
  id : Nat
  v : Via
  pc : SD
  deriving DecidableEq, Repr, Inhabited

/-- the worker (goroutine 0) -/
inductive WPC where
  | idle                 -- between turns
  | loop (b : Nat)       -- top of the turn loop, `b` iterations of budget left
  | recv (b : Nat)       -- inside Receive
  | sdLock (b : Nat)     -- PoisonPill dequeued: Shutdown called in the turn, at stopLocker.Lock
  | sdIn (b : Nat)       -- … inside the critical section
  deriving DecidableEq, Repr, Inhabited

/-- every other thread (pool thread `i` is goroutine `i + 2`; goroutine 1 is the spawner) -/
inductive TPC where
  | done
  | tCheck (pill : Bool)
  | tEnq (pill : Bool)
  | xPre (v : Via)
  | sdLock (v : Via)
  | sdIn (v : Via)
  | pCheck
  | rCheck | rWait | rSpin | rBeh | rPreB | rPreE | rFin
  deriving DecidableEq, Repr, Inhabited

structure Cfg where
  running : Bool
  stopping : Bool
  suspended : Bool
  passivating : Bool
  /-- behaviorStack.Peek() ≠ nil -/
  beh : Bool
  /-- stopLocker -/
  locker : Option Holder
  sched : Sched
  /-- PoisonPills in the system mailbox -/
  sysbox : Nat
  /-- messages in the user mailbox -/
  box : Nat
  /-- dispatcher throughput -/
  budget : Nat
  w : WPC
  threads : Nat → TPC
  win : Option Nat
  log : List Ev
  mon : Mon

def wid : Nat := 0
def spawnerId : Nat := 1
def tidOf (i : Nat) : Nat := i + 2

/-- PID.IsRunning -/
def Cfg.isRunning (c : Cfg) : Bool := c.running && !c.stopping && !c.passivating && !c.suspended

def emit (c : Cfg) (e : Ev) : Cfg := { c with log := e :: c.log, mon := monStep c.mon e }

/-- doStop's deferred `running := false; reset()` -/
def resetFlags (c : Cfg) : Cfg :=
  { c with running := false, beh := false, stopping := false, suspended := false, passivating := false }

/-- stopLocker.Lock succeeded for goroutine `me` on stop path `v` -/
def acquire (c : Cfg) (me : Nat) (v : Via) : Cfg := { c with locker := some ⟨me, v, .check⟩ }

/-- does the step the holder `h` is about to execute leave the critical section (Shutdown returns)? -/
def csReturns (c : Cfg) (h : Holder) : Bool :=
  match h.pc with
  | .check => !c.running
  | .unlock => true
  | _ => false

/-- one step of the critical section by its holder `h` -/
def csStep (c : Cfg) (h : Holder) : Cfg :=
  match h.pc with
  | .check =>
    -- both Shutdown and (since fix 6f92e10) tryPassivation test `running` under the lock
    if c.running then
      { c with stopping := if h.v = .pass then c.stopping else true, locker := some { h with pc := .postB } }
    else { c with locker := none, passivating := if h.v = .pass then false else c.passivating }
  | .postB => emit { c with locker := some { h with pc := .postE } } (.postB h.id h.v)
  | .postE => emit { c with locker := some { h with pc := .reset } } (.postE h.id)
  | .reset => { resetFlags c with locker := some { h with pc := .unlock } }
  | .unlock => { c with locker := none, passivating := if h.v = .pass then false else c.passivating }

/-- dispatchState.TrySchedule after an enqueue -/
def trySchedule (s : Sched) : Sched := if s = .idle then .scheduled else s

def wStep (c : Cfg) : Cfg :=
  match c.w with
  | .idle => if c.sched = .scheduled then { c with sched := .processing, w := .loop c.budget } else c
  | .loop 0 => { c with sched := .scheduled, w := .idle }
  | .loop (b + 1) =>
    if c.sysbox > 0 then { c with sysbox := c.sysbox - 1, w := .sdLock b }
    else if c.box > 0 then
      if c.beh then emit { c with box := c.box - 1, w := .recv b } (.recvB wid)
      else { c with box := c.box - 1, w := .loop b }
    else { c with sched := .idle, w := .idle }
  | .recv b => emit { c with w := .loop b } (.recvE wid)
  | .sdLock b => if c.locker.isNone then { acquire c wid .pill with w := .sdIn b } else c
  | .sdIn b =>
    match c.locker with
    | none => c
    | some h =>
      if h.id = wid then
        if csReturns c h then { csStep c h with w := .loop b } else csStep c h
      else c

def setT (c : Cfg) (i : Nat) (pc : TPC) : Cfg :=
  { c with threads := fun j => if j = i then pc else c.threads j }

/-- stop paths that test `IsRunning ∨ IsSuspended` before calling Shutdown -/
def needsPre : Via → Bool
  | .stop | .parent | .ctx => true
  | _ => false

/-- where a pool thread continues after its Shutdown returned -/
def afterSd : Via → TPC
  | .restart => .rWait
  | _ => .done

def tStep (c : Cfg) (i : Nat) : Cfg :=
  let me := tidOf i
  match c.threads i with
  | .done => c
  | .tCheck p => if c.isRunning then setT c i (.tEnq p) else setT c i .done
  | .tEnq p =>
    if p then setT { c with sysbox := c.sysbox + 1, sched := trySchedule c.sched } i .done
    else setT { c with box := c.box + 1, sched := trySchedule c.sched } i .done
  | .xPre v =>
    if needsPre v && !(c.isRunning || c.suspended) then setT c i .done else setT c i (.sdLock v)
  | .sdLock v => if c.locker.isNone then setT (acquire c me v) i (.sdIn v) else c
  | .sdIn v =>
    match c.locker with
    | none => c
    | some h =>
      if h.id = me then
        if csReturns c h then setT (csStep c h) i (afterSd v) else csStep c h
      else c
  | .pCheck =>
    if c.stopping || c.suspended then setT c i .done
    else setT { c with passivating := true } i (.sdLock .pass)
  | .rCheck => if c.isRunning then setT c i (.sdLock .restart) else setT c i .rSpin
  | .rWait => if c.isRunning then c else setT c i .rSpin
  | .rSpin => if c.sched = .idle then setT { c with win := some i } i .rBeh else c
  | .rBeh => setT { c with beh := true } i .rPreB
  | .rPreB => setT (emit c (.preB me .restart)) i .rPreE
  | .rPreE => setT { emit c (.preE me) with running := true } i .rFin
  | .rFin =>
    -- suspended := false; fireSystemMessage(PostStart) = enqueue + TrySchedule
    -- (the dispatch state is NOT reset here any more: fix a5d978b)
    setT { c with sched := trySchedule c.sched, suspended := false, box := c.box + 1, win := none } i .done

/-- a schedule entry: 0 = the worker, k+1 = pool thread k -/
def step (c : Cfg) (a : Nat) : Cfg :=
  match a with
  | 0 => wStep c
  | k + 1 => tStep c k

def run (c : Cfg) : List Nat → Cfg
  | [] => c
  | a :: s => run (step c a) s

def initLog : List Ev := [.preE spawnerId, .preB spawnerId .spawn]

/-- the actor right after a successful spawn: PreStart done, running, PostStart enqueued and the
    actor scheduled; `prog i` is the first program counter of pool thread `i` -/
def init (budget : Nat) (prog : Nat → TPC) : Cfg :=
  { running := true, stopping := false, suspended := false, passivating := false, beh := true,
    locker := none, sched := .scheduled, sysbox := 0, box := 1, budget := budget, w := .idle,
    threads := prog, win := none, log := initLog, mon := monOf initLog }

/-- program counters a thread may start at -/
def TPC.initial : TPC → Bool
  | .done | .tCheck _ | .xPre _ | .pCheck | .rCheck => true
  | _ => false

/-- threads that only send (messages or PoisonPills) -/
def TPC.isSender : TPC → Bool
  | .done | .tCheck _ | .tEnq _ => true
  | _ => false

/-- inside restart's re-initialisation window -/
def TPC.inWin : TPC → Bool
  | .rBeh | .rPreB | .rPreE | .rFin => true
  | _ => false

/-! ### the guard of the partial theorem

`okStep c a` restricts the scheduler so that three things never overlap in time: the actor's turn,
an EXTERNAL thread's stop critical section, and a restart's re-initialisation window. -/

def okStep (c : Cfg) (a : Nat) : Bool :=
  match a with
  | 0 =>
    match c.w with
    | .idle => c.locker.isNone && c.win.isNone
    | _ => true
  | k + 1 =>
    match c.threads k with
    | .sdLock _ => c.sched != .processing && c.win.isNone
    | .rSpin => c.locker.isNone && c.win.isNone
    | _ => true

def guarded (c : Cfg) : List Nat → Bool
  | [] => true
  | a :: s => okStep c a && guarded (step c a) s

end GoaktVerif.Model.C06

/-
C15, grain path — small-step model of `actorSystem.localSend` (grain_engine.go, synchronous case), `GrainContext.build` /
`Response` (grain_context.go), the `grainContextCh` / `responseCh` pools and `grainMailbox` (grain_mailbox.go: Vyukov
list; `Dequeue` resets the PREVIOUS sentinel — `responseClosed` is not reset — and pushes it into `grainContextCh`).

Caller: `getGrainContext()` at operation start; `Store:responseClosed` = build (closed := false, channels, message);
`Call:Get` = `timers.Get`; `Store:next`, `Swap:tail`, `Store:next`, `Add:len` = `grainMailbox.tryEnqueue`, the last
one followed by the select; on the reply branch both channels go back to their pools; on a timeout branch
`grainContext.responseClosed.Store(true)` — a LATE STORE on a context the mailbox may already have recycled — is one
more step (`Store:responseClosed`) and the channels are left to the GC.  `fixed = true` is the proposed repair
(fixes/C15-grain-no-late-store.diff): the timeout branches do not touch the context.
Worker: `Deq` (harness point; `Dequeue` itself is not instrumented; it would busy-wait while a producer is parked
between its tail swap and its link with nothing else linked: then the worker is not runnable), `CAS:responseClosed`
(+ the send, one step in the driver).
-/
namespace GoaktVerif.Model.C15Grain

abbrev CtxId := Nat
abbrev ChanId := Nat
abbrev ReqId := Nat

structure Ctx where
  closed : Bool
  response : Option ChanId
  msg : Option ReqId
  next : Option CtxId
  deriving Repr, DecidableEq

inductive Op where
  | ask (k : ReqId)
  | handle
  deriving Repr, DecidableEq

inductive Res where
  | reply (v : ReqId)
  | timeout
  | handled (k : ReqId)
  | empty
  deriving Repr, DecidableEq

inductive PC where
  | build (i : CtxId) (k : ReqId)                   -- `Store:responseClosed`
  | timer (i : CtxId) (ch : ChanId) (k : ReqId)     -- `Call:Get`
  | enq1 (i : CtxId) (ch : ChanId) (k : ReqId)      -- `Store:next`  (value.next := nil)
  | enq2 (i : CtxId) (ch : ChanId) (k : ReqId)      -- `Swap:tail`
  | enq3 (i : CtxId) (ch : ChanId) (k : ReqId) (prev : CtxId)  -- `Store:next`  (prev.next := value)
  | sel (i : CtxId) (ch : ChanId) (k : ReqId)       -- `Add:len`, then the select
  | late (i : CtxId)                                -- `Store:responseClosed` (timeout branches)
  | hDeq
  | hCas (i : CtxId) (k : ReqId)
  | hSend (i : CtxId) (k : ReqId)
  deriving Repr, DecidableEq

inductive Ev where
  | respDone (k : ReqId)
  | timedOut (k : ReqId)
  deriving Repr, DecidableEq

structure Thread where
  pc : Option PC
  cur : Option Op
  prog : List Op
  hist : List (Op × Res)
  deadline : Bool
  deriving Repr, DecidableEq

structure Cfg where
  fixed : Bool                   -- true: the proposed repair (no late store on the timeout branches)
  ctxs : List Ctx
  chans : List (Option ReqId)
  ctxPool : List CtxId
  chanPool : List ChanId
  head : CtxId
  tail : CtxId
  threads : List Thread
  log : List Ev
  deriving Repr, DecidableEq

def dflt : Ctx := { closed := false, response := none, msg := none, next := none }
def ctxOf (c : Cfg) (i : CtxId) : Ctx := c.ctxs.getD i dflt
def modCtx (c : Cfg) (i : CtxId) (f : Ctx → Ctx) : Cfg := { c with ctxs := c.ctxs.modify i f }
def chanOf (c : Cfg) (i : ChanId) : Option ReqId := c.chans.getD i none
def setChan (c : Cfg) (i : ChanId) (v : Option ReqId) : Cfg := { c with chans := c.chans.set i v }

def getContext (c : Cfg) : CtxId × Cfg :=
  match c.ctxPool with
  | i :: rest => (i, { c with ctxPool := rest })
  | [] => (c.ctxs.length, { c with ctxs := c.ctxs ++ [dflt] })

def getChan (c : Cfg) : ChanId × Cfg :=
  match c.chanPool with
  | i :: rest => (i, { c with chanPool := rest })
  | [] => (c.chans.length, { c with chans := c.chans ++ [none] })

def startNext (c : Cfg) (t : Thread) : Cfg × Thread :=
  match t.prog with
  | [] => (c, { t with pc := none, cur := none, deadline := false })
  | op :: rest =>
    let t := { t with cur := some op, prog := rest, deadline := false }
    match op with
    | .ask k => let (i, c') := getContext c; (c', { t with pc := some (.build i k) })
    | .handle => (c, { t with pc := some .hDeq })

def finishOp (c : Cfg) (t : Thread) (r : Res) : Cfg × Thread :=
  match t.cur with
  | some op => startNext c { t with hist := (op, r) :: t.hist }
  | none => startNext c t

/-- the worker's `Dequeue` would busy-wait -/
def wouldSpin (c : Cfg) : Bool := (ctxOf c c.head).next.isNone && c.head != c.tail

def blocked (c : Cfg) (t : Thread) : Bool :=
  match t.pc with
  | some (.sel _ ch _) => (chanOf c ch).isNone && !t.deadline
  | some .hDeq => wouldSpin c
  | _ => false

def exec (c : Cfg) (t : Thread) : PC → Cfg × Thread
  | .build i k =>
    let c1 := modCtx c i (fun x => { x with closed := false })
    let (ch, c2) := getChan c1
    (modCtx c2 i (fun x => { x with response := some ch, msg := some k }), { t with pc := some (.timer i ch k) })
  | .timer i ch k => (c, { t with pc := some (.enq1 i ch k) })
  | .enq1 i ch k => (modCtx c i (fun x => { x with next := none }), { t with pc := some (.enq2 i ch k) })
  | .enq2 i ch k => ({ c with tail := i }, { t with pc := some (.enq3 i ch k c.tail) })
  | .enq3 i ch k prev => (modCtx c prev (fun x => { x with next := some i }), { t with pc := some (.sel i ch k) })
  | .sel i ch k =>
    match chanOf c ch with
    | some v =>
      let c1 := setChan c ch none
      finishOp { c1 with chanPool := c1.chanPool ++ [ch] } t (.reply v)
    | none =>
      if t.deadline then
        if c.fixed then finishOp { c with log := .timedOut k :: c.log } t .timeout
        else ({ c with log := .timedOut k :: c.log }, { t with pc := some (.late i) })
      else (c, t)
  | .late i => finishOp (modCtx c i (fun x => { x with closed := true })) t .timeout
  | .hDeq =>
    match (ctxOf c c.head).next with
    | none => if c.head = c.tail then finishOp c t .empty else (c, t)
    | some i =>
      let c1 := modCtx c c.head (fun x => { x with response := none, msg := none, next := none })
      let c2 := { c1 with ctxPool := c1.ctxPool ++ [c.head], head := i }
      match (ctxOf c i).msg with
      | some k => (c2, { t with pc := some (.hCas i k) })
      | none => finishOp c2 t .empty
  | .hCas i k =>
    if (ctxOf c i).closed then finishOp { c with log := .respDone k :: c.log } t (.handled k)
    else (modCtx c i (fun x => { x with closed := true }), { t with pc := some (.hSend i k) })
  | .hSend i k =>
    let c1 := match (ctxOf c i).response with
      | some ch => if (chanOf c ch).isNone then setChan c ch (some k) else c
      | none => c
    finishOp { c1 with log := .respDone k :: c1.log } t (.handled k)

def step (c : Cfg) (tid : Nat) : Cfg :=
  match c.threads[tid]? with
  | none => c
  | some t =>
    match t.pc with
    | none => c
    | some pc =>
      let (c', t') := exec c t pc
      { c' with threads := c'.threads.set tid t' }

def timeout (c : Cfg) (tid : Nat) : Cfg :=
  match c.threads[tid]? with
  | none => c
  | some t =>
    match t.pc with
    | some (.late ..) | some .hDeq | some (.hCas ..) | some (.hSend ..) | none => c
    | _ => { c with threads := c.threads.set tid { t with deadline := true } }

inductive Act where
  | run (tid : Nat)
  | timeout (tid : Nat)
  deriving Repr, DecidableEq

def act (c : Cfg) : Act → Cfg
  | .run tid => step c tid
  | .timeout tid => timeout c tid

def runActs (c : Cfg) : List Act → Cfg
  | [] => c
  | a :: as => runActs (act c a) as

def spawn (c : Cfg) : List (List Op) → Cfg
  | [] => c
  | p :: ps =>
    let (c', t) := startNext c { pc := none, cur := none, prog := p, hist := [], deadline := false }
    spawn { c' with threads := c'.threads ++ [t] } ps

def empty (fixed : Bool) : Cfg :=
  { fixed, ctxs := [dflt], chans := [], ctxPool := [], chanPool := [], head := 0, tail := 0, threads := [], log := [] }

def init (fixed : Bool) (progs : List (List Op)) : Cfg := spawn (empty fixed) progs

def label : PC → String
  | .build .. => "Store:responseClosed" | .timer .. => "Call:Get" | .enq1 .. => "Store:next" | .enq2 .. => "Swap:tail"
  | .enq3 .. => "Store:next" | .sel .. => "Add:len" | .late .. => "Store:responseClosed"
  | .hDeq => "Deq" | .hCas .. => "CAS:responseClosed" | .hSend .. => "Send"

/-- number of contexts linked behind the sentinel (at most `fuel`) -/
def linked (c : Cfg) : Nat → CtxId → Nat
  | 0, _ => 0
  | f + 1, i => match (ctxOf c i).next with | none => 0 | some j => 1 + linked c f j

end GoaktVerif.Model.C15Grain

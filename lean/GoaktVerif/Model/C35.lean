/-
C35 — relocation handoff masking (actor/relocation_handoff.go: deliverAcrossHandoff,
sleepWithinHandoff, deliverBypassingHandoff).

Executable model of the retry loop on an ABSTRACT CLOCK (`Nat` nanoseconds).  Inputs:
  * `cfg`      the four constants of the file (regenerated from the source by go2lean, see Props),
  * `maxWait`  the caller's timeout (0 = the caller imposed no bound),
  * `ctxDone`  the context is already done when the first wait is attempted,
  * `res i`    what the i-th `ActorOf` resolution looks like to the loop's `switch`,
  * `d i`      how long the i-th `ActorOf` call takes,
  * `t0`       the time of the call.
A wait is a `Sleep` record (start, duration, which mask it belongs to); real timers may fire late,
which the model does not exhibit (the property is labelled partial for that reason).
-/
namespace GoaktVerif.Model.C35

structure Cfg where
  window : Nat      -- relocationHandoffWindow
  minB : Nat        -- relocationHandoffMinBackoff
  maxB : Nat        -- relocationHandoffMaxBackoff
  nfWindow : Nat    -- relocationNotFoundMaskWindow
  deriving Repr

/-- how one `ActorOf` result is classified by the loop's `switch` -/
inductive Res where
  | pinned               -- err == nil, remote, endpoint is relocating
  | live                 -- err == nil otherwise
  | nf (inFlight : Bool) -- isHandoffRetryable(err); inFlight = relocationInFlight()
  | terminal             -- any other error
  deriving Repr, DecidableEq

inductive Outcome where
  | delivered (t : Nat) (ctxDeadline : Option Nat)  -- deliver invoked at `t` with this ctx deadline
  | gaveUpRelocating (t : Nat)                      -- returns ErrRelocationInProgress
  | gaveUpErr (t : Nat)                             -- returns the retryable resolution error
  | failed (t : Nat)                                -- returns the resolution error (fail fast)
  | outOfFuel
  deriving Repr, DecidableEq

structure Sleep where
  start : Nat
  dur : Nat
  pinned : Bool     -- true: full-window mask (pinned endpoint); false: not-found mask
  deriving Repr, DecidableEq

structure Run where
  lookups : Nat          -- number of ActorOf calls made
  sleeps : List Sleep    -- chronological
  recorded : Bool        -- recordRelocationHandoff was called
  out : Outcome
  deriving Repr

/-- the constants of actor/relocation_handoff.go in nanoseconds (Props/C35 proves they equal the
    values regenerated from the source on every run) -/
def defaultCfg : Cfg := ⟨3000000000, 50000000, 300000000, 500000000⟩

def optMin (a : Nat) : Option Nat → Nat
  | none => a
  | some c => min a c

/-- notFoundDeadline: anchored at the first not-found observation, never beyond the caller's
    deadline; once set it is kept -/
def nfDeadlineOf (cfg : Cfg) (callerDl : Option Nat) (now : Nat) : Option Nat → Nat
  | some x => x
  | none => optMin (now + cfg.nfWindow) callerDl

/-- the `for` loop.  `i` = index of the resolution being examined, `now` = clock after it
    returned, `acc` = waits so far (newest first). -/
def loop (cfg : Cfg) (callerDl : Option Nat) (deadline : Nat) (ctxDone : Bool)
    (res : Nat → Res) (d : Nat → Nat) :
    Nat → Nat → Nat → Nat → Option Nat → List Sleep → Bool → Run
  | 0, i, _, _, _, acc, rec => ⟨i + 1, acc.reverse, rec, .outOfFuel⟩
  | fuel + 1, i, now, backoff, nfDl, acc, rec =>
    match res i with
    | .live => ⟨i + 1, acc.reverse, rec, .delivered now callerDl⟩
    | .terminal => ⟨i + 1, acc.reverse, rec, .failed now⟩
    | .nf false => ⟨i + 1, acc.reverse, rec, .failed now⟩
    | .pinned =>
      -- attemptDeadline = deadline, retryErr = ErrRelocationInProgress
      if deadline ≤ now ∨ ctxDone then ⟨i + 1, acc.reverse, true, .gaveUpRelocating now⟩
      else
        let dur := min backoff (deadline - now)
        loop cfg callerDl deadline ctxDone res d fuel (i + 1) (now + dur + d (i + 1))
          (min (backoff * 2) cfg.maxB) nfDl (⟨now, dur, true⟩ :: acc) true
    | .nf true =>
      -- notFoundDeadline is anchored at the first not-found observation, capped by the caller
      let nd := nfDeadlineOf cfg callerDl now nfDl
      if nd ≤ now ∨ ctxDone then ⟨i + 1, acc.reverse, true, .gaveUpErr now⟩
      else
        let dur := min backoff (nd - now)
        loop cfg callerDl deadline ctxDone res d fuel (i + 1) (now + dur + d (i + 1))
          (min (backoff * 2) cfg.maxB) (some nd) (⟨now, dur, false⟩ :: acc) true

/-- enough iterations for any run (see `Props.C35.sync_returns`) -/
def fuelFor (cfg : Cfg) : Nat := (cfg.window + cfg.nfWindow) / cfg.minB + 4

/-- deliverAcrossHandoff(ctx, name, maxWait, deliver) in a clustered system, called at time `t0`:
    the first resolution happens before `start := time.Now()` -/
def sync (cfg : Cfg) (maxWait : Nat) (ctxDone : Bool) (res : Nat → Res) (d : Nat → Nat) (t0 : Nat) : Run :=
  let start := t0 + d 0
  let callerDl : Option Nat := if maxWait > 0 then some (start + maxWait) else none
  let window := if maxWait > 0 ∧ maxWait < cfg.window then maxWait else cfg.window
  loop cfg callerDl (start + window) ctxDone res d (fuelFor cfg) 0 start cfg.minB none [] false

/-- deliverAcrossHandoff when the system is not clustered: resolve once, deliver or fail -/
def syncNoCluster (res0 : Res) (d0 t0 : Nat) : Run :=
  match res0 with
  | .live | .pinned => ⟨1, [], false, .delivered (t0 + d0) none⟩
  | _ => ⟨1, [], false, .failed (t0 + d0)⟩

/-- deliverBypassingHandoff: one resolution, no wait, never dials a relocating endpoint.
    `inCluster` = system.InCluster(); `res0 = pinned` means remote ∧ isEndpointRelocating. -/
def async (inCluster : Bool) (res0 : Res) (d0 t0 : Nat) : Run :=
  match res0 with
  | .live => ⟨1, [], false, .delivered (t0 + d0) none⟩
  | .pinned => if inCluster then ⟨1, [], false, .gaveUpRelocating (t0 + d0)⟩ else ⟨1, [], false, .delivered (t0 + d0) none⟩
  | _ => ⟨1, [], false, .failed (t0 + d0)⟩

def totalSleep (l : List Sleep) : Nat := (l.map (·.dur)).sum

end GoaktVerif.Model.C35

/-
C05 — sequential (single goroutine) use of the ready queue, for the E2 differential: every
operation is the SAME `exec` transitions as the concurrent model, run to the end of the Go function.
Raw entry points (`popFront`, `popGlobal`, `trySteal`, `stealHalf a→b`, `parkAndTake`) are reachable,
so branches that the worker discipline never reaches (e.g. a full destination in `stealHalf`) are tied too.
-/
import GoaktVerif.Model.C05.Queue

namespace GoaktVerif.Model.C05

inductive SeqOp where
  | push (x : Nat)
  | pushLocal (w x : Nat)
  | popFront (w : Nat)
  | popGlobal
  | trySteal (w : Nat)
  | stealHalf (a b : Nat)
  | parkAndTake
  | take (w : Nat)
  | close
  deriving Repr, DecidableEq

def Res.render : Res → String
  | .ok => "ok"
  | .item x => toString x
  | .closed => "closed"
  | .ran xs => "run:" ++ "+".intercalate (xs.map toString)

/-- run `exec` (as thread 0) from `pc` until the operation returns or control reaches a site
accepted by `stop` (= the Go function returned nil to its caller) -/
def runSeq (stop : PC → Bool) : Nat → Shared → PC → Shared × String
  | 0, s, _ => (s, "fuel")
  | fuel + 1, s, pc =>
    match exec s 0 pc with
    | (s', .goto pc') => if stop pc' then (s', "nil") else runSeq stop fuel s' pc'
    | (s', .ret r) => (s', r.render)
    | (s', .retTake _ x) => (s', toString x)
    | (s', .blocked) => (s', "blocked")

def allEmpty (s : Shared) : Bool := s.global.size = 0 && s.locals.all fun q => q.ring.size = 0

def seqStep (s : Shared) (op : SeqOp) : Shared × String :=
  let n := s.locals.length
  let fuel := 8 * n + 16
  match op with
  | .push x => if x = 0 then (s, "bad-op") else runSeq (fun _ => false) fuel s (.pushLock x)
  | .pushLocal w x => if x = 0 ∨ w ≥ n then (s, "bad-op") else runSeq (fun _ => false) fuel s (.plLock w x)
  | .popFront w => if w ≥ n then (s, "bad-op") else
      runSeq (fun pc => match pc with | .tkLoadGlobal _ => true | _ => false) fuel s (.tkLoadLocal w)
  | .popGlobal =>
      runSeq (fun pc => match pc with | .stLoad _ _ => true | .pkLock _ => true | _ => false) fuel s (.tkLoadGlobal 0)
  | .trySteal w => if w ≥ n then (s, "bad-op") else
      match stealStart n w with
      | .goto (.stLoad w' i) => runSeq (fun pc => match pc with | .pkLock _ => true | _ => false) fuel s (.stLoad w' i)
      | _ => (s, "nil")
  | .stealHalf a b => if a ≥ n ∨ b ≥ n then (s, "bad-op") else if a = b then (s, "nil") else
      runSeq (fun pc => match pc with | .stLoad _ _ => true | .pkLock _ => true | _ => false) fuel s (.stLock1 b ((a + n - b) % n))
  | .parkAndTake => if !s.closed && s.global.size = 0 then (s, "wouldblock") else
      runSeq (fun pc => match pc with | .tkLoadLocal _ => true | _ => false) fuel s (.pkLock 0)
  | .take w => if w ≥ n then (s, "bad-op") else if !s.closed && allEmpty s then (s, "wouldblock") else
      runSeq (fun _ => false) fuel s (.tkLoadLocal w)
  | .close => runSeq (fun _ => false) fuel s .clLock

def seqRun : Shared → List SeqOp → List String → Shared × List String
  | s, [], acc => (s, acc.reverse)
  | s, op :: ops, acc => let (s', r) := seqStep s op; seqRun s' ops (r :: acc)

end GoaktVerif.Model.C05

/-
C05 — the ring buffers of actor/ready_queue.go as they are coded: `localQueue` (fixed array of
`localQueueCap` slots + head/tail/size) and `globalQueue` (slice + head/tail/size, doubling `grow`).
A slot holds a schedulable; the model uses `Nat` ids with `0` standing for Go's `nil`.
-/
namespace GoaktVerif.Model.C05

/-- Go: `const localQueueCap` (tied to the source by `Gen.C05.localQueueCap`, see Props/C05) -/
def localQueueCap : Nat := 256
/-- Go: `const globalQueueInitialCap` -/
def globalQueueInitialCap : Nat := 64

structure Ring where
  buf : List Nat
  head : Nat
  tail : Nat
  size : Nat
  deriving Repr, DecidableEq

namespace Ring

/-- `len(buf)`; for a `localQueue` this is the array length `localQueueCap` -/
def cap (r : Ring) : Nat := r.buf.length

def empty (cap : Nat) : Ring := { buf := List.replicate cap 0, head := 0, tail := 0, size := 0 }

def get (r : Ring) (i : Nat) : Nat := r.buf.getD i 0

/-- `buf[tail] = x; tail = (tail+1) % len(buf); size++` -/
def pushRaw (r : Ring) (x : Nat) : Ring :=
  { r with buf := r.buf.set r.tail x, tail := (r.tail + 1) % r.cap, size := r.size + 1 }

/-- `s := buf[head]; buf[head] = nil; head = (head+1) % len(buf); size--` -/
def popRaw (r : Ring) : Nat × Ring :=
  (r.get r.head, { r with buf := r.buf.set r.head 0, head := (r.head + 1) % r.cap, size := r.size - 1 })

/-- the live window, oldest first: the List abstraction of the ring -/
def toList (r : Ring) : List Nat := (List.range r.size).map fun i => r.get ((r.head + i) % r.cap)

/-- `globalQueue.grow` -/
def grow (r : Ring) : Ring :=
  let newCap := if r.cap * 2 = 0 then globalQueueInitialCap else r.cap * 2
  { buf := r.toList ++ List.replicate (newCap - r.size) 0, head := 0, tail := r.size, size := r.size }

/-- `globalQueue.push` -/
def gpush (r : Ring) (x : Nat) : Ring :=
  (if r.size = r.cap then r.grow else r).pushRaw x

/-- `globalQueue.pop` (`0` = nil when empty) -/
def gpop (r : Ring) : Nat × Ring :=
  if r.size = 0 then (0, r) else r.popRaw

/-- the transfer loop of `localQueue.stealHalf` (`k` = remaining iterations) -/
def stealLoop : Nat → Ring → Ring → Ring × Ring
  | 0, q, d => (q, d)
  | k + 1, q, d =>
    if d.size = d.cap then (q, d)
    else
      let (x, q') := q.popRaw
      stealLoop k q' (d.pushRaw x)

/-- body of `localQueue.stealHalf` under both locks, for `q.size > 0`:
returned head, victim afterwards, destination afterwards -/
def stealHalf (q dst : Ring) : Nat × Ring × Ring :=
  let stolen := (q.size + 1) / 2
  let (h, q1) := q.popRaw
  let (q2, d2) := stealLoop (stolen - 1) q1 dst
  (h, q2, d2)

/-- number of non-nil slots (for the state digest: must equal `size`) -/
def nonNil (r : Ring) : Nat := (r.buf.filter (· != 0)).length

end Ring
end GoaktVerif.Model.C05

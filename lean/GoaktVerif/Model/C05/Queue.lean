/-
C05 — small-step model of the dispatcher's ready queue (actor/ready_queue.go, worker.go,
dispatcher.go).  One transition per synchronisation site, labelled exactly as tools/yieldinject
labels the sites of the Go code; the code between two sites runs inside the step of the first one
(it is either thread-local or protected by the lock that step holds).

Threads `0 … n-1` are the workers (thread `w` owns `locals[w]`: only it calls `take(w)` and
`pushLocal(w, ·)`, as `worker.run` / `worker.reschedule` do); any thread may `push`
(`dispatcher.schedule`) and `close` (`dispatcher.signalStop`).
-/
import GoaktVerif.Model.C05.Ring

namespace GoaktVerif.Model.C05

structure LocalQ where
  ring : Ring
  /-- `sizeAtomic` (int32 mirror of size) -/
  sizeAtomic : Nat
  /-- `mu`: the thread holding it -/
  mu : Option Nat
  deriving Repr, DecidableEq

instance : Inhabited LocalQ := ⟨{ ring := Ring.empty 0, sizeAtomic := 0, mu := none }⟩

/-- the `readyQueue` plus `dispatcher.stopping`, plus two ghost logs -/
structure Shared where
  locals : List LocalQ
  global : Ring
  globalCount : Nat
  parkMu : Option Nat
  parked : Nat
  closed : Bool
  /-- goroutines blocked in `cond.Wait` that have not been signalled, oldest first -/
  waiters : List Nat
  /-- goroutines woken by Signal/Broadcast that have not yet re-acquired `parkMu` -/
  signalled : List Nat
  stopping : Bool
  /-- ghost: every item stored into a ring by `pushBack` / `globalQueue.push`, newest first -/
  pushed : List Nat
  /-- ghost: every item removed from a ring by `popFront` / `globalQueue.pop` / as the head of `stealHalf` -/
  taken : List Nat
  deriving Repr, DecidableEq

inductive Op where
  | push (k : Nat)        -- dispatcher.schedule(item k+1)
  | pushLocal (k : Nat)   -- worker.reschedule(item k+1) on the calling worker
  | take                  -- readyQueue.take(own id)
  | run                   -- worker.run(): take until closed, "running" each item
  | close                 -- dispatcher.signalStop()
  deriving Repr, DecidableEq

inductive Res where
  | ok
  | item (x : Nat)
  | closed
  | ran (xs : List Nat)
  deriving Repr, DecidableEq

/-- program counter = the site a thread is parked at, with the locals that are live there -/
inductive PC where
  | pushLock (x : Nat)          -- push: Lock:parkMu
  | pushStore                   -- push: Store:globalCount (holds parkMu, item stored)
  | pushSignal                  -- push: Signal:cond (holds parkMu)
  | plLock (w x : Nat)          -- pushBack: Lock:mu
  | plStore (w : Nat)           -- pushBack: Store:sizeAtomic (holds mu)
  | tkLoadLocal (w : Nat)       -- popFront: Load:sizeAtomic
  | tkLockLocal (w : Nat)       -- popFront: Lock:mu
  | tkStoreLocal (w x : Nat)    -- popFront: Store:sizeAtomic (holds mu, x removed)
  | tkLoadGlobal (w : Nat)      -- popGlobal: Load:globalCount
  | tkLockGlobal (w : Nat)      -- popGlobal: Lock:parkMu
  | tkStoreGlobal (w x : Nat)   -- popGlobal: Store:globalCount (holds parkMu, x removed)
  | stLoad (w i : Nat)          -- trySteal: Load:sizeAtomic of victim (w+i)%n
  | stLock1 (w i : Nat)         -- stealHalf: Lock:mu (first in address order)
  | stLock2 (w i : Nat)         -- stealHalf: Lock:mu (second; holds first)
  | stStore1 (w i x : Nat)      -- stealHalf: Store:sizeAtomic of the victim (holds both)
  | stStore2 (w i x : Nat)      -- stealHalf: Store:sizeAtomic of the thief's ring (holds both)
  | pkLock (w : Nat)            -- parkAndTake: Lock:parkMu
  | pkStore (w x : Nat)         -- parkAndTake: Store:globalCount (holds parkMu, x removed)
  | pkWait (w : Nat)            -- parkAndTake: Wait:cond (holds parkMu, parked already incremented)
  | pkWake (w : Nat)            -- parkAndTake: inside cond.Wait (a waiter)
  | clCAS                       -- signalStop: CAS:stopping
  | clLock                      -- close: Lock:parkMu
  | clBroadcast                 -- close: Broadcast:cond (holds parkMu, closed set)
  deriving Repr, DecidableEq

def PC.label : PC → String
  | .pushLock _ => "Lock:parkMu" | .pushStore => "Store:globalCount" | .pushSignal => "Signal:cond"
  | .plLock _ _ => "Lock:mu" | .plStore _ => "Store:sizeAtomic"
  | .tkLoadLocal _ => "Load:sizeAtomic" | .tkLockLocal _ => "Lock:mu" | .tkStoreLocal _ _ => "Store:sizeAtomic"
  | .tkLoadGlobal _ => "Load:globalCount" | .tkLockGlobal _ => "Lock:parkMu" | .tkStoreGlobal _ _ => "Store:globalCount"
  | .stLoad _ _ => "Load:sizeAtomic" | .stLock1 _ _ => "Lock:mu" | .stLock2 _ _ => "Lock:mu"
  | .stStore1 _ _ _ => "Store:sizeAtomic" | .stStore2 _ _ _ => "Store:sizeAtomic"
  | .pkLock _ => "Lock:parkMu" | .pkStore _ _ => "Store:globalCount" | .pkWait _ => "Wait:cond" | .pkWake _ => "Wake:cond"
  | .clCAS => "CAS:stopping" | .clLock => "Lock:parkMu" | .clBroadcast => "Broadcast:cond"

/-- what a thread does after the step -/
inductive Next where
  | goto (pc : PC)
  | ret (r : Res)               -- the operation returns r
  | retTake (w x : Nat)         -- `take(w)` returns (x, true)
  | blocked                     -- lock held / not signalled: nothing happened
  deriving Repr, DecidableEq

def Shared.getL (s : Shared) (w : Nat) : LocalQ := s.locals.getD w default
def Shared.setL (s : Shared) (w : Nat) (q : LocalQ) : Shared := { s with locals := s.locals.set w q }

/-- trySteal: continue with the next victim, or fall through to parkAndTake -/
def stealNext (n w i : Nat) : Next :=
  if i + 1 < n then .goto (.stLoad w (i + 1)) else .goto (.pkLock w)

/-- trySteal entry (`if n == 1 return nil; for i := 1; i < n; i++`) -/
def stealStart (n w : Nat) : Next :=
  if 1 < n then .goto (.stLoad w 1) else .goto (.pkLock w)

/-- the `for` loop of parkAndTake, entered holding parkMu -/
def parkLoop (s : Shared) (w : Nat) : Shared × Next :=
  if s.closed then ({ s with parkMu := none }, .ret .closed)
  else if s.global.size > 0 then
    let (x, g) := s.global.gpop
    ({ s with global := g, taken := x :: s.taken }, .goto (.pkStore w x))
  else ({ s with parked := s.parked + 1 }, .goto (.pkWait w))

/-- effect of the site `pc` executed by thread `tid` -/
def exec (s : Shared) (tid : Nat) : PC → Shared × Next
  | .pushLock x =>
    if s.parkMu.isSome then (s, .blocked)
    else ({ s with parkMu := some tid, global := s.global.gpush x, pushed := x :: s.pushed }, .goto .pushStore)
  | .pushStore =>
    let s := { s with globalCount := s.global.size }
    if s.parked > 0 then (s, .goto .pushSignal) else ({ s with parkMu := none }, .ret .ok)
  | .pushSignal =>
    match s.waiters with
    | [] => ({ s with parkMu := none }, .ret .ok)
    | t :: ws => ({ s with waiters := ws, signalled := s.signalled ++ [t], parkMu := none }, .ret .ok)
  | .plLock w x =>
    let q := s.getL w
    if q.mu.isSome then (s, .blocked)
    else if q.ring.size = q.ring.cap then (s, .goto (.pushLock x))
    else ({ s.setL w { q with ring := q.ring.pushRaw x, mu := some tid } with pushed := x :: s.pushed }, .goto (.plStore w))
  | .plStore w =>
    let q := s.getL w
    (s.setL w { q with sizeAtomic := q.ring.size, mu := none }, .ret .ok)
  | .tkLoadLocal w =>
    if (s.getL w).sizeAtomic = 0 then (s, .goto (.tkLoadGlobal w)) else (s, .goto (.tkLockLocal w))
  | .tkLockLocal w =>
    let q := s.getL w
    if q.mu.isSome then (s, .blocked)
    else if q.ring.size = 0 then (s, .goto (.tkLoadGlobal w))
    else
      let (x, r) := q.ring.popRaw
      ({ s.setL w { q with ring := r, mu := some tid } with taken := x :: s.taken }, .goto (.tkStoreLocal w x))
  | .tkStoreLocal w x =>
    let q := s.getL w
    (s.setL w { q with sizeAtomic := q.ring.size, mu := none },
      if x ≠ 0 then .retTake w x else .goto (.tkLoadGlobal w))
  | .tkLoadGlobal w =>
    if s.globalCount = 0 then (s, stealStart s.locals.length w) else (s, .goto (.tkLockGlobal w))
  | .tkLockGlobal w =>
    if s.parkMu.isSome then (s, .blocked)
    else if s.global.size = 0 then (s, stealStart s.locals.length w)
    else
      let (x, g) := s.global.gpop
      if x ≠ 0 then ({ s with global := g, taken := x :: s.taken, parkMu := some tid }, .goto (.tkStoreGlobal w x))
      else ({ s with global := g, taken := x :: s.taken }, stealStart s.locals.length w)
  | .tkStoreGlobal w x =>
    ({ s with globalCount := s.global.size, parkMu := none }, .retTake w x)
  | .stLoad w i =>
    let v := (w + i) % s.locals.length
    if (s.getL v).sizeAtomic = 0 ∨ v = w then (s, stealNext s.locals.length w i)
    else (s, .goto (.stLock1 w i))
  | .stLock1 w i =>
    let v := (w + i) % s.locals.length
    let first := min v w
    let q := s.getL first
    if q.mu.isSome then (s, .blocked)
    else (s.setL first { q with mu := some tid }, .goto (.stLock2 w i))
  | .stLock2 w i =>
    let v := (w + i) % s.locals.length
    let first := min v w
    let second := max v w
    let q2 := s.getL second
    if q2.mu.isSome then (s, .blocked)
    else
      let vq := s.getL v
      if vq.ring.size = 0 then
        -- `return nil` with both deferred unlocks
        let s := s.setL first { s.getL first with mu := none }
        (s, stealNext s.locals.length w i)
      else
        let s := s.setL second { q2 with mu := some tid }
        let (h, qr, dr) := Ring.stealHalf (s.getL v).ring (s.getL w).ring
        let s := s.setL v { s.getL v with ring := qr }
        let s := s.setL w { s.getL w with ring := dr }
        ({ s with taken := h :: s.taken }, .goto (.stStore1 w i h))
  | .stStore1 w i x =>
    let v := (w + i) % s.locals.length
    let q := s.getL v
    (s.setL v { q with sizeAtomic := q.ring.size }, .goto (.stStore2 w i x))
  | .stStore2 w i x =>
    let v := (w + i) % s.locals.length
    let s := s.setL w { s.getL w with sizeAtomic := (s.getL w).ring.size, mu := none }
    let s := s.setL v { s.getL v with mu := none }
    (s, if x ≠ 0 then .retTake w x else stealNext s.locals.length w i)
  | .pkLock w =>
    if s.parkMu.isSome then (s, .blocked)
    else parkLoop { s with parkMu := some tid } w
  | .pkStore w x =>
    ({ s with globalCount := s.global.size, parkMu := none },
      if x ≠ 0 then .retTake w x else .goto (.tkLoadLocal w))
  | .pkWait w =>
    ({ s with waiters := s.waiters ++ [tid], parkMu := none }, .goto (.pkWake w))
  | .pkWake w =>
    if s.signalled.contains tid && s.parkMu.isNone then
      parkLoop { s with signalled := s.signalled.erase tid, parkMu := some tid, parked := s.parked - 1 } w
    else (s, .blocked)
  | .clCAS =>
    if s.stopping then (s, .ret .ok) else ({ s with stopping := true }, .goto .clLock)
  | .clLock =>
    if s.parkMu.isSome then (s, .blocked)
    else ({ s with parkMu := some tid, closed := true }, .goto .clBroadcast)
  | .clBroadcast =>
    ({ s with signalled := s.signalled ++ s.waiters, waiters := [], parkMu := none }, .ret .ok)

structure Thread where
  pc : Option PC
  prog : List Op
  results : List Res       -- newest first
  /-- `some acc` while inside `worker.run`: the items run so far, newest first -/
  run : Option (List Nat)
  deriving Repr, DecidableEq

structure Cfg where
  sh : Shared
  threads : List Thread
  deriving Repr, DecidableEq

/-- first site of an operation issued by thread `tid` -/
def begin (tid : Nat) : Op → PC × Option (List Nat)
  | .push k => (.pushLock (k + 1), none)
  | .pushLocal k => (.plLock tid (k + 1), none)
  | .take => (.tkLoadLocal tid, none)
  | .run => (.tkLoadLocal tid, some [])
  | .close => (.clCAS, none)

def startNext (tid : Nat) (t : Thread) : Thread :=
  match t.prog with
  | [] => { t with pc := none, run := none }
  | op :: rest => { t with pc := some (begin tid op).1, run := (begin tid op).2, prog := rest }

def finishOp (tid : Nat) (t : Thread) (r : Res) : Thread :=
  startNext tid { t with results := r :: t.results }

def applyNext (tid : Nat) (t : Thread) : Next → Thread
  | .goto pc => { t with pc := some pc }
  | .ret r =>
    match t.run with
    | none => finishOp tid t r
    | some acc => finishOp tid t (.ran acc.reverse)      -- worker.run returns when take reports closed
  | .retTake w x =>
    match t.run with
    | none => finishOp tid t (.item x)
    | some acc => { t with run := some (x :: acc), pc := some (.tkLoadLocal w) }   -- runTurn, then take again
  | .blocked => t

def step (c : Cfg) (tid : Nat) : String × Cfg :=
  match c.threads[tid]? with
  | none => ("!nothread", c)
  | some t =>
    match t.pc with
    | none => ("!done", c)
    | some pc =>
      let (s, nx) := exec c.sh tid pc
      (if nx = .blocked then pc.label ++ "!blocked" else pc.label,
        { sh := s, threads := c.threads.set tid (applyNext tid t nx) })

def initShared (n : Nat) : Shared :=
  { locals := List.replicate n { ring := Ring.empty localQueueCap, sizeAtomic := 0, mu := none },
    global := Ring.empty globalQueueInitialCap, globalCount := 0, parkMu := none, parked := 0, closed := false,
    waiters := [], signalled := [], stopping := false, pushed := [], taken := [] }

def mkThread (tid : Nat) (prog : List Op) : Thread :=
  startNext tid { pc := none, prog := prog, results := [], run := none }

def mkThreads : Nat → List (List Op) → List Thread
  | _, [] => []
  | tid, p :: ps => mkThread tid p :: mkThreads (tid + 1) ps

def init (n : Nat) (progs : List (List Op)) : Cfg :=
  { sh := initShared n, threads := mkThreads 0 progs }

def done (c : Cfg) (tid : Nat) : Bool :=
  match c.threads[tid]? with
  | some t => t.pc.isNone
  | none => true

end GoaktVerif.Model.C05

/-
C29 — per-message context metadata: client side `injectMessageMetadata` / `enrichContext`
(internal/remoteclient/client.go), wire (`RemoteMessage.Metadata`, one map per message inside a
`RemoteTellRequest` batch; request-level `inet.Metadata` for asks and synchronous tells), server side
`messageMetadata` / `extractContextWithPropagator` (actor/remote_server.go) and the propagator contract
of remote/context_propagator.go (carrier = `net/http.Header`).

A header map is an association list with distinct keys (it comes out of a Go map).  Go map
iteration order is unspecified; the functions below fold in list order and the theorems are stated
under a guard (distinct canonical keys) that makes the result independent of that order.
-/
namespace GoaktVerif.Model.C29

/-- strings as character lists (so that instances reduce by `decide`) -/
abbrev Str := List Char
/-- `net/http.Header`: key ↦ list of values -/
abbrev Header := List (Str × List Str)
/-- `map[string]string` on the wire -/
abbrev Flat := List (Str × Str)

/-- `httpguts.IsTokenRune` restricted to bytes: the characters allowed in a header field name -/
def isTokenChar (c : Char) : Bool :=
  c.isAlphanum || ['!', '#', '$', '%', '&', '\'', '*', '+', '-', '.', '^', '_', '`', '|', '~'].contains c

/-- `textproto.CanonicalMIMEHeaderKey`: a key containing a non-token byte is returned unchanged;
    otherwise the first letter and every letter after '-' is upper-cased, the others lower-cased -/
def canonChars : Bool → List Char → List Char
  | _, [] => []
  | up, c :: cs =>
    let c' := if up then c.toUpper else c.toLower
    c' :: canonChars (c' == '-') cs

def canonKey (k : Str) : Str :=
  if k.all isTokenChar then canonChars true k else k

/-- `Header.Set` / `map[k] = v`: replace the entry of `k`, or add it -/
def setKV (m : Flat) (k v : Str) : Flat :=
  if m.any (·.1 == k) then m.map (fun e => if e.1 == k then (k, v) else e) else m ++ [(k, v)]

/-- client: `for k, v := range headers { if len(v) > 0 { md[k] = v[0] } }` — first value only,
    keys exactly as the propagator wrote them -/
def inject (h : Header) : Flat :=
  h.filterMap fun (k, vs) => vs.head?.map fun v => (k, v)

/-- server: `for k, v := range md { headers.Set(k, v) }` — `Set` canonicalises the key; what
    `Extract` receives is single-valued -/
def restore (md : Flat) : Flat :=
  md.foldl (fun acc (k, v) => setKV acc (canonKey k) v) []

/-- server loop of remoteTellHandler / deliverRemoteTellMessage: every message of the batch gets the
    request-level context overlaid with ITS OWN metadata (`messageMetadata(ctx, m.Metadata)` is
    always applied to the request context, never to the previous message's); a message without
    metadata sees the request-level context unchanged -/
def overlay (base md : Flat) : Flat := md.foldl (fun acc (k, v) => setKV acc k v) base

def deliverBatch (reqLevel : Flat) (batch : List Flat) : List Flat :=
  batch.map fun md => if md.isEmpty then reqLevel else overlay reqLevel (restore md)

/-- the whole coalesced path for a batch of messages coming from callers with header maps `hs`
    (the batch flush carries no request-level metadata) -/
def tellPath (hs : List Header) : List Flat := deliverBatch [] (hs.map inject)

/-- request-level path (RemoteAsk, RemoteBatchAsk, synchronous RemoteTell): `enrichContext` puts the
    first value of every header into the frame metadata, `extractContextWithPropagator` rebuilds an
    `http.Header` with `Set` — the same two functions, once per request -/
def askPath (h : Header) : Flat := restore (inject h)

/-- a client used for a SEQUENCE of calls of mixed kinds (true = request-level ask, false = coalesced
    tell): every call builds its carrier from scratch (`make(nethttp.Header, 4)` in both
    `enrichContext` and `injectMessageMetadata`), so a call's metadata is a function of its own
    header map only — nothing of an earlier call survives into a later one -/
def seqPath (steps : List (Bool × Header)) : List Flat :=
  steps.map fun (isAsk, h) => if isAsk then askPath h else (tellPath [h]).headD []

/-- what the property promises for a header map: same entries, keys in canonical MIME form -/
def expected (h : Header) : Flat := h.filterMap fun (k, vs) => vs.head?.map fun v => (canonKey k, v)

end GoaktVerif.Model.C29

/-
C14, concurrent layer — actor/behavior_stack.go at atomic-operation granularity (engine E3).

One transition per sync/atomic site, with the labels tools/yieldinject gives the real code:

  Push:  Load:top (t := top; node.next = t)   CAS:top (top == t ? top := &node : retry)   Add:length (+1)
  Pop:   Load:top (nil ⇒ return nil)   Load:next (n := t.next)   CAS:top (top == t ? top := n : retry)   Add:length (-1)
  Peek:  Load:top            Len: Load:length            Reset: Store:top (nil)   Store:length (0)

A node is private to the pushing thread until its CAS succeeds, so it enters the shared heap at that
step (fresh address = heap size: Go's GC never reuses the address of a node somebody still points
to, hence no ABA); published nodes are immutable.  `length` is an Int: the code's uint64 counter
read through `int(...)` equals it as long as fewer than 2^63 operations ran (so a counter that
wrapped below zero reads as -1, exactly what Go's `int(uint64)` gives).
Core Lean only.
-/
namespace GoaktVerif.Model.C14.Conc

structure Node where
  val : Nat
  next : Option Nat
  deriving Repr, DecidableEq

inductive Op where
  | push (b : Nat) | pop | peek | len | reset
  deriving Repr, DecidableEq

inductive Pc where
  | pushLoad (b : Nat)
  | pushCAS (b : Nat) (t : Option Nat)
  | pushAdd
  | popLoad
  | popNext (t : Nat)
  | popCAS (t : Nat) (n : Option Nat)
  | popAdd (v : Nat)
  | peekLoad | lenLoad | resetTop | resetLen
  deriving Repr, DecidableEq

inductive Res where
  | ok | val (v : Option Nat) | num (n : Int)
  deriving Repr, DecidableEq

structure Thread where
  pc : Option Pc
  todo : List Op
  hist : List Res        -- newest first
  deriving Repr, DecidableEq

structure Cfg where
  top : Option Nat
  length : Int
  heap : List Node
  threads : List Thread
  deriving Repr, DecidableEq

def pcOf : Op → Pc
  | .push b => .pushLoad b
  | .pop => .popLoad
  | .peek => .peekLoad
  | .len => .lenLoad
  | .reset => .resetTop

def label : Pc → String
  | .pushLoad _ => "Load:top" | .pushCAS _ _ => "CAS:top" | .pushAdd => "Add:length"
  | .popLoad => "Load:top" | .popNext _ => "Load:next" | .popCAS _ _ => "CAS:top" | .popAdd _ => "Add:length"
  | .peekLoad => "Load:top" | .lenLoad => "Load:length" | .resetTop => "Store:top" | .resetLen => "Store:length"

def startNext (t : Thread) : Thread :=
  match t.todo with
  | [] => { t with pc := none }
  | op :: r => { t with pc := some (pcOf op), todo := r }

def finish (t : Thread) (r : Res) : Thread := startNext { t with hist := r :: t.hist }

def valAt (heap : List Node) (a : Nat) : Nat := (heap[a]?.map (·.val)).getD 0
def nextAt (heap : List Node) (a : Nat) : Option Nat := heap[a]?.bind (·.next)

/-- what thread `t`, parked at `pc`, does to the shared words and to itself -/
def exec (c : Cfg) (t : Thread) : Pc → Option Nat × Int × List Node × Thread
  | .pushLoad b => (c.top, c.length, c.heap, { t with pc := some (.pushCAS b c.top) })
  | .pushCAS b old =>
    if c.top = old then (some c.heap.length, c.length, c.heap ++ [⟨b, old⟩], { t with pc := some .pushAdd })
    else (c.top, c.length, c.heap, { t with pc := some (.pushLoad b) })
  | .pushAdd => (c.top, c.length + 1, c.heap, finish t .ok)
  | .popLoad =>
    match c.top with
    | none => (c.top, c.length, c.heap, finish t (.val none))
    | some a => (c.top, c.length, c.heap, { t with pc := some (.popNext a) })
  | .popNext a => (c.top, c.length, c.heap, { t with pc := some (.popCAS a (nextAt c.heap a)) })
  | .popCAS a n =>
    if c.top = some a then (n, c.length, c.heap, { t with pc := some (.popAdd (valAt c.heap a)) })
    else (c.top, c.length, c.heap, { t with pc := some .popLoad })
  | .popAdd v => (c.top, c.length - 1, c.heap, finish t (.val (some v)))
  | .peekLoad => (c.top, c.length, c.heap, finish t (.val (c.top.map (valAt c.heap))))
  | .lenLoad => (c.top, c.length, c.heap, finish t (.num c.length))
  | .resetTop => (none, c.length, c.heap, { t with pc := some .resetLen })
  | .resetLen => (c.top, 0, c.heap, finish t .ok)

def step (c : Cfg) (tid : Nat) : Cfg :=
  match c.threads[tid]? with
  | none => c
  | some t =>
    match t.pc with
    | none => c
    | some pc =>
      let r := exec c t pc
      { top := r.1, length := r.2.1, heap := r.2.2.1, threads := c.threads.set tid r.2.2.2 }

def init (progs : List (List Op)) : Cfg :=
  { top := none, length := 0, heap := [], threads := progs.map fun p => startNext ⟨none, p, []⟩ }

def run (c : Cfg) : List Nat → Cfg
  | [] => c
  | t :: ts => run (step c t) ts

/-- values from `a` down the chain; fuel = heap size suffices because `next` always points to an older node -/
def chain (heap : List Node) : Nat → Option Nat → List Nat
  | 0, _ => []
  | _ + 1, none => []
  | f + 1, some a =>
    match heap[a]? with
    | none => []
    | some nd => nd.val :: chain heap f nd.next

/-- the abstract stack of a configuration: what a sequential walk from `top` sees -/
def abs (c : Cfg) : List Nat := chain c.heap c.heap.length c.top

def done (c : Cfg) (tid : Nat) : Bool :=
  match c.threads[tid]? with
  | some t => t.pc.isNone
  | none => true

end GoaktVerif.Model.C14.Conc

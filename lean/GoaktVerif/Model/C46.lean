/-
C46 — stream junctions (stream/source.go, stage_source.go [mergeSourceActor], stage_concat.go,
stage_zipn.go, stage_broadcast.go, stage_balance.go, stage_partition.go).
Each junction actor as a state machine, one transition per handled message, mirroring `Receive`.
Values, protocol messages: Model/C45/Basic.  Core Lean only.
-/
import GoaktVerif.Model.C45.Basic

namespace GoaktVerif.Model.C46
open GoaktVerif.Model.C45 (Val Err Down Up)

/-! ### fan-in sources: Merge, Concat, Zip.  Their sub-pipelines end in internal sinks that send
`mergeSubValue{slot,value}` per element and `mergeSubDone{slot}` at completion. -/

inductive JEv where
  | wire
  | req (n : Int)
  | value (slot : Nat) (v : Val)
  | done (slot : Nat)
  | cancel
  deriving Repr, Inhabited

/-- values are kept with the slot they came from (the Go buffer holds the bare value; the tag is ghost) -/
abbrev Tagged := Nat × Val

structure MergeSt where
  n : Nat
  buf : List Tagged := []
  demand : Int := 0
  doneCount : Nat := 0
  alive : Bool := true
  deriving Repr, Inhabited

/-- `tryFlush` of mergeSourceActor: (state, elements sent, completed?) -/
def MergeSt.tryFlush (s : MergeSt) : MergeSt × List Tagged × Bool :=
  let k := min s.demand.toNat s.buf.length
  let s1 := { s with buf := s.buf.drop k, demand := s.demand - k }
  if s1.doneCount ≥ s1.n && s1.buf.isEmpty then ({ s1 with alive := false }, s.buf.take k, true)
  else (s1, s.buf.take k, false)

/-- what one `Receive` of a fan-in source sends downstream: tagged elements, then possibly streamComplete -/
structure JOut where
  elems : List Tagged := []
  complete : Bool := false
  deriving Repr, Inhabited

def mergeStep (s : MergeSt) : JEv → MergeSt × JOut
  | .wire => if s.n = 0 then ({ s with alive := false }, { complete := true }) else (s, {})
  | .req k => let r := ({ s with demand := s.demand + k }).tryFlush; (r.1, ⟨r.2.1, r.2.2⟩)
  | .value slot v => let r := ({ s with buf := s.buf ++ [(slot, v)] }).tryFlush; (r.1, ⟨r.2.1, r.2.2⟩)
  | .done _ => let r := ({ s with doneCount := s.doneCount + 1 }).tryFlush; (r.1, ⟨r.2.1, r.2.2⟩)
  | .cancel => ({ s with alive := false }, { complete := true })

structure ConcatSt where
  n : Nat
  buf : List Tagged := []
  demand : Int := 0
  /-- index of the sub-source currently materialized (`current`, starts at -1 in Go; here: number spawned) -/
  spawned : Nat := 0
  done : Bool := false
  alive : Bool := true
  deriving Repr, Inhabited

def ConcatSt.tryFlush (s : ConcatSt) : ConcatSt × List Tagged × Bool :=
  let k := min s.demand.toNat s.buf.length
  let s1 := { s with buf := s.buf.drop k, demand := s.demand - k }
  if s1.done && s1.buf.isEmpty then ({ s1 with alive := false }, s.buf.take k, true)
  else (s1, s.buf.take k, false)

def concatStep (s : ConcatSt) : JEv → ConcatSt × JOut
  | .wire => if s.n = 0 then ({ s with alive := false }, { complete := true }) else ({ s with spawned := 1 }, {})
  | .req k => let r := ({ s with demand := s.demand + k }).tryFlush; (r.1, ⟨r.2.1, r.2.2⟩)
  | .value slot v => let r := ({ s with buf := s.buf ++ [(slot, v)] }).tryFlush; (r.1, ⟨r.2.1, r.2.2⟩)
  | .done _ =>
    -- `current+1 < len(subStages)`: spawn the next sub-source and return without flushing
    if s.spawned < s.n then ({ s with spawned := s.spawned + 1 }, {})
    else let r := ({ s with done := true }).tryFlush; (r.1, ⟨r.2.1, r.2.2⟩)
  | .cancel => ({ s with alive := false }, { complete := true })

structure ZipSt where
  bufs : List (List Val)
  done : List Bool
  demand : Int := 0
  alive : Bool := true
  deriving Repr, Inhabited

def allReady (bufs : List (List Val)) : Bool := bufs.all (fun b => !b.isEmpty)

/-- the int at the head of a slot buffer -/
def headInt : List Val → Option Int
  | Val.int x :: _ => some x
  | _ => none

/-- the tuple of heads (as ints: the harness zips ints) -/
def headsTuple (bufs : List (List Val)) : Val := .list (bufs.filterMap headInt)

/-- the emit loop of `tryEmit`: fuel bounds the number of tuples -/
def zipEmit : Nat → Int → List (List Val) → Int × List (List Val) × List Val
  | 0, d, bufs => (d, bufs, [])
  | f + 1, d, bufs =>
    if d > 0 && allReady bufs && !bufs.isEmpty then
      let r := zipEmit f (d - 1) (bufs.map List.tail)
      (r.1, r.2.1, headsTuple bufs :: r.2.2)
    else (d, bufs, [])

def zipFuel (bufs : List (List Val)) : Nat := (bufs.map List.length).foldl max 0

/-- some slot is done with an empty buffer: no further tuple can be formed -/
def zipExhausted : List (List Val) → List Bool → Bool
  | b :: bs, d :: ds => (d && b.isEmpty) || zipExhausted bs ds
  | _, _ => false

def ZipSt.tryEmit (s : ZipSt) : ZipSt × List Val × Bool :=
  let r := zipEmit (zipFuel s.bufs) s.demand s.bufs
  let s1 := { s with demand := r.1, bufs := r.2.1 }
  if zipExhausted s1.bufs s1.done then ({ s1 with alive := false }, r.2.2, true) else (s1, r.2.2, false)

/-- zip emits untagged tuples -/
structure ZOut where
  elems : List Val := []
  complete : Bool := false
  deriving Repr, Inhabited

def zipStep (n : Nat) (s : ZipSt) : JEv → ZipSt × ZOut
  | .wire =>
    if n = 0 then ({ s with alive := false }, { complete := true })
    else ({ s with bufs := List.replicate n [], done := List.replicate n false }, {})
  | .req k => let r := ({ s with demand := s.demand + k }).tryEmit; (r.1, ⟨r.2.1, r.2.2⟩)
  | .value slot v =>
    let r := ({ s with bufs := s.bufs.modify slot (· ++ [v]) }).tryEmit; (r.1, ⟨r.2.1, r.2.2⟩)
  | .done slot => let r := ({ s with done := s.done.set slot true }).tryEmit; (r.1, ⟨r.2.1, r.2.2⟩)
  | .cancel => ({ s with alive := false }, { complete := true })

/-! ### fan-out hubs: Broadcast, Balance, Partition.  The hub is the sink of the shared upstream
pipeline; slot actors relay demand (`slotDemand`) and cancellation (`slotCancel`). -/

inductive HEv where
  | wire
  | slotDemand (slot : Nat) (n : Int)
  | elem (v : Val)
  | complete
  | error (e : Err)
  | slotCancel (slot : Nat)
  deriving Repr, Inhabited

inductive HubKind where
  | broadcast
  | balance
  /-- selector x ↦ x mod m -/
  | partition (m : Nat)
  deriving Repr, Inhabited, DecidableEq

structure HubSt where
  n : Nat
  demand : List Int
  /-- `slots[i] != nil` -/
  live : List Bool
  pending : Int := 0
  cancelled : Nat := 0
  next : Nat := 0
  /-- Balance only (fix 61853f2): elements waiting for a slot with demand -/
  buf : List Val := []
  /-- Balance only: upstream completed while `buf` was not empty -/
  upDone : Bool := false
  alive : Bool := true
  deriving Repr, Inhabited

def HubSt.init (n : Nat) : HubSt := { n := n, demand := List.replicate n 0, live := List.replicate n true }

structure HOut where
  /-- (slot, message) sent to slot actors -/
  toSlots : List (Nat × Down) := []
  up : List Up := []
  /-- `hubReady` sent to every slot at wire time -/
  ready : Bool := false
  deriving Repr, Inhabited

/-- demands of the live slots -/
def liveDemands (s : HubSt) : List Int :=
  (s.demand.zip s.live).filterMap fun (d, l) => if l then some d else none

/-- `minDemand` as written in Go: `result := -1; for live i { if result < 0 || demand[i] < result { result = demand[i] } }`
    (a negative running value is REPLACED by the next demand, so with negative demands this is not the minimum),
    then 0 when not positive -/
def minDemand (s : HubSt) : Int :=
  let r := (liveDemands s).foldl (fun r d => if r < 0 || d < r then d else r) (-1)
  if r ≤ 0 then 0 else r

/-- `totalDemand` -/
def totalDemand (s : HubSt) : Int := (liveDemands s).foldl (· + ·) 0

def HubSt.maybePull (k : HubKind) (s : HubSt) : HubSt × List Up :=
  if s.pending > 0 then (s, [])
  else
    let m := if k = .balance then totalDemand s else minDemand s
    if m ≤ 0 then (s, []) else ({ s with pending := m }, [.req m])

def liveSlots (s : HubSt) : List Nat := (List.range s.n).filter fun i => s.live.getD i false

/-- Balance: the first live slot with demand > 0 scanning from `next` -/
def chooseSlot (s : HubSt) : Option Nat :=
  ((List.range s.n).map fun i => (s.next + i) % s.n).find? fun idx =>
    s.live.getD idx false && s.demand.getD idx 0 > 0

def decr (l : List Int) (i : Nat) : List Int := l.modify i (· - 1)

/-- Balance `drain`: route buffered elements, oldest first, while some live slot has demand (fuel = buffer length) -/
def drain : Nat → HubSt → HubSt × List (Nat × Down)
  | 0, s => (s, [])
  | f + 1, s =>
    match s.buf with
    | [] => (s, [])
    | v :: rest =>
      match chooseSlot s with
      | none => (s, [])
      | some c =>
        let r := drain f { s with buf := rest, demand := decr s.demand c, next := (c + 1) % s.n }
        (r.1, (c, Down.elem v) :: r.2)

def HubSt.drain (s : HubSt) : HubSt × List (Nat × Down) := GoaktVerif.Model.C46.drain s.buf.length s

def hubStep (k : HubKind) (s : HubSt) : HEv → HubSt × HOut
  | .wire => (s, { ready := true })
  | .slotDemand slot n =>
    let s0 := { s with demand := s.demand.modify slot (· + n) }
    if k = .balance then
      let d := s0.drain
      if d.1.upDone && d.1.buf.isEmpty then
        ({ d.1 with alive := false }, { toSlots := d.2 ++ (liveSlots d.1).map fun i => (i, Down.complete) })
      else
        let r := d.1.maybePull k
        (r.1, { toSlots := d.2, up := r.2 })
    else
      let r := s0.maybePull k
      (r.1, { up := r.2 })
  | .elem v =>
    let s0 := { s with pending := s.pending - 1 }
    match k with
    | .broadcast =>
      let ls := liveSlots s0
      let s1 := { s0 with demand := ls.foldl decr s0.demand }
      let r := s1.maybePull k
      (r.1, { toSlots := ls.map fun i => (i, Down.elem v), up := r.2 })
    | .balance =>
      -- an element that finds no demand waits in `buf` (before fix 61853f2 it was dropped)
      let d := ({ s0 with buf := s0.buf ++ [v] }).drain
      let r := d.1.maybePull k
      (r.1, { toSlots := d.2, up := r.2 })
    | .partition m =>
      let slot := match v with | .int x => (x.emod m).toNat | _ => s0.n
      if slot < s0.n && s0.live.getD slot false then
        let s1 := { s0 with demand := decr s0.demand slot }
        let r := s1.maybePull k
        (r.1, { toSlots := [(slot, .elem v)], up := r.2 })
      else
        let r := s0.maybePull k
        (r.1, { up := r.2 })
  | .complete =>
    if k = .balance && !s.buf.isEmpty then ({ s with upDone := true }, {})
    else ({ s with alive := false }, { toSlots := (liveSlots s).map fun i => (i, Down.complete) })
  | .error e => ({ s with alive := false }, { toSlots := (liveSlots s).map fun i => (i, Down.error e) })
  | .slotCancel slot =>
    let s0 := { s with live := s.live.set slot false, cancelled := s.cancelled + 1 }
    if s0.cancelled ≥ s0.n then ({ s0 with alive := false }, { up := [.cancel] })
    else let r := s0.maybePull k; (r.1, { up := r.2 })

/-! ### slot actors (one per branch) -/

inductive SEv where
  | wire
  | req (n : Int)
  | hubReady
  | down (d : Down)
  | cancel
  deriving Repr, Inhabited

structure SlotSt where
  pending : Int := 0
  hub : Bool := false
  alive : Bool := true
  deriving Repr, Inhabited

inductive ToHub where
  | demand (n : Int)
  | cancel
  deriving Repr, Inhabited, DecidableEq

structure SOut where
  toHub : List ToHub := []
  down : List Down := []
  deriving Repr, Inhabited

/-- `completeOnCancel`: balance and partition slots also tell their downstream streamComplete when cancelled -/
def slotStep (completeOnCancel : Bool) (s : SlotSt) : SEv → SlotSt × SOut
  | .wire => (s, {})
  | .req n => if s.hub then (s, { toHub := [.demand n] }) else ({ s with pending := s.pending + n }, {})
  | .hubReady =>
    if s.pending > 0 then ({ s with hub := true, pending := 0 }, { toHub := [.demand s.pending] })
    else ({ s with hub := true }, {})
  | .down (.elem v) => (s, { down := [.elem v] })
  | .down d => ({ s with alive := false }, { down := [d] })
  | .cancel =>
    ({ s with alive := false },
      { toHub := if s.hub then [.cancel] else [], down := if completeOnCancel then [.complete] else [] })

end GoaktVerif.Model.C46

/-
C41 / C39 — executable model of the CRDT replicator's per-replica state machine
(actor/replicator.go: handleUpdate, handleGet (+coordinatedRead), handleDelete,
handleProtoTombstone, handleProtoDelta/handleDelta, handleDigest, handleFullState, handlePrune,
handleReadRequest, handleIncomingBatch).

The replicator is an actor: it handles one message at a time, so its behaviour is a function
`step : Rep V → Msg V → Rep V × List (Out V)`.  CRDT values are abstract: a type `V` with the four
operations the replicator calls on `crdt.ReplicatedData` (`Ops V`).  Everything the handlers read
from outside the actor is an INPUT carried by the message:
  * the wall clock (`time.Now()` in handleDelete / handlePrune) — `now : Int`, any unit;
  * what the peers answered to a coordinated read (`peers`);
  * the user's `Modify` closure of an Update — an arbitrary function `V → V`.
Go maps are association lists; `set` puts the binding in front and removes older ones, lookups
take the first binding, so iteration order never matters for lookups; where the Go code ranges
over a map and the order is observable (digest reply) the driver sorts both sides.

Not modelled (no influence on store / tombstones / versions / keyTypes): watchers and Changed
notifications, subscriptions bookkeeping, metrics counters, snapshot persistence, cross-DC
buffering of outgoing deltas, write coordination (same local effect as a plain update; the extra
direct sends are not represented), key-decode failures (a message with an undecodable key is
dropped by every handler before it touches state).
-/
namespace GoaktVerif.Model.C41

/-! ### association lists (Go maps keyed by small naturals) -/

def aget {α : Type} (m : List (Nat × α)) (k : Nat) : Option α := List.lookup k m
def adel {α : Type} (m : List (Nat × α)) (k : Nat) : List (Nat × α) := m.filter (fun p => p.1 != k)
def aset {α : Type} (m : List (Nat × α)) (k : Nat) (v : α) : List (Nat × α) := (k, v) :: adel m k
def ahas {α : Type} (m : List (Nat × α)) (k : Nat) : Bool := (aget m k).isSome

/-! ### state -/

/-- `tombstone` struct (keyID is the map key) -/
structure Tomb where
  dataType : Nat
  deletedAt : Int
  deletedBy : Nat
  deriving DecidableEq, Repr

/-- the methods of `crdt.ReplicatedData` (+ `Compactable`) the replicator uses -/
structure Ops (V : Type) where
  merge : V → V → V
  /-- `Delta()`: `none` = nil (nothing changed) -/
  delta : V → Option V
  /-- `ResetDelta()` (in place in Go; a new value here) -/
  reset : V → V
  /-- `CompactData()` for Compactable types, identity otherwise -/
  compact : V → V

/-- the replicator's maps.  `ttl` is `config.TombstoneTTL()`, `nodeID` is `r.nodeID`. -/
structure Rep (V : Type) where
  nodeID : Nat
  ttl : Int
  store : List (Nat × V)
  keyTypes : List (Nat × Nat)
  tombs : List (Nat × Tomb)
  versions : List (Nat × Nat)

def Rep.init {V : Type} (nodeID : Nat) (ttl : Int) : Rep V :=
  { nodeID := nodeID, ttl := ttl, store := [], keyTypes := [], tombs := [], versions := [] }

/-- wire forms -/
structure DeltaMsg (V : Type) where
  origin : Nat
  key : Nat
  dataType : Nat
  data : V

structure TombMsg where
  key : Nat
  dataType : Nat
  deletedAt : Int
  deletedBy : Nat
  deriving DecidableEq, Repr

/-- messages handled by `handleMessage` that touch the CRDT state -/
inductive Msg (V : Type) where
  /-- `crdt.Update` with WriteTo = 0: key, data type, Initial, Modify -/
  | update (k dt : Nat) (init : V) (f : V → V)
  /-- `crdt.Get`; `peers = none`: ReadFrom = 0.  `some rs`: coordinated read, `rs` = what each
      selected peer answered, decoded (`none` = lookup/ask failed, or the peer had no data) -/
  | get (k : Nat) (peers : Option (List (Option V)))
  /-- `crdt.Delete`; `now` = the value `time.Now()` returned -/
  | delete (k : Nat) (now : Int)
  /-- `*internalpb.CRDTTombstone` from a peer -/
  | tombstone (t : TombMsg)
  /-- `*internalpb.CRDTDelta` / `*crdtDelta` -/
  | delta (d : DeltaMsg V)
  /-- `*internalpb.CRDTFullState`: entries (key, data type, decoded state) -/
  | fullState (es : List (Nat × Nat × V))
  /-- `*internalpb.CRDTDigest`: entries (key, version) -/
  | digest (es : List (Nat × Nat))
  /-- `*internalpb.CRDTReadRequest` -/
  | readReq (k : Nat)
  /-- `*pruneTick`; `now` = the value `time.Now()` returned -/
  | prune (now : Int)
  /-- `*internalpb.CRDTDeltaBatch`; `sameDC` = the origin DC equals the local one -/
  | batch (sameDC : Bool) (ds : List (DeltaMsg V)) (ts : List TombMsg)

/-- what a handler emits -/
inductive Out (V : Type) where
  /-- `ctx.Response(GetResponse{Data})` / `CRDTReadResponse{Data}`; `none` = nil data -/
  | value (v : Option V)
  /-- UpdateResponse / DeleteResponse -/
  | ack
  /-- `publishDelta` to the CRDT topic (origin = this node) -/
  | pubDelta (d : DeltaMsg V)
  /-- tombstone published to the CRDT topic -/
  | pubTomb (t : TombMsg)
  /-- full-state reply to a digest: (key, data type, state) -/
  | full (es : List (Nat × Nat × V))

variable {V : Type}

def bump (vs : List (Nat × Nat)) (k : Nat) : List (Nat × Nat) := aset vs k ((aget vs k).getD 0 + 1)

/-- the common tail of handleDelta and of one handleFullState entry:
    tombstone check, then store-or-merge, trackKey on first sight, version++ -/
def absorb (ops : Ops V) (r : Rep V) (k dt : Nat) (v : V) : Rep V :=
  if ahas r.tombs k then r else
  match aget r.store k with
  | none => { r with store := aset r.store k v, keyTypes := aset r.keyTypes k dt, versions := bump r.versions k }
  | some cur => { r with store := aset r.store k (ops.merge cur v), versions := bump r.versions k }

/-- handleDelta -/
def handleDelta (ops : Ops V) (r : Rep V) (d : DeltaMsg V) : Rep V :=
  if d.origin = r.nodeID then r else absorb ops r d.key d.dataType d.data

/-- handleProtoTombstone -/
def handleTomb (r : Rep V) (t : TombMsg) : Rep V :=
  if t.deletedBy = r.nodeID then r else
  { r with store := adel r.store t.key, versions := adel r.versions t.key,
           tombs := aset r.tombs t.key ⟨t.dataType, t.deletedAt, t.deletedBy⟩ }

/-- handleUpdate (WriteTo = 0, topic actor present) -/
def handleUpdate (ops : Ops V) (r : Rep V) (k dt : Nat) (init : V) (f : V → V) : Rep V × List (Out V) :=
  if ahas r.tombs k then (r, [.ack]) else
  let current := (aget r.store k).getD init
  let kt := if ahas r.store k then r.keyTypes else aset r.keyTypes k dt
  let updated := f current
  ({ r with store := aset r.store k (ops.reset updated), keyTypes := kt, versions := bump r.versions k },
   (match ops.delta updated with
    | some d => [.pubDelta ⟨r.nodeID, k, dt, d⟩]
    | none => []) ++ [.ack])

/-- coordinatedRead's merge loop: `merged` starts as the local value (possibly nil) -/
def mergePeers (ops : Ops V) : Option V → List (Option V) → Option V
  | acc, [] => acc
  | acc, none :: rest => mergePeers ops acc rest
  | none, some p :: rest => mergePeers ops (some p) rest
  | some m, some p :: rest => mergePeers ops (some (ops.merge m p)) rest

/-- handleGet.  A tombstoned key answers "no data" without consulting peers (fix eb69dd7);
    otherwise the coordinated branch writes the merged value into the store. -/
def handleGet (ops : Ops V) (r : Rep V) (k : Nat) (peers : Option (List (Option V))) : Rep V × List (Out V) :=
  if ahas r.tombs k then (r, [.value none]) else
  let data := aget r.store k
  match peers with
  | none => (r, [.value data])
  | some rs =>
    match mergePeers ops data rs with
    | some m => ({ r with store := aset r.store k m }, [.value (some m)])
    | none => (r, [.value data])

/-- handleDelete (topic actor present, no write coordination) -/
def handleDelete (r : Rep V) (k : Nat) (now : Int) : Rep V × List (Out V) :=
  let ty := aget r.keyTypes k
  let dt := ty.getD 0
  ({ r with store := adel r.store k, versions := adel r.versions k,
            tombs := aset r.tombs k ⟨dt, now, r.nodeID⟩ },
   (match ty with
    | some _ => [.pubTomb ⟨k, dt, now, r.nodeID⟩]
    | none => []) ++ [.ack])

/-- handleDigest's peerVersions map: later entries overwrite earlier ones -/
def peerVersions (es : List (Nat × Nat)) : List (Nat × Nat) :=
  es.foldl (fun m e => aset m e.1 e.2) []

/-- handleDigest: reply with the full state of every stored key the peer lacks or is behind on -/
def handleDigest (r : Rep V) (es : List (Nat × Nat)) : List (Out V) :=
  let pv := peerVersions es
  let entries := r.store.filterMap fun (k, v) =>
    let lv := (aget r.versions k).getD 0
    match aget pv k with
    | none => some (k, (aget r.keyTypes k).getD 0, v)
    | some p => if lv > p then some (k, (aget r.keyTypes k).getD 0, v) else none
  if entries.isEmpty then [] else [.full entries]

/-- handlePrune: drop tombstones with `now - deletedAt > ttl`, compact every stored value -/
def handlePrune (ops : Ops V) (r : Rep V) (now : Int) : Rep V :=
  { r with tombs := r.tombs.filter (fun p => !(decide (now - p.2.deletedAt > r.ttl))),
           store := r.store.map (fun p => (p.1, ops.compact p.2)) }

def step (ops : Ops V) (r : Rep V) : Msg V → Rep V × List (Out V)
  | .update k dt init f => handleUpdate ops r k dt init f
  | .get k peers => handleGet ops r k peers
  | .delete k now => handleDelete r k now
  | .tombstone t => (handleTomb r t, [])
  | .delta d => (handleDelta ops r d, [])
  | .fullState es => (es.foldl (fun r e => absorb ops r e.1 e.2.1 e.2.2) r, [])
  | .digest es => (r, handleDigest r es)
  | .readReq k => (r, [.value (aget r.store k)])
  | .prune now => (handlePrune ops r now, [])
  | .batch sameDC ds ts =>
    if sameDC then (r, []) else
    ((ts.foldl handleTomb (ds.foldl (handleDelta ops) r)), [])

/-- run a message sequence, collecting the outputs per message -/
def run (ops : Ops V) : Rep V → List (Msg V) → Rep V × List (List (Out V))
  | r, [] => (r, [])
  | r, m :: ms =>
    let (r', o) := step ops r m
    let (r'', os) := run ops r' ms
    (r'', o :: os)

end GoaktVerif.Model.C41

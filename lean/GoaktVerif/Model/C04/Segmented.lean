/-
C04 — small-step model of `UnboundedSegmentedMailbox` (actor/unbounded_segmented_mailbox.go):
a linked list of fixed-size segments (`writeIdx` fetch-add reserves a slot, the slot store publishes
it).  Segments are allocated fresh (`newSegment` = `new(segment)`, no atomic site) and never
recycled; a segment is left by the consumer only after all `segSize` slots were consumed.
Segments are numbered in allocation order, segment 0 is the one the constructor allocates.
`segSize` is the Go constant `segmentSize` (passed in by the case, checked by the harness against
the real constant).

GHOST state (not in the Go code, written but never read by any step, invisible to the tie): every
segment records whether it has been linked into the list (`linked`) and its position in the list
(`ord`), and `last` names the last linked segment.  The proofs use them to speak about the global
order of the slots (`ord * segSize + idx`).
-/
import GoaktVerif.Model.C04.Core

namespace GoaktVerif.Model.C04.Segmented
open GoaktVerif.Model.C04

structure Seg where
  writeIdx : Nat
  deqIdx : Nat
  next : Option Nat
  data : Nat → Option Nat
  linked : Bool := false     -- ghost
  ord : Nat := 0             -- ghost

def Seg.zero : Seg := { writeIdx := 0, deqIdx := 0, next := none, data := fun _ => none }

structure Sh where
  segSize : Nat
  segs : Nat → Seg
  nseg : Nat                 -- segments allocated so far
  head : Nat
  tail : Nat
  length : Int
  last : Nat := 0            -- ghost: the last linked segment

def Sh.upd (s : Sh) (i : Nat) (f : Seg → Seg) : Sh :=
  { s with segs := fun j => if j = i then f (s.segs i) else s.segs j }

/-- `newSegment()`: a fresh zeroed segment -/
def Sh.alloc (s : Sh) : Sh × Nat := ({ s with nseg := s.nseg + 1 }, s.nseg)

/-- successful `CAS(tail.next, nil, g)`: `t.next := g`; ghost: `g` becomes the last linked segment, one
position after `t` -/
def Sh.link (s : Sh) (t g : Nat) : Sh :=
  let o := (s.segs t).ord
  { ((s.upd t fun x => { x with next := some g }).upd g fun x => { x with linked := true, ord := o + 1 }) with last := g }

inductive PC where
  | e1 (v : Nat)                 -- Enqueue: `Load:tail`
  | e2 (v t : Nat)               --   `Add:writeIdx`
  | e3 (v t idx : Nat)           --   idx < segSize: `Store:data`
  | e4 (v : Nat)                 --   `Add:length` (+1), return
  | e5 (v t : Nat)               --   segment full: `Load:next`  [next == nil: newSegment()]
  | e6 (v t s : Nat)             --   `CAS:next` (tail.next: nil → newSeg)
  | e7 (v t s : Nat)             --   `CAS:tail` (tail → newSeg)
  | e9 (v t nx : Nat)            --   next != nil: `CAS:tail` (tail → next)
  | d1                           -- Dequeue: `Load:head`
  | d2 (seg : Nat)               --   `Load:writeIdx`
  | d3 (seg enq : Nat)           --   `Load:deqIdx`  [deq >= enq and deq < segSize: return nil]
  | d4 (seg deq : Nat)           --   `Load:data`
  | d5 (seg deq v : Nat)         --   `Store:data` (nil)
  | d6 (seg deq v : Nat)         --   `Store:deqIdx` (deq+1)
  | d7 (v : Nat)                 --   `Add:length` (-1), return
  | d8 (seg : Nat)               --   segment drained: `Load:next`
  | d9 (seg nx : Nat)            --   `Store:head` (next), continue in the next segment
  | m1                           -- IsEmpty: `Load:head`
  | m2 (seg : Nat)               --   `Load:writeIdx`
  | m3 (seg enq : Nat)           --   `Load:deqIdx`
  | m4 (seg : Nat)               --   `Load:next`
  | l1                           -- Len: `Load:length`
  deriving Repr, DecidableEq

def start : Op → PC
  | .enq v _ => .e1 v
  | .deq => .d1
  | .emp => .m1
  | .len => .l1

def label : PC → String
  | .e1 _ => "Load:tail" | .e2 _ _ => "Add:writeIdx" | .e3 _ _ _ => "Store:data" | .e4 _ => "Add:length"
  | .e5 _ _ => "Load:next" | .e6 _ _ _ => "CAS:next"
  | .e7 _ _ _ => "CAS:tail" | .e9 _ _ _ => "CAS:tail"
  | .d1 => "Load:head" | .d2 _ => "Load:writeIdx" | .d3 _ _ => "Load:deqIdx" | .d4 _ _ => "Load:data"
  | .d5 _ _ _ => "Store:data" | .d6 _ _ _ => "Store:deqIdx" | .d7 _ => "Add:length"
  | .d8 _ => "Load:next" | .d9 _ _ => "Store:head"
  | .m1 => "Load:head" | .m2 _ => "Load:writeIdx" | .m3 _ _ => "Load:deqIdx" | .m4 _ => "Load:next"
  | .l1 => "Load:length"

def setData (g : Seg) (i : Nat) (x : Option Nat) : Seg :=
  { g with data := fun j => if j = i then x else g.data j }

def exec (s : Sh) : PC → Sh × Next PC
  | .e1 v => (s, .goto (.e2 v s.tail))
  | .e2 v t =>
    let idx := (s.segs t).writeIdx
    let s' := s.upd t fun g => { g with writeIdx := g.writeIdx + 1 }
    if idx < s.segSize then (s', .goto (.e3 v t idx)) else (s', .goto (.e5 v t))
  | .e3 v t idx => (s.upd t fun g => setData g idx (some v), .goto (.e4 v))
  | .e4 _ => ({ s with length := s.length + 1 }, .ret .ok)
  | .e5 v t =>
    match (s.segs t).next with
    | some nx => (s, .goto (.e9 v t nx))
    | none => let r := s.alloc; (r.1, .goto (.e6 v t r.2))
  | .e6 v t g =>
    if (s.segs t).next = none then (s.link t g, .goto (.e7 v t g))
    else (s, .goto (.e1 v))
  | .e7 v t g => (if s.tail = t then { s with tail := g } else s, .goto (.e1 v))
  | .e9 v t nx => (if s.tail = t then { s with tail := nx } else s, .goto (.e1 v))
  | .d1 => (s, .goto (.d2 s.head))
  | .d2 seg => (s, .goto (.d3 seg (min (s.segs seg).writeIdx s.segSize)))
  | .d3 seg enq =>
    let deq := (s.segs seg).deqIdx
    if deq < enq then (s, .goto (.d4 seg deq))
    else if deq < s.segSize then (s, .ret .none)
    else (s, .goto (.d8 seg))
  | .d4 seg deq =>
    match (s.segs seg).data deq with
    | none => (s, .ret .none)
    | some v => (s, .goto (.d5 seg deq v))
  | .d5 seg deq v => (s.upd seg fun g => setData g deq none, .goto (.d6 seg deq v))
  | .d6 seg deq v => (s.upd seg fun g => { g with deqIdx := deq + 1 }, .goto (.d7 v))
  | .d7 v => ({ s with length := s.length - 1 }, .ret (.val v))
  | .d8 seg =>
    match (s.segs seg).next with
    | none => (s, .ret .none)
    | some nx => (s, .goto (.d9 seg nx))
  | .d9 _ nx => ({ s with head := nx }, .goto (.d2 nx))
  | .m1 => (s, .goto (.m2 s.head))
  | .m2 seg => (s, .goto (.m3 seg (min (s.segs seg).writeIdx s.segSize)))
  | .m3 seg enq => if (s.segs seg).deqIdx < enq then (s, .ret (.bool false)) else (s, .goto (.m4 seg))
  | .m4 seg => (s, .ret (.bool (s.segs seg).next.isNone))
  | .l1 => (s, .ret (.num s.length))

def init (segSize : Nat) : Sh :=
  { segSize, segs := fun g => if g = 0 then { Seg.zero with linked := true } else Seg.zero,
    nseg := 1, head := 0, tail := 0, length := 0 }

@[reducible] def algo : Algo := { Sh, PC, start, label, exec }

end GoaktVerif.Model.C04.Segmented

/-
C04 — small-step model of the three mailboxes built from a Treiber intake stack drained by the
consumer into a consumer-private binary heap:

* `BoundedPriorityMailbox`        (actor/bounded_priority_mailbox.go)         cap, container/heap
* `BoundedStablePriorityMailbox`  (actor/bounded_stable_priority_mailbox.go)  cap, stableHeap
* `UnboundedStablePriorityMailbox`(actor/unbounded_stable_priority_mailbox.go) no cap, stableHeap

with `priorityIntake.push/drain`, `chainNext`, `chainUnlink` of actor/priority_intake.go.
One transition per atomic site; the heap operations are plain consumer-side code and happen inside
the step of the preceding atomic operation.

GHOST state (not in the Go code, written but never read by any step, invisible to the tie): `stack`
is the content of the Treiber stack (newest first), `batch` the nodes of the consumer's current drain
in arrival order (oldest first), `done` how many of them have been moved into the heap.
-/
import GoaktVerif.Model.C04.Core
import GoaktVerif.Model.C04.Heap

namespace GoaktVerif.Model.C04.Intake
open GoaktVerif.Model.C04

structure Conf where
  cap : Option Nat              -- none = unbounded
  stable : Bool
  lt : Nat → Nat → Bool         -- the user's PriorityFunc on message ids

/-- heap entries are (message, arrival sequence number); the non-stable heap ignores the number -/
def Conf.ltItem (k : Conf) (a b : Nat × Nat) : Bool :=
  if k.stable then Heap.stableLt k.lt a b else k.lt a.1 b.1

structure Sh where
  head : Option Nat             -- intake.head
  next : Nat → Option Nat       -- ctx.next
  heap : List (Nat × Nat)       -- consumer-private heap slice
  seq : Nat                     -- q.seq (stable variants)
  length : Int                  -- q.length
  stack : List Nat := []        -- ghost
  batch : List Nat := []        -- ghost
  done : Nat := 0               -- ghost

def Sh.setNext (s : Sh) (n : Nat) (x : Option Nat) : Sh :=
  { s with next := fun m => if m = n then x else s.next m }

/-- `chainUnlink(n)` then the heap push of `n` (with the next arrival number); ghost: one more node of
the batch is done -/
def Sh.moveToHeap (k : Conf) (s : Sh) (n : Nat) : Sh :=
  let s1 := s.setNext n none
  { s1 with heap := Heap.push k.ltItem s1.heap (n, s1.seq), seq := if k.stable then s1.seq + 1 else s1.seq,
            done := s1.done + 1 }

inductive PC where
  | enqU (v : Nat)                          -- Enqueue (unbounded): `Add:length` (+1)
  | enqL (v : Nat)                          -- Enqueue (bounded): `Load:length`; at capacity → ErrMailboxFull
  | enqC (v : Nat) (l : Int)                --   `CAS:length` (l → l+1); on failure back to the load
  | push1 (v : Nat)                         -- intake.push: `Load:head`
  | push2 (v : Nat) (old : Option Nat)      --   `Store:next` (ctx.next := old)
  | push3 (v : Nat) (old : Option Nat)      --   `CAS:head` (old → ctx)
  | deq1                                    -- Dequeue: `Load:length`
  | deq2                                    --   intake.drain: `Swap:head` (nil)
  | deq3 (cur : Nat) (prev : Option Nat)    --   reversal loop: `Load:next` cur
  | deq4 (cur : Nat) (prev next : Option Nat) -- `Store:next` (cur.next := prev)
  | deq5 (n : Nat)                          --   chainNext: `Load:next`
  | deq6 (n : Nat) (next : Option Nat)      --   chainUnlink: `Store:next` (nil), then heap push
  | deq7 (v : Nat)                          --   `Add:length` (-1), return v
  | len1                                    -- Len: `Load:length`
  | emp1                                    -- IsEmpty → Len: `Load:length`
  deriving Repr, DecidableEq

def start (k : Conf) : Op → PC
  | .enq v _ => if k.cap.isSome then .enqL v else .enqU v
  | .deq => .deq1
  | .emp => .emp1
  | .len => .len1

def label : PC → String
  | .enqU _ => "Add:length" | .enqL _ => "Load:length" | .enqC _ _ => "CAS:length"
  | .push1 _ => "Load:head" | .push2 _ _ => "Store:next" | .push3 _ _ => "CAS:head"
  | .deq1 => "Load:length" | .deq2 => "Swap:head" | .deq3 _ _ => "Load:next" | .deq4 _ _ _ => "Store:next"
  | .deq5 _ => "Load:next" | .deq6 _ _ => "Store:next" | .deq7 _ => "Add:length"
  | .len1 => "Load:length" | .emp1 => "Load:length"

/-- the consumer-side code after the intake has been moved into the heap: pop or answer nil -/
def afterDrain (k : Conf) (s : Sh) : Sh × Next PC :=
  match Heap.pop k.ltItem s.heap with
  | none => (s, .ret .none)
  | some (x, rest) => ({ s with heap := rest }, .goto (.deq7 x.1))

def exec (k : Conf) (s : Sh) : PC → Sh × Next PC
  | .enqU v => ({ s with length := s.length + 1 }, .goto (.push1 v))
  | .enqL v =>
    match k.cap with
    | some c => if s.length ≥ (c : Int) then (s, .ret .full) else (s, .goto (.enqC v s.length))
    | none => (s, .goto (.enqC v s.length))
  | .enqC v l =>
    if s.length = l then ({ s with length := l + 1 }, .goto (.push1 v)) else (s, .goto (.enqL v))
  | .push1 v => (s, .goto (.push2 v s.head))
  | .push2 v old => (s.setNext v old, .goto (.push3 v old))
  | .push3 v old =>
    if s.head = old then ({ s with head := some v, stack := v :: s.stack }, .ret .ok) else (s, .goto (.push1 v))
  | .deq1 => if s.length = 0 then (s, .ret .none) else (s, .goto .deq2)
  | .deq2 =>
    match s.head with
    | none => afterDrain k s
    | some b => ({ s with head := none, stack := [], batch := s.stack.reverse, done := 0 }, .goto (.deq3 b none))
  | .deq3 cur prev => (s, .goto (.deq4 cur prev (s.next cur)))
  | .deq4 cur prev next =>
    let s' := s.setNext cur prev
    match next with
    | some nx => (s', .goto (.deq3 nx (some cur)))
    | none => (s', .goto (.deq5 cur))
  | .deq5 n => (s, .goto (.deq6 n (s.next n)))
  | .deq6 n next =>
    let s2 := s.moveToHeap k n
    match next with
    | some nx => (s2, .goto (.deq5 nx))
    | none => afterDrain k s2
  | .deq7 v => ({ s with length := s.length - 1 }, .ret (.val v))
  | .len1 => (s, .ret (.num s.length))
  | .emp1 => (s, .ret (.bool (s.length == 0)))

def init : Sh := { head := none, next := fun _ => none, heap := [], seq := 0, length := 0 }

@[reducible] def algo (k : Conf) : Algo := { Sh, PC, start := start k, label, exec := exec k }

end GoaktVerif.Model.C04.Intake

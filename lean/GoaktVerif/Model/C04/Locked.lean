/-
C04 — small-step model of `UnboundedPriorityMailBox` (actor/unbounded_priority_mailbox.go):
a `container/heap` under an RWMutex plus an atomic length counter that is updated INSIDE the critical
section (`Lock; hp.Push/hp.Pop; AddInt64(&length, ±1); Unlock`).  A thread therefore parks at
`Add:length` while holding the lock; another thread's `Lock:lock` step is then blocked (a no-op the
harness reports as `Lock:lock!blocked`).
-/
import GoaktVerif.Model.C04.Core
import GoaktVerif.Model.C04.Heap

namespace GoaktVerif.Model.C04.Locked
open GoaktVerif.Model.C04

structure Sh where
  heap : List Nat
  length : Int
  locked : Bool       -- q.lock is held (by the thread parked at `Add:length`)

inductive PC where
  | enq1 (v : Nat)      -- Enqueue: `Lock:lock` [hp.Push]
  | enq2                --          `Add:length` (+1) [Unlock]
  | deq1                -- Dequeue: IsEmpty → Len: `Load:length`
  | deq2                --          `Lock:lock` [hp.Pop]
  | deq3 (v : Nat)      --          `Add:length` (-1) [Unlock]
  | len1                -- Len: `Load:length`
  | emp1                -- IsEmpty → Len: `Load:length`
  deriving Repr, DecidableEq

def start : Op → PC
  | .enq v _ => .enq1 v
  | .deq => .deq1
  | .emp => .emp1
  | .len => .len1

def label : PC → String
  | .enq1 _ => "Lock:lock" | .enq2 => "Add:length"
  | .deq1 => "Load:length" | .deq2 => "Lock:lock" | .deq3 _ => "Add:length"
  | .len1 => "Load:length" | .emp1 => "Load:length"

def exec (lt : Nat → Nat → Bool) (s : Sh) : PC → Sh × Next PC
  | .enq1 v =>
    if s.locked then (s, .goto (.enq1 v))
    else ({ s with heap := Heap.push lt s.heap v, locked := true }, .goto .enq2)
  | .enq2 => ({ s with length := s.length + 1, locked := false }, .ret .ok)
  | .deq1 => if s.length = 0 then (s, .ret .none) else (s, .goto .deq2)
  | .deq2 =>
    if s.locked then (s, .goto .deq2)
    else
      match Heap.pop lt s.heap with
      | some (x, rest) => ({ s with heap := rest, locked := true }, .goto (.deq3 x))
      | none => (s, .ret .none)   -- Go would panic here (hp.Pop on an empty heap); unreachable with one consumer
  | .deq3 v => ({ s with length := s.length - 1, locked := false }, .ret (.val v))
  | .len1 => (s, .ret (.num s.length))
  | .emp1 => (s, .ret (.bool (s.length == 0)))

def blocked (s : Sh) : PC → Bool
  | .enq1 _ => s.locked
  | .deq2 => s.locked
  | _ => false

def init : Sh := { heap := [], length := 0, locked := false }

@[reducible] def algo (lt : Nat → Nat → Bool) : Algo := { Sh, PC, start, label, exec := exec lt, blocked }

end GoaktVerif.Model.C04.Locked

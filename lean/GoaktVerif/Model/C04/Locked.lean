/-
C04 — small-step model of `UnboundedPriorityMailBox` (actor/unbounded_priority_mailbox.go):
a `container/heap` under an RWMutex plus an atomic length counter.  The critical section
(`Lock; hp.Push/hp.Pop; Unlock`) contains no other synchronisation, so under the cooperative lock it
is one model step labelled `Lock:lock` (never observed blocked: no thread parks inside it).
-/
import GoaktVerif.Model.C04.Core
import GoaktVerif.Model.C04.Heap

namespace GoaktVerif.Model.C04.Locked
open GoaktVerif.Model.C04

structure Sh where
  heap : List Nat
  length : Int

inductive PC where
  | enq1 (v : Nat)      -- Enqueue: `Lock:lock` [hp.Push; Unlock]
  | enq2                --          `Add:length` (+1)
  | deq1                -- Dequeue: IsEmpty → Len: `Load:length`
  | deq2                --          `Lock:lock` [hp.Pop; Unlock]
  | deq3 (v : Nat)      --          `Add:length` (-1)
  | len1                -- Len: `Load:length`
  | emp1                -- IsEmpty → Len: `Load:length`
  deriving Repr, DecidableEq

def start : Op → PC
  | .enq v _ => .enq1 v
  | .deq => .deq1
  | .emp => .emp1
  | .len => .len1

def label : PC → String
  | .enq1 _ => "Lock:lock" | .enq2 => "Add:length"
  | .deq1 => "Load:length" | .deq2 => "Lock:lock" | .deq3 _ => "Add:length"
  | .len1 => "Load:length" | .emp1 => "Load:length"

def exec (lt : Nat → Nat → Bool) (s : Sh) : PC → Sh × Next PC
  | .enq1 v => ({ s with heap := Heap.push lt s.heap v }, .goto .enq2)
  | .enq2 => ({ s with length := s.length + 1 }, .ret .ok)
  | .deq1 => if s.length = 0 then (s, .ret .none) else (s, .goto .deq2)
  | .deq2 =>
    match Heap.pop lt s.heap with
    | some (x, rest) => ({ s with heap := rest }, .goto (.deq3 x))
    | none => (s, .ret .none)   -- Go would panic here (hp.Pop on an empty heap); unreachable with one consumer
  | .deq3 v => ({ s with length := s.length - 1 }, .ret (.val v))
  | .len1 => (s, .ret (.num s.length))
  | .emp1 => (s, .ret (.bool (s.length == 0)))

def init : Sh := { heap := [], length := 0 }

def algo (lt : Nat → Nat → Bool) : Algo := { Sh, PC, start, label, exec := exec lt }

end GoaktVerif.Model.C04.Locked

/-
C04 — common frame of the small-step mailbox models (engine E3).

A mailbox algorithm is an `Algo`: shared state `Sh`, program counters `PC` (one per atomic-operation
site of the Go code, carrying the thread's locals), `label` (exactly the label tools/yieldinject
gives the site), and `exec` — the effect of the atomic operation at that site together with the
plain code that follows it up to the next site (`goto pc'`) or to the end of the mailbox operation
(`ret r`).  Threads run arbitrary programs (`List Op`); `step c tid` lets thread `tid` execute the
operation it is parked at.  Theorems quantify over all programs, any number of threads and all
schedules by induction over `step`.
-/
namespace GoaktVerif.Model.C04

/-- a mailbox operation; messages are identified by a number, `key` is the sender key (fair mailbox) -/
inductive Op where
  | enq (v : Nat) (key : Nat)
  | deq
  | emp
  | len
  deriving Repr, DecidableEq

/-- result of a mailbox operation -/
inductive Res where
  | ok                -- Enqueue returned nil
  | full              -- Enqueue returned ErrMailboxFull
  | none              -- Dequeue returned nil
  | val (v : Nat)     -- Dequeue returned message v
  | bool (b : Bool)   -- IsEmpty
  | num (n : Int)     -- Len
  deriving Repr, DecidableEq

def Res.toString : Res → String
  | .ok => "ok" | .full => "full" | .none => "nil"
  | .val v => ToString.toString v
  | .bool b => if b then "true" else "false"
  | .num n => ToString.toString n

inductive Next (PC : Type) where
  | goto (pc : PC)
  | ret (r : Res)

structure Algo where
  Sh : Type
  PC : Type
  start : Op → PC
  label : PC → String
  exec : Sh → PC → Sh × Next PC
  /-- the operation at `pc` is a cooperative lock acquisition that cannot proceed now (the step is
  then a no-op and the harness reports the label with the suffix `!blocked`) -/
  blocked : Sh → PC → Bool := fun _ _ => false

/-- a finished operation with the logical time stamps of its invocation and return -/
structure Done where
  op : Op
  res : Res
  inv : Nat
  ret : Nat
  deriving Repr, DecidableEq

structure Thread (PC : Type) where
  pc : Option PC        -- none = finished
  prog : List Op        -- remaining operations (after the current one)
  cur : Option Op := none  -- the operation in progress
  started : Nat := 0    -- logical time stamp at which the current operation was invoked
  hist : List Done := []   -- finished operations, latest first

def Thread.results {PC : Type} (t : Thread PC) : List Res := t.hist.map (·.res)

/-- `clock` is the harness's logical clock: it ticks once when an operation is invoked and once when
it returns (the invocation of a thread's next operation follows the return of the previous one in
the same step).  It only serves the real-time order used by the implementation oracle; no
algorithm reads it. -/
structure Cfg (A : Algo) where
  sh : A.Sh
  threads : List (Thread A.PC)
  clock : Nat := 0

variable {A : Algo}

/-- a thread whose current operation returned `r` at time `now + 1` moves to the first site of its
next operation (invoked at `now + 2`) -/
def Thread.finish (A : Algo) (t : Thread A.PC) (r : Res) (now : Nat) : Thread A.PC :=
  let hist := { op := t.cur.getD .len, res := r, inv := t.started, ret := now + 1 } :: t.hist
  match t.prog with
  | [] => { pc := none, prog := [], cur := none, started := 0, hist }
  | op :: rest => { pc := some (A.start op), prog := rest, cur := some op, started := now + 2, hist }

def Thread.advance (A : Algo) (t : Thread A.PC) (now : Nat) : Next A.PC → Thread A.PC
  | .goto pc => { t with pc := some pc }
  | .ret r => t.finish A r now

/-- clock after thread `t` took the step with outcome `nx` -/
def tick (t : Thread A.PC) (now : Nat) : Next A.PC → Nat
  | .goto _ => now
  | .ret _ => if t.prog.isEmpty then now + 1 else now + 2

def mkThread (A : Algo) (prog : List Op) (started : Nat) : Thread A.PC :=
  match prog with
  | [] => { pc := none, prog := [] }
  | op :: rest => { pc := some (A.start op), prog := rest, cur := some op, started }

/-- threads are spawned in order; each invokes its first operation at spawn time -/
def spawn (A : Algo) : List (List Op) → Nat → List (Thread A.PC) × Nat
  | [], now => ([], now)
  | p :: ps, now =>
    let now' := if p.isEmpty then now else now + 1
    let r := spawn A ps now'
    (mkThread A p now' :: r.1, r.2)

def initCfg (A : Algo) (sh : A.Sh) (progs : List (List Op)) : Cfg A :=
  let r := spawn A progs 0
  { sh, threads := r.1, clock := r.2 }

/-- thread `tid` executes the atomic operation it is parked at (no-op when it has none) -/
def stepCfg (c : Cfg A) (tid : Nat) : Cfg A :=
  match c.threads[tid]? with
  | none => c
  | some t =>
    match t.pc with
    | none => c
    | some pc =>
      let r := A.exec c.sh pc
      { sh := r.1, threads := c.threads.set tid (t.advance A c.clock r.2), clock := tick t c.clock r.2 }

def stepLabel (c : Cfg A) (tid : Nat) : String :=
  match c.threads[tid]? with
  | none => "!nothread"
  | some t =>
    match t.pc with
    | none => "!done"
    | some pc => if A.blocked c.sh pc then A.label pc ++ "!blocked" else A.label pc

def runSched (c : Cfg A) : List Nat → Cfg A
  | [] => c
  | t :: ts => runSched (stepCfg c t) ts

def isDone (c : Cfg A) (tid : Nat) : Bool :=
  match c.threads[tid]? with
  | some t => t.pc.isNone
  | none => true

/-- configurations reachable by some schedule from an initial configuration -/
inductive Reach (A : Algo) (c0 : Cfg A) : Cfg A → Prop where
  | init : Reach A c0 c0
  | step {c : Cfg A} (tid : Nat) : Reach A c0 c → Reach A c0 (stepCfg c tid)

theorem reach_runSched (c0 c : Cfg A) (h : Reach A c0 c) (s : List Nat) : Reach A c0 (runSched c s) := by
  induction s generalizing c with
  | nil => exact h
  | cons t ts ih => exact ih _ (Reach.step t h)

/-! ### sequential use (final drain; single-threaded specs) -/

/-- run one operation to completion on the calling thread alone (`fuel` bounds spinning) -/
def seqOp (A : Algo) : Nat → A.Sh → A.PC → A.Sh × Option Res
  | 0, sh, _ => (sh, none)
  | f + 1, sh, pc =>
    match A.exec sh pc with
    | (sh', .ret r) => (sh', some r)
    | (sh', .goto pc') => seqOp A f sh' pc'

def opFuel : Nat := 100000

/-- `Dequeue` until it answers nil (at most `n` times) -/
def drain (A : Algo) : Nat → A.Sh → A.Sh × List Nat
  | 0, sh => (sh, [])
  | n + 1, sh =>
    match seqOp A opFuel sh (A.start .deq) with
    | (sh', some (.val v)) => let r := drain A n sh'; (r.1, v :: r.2)
    | (sh', _) => (sh', [])

/-- the digest the harness prints after the run: drained ids, then `Len()` -/
def finalDigest (A : Algo) (sh : A.Sh) : String :=
  let d := drain A 100000 sh
  let l := match (seqOp A opFuel d.1 (A.start .len)).2 with
    | some r => r.toString
    | none => "?"
  (" ".intercalate (d.2.map toString) ++ " # " ++ l).trimAscii.toString

/-! ### parsing of thread programs -/

def parseOp (s : String) : Option Op :=
  if s = "d" then some .deq
  else if s = "emp" then some .emp
  else if s = "len" then some .len
  else if s.startsWith "e" then
    match ((s.drop 1).toString.splitOn "@") with
    | [v] => v.toNat?.map (Op.enq · 0)
    | [v, k] => match v.toNat?, k.toNat? with
      | some v, some k => some (.enq v k)
      | _, _ => none
    | _ => none
  else none

def parseProgs (progs : List (List String)) : Option (List (List Op)) :=
  progs.mapM (fun p => p.mapM parseOp)

end GoaktVerif.Model.C04

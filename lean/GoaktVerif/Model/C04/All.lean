/-
C04 — the nine mailboxes as one family: algorithm, initial state, what each promises (`Setup`), and
the history of a finished model run in the form the Spec oracle judges.
(`BoundedMailbox`, a wrapper around a third-party ring buffer, is modelled sequentially only — see
Model/C04/Bounded.lean — and is not part of this family.)
-/
import GoaktVerif.Model.C04.Core
import GoaktVerif.Model.C04.Unbounded
import GoaktVerif.Model.C04.Intake
import GoaktVerif.Model.C04.Locked
import GoaktVerif.Model.C04.Ring
import GoaktVerif.Model.C04.Segmented
import GoaktVerif.Model.C04.Fair
import GoaktVerif.Spec.C04

namespace GoaktVerif.Model.C04
open GoaktVerif.Spec.C04

inductive MB where
  | unbounded
  | segmented (segSize : Nat)
  | fair
  | uprio (lt : Nat → Nat → Bool)
  | usprio (lt : Nat → Nat → Bool)
  | bprio (cap : Nat) (lt : Nat → Nat → Bool)
  | bsprio (cap : Nat) (lt : Nat → Nat → Bool)
  | ring (cap : Nat)

def MB.algo : MB → Algo
  | .unbounded => Unbounded.algo
  | .segmented _ => Segmented.algo
  | .fair => Fair.algo
  | .uprio lt => Locked.algo lt
  | .usprio lt => Intake.algo { cap := none, stable := true, lt }
  | .bprio cap lt => Intake.algo { cap := some cap, stable := false, lt }
  | .bsprio cap lt => Intake.algo { cap := some cap, stable := true, lt }
  | .ring _ => Ring.algo

def MB.init : (m : MB) → m.algo.Sh
  | .unbounded => Unbounded.init
  | .segmented n => Segmented.init n
  | .fair => Fair.init
  | .uprio _ => Locked.init
  | .usprio _ => Intake.init
  | .bprio _ _ => Intake.init
  | .bsprio _ _ => Intake.init
  | .ring cap => Ring.init cap

def MB.setup : MB → Setup
  | .unbounded => { fifo := true }
  | .segmented _ => { fifo := true }
  | .fair => { perKey := true }
  | .uprio lt => { prio := some lt }
  | .usprio lt => { prio := some lt, stable := true }
  | .bprio cap lt => { prio := some lt, cap := some cap }
  | .bsprio cap lt => { prio := some lt, stable := true, cap := some cap }
  | .ring cap => { fifo := true, cap := some (Ring.nextPow2 cap) }

/-- `lt` is a strict weak order: irreflexive, transitive, incomparability transitive -/
def StrictWeak (lt : Nat → Nat → Bool) : Prop :=
  (∀ a, lt a a = false) ∧ (∀ a b c, lt a b = true → lt b c = true → lt a c = true) ∧
  (∀ a b c, lt a b = false → lt b a = false → lt b c = false → lt c b = false → (lt a c = false ∧ lt c a = false))

/-- constructor arguments the Go constructors are meant for -/
def MB.ok : MB → Prop
  | .segmented n => 1 ≤ n
  | .uprio lt => StrictWeak lt
  | .usprio lt => StrictWeak lt
  | .bprio cap lt => 1 ≤ cap ∧ StrictWeak lt
  | .bsprio cap lt => 1 ≤ cap ∧ StrictWeak lt
  | .ring cap => 1 ≤ cap
  | _ => True

def enqIds (p : List Op) : List Nat := p.filterMap fun | .enq v _ => some v | _ => none

def consumerOnly : Op → Bool
  | .deq => true
  | .emp => true
  | _ => false

/-- the usage the property quantifies over: every message is enqueued once (distinct non-zero ids),
and only the last thread — the one consumer — calls Dequeue / IsEmpty -/
def WellFormed (progs : List (List Op)) : Bool :=
  let ids := progs.flatMap enqIds
  nodupB ids && !ids.contains 0 && progs.dropLast.all fun p => p.all fun op => !consumerOnly op

def allDone {A : Algo} (c : Cfg A) : Bool := c.threads.all fun t => t.pc.isNone

/-- history of a finished run: all finished operations, then the sequential drain and `Len()` -/
def historyOf {A : Algo} (c : Cfg A) : History :=
  let d := drain A 100000 c.sh
  let l := match (seqOp A opFuel d.1 (A.start .len)).2 with
    | some (.num n) => n
    | _ => -1
  { ops := c.threads.flatMap fun t => t.hist, drained := d.2, finalLen := l }

end GoaktVerif.Model.C04

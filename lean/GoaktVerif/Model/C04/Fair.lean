/-
C04 — small-step model of `UnboundedFairMailbox` (actor/unbounded_fair_mailbox.go): one
`UnboundedMailbox` per sender key (reusing the model of that mailbox), an `active`/`pending`
activation protocol per sender, and `activeSenders`, a Vyukov MPSC list of pooled `senderNode`s
served round-robin by the consumer.

The `sync.Map` lookup of the sender box has no atomic site of its own and never removes a box; a box
that was never used is indistinguishable from an absent one, so boxes exist from the start.
`sync.Pool` of sender nodes: as pinned by the harness (one P, no GC): private slot, then LIFO.
`Enqueue` counts first (`Add:length`, `Add:pending`), then publishes into the sender's sub-queue, and
activates the sender afterwards when its `Add:pending` returned 1 (that fact travels with the `ub`
program counter of the publication).
In `finalizeSender` the statement `if Load(pending) > 0 && active.CAS(false,true)` holds two atomic
operations; the instrumentation parks twice before it (`Load:pending`, `CAS:active`) and executes
both in the second step — mirrored here (`j5` is a no-op, `j6` does both); likewise the re-check
`if Load(m.length) > 0 && Load(pending) > 0` of Dequeue's nil branch (`i2` parks only, `i3` does both
loads): true → `CAS:active` (`i4`), re-list on success, return nil; false → the sender had nothing to
deliver, Dequeue goes on with the next active sender (`g1`).
-/
import GoaktVerif.Model.C04.Core
import GoaktVerif.Model.C04.Unbounded

namespace GoaktVerif.Model.C04.Fair
open GoaktVerif.Model.C04

/-- `resvL`, `cntL`, `deqd`, `decd`, `held` are GHOST fields (written, never read; invisible to the tie):
the messages in the order the sub-queue's `Swap:tail` reserved them, the messages in the order
`Add:pending` counted them, the number of successful sub-dequeues (`Store:head`), the number of
`Add:pending(−1)`, and the number of messages taken from the sub-queue and not yet subtracted -/
structure Box where
  mb : Unbounded.Sh
  active : Bool
  pending : Int
  resvL : List Nat := []
  cntL : List Nat := []
  deqd : Nat := 0
  decd : Nat := 0
  held : Nat := 0

/-- one UnboundedMailbox step on the sub-queue, with the ghost bookkeeping -/
def Box.ubStep (b : Box) (pc : Unbounded.PC) : Box :=
  { b with
    mb := (Unbounded.exec b.mb pc).1
    resvL := match pc with
      | .enq2 v => b.resvL ++ [v]
      | _ => b.resvL
    deqd := match pc with
      | .deq3 _ _ => b.deqd + 1
      | _ => b.deqd
    held := match pc with
      | .deq3 _ _ => b.held + 1
      | _ => b.held }

structure Sh where
  boxes : Nat → Box
  anext : Nat → Option Nat      -- senderNode.next
  aval : Nat → Option Nat       -- senderNode.value (sender key)
  ahead : Nat
  atail : Nat
  nnode : Nat                   -- sender nodes allocated so far
  poolPriv : Option Nat
  poolShared : List Nat
  length : Int

def Sh.updBox (s : Sh) (k : Nat) (f : Box → Box) : Sh :=
  { s with boxes := fun j => if j = k then f (s.boxes k) else s.boxes j }

def Sh.setANext (s : Sh) (n : Nat) (x : Option Nat) : Sh :=
  { s with anext := fun m => if m = n then x else s.anext m }

def Sh.setAVal (s : Sh) (n : Nat) (x : Option Nat) : Sh :=
  { s with aval := fun m => if m = n then x else s.aval m }

def Sh.poolGet (s : Sh) : Sh × Nat :=
  match s.poolPriv with
  | some x => ({ s with poolPriv := none }, x)
  | none =>
    match s.poolShared with
    | x :: rest => ({ s with poolShared := rest }, x)
    | [] => ({ s with nnode := s.nnode + 1 }, s.nnode)

def Sh.poolPut (s : Sh) (x : Nat) : Sh :=
  match s.poolPriv with
  | none => { s with poolPriv := some x }
  | some _ => { s with poolShared := x :: s.poolShared }

inductive PC where
  | ub (k : Nat) (first : Bool) (pc : Unbounded.PC)  -- inside sq.mailbox.Enqueue / Dequeue of sender k; first: this Enqueue's Add:pending returned 1
  | f4 (k v : Nat)                          -- Enqueue: `Add:length` (+1)
  | f5 (k v : Nat)                          --   `Add:pending` (+1); then sq.mailbox.Enqueue
  | f6 (k : Nat)                            --   pending was 1: `CAS:active` (false → true) [pool.Get]
  | a1 (k n : Nat) (r : Res)                -- activeSenders.enqueue: `Store:value`
  | a2 (k n : Nat) (r : Res)                --   `Store:next` (nil)
  | a3 (k n : Nat) (r : Res)                --   `Swap:tail`
  | a4 (n prev : Nat) (r : Res)             --   `Store:next` (prev.next := n); then the caller returns r
  | g1                                      -- Dequeue → activeSenders.dequeue: `Load:head`
  | g2 (h : Nat)                            --   `Load:next`
  | g3 (h nx : Nat)                         --   `Store:head`
  | g4 (h nx : Nat)                         --   `Load:value`
  | g5 (h : Nat) (v : Option Nat)           --   `Store:next` (head.next := nil)
  | g6 (h : Nat) (v : Option Nat)           --   `Store:value` (head.value := nil) [pool.Put]
  | i1 (k : Nat)                            -- sub-queue looked empty: `Store:active` (false)
  | i2 (k : Nat)                            --   `Load:length` (parks only)
  | i3 (k : Nat)                            --   `Load:pending` [length > 0 && pending > 0]: i4, else next sender
  | i4 (k : Nat)                            --   `CAS:active` (false → true) [re-list]; return nil
  | j1 (k n : Nat)                          -- `Add:length` (-1)
  | j2 (k n : Nat)                          -- `Add:pending` (-1) → remaining
  | j3 (k n : Nat)                          -- finalizeSender, remaining < 0: `Store:pending` (0)
  | j4 (k n : Nat)                          --   `Store:active` (false)
  | j5 (k n : Nat)                          --   `Load:pending` (parks only)
  | j6 (k n : Nat)                          --   `CAS:active` [Load pending > 0 && CAS(false,true)]
  | l1 (emp : Bool)                         -- Len / IsEmpty: `Load:length`
  deriving Repr, DecidableEq

def start : Op → PC
  | .enq v k => .f4 k v
  | .deq => .g1
  | .emp => .l1 true
  | .len => .l1 false

def label : PC → String
  | .ub _ _ pc => Unbounded.label pc
  | .f4 _ _ => "Add:length" | .f5 _ _ => "Add:pending" | .f6 _ => "CAS:active"
  | .a1 _ _ _ => "Store:value" | .a2 _ _ _ => "Store:next" | .a3 _ _ _ => "Swap:tail" | .a4 _ _ _ => "Store:next"
  | .g1 => "Load:head" | .g2 _ => "Load:next" | .g3 _ _ => "Store:head" | .g4 _ _ => "Load:value"
  | .g5 _ _ => "Store:next" | .g6 _ _ => "Store:value"
  | .i1 _ => "Store:active" | .i2 _ => "Load:length" | .i3 _ => "Load:pending" | .i4 _ => "CAS:active"
  | .j1 _ _ => "Add:length" | .j2 _ _ => "Add:pending" | .j3 _ _ => "Store:pending"
  | .j4 _ _ => "Store:active" | .j5 _ _ => "Load:pending" | .j6 _ _ => "CAS:active"
  | .l1 _ => "Load:length"

/-- `m.active.enqueue(sq)` starts with `pool.Get()` (no site), then parks at `Store:value` -/
def activate (s : Sh) (k : Nat) (r : Res) : Sh × Next PC :=
  let g := s.poolGet
  (g.1, .goto (.a1 k g.2 r))

def exec (s : Sh) : PC → Sh × Next PC
  | .ub k first pc =>
    let r := Unbounded.exec (s.boxes k).mb pc
    let s' := s.updBox k fun b => b.ubStep pc
    match r.2 with
    | .goto pc' => (s', .goto (.ub k first pc'))
    | .ret (.val n) => (s', .goto (.j1 k n))         -- sq.mailbox.Dequeue returned a message
    | .ret .none => (s', .goto (.i1 k))              -- … returned nil
    | .ret _ => (s', if first then .goto (.f6 k) else .ret .ok)   -- sq.mailbox.Enqueue returned
  | .f4 k v => ({ s with length := s.length + 1 }, .goto (.f5 k v))
  | .f5 k v =>
    let p := (s.boxes k).pending + 1
    (s.updBox k fun b => { b with pending := p, cntL := b.cntL ++ [v] }, .goto (.ub k (p == 1) (.enq1 v)))
  | .f6 k =>
    if (s.boxes k).active = false then activate (s.updBox k fun b => { b with active := true }) k .ok
    else (s, .ret .ok)
  | .a1 k n r => (s.setAVal n (some k), .goto (.a2 k n r))
  | .a2 k n r => (s.setANext n none, .goto (.a3 k n r))
  | .a3 _ n r => ({ s with atail := n }, .goto (.a4 n s.atail r))
  | .a4 n prev r => (s.setANext prev (some n), .ret r)
  | .g1 => (s, .goto (.g2 s.ahead))
  | .g2 h =>
    match s.anext h with
    | none => (s, .ret .none)
    | some nx => (s, .goto (.g3 h nx))
  | .g3 h nx => ({ s with ahead := nx }, .goto (.g4 h nx))
  | .g4 h nx => (s, .goto (.g5 h (s.aval nx)))
  | .g5 h v => (s.setANext h none, .goto (.g6 h v))
  | .g6 h v =>
    let s' := (s.setAVal h none).poolPut h
    match v with
    | none => (s', .ret .none)
    | some k => (s', .goto (.ub k false .deq1))
  | .i1 k => (s.updBox k fun b => { b with active := false }, .goto (.i2 k))
  | .i2 k => (s, .goto (.i3 k))
  | .i3 k => (s, if s.length > 0 && (s.boxes k).pending > 0 then .goto (.i4 k) else .goto .g1)
  | .i4 k =>
    if (s.boxes k).active = false then activate (s.updBox k fun b => { b with active := true }) k .none
    else (s, .ret .none)
  | .j1 k n => ({ s with length := s.length - 1 }, .goto (.j2 k n))
  | .j2 k n =>
    let rem := (s.boxes k).pending - 1
    let s' := s.updBox k fun b => { b with pending := rem, decd := b.decd + 1, held := b.held - 1 }
    if rem > 0 then activate s' k (.val n)
    else if rem < 0 then (s', .goto (.j3 k n))
    else (s', .goto (.j4 k n))
  | .j3 k n => (s.updBox k fun b => { b with pending := 0 }, .goto (.j4 k n))
  | .j4 k n => (s.updBox k fun b => { b with active := false }, .goto (.j5 k n))
  | .j5 k n => (s, .goto (.j6 k n))
  | .j6 k n =>
    if (s.boxes k).pending > 0 && (s.boxes k).active = false then
      activate (s.updBox k fun b => { b with active := true }) k (.val n)
    else (s, .ret (.val n))
  | .l1 e => (s, .ret (if e then .bool (s.length == 0) else .num s.length))

def init : Sh :=
  { boxes := fun _ => { mb := Unbounded.init, active := false, pending := 0 },
    anext := fun _ => none, aval := fun _ => none, ahead := 0, atail := 0, nnode := 1,
    poolPriv := none, poolShared := [], length := 0 }

@[reducible] def algo : Algo := { Sh, PC, start, label, exec }

end GoaktVerif.Model.C04.Fair

/-
C04 — `BoundedMailbox` (actor/bounded_mailbox.go) delegates every operation to the third-party
`github.com/Workiva/go-datastructures/queue.RingBuffer`.  The ring buffer is a PARAMETER of the
model (black box): its assumed law is "a FIFO of capacity `roundUp cap` (next power of two);
`Put` blocks while full; `Len` counts the stored items".  Only the goakt wrapper is modelled, and
only sequentially (the ring buffer is not instrumented, so its interleavings cannot be scheduled):
`Dequeue` = `if Len() > 0 then Get() else nil`, `IsEmpty` = `Len() == 0`.
-/
import GoaktVerif.Model.C04.Core

namespace GoaktVerif.Model.C04.Bounded
open GoaktVerif.Model.C04

/-- Workiva `roundUp` for 1 ≤ v ≤ 2^16 -/
def roundUp (v : Nat) : Nat :=
  let rec go (fuel p : Nat) : Nat :=
    match fuel with
    | 0 => p
    | f + 1 => if p ≥ v then p else go f (2 * p)
  go 64 1

structure St where
  cap : Nat
  q : List Nat

/-- `none` = the operation blocks (Put on a full ring) -/
def stepOp (s : St) : Op → Option (St × Res)
  | .enq v _ => if s.q.length < s.cap then some ({ s with q := s.q ++ [v] }, .ok) else none
  | .deq =>
    match s.q with
    | [] => some (s, .none)
    | x :: rest => some ({ s with q := rest }, .val x)
  | .emp => some (s, .bool s.q.isEmpty)
  | .len => some (s, .num s.q.length)

def runOps (s : St) : List Op → List Res → Option (St × List Res)
  | [], acc => some (s, acc.reverse)
  | op :: ops, acc =>
    match stepOp s op with
    | none => none
    | some (s', r) => runOps s' ops (r :: acc)

def init (cap : Nat) : St := { cap := roundUp cap, q := [] }

end GoaktVerif.Model.C04.Bounded

/-
C04 — the binary heap used by the priority mailboxes.

`container/heap` (Go standard library: `Push` = append + `up`, `Pop` = swap(0,n-1) + `down(0,n-1)` +
remove last) and goakt's own `stableHeap` (actor/unbounded_stable_priority_mailbox.go: `push`, `pop`,
`up`, `down`) are the same algorithm over a slice; the model is generic in the element type and in
`lt` ("i has higher priority than j", Go's `Less`).  Loops carry fuel = slice length (each
iteration strictly moves along a root-to-leaf path).
-/
namespace GoaktVerif.Model.C04.Heap

variable {α : Type}

def swap (xs : List α) (i j : Nat) : List α :=
  match xs[i]?, xs[j]? with
  | some a, some b => (xs.set i b).set j a
  | _, _ => xs

/-- `less i j` on slice indices -/
def lessAt (lt : α → α → Bool) (xs : List α) (i j : Nat) : Bool :=
  match xs[i]?, xs[j]? with
  | some a, some b => lt a b
  | _, _ => false

/-- Go: `for { i := (j-1)/2; if i == j || !less(j,i) { break }; swap(i,j); j = i }` -/
def up (lt : α → α → Bool) : Nat → List α → Nat → List α
  | 0, xs, _ => xs
  | fuel + 1, xs, j =>
    let i := (j - 1) / 2
    if i = j || !lessAt lt xs j i then xs
    else up lt fuel (swap xs i j) i

/-- Go: `for { l := 2*i+1; if l >= n { break }; c := l; if l+1 < n && less(l+1,l) { c = l+1 };
    if !less(c,i) { break }; swap(i,c); i = c }` -/
def down (lt : α → α → Bool) : Nat → List α → Nat → Nat → List α
  | 0, xs, _, _ => xs
  | fuel + 1, xs, i, n =>
    let l := 2 * i + 1
    if l ≥ n then xs
    else
      let c := if l + 1 < n && lessAt lt xs (l + 1) l then l + 1 else l
      if !lessAt lt xs c i then xs
      else down lt fuel (swap xs i c) c n

def push (lt : α → α → Bool) (xs : List α) (x : α) : List α :=
  let ys := xs ++ [x]
  up lt ys.length ys (ys.length - 1)

/-- returns the popped element and the remaining slice (`none` on an empty heap; Go would panic) -/
def pop (lt : α → α → Bool) (xs : List α) : Option (α × List α) :=
  match xs with
  | [] => none
  | _ :: _ =>
    let n := xs.length - 1
    let ys := down lt xs.length (swap xs 0 n) 0 n
    match ys[n]? with
    | some x => some (x, ys.take n)
    | none => none

/-- priority functions of the harness table, on message ids -/
def prioOf (name : String) : Option (Nat → Nat → Bool) :=
  if name = "lt" then some (fun a b => a < b)
  else if name = "gt" then some (fun a b => a > b)
  else if name = "d2" then some (fun a b => a / 2 < b / 2)
  else if name = "m3" then some (fun a b => a % 3 < b % 3)
  else none

/-- `stableHeap.less`: priority first, then arrival sequence number -/
def stableLt (lt : Nat → Nat → Bool) (a b : Nat × Nat) : Bool :=
  if lt a.1 b.1 then true
  else if lt b.1 a.1 then false
  else a.2 < b.2

end GoaktVerif.Model.C04.Heap

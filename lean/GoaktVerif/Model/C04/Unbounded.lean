/-
C04 — small-step model of `UnboundedMailbox` (actor/unbounded_mailbox.go): Vyukov's intrusive
MPSC list.  One transition per atomic operation, labelled exactly as tools/yieldinject labels the
sites of the Go code (`Kind:field`).  Nodes are the `ReceiveContext`s themselves: node 0 is the
initial sentinel, node k ≥ 1 carries message k (a dequeued message's context becomes the next
sentinel, as in the Go code).
-/
import GoaktVerif.Model.C04.Core

namespace GoaktVerif.Model.C04.Unbounded
open GoaktVerif.Model.C04

abbrev NodeId := Nat

/-- shared state: the `next` field of every context, `m.head`, `m.tail` -/
structure Sh where
  next : NodeId → Option NodeId
  head : NodeId
  tail : NodeId

def Sh.setNext (s : Sh) (n : NodeId) (x : Option NodeId) : Sh :=
  { s with next := fun m => if m = n then x else s.next m }

/-- program counter of a thread inside one mailbox operation, with its locals -/
inductive PC where
  | enq1 (v : NodeId)                 -- Enqueue: at `Store:next`  (value.next := nil)
  | enq2 (v : NodeId)                 --          at `Swap:tail`
  | enq3 (v prev : NodeId)            --          at `Store:next`  (prev.next := value)
  | deq1                              -- Dequeue: at `Load:head`
  | deq2 (h : NodeId)                 --          at `Load:next`
  | deq3 (h n : NodeId)               --          at `Store:head`
  | deq4 (h n : NodeId)               --          at `Store:next`  (head.next := nil, recycling the old sentinel)
  | emp1                              -- IsEmpty: at `Load:head`
  | emp2 (h : NodeId)                 --          at `Load:next`
  | len1                              -- Len: at `Load:head`
  | len2 (h : NodeId)                 --      at `Load:next` (first)
  | len3 (cur : NodeId) (count : Nat) --      at `Load:next` (loop)
  deriving Repr, DecidableEq

def start : Op → PC
  | .enq v _ => .enq1 v
  | .deq => .deq1
  | .emp => .emp1
  | .len => .len1

def label : PC → String
  | .enq1 _ => "Store:next" | .enq2 _ => "Swap:tail" | .enq3 _ _ => "Store:next"
  | .deq1 => "Load:head" | .deq2 _ => "Load:next" | .deq3 _ _ => "Store:head" | .deq4 _ _ => "Store:next"
  | .emp1 => "Load:head" | .emp2 _ => "Load:next"
  | .len1 => "Load:head" | .len2 _ => "Load:next" | .len3 _ _ => "Load:next"

/-- effect of the atomic operation at `pc` (and of the plain code up to the next site) -/
def exec (s : Sh) : PC → Sh × Next PC
  | .enq1 v => (s.setNext v none, .goto (.enq2 v))
  | .enq2 v => ({ s with tail := v }, .goto (.enq3 v s.tail))
  | .enq3 v prev => (s.setNext prev (some v), .ret .ok)
  | .deq1 => (s, .goto (.deq2 s.head))
  | .deq2 h =>
    match s.next h with
    | none => (s, .ret .none)
    | some n => (s, .goto (.deq3 h n))
  | .deq3 h n => ({ s with head := n }, .goto (.deq4 h n))
  | .deq4 h n => (s.setNext h none, .ret (.val n))
  | .emp1 => (s, .goto (.emp2 s.head))
  | .emp2 h => (s, .ret (.bool (s.next h).isNone))
  | .len1 => (s, .goto (.len2 s.head))
  | .len2 h =>
    match s.next h with
    | none => (s, .ret (.num 0))
    | some n => (s, .goto (.len3 n 1))
  | .len3 cur k =>
    match s.next cur with
    | none => (s, .ret (.num k))
    | some n => (s, .goto (.len3 n (k + 1)))

def init : Sh := { next := fun _ => none, head := 0, tail := 0 }

@[reducible] def algo : Algo := { Sh, PC, start, label, exec }

end GoaktVerif.Model.C04.Unbounded

/-
C04 — small-step model of `UnboundedMailbox` (actor/unbounded_mailbox.go): Vyukov's intrusive
MPSC list.  One transition per atomic operation, labelled exactly as tools/yieldinject labels the
sites of the Go code (`Kind:field`).  Nodes are the `ReceiveContext`s themselves: node 0 is the
initial sentinel, node k ≥ 1 carries message k.
-/
namespace GoaktVerif.Model.C04.Unbounded

abbrev NodeId := Nat

/-- program counter of a thread inside one mailbox operation, with its locals -/
inductive PC where
  | enq1 (v : NodeId)                 -- at `Store:next`  (value.next := nil)
  | enq2 (v : NodeId)                 -- at `Swap:tail`
  | enq3 (v prev : NodeId)            -- at `Store:next`  (prev.next := value)
  | deq1                              -- at `Load:head`
  | deq2 (h : NodeId)                 -- at `Load:next`
  | deq3 (h n : NodeId)               -- at `Store:head`
  | deq4 (h n : NodeId)               -- at `Store:next`  (head.next := nil, recycling the old sentinel)
  | emp1                              -- IsEmpty: at `Load:head`
  | emp2 (h : NodeId)                 -- IsEmpty: at `Load:next`
  | len1                              -- Len: at `Load:head`
  | len2 (h : NodeId)                 -- Len: at `Load:next` (first)
  | len3 (cur : NodeId) (count : Nat) -- Len: at `Load:next` (loop)
  deriving Repr, DecidableEq

structure Thread where
  pc : Option PC          -- none = between operations / finished
  prog : List String      -- remaining operations
  results : List String   -- results so far (reversed)
  deriving Repr, DecidableEq

structure Cfg where
  next : List (NodeId × Option NodeId)  -- the `next` field of every node touched so far (assoc list, latest first)
  head : NodeId
  tail : NodeId
  threads : List Thread
  deriving Repr, DecidableEq

def getNext (c : Cfg) (n : NodeId) : Option NodeId :=
  match c.next.find? (·.1 == n) with
  | some (_, x) => x
  | none => none

def setNext (c : Cfg) (n : NodeId) (x : Option NodeId) : Cfg :=
  { c with next := (n, x) :: c.next.filter (·.1 != n) }

/-- first program counter of an operation -/
def startOp (op : String) : Option PC :=
  if op = "d" then some .deq1
  else if op = "emp" then some .emp1
  else if op = "len" then some .len1
  else if op.startsWith "e" then (op.drop 1).toString.toNat?.map .enq1
  else none

/-- move a thread that finished an operation (result `r`) to the first point of its next operation -/
def finishOp (t : Thread) (r : String) : Thread :=
  let results := r :: t.results
  match t.prog with
  | [] => { pc := none, prog := [], results }
  | op :: rest => { pc := startOp op, prog := rest, results }

def label : PC → String
  | .enq1 _ => "Store:next" | .enq2 _ => "Swap:tail" | .enq3 _ _ => "Store:next"
  | .deq1 => "Load:head" | .deq2 _ => "Load:next" | .deq3 _ _ => "Store:head" | .deq4 _ _ => "Store:next"
  | .emp1 => "Load:head" | .emp2 _ => "Load:next"
  | .len1 => "Load:head" | .len2 _ => "Load:next" | .len3 _ _ => "Load:next"

/-- effect of the atomic operation at `pc` on the shared state and on the thread -/
def exec (c : Cfg) (t : Thread) : PC → Cfg × Thread
  | .enq1 v => (setNext c v none, { t with pc := some (.enq2 v) })
  | .enq2 v => ({ c with tail := v }, { t with pc := some (.enq3 v c.tail) })
  | .enq3 v prev => (setNext c prev (some v), finishOp t "ok")
  | .deq1 => (c, { t with pc := some (.deq2 c.head) })
  | .deq2 h =>
    match getNext c h with
    | none => (c, finishOp t "nil")
    | some n => (c, { t with pc := some (.deq3 h n) })
  | .deq3 h n => ({ c with head := n }, { t with pc := some (.deq4 h n) })
  | .deq4 h n => (setNext c h none, finishOp t (toString n))
  | .emp1 => (c, { t with pc := some (.emp2 c.head) })
  | .emp2 h => (c, finishOp t (if (getNext c h).isNone then "true" else "false"))
  | .len1 => (c, { t with pc := some (.len2 c.head) })
  | .len2 h =>
    match getNext c h with
    | none => (c, finishOp t "0")
    | some n => (c, { t with pc := some (.len3 n 1) })
  | .len3 cur k =>
    match getNext c cur with
    | none => (c, finishOp t (toString k))
    | some n => (c, { t with pc := some (.len3 n (k + 1)) })

def step (c : Cfg) (tid : Nat) : String × Cfg :=
  match c.threads[tid]? with
  | none => ("!nothread", c)
  | some t =>
    match t.pc with
    | none => ("!done", c)
    | some pc =>
      let (c', t') := exec c t pc
      (label pc, { c' with threads := c'.threads.set tid t' })

def mkThread (prog : List String) : Thread :=
  match prog with
  | [] => { pc := none, prog := [], results := [] }
  | op :: rest => { pc := startOp op, prog := rest, results := [] }

def init (progs : List (List String)) : Cfg :=
  { next := [(0, none)], head := 0, tail := 0, threads := progs.map mkThread }

def done (c : Cfg) (tid : Nat) : Bool :=
  match c.threads[tid]? with
  | some t => t.pc.isNone
  | none => true

/-- sequential drain from `head` (fuel = number of nodes known) -/
def drain (c : Cfg) : Nat → NodeId → List NodeId
  | 0, _ => []
  | f + 1, h =>
    match getNext c h with
    | none => []
    | some n => n :: drain c f n

def final (c : Cfg) : String :=
  " ".intercalate ((drain c (c.next.length + 1) c.head).map toString)

end GoaktVerif.Model.C04.Unbounded

/-
C04 — small-step model of `NonBlockingBoundedMailbox` (actor/non_blocking_bounded_mailbox.go):
Vyukov's bounded MPMC ring used MPSC; every cell carries a sequence number.
Positions and sequence numbers are `Nat` (the Go fields are uint64; 2^64 enqueues are out of reach,
so wrap-around of the counters is not modelled); `dif` is computed in `Int` as the Go code does in
int64.  The plain accesses `cell.ctx = msg` / `msg = cell.ctx; cell.ctx = nil` are part of the step
of the successful CAS that precedes them.
-/
import GoaktVerif.Model.C04.Core

namespace GoaktVerif.Model.C04.Ring
open GoaktVerif.Model.C04

/-- Go `nextPowerOfTwo` (floor 2) -/
def nextPow2 (n : Nat) : Nat :=
  if n ≤ 2 then 2 else
    let rec go (fuel p : Nat) : Nat :=
      match fuel with
      | 0 => p
      | f + 1 => if p ≥ n then p else go f (2 * p)
    go 64 2

structure Sh where
  size : Nat                    -- len(ring) = mask + 1
  seq : Nat → Nat               -- ring[i].seq
  ctx : Nat → Option Nat        -- ring[i].ctx
  enqPos : Nat
  deqPos : Nat

inductive PC where
  | enq1 (v : Nat)              -- Enqueue: `Load:enqueuePos`
  | enq2 (v pos : Nat)          --   `Load:seq`
  | enq3 (v pos : Nat)          --   dif = 0: `CAS:enqueuePos` [cell.ctx = msg]
  | enq4 (v pos : Nat)          --   `Store:seq` (pos+1)
  | enq5 (v : Nat)              --   dif > 0: `Load:enqueuePos`
  | deq1                        -- Dequeue: `Load:dequeuePos`
  | deq2 (pos : Nat)            --   `Load:seq`
  | deq3 (pos : Nat)            --   dif = 0: `CAS:dequeuePos` [msg = cell.ctx; cell.ctx = nil]
  | deq4 (pos : Nat) (msg : Option Nat) -- `Store:seq` (pos+mask+1)
  | deq5                        --   dif > 0: `Load:dequeuePos`
  | len1 (emp : Bool)           -- Len / IsEmpty: `Load:enqueuePos`
  | len2 (emp : Bool) (enq : Nat) --              `Load:dequeuePos`
  deriving Repr, DecidableEq

def start : Op → PC
  | .enq v _ => .enq1 v
  | .deq => .deq1
  | .emp => .len1 true
  | .len => .len1 false

def label : PC → String
  | .enq1 _ => "Load:enqueuePos" | .enq2 _ _ => "Load:seq" | .enq3 _ _ => "CAS:enqueuePos"
  | .enq4 _ _ => "Store:seq" | .enq5 _ => "Load:enqueuePos"
  | .deq1 => "Load:dequeuePos" | .deq2 _ => "Load:seq" | .deq3 _ => "CAS:dequeuePos"
  | .deq4 _ _ => "Store:seq" | .deq5 => "Load:dequeuePos"
  | .len1 _ => "Load:enqueuePos" | .len2 _ _ => "Load:dequeuePos"

def Sh.setSeq (s : Sh) (i x : Nat) : Sh := { s with seq := fun j => if j = i then x else s.seq j }
def Sh.setCtx (s : Sh) (i : Nat) (x : Option Nat) : Sh := { s with ctx := fun j => if j = i then x else s.ctx j }

def exec (s : Sh) : PC → Sh × Next PC
  | .enq1 v => (s, .goto (.enq2 v s.enqPos))
  | .enq2 v pos =>
    let dif : Int := (s.seq (pos % s.size) : Int) - (pos : Int)
    if dif = 0 then (s, .goto (.enq3 v pos))
    else if dif < 0 then (s, .ret .full)
    else (s, .goto (.enq5 v))
  | .enq3 v pos =>
    if s.enqPos = pos then (({ s with enqPos := pos + 1 } : Sh).setCtx (pos % s.size) (some v), .goto (.enq4 v pos))
    else (s, .goto (.enq2 v pos))
  | .enq4 _ pos => (s.setSeq (pos % s.size) (pos + 1), .ret .ok)
  | .enq5 v => (s, .goto (.enq2 v s.enqPos))
  | .deq1 => (s, .goto (.deq2 s.deqPos))
  | .deq2 pos =>
    let dif : Int := (s.seq (pos % s.size) : Int) - ((pos : Int) + 1)
    if dif = 0 then (s, .goto (.deq3 pos))
    else if dif < 0 then (s, .ret .none)
    else (s, .goto .deq5)
  | .deq3 pos =>
    if s.deqPos = pos then
      (({ s with deqPos := pos + 1 } : Sh).setCtx (pos % s.size) none, .goto (.deq4 pos (s.ctx (pos % s.size))))
    else (s, .goto (.deq2 pos))
  | .deq4 pos msg =>
    (s.setSeq (pos % s.size) (pos + s.size),
      match msg with
      | some v => .ret (.val v)
      | none => .ret .none)
  | .deq5 => (s, .goto (.deq2 s.deqPos))
  | .len1 e => (s, .goto (.len2 e s.enqPos))
  | .len2 e enq =>
    let n : Int := if enq ≤ s.deqPos then 0 else ((enq - s.deqPos : Nat) : Int)
    (s, .ret (if e then .bool (n == 0) else .num n))

def init (cap : Nat) : Sh :=
  { size := nextPow2 cap, seq := fun i => i, ctx := fun _ => none, enqPos := 0, deqPos := 0 }

@[reducible] def algo : Algo := { Sh, PC, start, label, exec }

end GoaktVerif.Model.C04.Ring

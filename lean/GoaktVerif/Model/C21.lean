/-
C21 — routers (actor/router.go): round-robin / fan-out / consistent-hash routing and the
consistent hash ring.  Model of THE CODE AS IT IS.  Routees are identified by their index i
(the name is routeeName(i, router); pools of at most 10 routees, so that ID order = index order); hashes are Nat (uint64 values); the hasher is a parameter.
Go map iteration order is an explicit input (`order`) of every step that ranges over routeesMap.
-/
namespace GoaktVerif.Model.C21

/-! ### consistent hash ring -/

/-- one virtual node: (hash, member) -/
abbrev VNode := Nat × Nat

/-- `consistentHashRing` after `set`: `keys` = every vnode hash, sorted (duplicates kept, as the code
    appends before sorting); `ring` = the insertion sequence of `r.ring[h] = member` (map semantics:
    the last writer wins, see `mapGet`) -/
structure Ring where
  keys : List Nat
  ring : List VNode
  deriving Repr

/-- Go map built by successive `m[k] = v`: later entries override earlier ones -/
def mapGet : List VNode → Nat → Option Nat
  | [], _ => none
  | (k, m) :: rest, h =>
    match mapGet rest h with
    | some m' => some m'
    | none => if k = h then some m else none

/-- the vnodes `set(members)` inserts, in insertion order: for member in members, for i in 0..vn-1 -/
def vnodesOf (hv : Nat → Nat → Nat) (vn : Nat) (members : List Nat) : List VNode :=
  members.flatMap fun m => (List.range vn).map fun i => (hv m i, m)

/-- `slices.Sort(r.keys)`: any correct sort gives the same slice; insertion sort is the model -/
def insertSorted (a : Nat) : List Nat → List Nat
  | [] => [a]
  | b :: bs => if a ≤ b then a :: b :: bs else b :: insertSorted a bs

def sortKeys : List Nat → List Nat
  | [] => []
  | a :: as => insertSorted a (sortKeys as)

def Ring.set (vnodes : List VNode) : Ring :=
  { keys := sortKeys (vnodes.map (·.1)), ring := vnodes }

/-- `sort.Search(len(keys), func(i) bool { return keys[i] >= h })`: first index with keys[i] ≥ h,
    len(keys) if none (binary search = linear first-true on a sorted slice) -/
def search (keys : List Nat) (h : Nat) : Nat := keys.findIdx (fun k => decide (h ≤ k))

/-- `lookup` given the key's hash: none = the "" returned for an empty ring -/
def Ring.lookup (r : Ring) (h : Nat) : Option Nat :=
  if r.keys.isEmpty then none
  else
    let idx := search r.keys h
    let idx := if idx ≥ r.keys.length then 0 else idx
    match r.keys[idx]? with
    | some k => mapGet r.ring k
    | none => none

/-! ### router -/

/-- the router state the strategies read: `routeesMap` as (routee, IsRunning) entries with distinct
    routees, and the free-running `roundRobinNext` (uint32) -/
structure Router where
  members : List (Nat × Bool)
  next : Nat
  deriving Repr

inductive Outcome where
  | delivered (id : Nat)   -- Tell enqueued at a running routee
  | deadRoutee (id : Nat)  -- Tell to a routee that is not running: the message is lost (dead letter)
  | panic                  -- index out of range in the router's handler: the message is lost
  | noRoutees              -- availableRoutees returned nothing: unhandled + router shuts down
  deriving DecidableEq, Repr

def Router.ids (r : Router) : List Nat := r.members.map (·.1)

def Router.running (r : Router) (id : Nat) : Bool := r.members.any fun e => e.1 == id && e.2

/-- `availableRoutees`: ranges over the map in this call's iteration order `order` (a permutation of
    the ids); entries that are not running are deleted and skipped; the slice is then sorted by routee
    ID (model: by routee index), so the result does not depend on `order`;
    result = (slice, router afterwards) -/
def available (r : Router) (order : List Nat) : List Nat × Router :=
  (sortKeys (order.filter r.running), { r with members := r.members.filter (·.2) })

def tellTo (r : Router) (id : Nat) : Outcome :=
  if r.running id then .delivered id else .deadRoutee id

/-- one Broadcast handled with RoundRobinRouting: `idx = next % len`, `next = (idx+1) % len`
    (the cursor is kept modulo the pool size; `next` is a uint32 field) -/
def rrRoute (r : Router) (order : List Nat) : Outcome × Router :=
  let (routees, r1) := available r order
  if routees.isEmpty then (.noRoutees, r1)
  else
    let idx := (r1.next % 2 ^ 32) % routees.length
    let r2 := { r1 with next := (idx + 1) % routees.length }
    match routees[idx]? with
    | some id => (tellTo r id, r2)
    | none => (.panic, r2)

/-- successive round-robin messages, one map iteration order per message -/
def rrRun : Router → List (List Nat) → List Outcome
  | _, [] => []
  | r, o :: os => let (out, r') := rrRoute r o; out :: rrRun r' os

/-- one Broadcast handled with FanOutRouting: one Tell per element of the slice -/
def fanoutRoute (r : Router) (order : List Nat) : List Outcome × Router :=
  let (routees, r1) := available r order
  (routees.map (tellTo r), r1)

/-- one Broadcast handled with ConsistentHashRouting. `key` = hash of the routing key, none when the
    extractor returned ""; `rnd` = the rand.IntN(len(routees)) draw used by the fallbacks -/
def chRoute (r : Router) (ring : Ring) (order : List Nat) (key : Option Nat) (rnd : Nat) : Outcome × Router :=
  let (routees, r1) := available r order
  if routees.isEmpty then (.noRoutees, r1)
  else
    let fallback : Outcome := match routees[rnd]? with | some id => tellTo r id | none => .panic
    match key with
    | none => (fallback, r1)
    | some h =>
      match ring.lookup h with
      | some id => if r1.running id then (.delivered id, r1) else (fallback, r1)
      | none => (fallback, r1)

end GoaktVerif.Model.C21

import GoaktVerif.Model.C42

/-!
C42 / C43 — reliable point-to-point delivery INCLUDING the chunked path (volatile queue).

Executable model of the same two controllers as Model/C42.lean, extended with what
`WithReliableChunking(maxChunkBytes)` adds:
  producer: `storeChunks` (split of an encoded frame longer than maxChunkBytes into contiguous sequences, window
            bound, one Stored for the last chunk), `pendingChunks`, chunk marks on `unconfirmed`, chunked
            emission / resend, DeliveryConfirmed only for whole messages and last chunks;
  consumer: chunk buffering, the `runLastSeq` hint, `chunkRunComplete`, `scanChunkRun` (structural violations are
            terminal), `assemble` + `deliverFrame` under the last chunk's sequence, `gapOpen`'s chunk clause,
            `failWedgedChunkRun` on the tick, `refreshRunLast` after a confirmation.
With `maxChunk = 0` every handler coincides with Model/C42 (the driver cross-checks the two on every unchunked case;
the theorems of Props/C42 and Props/C43 are about Model/C42).

An encoded frame is abstract: a whole payload is its value `v`, a chunk is `piece v idx cnt len`
(idx-th of cnt pieces of the frame of `v`, `len` bytes).  A reassembled frame decodes iff it is exactly the
pieces 1..cnt of one value, in order.
-/
namespace GoaktVerif.Model.C42c
open GoaktVerif.Model.C42 (HS CMsg PUMsg Delivery Step maxWindow)
open GoaktVerif.Spec.C42 (payloadOf)

/-- serialized payload: a whole frame or one chunk of it -/
inductive Pl
  | whole (v : Nat)
  | piece (v idx cnt len : Nat)
  deriving DecidableEq, Repr, Inhabited

/-- `chunkMark` -/
structure Mark where
  chunked : Bool := false
  first : Bool := false
  last : Bool := false
  deriving DecidableEq, Repr, Inhabited

/-- `UnconfirmedMessage` / buffered `SequencedMessage` -/
structure UMsg where
  id : Nat
  seq : Nat
  payload : Pl
  mark : Mark := {}
  deriving DecidableEq, Repr, Inhabited

inductive PMsg
  | regAck (session nextSeq nonce : Nat)
  | sequenced (session : Nat) (m : UMsg)
  deriving DecidableEq, Repr, Inhabited

inductive POut
  | toConsumer (m : PMsg)
  | toUser (m : PUMsg)
  deriving DecidableEq, Repr, Inhabited

inductive COut
  | toProducer (m : CMsg)
  | toUser (d : Delivery)
  deriving DecidableEq, Repr, Inhabited

/-! ## producer controller -/

structure Producer where
  session : Nat := 1
  deliveryConfirmation : Bool := false
  maxChunk : Nat := 0
  currentSeq : Nat := 0
  confirmedSeq : Nat := 0
  persistedConfirmedSeq : Nat := 0
  unconfirmed : List UMsg := []
  registered : Bool := false
  nonce : Nat := 0
  demandUpTo : Nat := 0
  windowSpan : Nat := 0
  handshake : HS := .idle
  token : Nat := 0
  pendingId : Nat := 0
  pendingSeq : Nat := 0
  /-- pendingPayload (value of the whole frame; 0 = empty) -/
  pendingPayload : Nat := 0
  storedMessage : Option PUMsg := none
  pendingChunks : List UMsg := []
  lastToken : Nat := 0
  lastId : Nat := 0
  tokenCtr : Nat := 0
  failed : Bool := false
  deriving DecidableEq, Repr, Inhabited

namespace Producer

def terminate (p : Producer) : Producer × List POut := ({ p with failed := true }, [])

def handleRegister (p : Producer) (nonce : Nat) : Producer × List POut :=
  let p1 := if !p.registered || p.nonce != nonce then
      { p with registered := true, nonce := nonce, demandUpTo := min p.demandUpTo p.currentSeq }
    else p
  (p1, [.toConsumer (.regAck p1.session (p1.confirmedSeq + 1) p1.nonce)])

def fromRegistered (p : Producer) (session nonce : Nat) : Bool :=
  p.registered && session == p.session && nonce == p.nonce

/-- `sendConfirmation`: interior chunks are skipped (`notifiesConfirmation`) -/
def confirmations (p : Producer) (cut : List UMsg) : List POut :=
  if p.deliveryConfirmation then
    (cut.filter (fun m => !m.mark.chunked || m.mark.last)).map (fun m => .toUser (.deliveryConfirmed p.session m.id m.seq))
  else []

def advanceConfirmed (p : Producer) (confirmed : Nat) : Producer × List POut :=
  if confirmed ≤ p.confirmedSeq then (p, [])
  else
    let cut := p.unconfirmed.takeWhile (fun m => m.seq ≤ confirmed)
    let rest := p.unconfirmed.dropWhile (fun m => m.seq ≤ confirmed)
    ({ p with confirmedSeq := confirmed, unconfirmed := rest, persistedConfirmedSeq := confirmed },
      p.confirmations cut)

def emitSequenced (p : Producer) (m : UMsg) : List POut :=
  if !p.registered || m.seq > p.demandUpTo then []
  else [.toConsumer (.sequenced p.session m)]

def resendUnconfirmed (p : Producer) : List POut :=
  let limit := min p.currentSeq p.demandUpTo
  (p.unconfirmed.takeWhile (fun m => m.seq ≤ limit)).flatMap p.emitSequenced

def allowNextRequest (p : Producer) : Producer × List POut :=
  if p.handshake != .idle || p.currentSeq ≥ p.demandUpTo then (p, [])
  else
    let t := p.tokenCtr + 1
    ({ p with handshake := .credit, token := t, tokenCtr := t }, [.toUser (.requestNext p.session t)])

def handleRequest (p : Producer) (session nonce confirmed upTo : Nat) (viaTimeout : Bool) : Producer × List POut :=
  if !p.fromRegistered session nonce then (p, [])
  else if confirmed > p.currentSeq || upTo < confirmed || upTo > confirmed + maxWindow then p.terminate
  else
    let (p1, o1) := p.advanceConfirmed confirmed
    let p2 := { p1 with demandUpTo := upTo, windowSpan := upTo - confirmed }
    let o2 := if viaTimeout then p2.resendUnconfirmed else []
    let (p3, o3) := p2.allowNextRequest
    (p3, o1 ++ o2 ++ o3)

def handleAck (p : Producer) (session nonce confirmed : Nat) : Producer × List POut :=
  if !p.fromRegistered session nonce then (p, [])
  else if confirmed > p.currentSeq then p.terminate
  else p.advanceConfirmed confirmed

def resetHandshake (p : Producer) : Producer :=
  { p with handshake := .idle, token := 0, pendingId := 0, pendingSeq := 0, pendingPayload := 0,
           storedMessage := none, pendingChunks := [] }

/-- `replyStored` -/
def replyStored (p : Producer) : Producer × List POut :=
  let st := PUMsg.stored p.session p.token p.pendingId p.pendingSeq
  ({ p with handshake := .storedAck, storedMessage := some st }, [.toUser st])

/-- `startStore` → `completeStore` for a whole payload -/
def completeStore (p : Producer) (id v : Nat) : Producer × List POut :=
  let seq := p.currentSeq + 1
  replyStored { p with handshake := .store, pendingId := id, pendingPayload := v, pendingSeq := seq,
                       currentSeq := seq, unconfirmed := p.unconfirmed ++ [⟨id, seq, .whole v, {}⟩] }

/-- the chunk entries `storeChunks` prepares: index i (1-based) of `count`, sequences from `seq+1` -/
def mkChunks (id v frameLen maxChunk count seq : Nat) : Nat → List UMsg
  | 0 => []
  | k + 1 =>
    -- chunks are produced in ascending order: the (count-k)-th first
    let i := count - k
    let len := min maxChunk (frameLen - (i - 1) * maxChunk)
    ⟨id, seq + i, .piece v i count len, ⟨true, i == 1, i == count⟩⟩ :: mkChunks id v frameLen maxChunk count seq k

/-- `storeChunks` (volatile) -/
def storeChunks (p : Producer) (id v frameLen : Nat) : Producer × List POut :=
  let p0 := { p with handshake := .store, pendingId := id }
  let count := (frameLen + p.maxChunk - 1) / p.maxChunk
  if count > p.windowSpan then p0.terminate
  else
    let chunks := mkChunks id v frameLen p.maxChunk count p.currentSeq count
    replyStored { p0 with pendingChunks := chunks, pendingSeq := p.currentSeq + count,
                          unconfirmed := p.unconfirmed ++ chunks, currentSeq := p.currentSeq + count }

/-- `handleProduced`: `frameLen` is the length of the encoded payload -/
def handleProduced (p : Producer) (session token id v frameLen : Nat) : Producer × List POut :=
  if session != p.session then (p, [])
  else if p.handshake != .idle && p.handshake != .credit && token == p.token && id == p.pendingId then (p, [])
  else if token == p.lastToken && id == p.lastId then (p, [])
  else if p.handshake != .credit then p.terminate
  else if token != p.token then p.terminate
  else if p.maxChunk > 0 && frameLen > p.maxChunk then p.storeChunks id v frameLen
  else p.completeStore id v

def completeAccept (p : Producer) : Producer × List POut :=
  let o1 := if p.pendingChunks.isEmpty then p.emitSequenced ⟨p.pendingId, p.pendingSeq, .whole p.pendingPayload, {}⟩
            else p.pendingChunks.flatMap p.emitSequenced
  let p1 := { p with lastToken := p.token, lastId := p.pendingId }
  let (p2, o2) := p1.resetHandshake.allowNextRequest
  (p2, o1 ++ o2)

def handleStoredAck (p : Producer) (session token id : Nat) : Producer × List POut :=
  if session != p.session then (p, [])
  else if p.handshake == .storedAck && token == p.token && id == p.pendingId then
    completeAccept { p with handshake := .accept, storedMessage := none }
  else if p.handshake == .accept && token == p.token && id == p.pendingId then (p, [])
  else if token == p.lastToken && id == p.lastId then (p, [])
  else p.terminate

def handleTick (p : Producer) : Producer × List POut :=
  match p.handshake with
  | .credit => (p, [.toUser (.requestNext p.session p.token)])
  | .storedAck => (p, match p.storedMessage with | some m => [.toUser m] | none => [])
  | _ => (p, [])

end Producer

inductive PIn
  | fromConsumer (m : CMsg)
  | produced (session token id v frameLen : Nat)
  | storedAck (session token id : Nat)
  | tick
  deriving DecidableEq, Repr, Inhabited

def Producer.handle (p : Producer) (m : PIn) : Producer × List POut :=
  if p.failed then (p, [])
  else match m with
    | .fromConsumer (.register n) => p.handleRegister n
    | .fromConsumer (.request s n c u v) => p.handleRequest s n c u v
    | .fromConsumer (.ack s n c) => p.handleAck s n c
    | .produced s t i v l => p.handleProduced s t i v l
    | .storedAck s t i => p.handleStoredAck s t i
    | .tick => p.handleTick

/-! ## consumer controller -/

structure Consumer where
  window : Nat := 1
  interval : Nat := 1
  hasProducer : Bool := false
  session : Nat := 0
  nonce : Nat := 0
  nonceCtr : Nat := 0
  expectedSeq : Nat := 1
  confirmedSeq : Nat := 0
  requestUpToSeq : Nat := 0
  buffer : List UMsg := []
  inFlight : Option Delivery := none
  runLastSeq : Nat := 0
  sawValidTraffic : Bool := false
  lastGap : Option Nat := none
  failed : Bool := false
  deriving DecidableEq, Repr, Inhabited

namespace Consumer

def fail (c : Consumer) : Consumer × List COut := ({ c with failed := true }, [])

def register (c : Consumer) : Consumer × List COut :=
  let n := c.nonceCtr + 1
  ({ c with hasProducer := true, nonce := n, nonceCtr := n }, [.toProducer (.register n)])

def sendRequest (c : Consumer) (viaTimeout : Bool) : Consumer × List COut :=
  if !c.hasProducer || c.session == 0 then (c, [])
  else
    let upTo := c.confirmedSeq + c.window
    ({ c with requestUpToSeq := upTo }, [.toProducer (.request c.session c.nonce c.confirmedSeq upTo viaTimeout)])

def sendAck (c : Consumer) : List COut :=
  if !c.hasProducer || c.session == 0 then []
  else [.toProducer (.ack c.session c.nonce c.confirmedSeq)]

/-- `chunkRunComplete` -/
def chunkRunComplete (c : Consumer) : Bool :=
  if c.runLastSeq < c.expectedSeq then false
  else
    let k := c.runLastSeq - c.expectedSeq
    match c.buffer[k]? with
    | some b => b.seq == c.runLastSeq
    | none => false

/-- `gapOpen` -/
def gapOpen (c : Consumer) : Bool :=
  match c.buffer with
  | [] => false
  | b :: _ =>
    let nextMissing := match c.inFlight with | some d => d.seq + 1 | none => c.expectedSeq
    if b.seq > nextMissing then true
    else if c.inFlight.isNone && b.seq == c.expectedSeq && b.mark.chunked then !c.chunkRunComplete
    else false

def solicitGapRequest (c : Consumer) (now : Nat) : Consumer × List COut :=
  sendRequest { c with lastGap := some now } true

def gapAllowed (c : Consumer) (now : Nat) : Bool :=
  match c.lastGap with
  | none => true
  | some t => now - t ≥ c.interval

def sendGapRequest (c : Consumer) (now : Nat) : Consumer × List COut :=
  if c.gapAllowed now then c.solicitGapRequest now else (c, [])

def insertBySeq (m : UMsg) : List UMsg → List UMsg
  | [] => [m]
  | b :: bs => if m.seq < b.seq then m :: b :: bs else b :: insertBySeq m bs

def bufferInsert (c : Consumer) (m : UMsg) : Consumer :=
  if c.buffer.any (fun b => b.seq == m.seq) then c
  else if c.buffer.length ≥ c.window then c
  else { c with buffer := insertBySeq m c.buffer }

def bufferMessage (c : Consumer) (m : UMsg) (now : Nat) : Consumer × List COut :=
  let c1 := c.bufferInsert m
  if c1.gapOpen then c1.sendGapRequest now else (c1, [])

/-- decode of a reassembled frame: the pieces 1..cnt of one value, in order -/
def decodePieces : List Pl → Option Nat
  | [] => none
  | .whole _ :: _ => none
  | .piece v i cnt _ :: rest =>
    let rec go (expect : Nat) : List Pl → Bool
      | [] => expect == cnt + 1
      | .piece v' i' cnt' _ :: r => v' == v && i' == expect && cnt' == cnt && go (expect + 1) r
      | .whole _ :: _ => false
    if i == 1 && go 2 rest then some v else none

/-- `deliverFrame` for a whole payload -/
def deliver (c : Consumer) (m : UMsg) : Consumer × List COut :=
  match m.payload with
  | .whole v =>
    let d : Delivery := ⟨c.session, m.id, m.seq, v⟩
    ({ c with inFlight := some d }, [.toUser d])
  | .piece _ _ _ _ => c.fail  -- a bare chunk is not a decodable frame

/-- `scanChunkRun`: (count, violation) -/
def scanChunkRun (c : Consumer) : Nat × Bool :=
  match c.buffer with
  | [] => (0, false)
  | head :: _ =>
    if !head.mark.first then (0, true)
    else
      let rec go (next index : Nat) : List UMsg → Nat × Bool
        | [] => (0, false)
        | e :: r =>
          if e.seq != next then (0, false)
          else if !e.mark.chunked then (0, true)
          else if e.id != head.id then (0, true)
          else if index > 0 && e.mark.first then (0, true)
          else if e.mark.last then (index + 1, false)
          else go (next + 1) (index + 1) r
      go c.expectedSeq 0 c.buffer

/-- `assemble` -/
def assemble (c : Consumer) : Consumer × List COut :=
  let (count, violation) := c.scanChunkRun
  if violation then c.fail
  else if count == 0 then (c, [])
  else
    let run := c.buffer.take count
    match run.head?, run.getLast?, decodePieces (run.map (·.payload)) with
    | some h, some l, some v =>
      let d : Delivery := ⟨c.session, h.id, l.seq, v⟩
      ({ c with inFlight := some d }, [.toUser d])
    | _, _, _ => c.fail

def drain (c : Consumer) : Consumer × List COut :=
  match c.inFlight, c.buffer with
  | none, b :: bs =>
    if b.seq == c.expectedSeq then
      if b.mark.chunked then (if c.chunkRunComplete then c.assemble else (c, []))
      else deliver { c with buffer := bs } b
    else (c, [])
  | _, _ => (c, [])

def handleRegAck (c : Consumer) (session nextSeq nonce : Nat) : Consumer × List COut :=
  if !c.hasProducer then (c, [])
  else if nonce != c.nonce then (c, [])
  else
    let c1 := { c with sawValidTraffic := true }
    let c2 := if session != c1.session then
        { c1 with session := session, expectedSeq := nextSeq, confirmedSeq := nextSeq - 1, buffer := [], inFlight := none, runLastSeq := 0 }
      else c1
    c2.sendRequest true

def isInFlightSeq (c : Consumer) (seq : Nat) : Bool :=
  match c.inFlight with | some d => seq == d.seq | none => false

def handleSequenced (c : Consumer) (session : Nat) (m : UMsg) (now : Nat) : Consumer × List COut :=
  if !c.hasProducer then (c, [])
  else if c.session == 0 || session != c.session then (c, [])
  else
    let c1 := { c with sawValidTraffic := true }
    if m.seq < 1 || m.seq > c1.requestUpToSeq then (c1, [])
    else if m.seq < c1.expectedSeq then (c1, c1.sendAck)
    else if m.mark.chunked then
      let (c2, o2) := c1.bufferMessage m now
      let c3 := if m.mark.last && (c2.runLastSeq == 0 || m.seq < c2.runLastSeq) then { c2 with runLastSeq := m.seq } else c2
      let (c4, o4) := c3.drain
      (c4, o2 ++ o4)
    else if m.seq == c1.expectedSeq && c1.inFlight.isNone then c1.deliver m
    else if c1.isInFlightSeq m.seq then (c1, [])
    else
      let (c2, o2) := c1.bufferMessage m now
      let (c3, o3) := c2.drain
      (c3, o2 ++ o3)

def purgeBuffer (c : Consumer) : Consumer :=
  { c with buffer := c.buffer.dropWhile (fun b => b.seq < c.expectedSeq) }

/-- `refreshRunLast` -/
def refreshRunLast (c : Consumer) : Consumer :=
  { c with runLastSeq := match c.buffer.find? (fun b => b.mark.last) with | some b => b.seq | none => 0 }

def batchConfirmation (c : Consumer) : Consumer × List COut :=
  if c.requestUpToSeq - c.confirmedSeq ≤ c.window / 2 then c.sendRequest false
  else if c.buffer.isEmpty && c.inFlight.isNone then (c, c.sendAck)
  else (c, [])

def handleConfirmed (c : Consumer) (session id seq now : Nat) : Consumer × List COut :=
  match c.inFlight with
  | none => (c, [])
  | some d =>
    if session != c.session || id != d.id || seq != d.seq then (c, [])
    else
      let c1 := refreshRunLast (purgeBuffer { c with confirmedSeq := d.seq, expectedSeq := d.seq + 1, inFlight := none })
      let (c2, o2) := c1.batchConfirmation
      let (c3, o3) := c2.drain
      if c3.gapOpen then
        let (c4, o4) := c3.solicitGapRequest now
        (c4, o2 ++ o3 ++ o4)
      else (c3, o2 ++ o3)

/-- `failWedgedChunkRun` -/
def wedged (c : Consumer) : Bool :=
  match c.buffer with
  | b :: _ => b.seq == c.expectedSeq && b.mark.chunked && c.scanChunkRun.2
  | [] => false

def handleTick (c : Consumer) (now : Nat) : Consumer × List COut :=
  if c.session == 0 || !c.sawValidTraffic then
    let (c1, o1) := c.register
    ({ c1 with sawValidTraffic := false }, o1)
  else match c.inFlight with
    | some d => ({ c with sawValidTraffic := false }, [.toUser d])
    | none =>
      if c.gapOpen then
        if c.wedged then c.fail
        else
          let (c1, o1) := c.sendGapRequest now
          ({ c1 with sawValidTraffic := false }, o1)
      else ({ c with sawValidTraffic := false }, [])

end Consumer

inductive CIn
  | fromProducer (m : PMsg)
  | confirmed (session id seq : Nat)
  | tick
  deriving DecidableEq, Repr, Inhabited

def Consumer.handle (c : Consumer) (m : CIn) (now : Nat) : Consumer × List COut :=
  if c.failed then (c, [])
  else match m with
    | .fromProducer (.regAck s nx n) => c.handleRegAck s nx n
    | .fromProducer (.sequenced s m) => c.handleSequenced s m now
    | .confirmed s i q => c.handleConfirmed s i q now
    | .tick => c.handleTick now

/-! ## endpoints and links (as in Model/C42; job k has frame length `frameLens[k-1]`, default 1) -/

structure UserP where
  answered : Option (Nat × Nat × Nat × Nat) := none
  jobs : Nat := 0
  deriving DecidableEq, Repr, Inhabited

structure World where
  p : Producer := {}
  c : Consumer := {}
  netPC : List PMsg := []
  netCP : List CMsg := []
  inboxP : List PUMsg := []
  inboxC : List Delivery := []
  userP : UserP := {}
  frameLens : List Nat := []
  now : Nat := 0
  deriving Repr, Inhabited

def frameLenOf (w : World) (k : Nat) : Nat :=
  if w.frameLens.isEmpty then 1 else w.frameLens.getD ((k - 1) % w.frameLens.length) 1

def pcOf : List POut → List PMsg
  | [] => [] | .toConsumer m :: r => m :: pcOf r | .toUser _ :: r => pcOf r
def puOf : List POut → List PUMsg
  | [] => [] | .toConsumer _ :: r => puOf r | .toUser m :: r => m :: puOf r
def cpOf : List COut → List CMsg
  | [] => [] | .toProducer m :: r => m :: cpOf r | .toUser _ :: r => cpOf r
def cuOf : List COut → List Delivery
  | [] => [] | .toProducer _ :: r => cuOf r | .toUser d :: r => d :: cuOf r

structure StepOut where
  who : Nat := 0
  pouts : List POut := []
  couts : List COut := []
  deriving Repr, Inhabited

def World.stepP (w : World) (m : PIn) : World × StepOut :=
  let (p', o) := w.p.handle m
  ({ w with p := p', netPC := w.netPC ++ pcOf o, inboxP := w.inboxP ++ puOf o }, { who := 1, pouts := o })

def World.stepC (w : World) (m : CIn) : World × StepOut :=
  let (c', o) := w.c.handle m w.now
  ({ w with c := c', netCP := w.netCP ++ cpOf o, inboxC := w.inboxC ++ cuOf o }, { who := 2, couts := o })

def World.step (w : World) : Step → World × StepOut
  | .deliverPC i =>
    match w.netPC[i]? with
    | some m => ({ w with netPC := w.netPC.eraseIdx i }).stepC (.fromProducer m)
    | none => (w, {})
  | .dupPC i =>
    match w.netPC[i]? with
    | some m => w.stepC (.fromProducer m)
    | none => (w, {})
  | .dropPC i => ({ w with netPC := w.netPC.eraseIdx i }, {})
  | .deliverCP i =>
    match w.netCP[i]? with
    | some m => ({ w with netCP := w.netCP.eraseIdx i }).stepP (.fromConsumer m)
    | none => (w, {})
  | .dupCP i =>
    match w.netCP[i]? with
    | some m => w.stepP (.fromConsumer m)
    | none => (w, {})
  | .dropCP i => ({ w with netCP := w.netCP.eraseIdx i }, {})
  | .tickP => w.stepP .tick
  | .tickC => w.stepC .tick
  | .userP =>
    match w.inboxP with
    | [] => (w, {})
    | m :: rest =>
      let w1 := { w with inboxP := rest }
      match m with
      | .requestNext s t =>
        let reuse := match w1.userP.answered with | some (t', _, _, _) => t' == t | none => false
        let w2 := if reuse then w1 else
          let k := w1.userP.jobs + 1
          { w1 with userP := { answered := some (t, k, payloadOf k, frameLenOf w1 k), jobs := k } }
        match w2.userP.answered with
        | some (_, i, v, l) => w2.stepP (.produced s t i v l)
        | none => (w2, {})
      | .stored s t i _ => w1.stepP (.storedAck s t i)
      | .deliveryConfirmed _ _ _ => (w1, {})
  | .userPDrop => ({ w with inboxP := w.inboxP.drop 1 }, {})
  | .userC confirm =>
    match w.inboxC with
    | [] => (w, {})
    | d :: rest =>
      let w1 := { w with inboxC := rest }
      if confirm then w1.stepC (.confirmed d.session d.id d.seq) else (w1, {})
  | .userCDrop => ({ w with inboxC := w.inboxC.drop 1 }, {})
  | .time t => ({ w with now := t }, {})

def World.init (window interval : Nat) (deliveryConfirmation : Bool) (maxChunk : Nat) (frameLens : List Nat) : World :=
  let c0 : Consumer := { window := window, interval := interval }
  let (c1, o) := c0.register
  { p := { deliveryConfirmation := deliveryConfirmation, maxChunk := maxChunk }, c := c1, netCP := cpOf o, frameLens := frameLens }

end GoaktVerif.Model.C42c

/-
C12 — passivation (actor/passivation_manager.go, actor/pid.go, passivation/strategy.go).

Executable model of THE CODE AS IT IS, one definition per Go function, statements in the code's
order.  Time is a virtual clock in milliseconds (`State.now`); every `time.Now()` of the code
reads it.  Entry objects (`*passivationEntry`) are identified by their allocation number
(`gen`): the manager's map, heap and channel hold pointers, and the code compares pointers
(`current != entry`), so identity matters.  `entry.index` is kept explicitly (`State.idx`),
exactly as `passivationHeap.Swap/Push/Pop` maintain it — with two copies of one entry in the
heap (reachable, see Props) it is NOT a function of the queue.

The heap is Go's container/heap on the `queue` array (`up`, `down`, `Push`, `Pop`, `Remove`,
`Fix` transcribed), so the model's head is the implementation's head also under ties.

The unlock window of `trigger` / `processMessageEntry` (the manager calls
`target.passivationTry` with its mutex released) is modelled by `pre`/`post` op lists that run
before / after the first passivation attempt of a `tick` / `drain`: any op of another goroutine
that completes inside the window.
-/
namespace GoaktVerif.Model.C12

/-- `passivationTouchInterval` in the model's unit (ms); tied to the Go constant in Props
    (`Gen.C12.passivationTouchInterval = touchIv * 1000000`). -/
def touchIv : Nat := 100

/-- number of passivation attempts after which a `tick` is reported as spinning (`trigger`'s
    `for {}` has no bound in the code; the harness uses the same cut-off) -/
def maxTries : Nat := 3

inductive Strat where
  | time (T : Nat)
  | count (n : Int)
  | longLived
  deriving Repr, DecidableEq, Inhabited

def Strat.isTime : Strat → Bool
  | .time _ => true
  | _ => false

def Strat.isCount : Strat → Bool
  | .count _ => true
  | _ => false

/-- the passivation-relevant part of a `*PID` (plus the test actor's PostStop counter) -/
structure Actor where
  strat : Strat := .longLived
  failStop : Bool := false        -- the actor's PostStop returns an error
  latest : Option Nat := none     -- latestReceiveTimeNano (none = 0)
  lastTouch : Option Nat := none  -- lastPassivationTouch (none = 0)
  processed : Int := 0            -- processedCount
  running : Bool := true          -- runningState
  stopping : Bool := false        -- stoppingState
  suspended : Bool := false       -- suspendedState
  pausedF : Bool := false         -- passivationPausedState
  skipNext : Bool := false        -- passivationSkipNextState
  postStops : Nat := 0            -- how often Actor.PostStop ran
  deriving Repr, DecidableEq, Inhabited

/-- `passivationEntry` without `index` (kept in `State.idx`) -/
structure Entry where
  actor : Nat := 0                -- target / id
  strat : Strat := .longLived     -- strategy
  timeout : Nat := 0
  maxMessages : Int := 0
  deadline : Option Nat := none   -- none = zero time.Time
  baseline : Int := 0
  paused : Bool := false
  pending : Bool := false
  enqueued : Bool := false
  deriving Repr, DecidableEq, Inhabited

inductive Halt where
  | panic   -- the code panicked (index out of range inside container/heap)
  | hang    -- `trigger` span more than `maxTries` attempts
  deriving Repr, DecidableEq

/-- who called `tryPassivation` -/
inductive Src where
  | direct   -- a direct call (the raw `try` op)
  | timer    -- `trigger` (time-based path)
  | count    -- `processMessageEntry` (message-count path)
  deriving Repr, DecidableEq

/-- what the theorems talk about -/
inductive Ev where
  /-- `trigger` popped entry `g` of actor `a` at clock `now` (the decision instant): its
      deadline, timeout, the actor's latest activity, entry.paused, actor running, whether `g` is the
      actor's current entry, whether its strategy is time-based -/
  | decide (a g now deadline T : Nat) (latest : Option Nat) (epaused arunning current timeBased : Bool)
  /-- `tryPassivation` ran on actor `a` with these flags BEFORE the call and this result -/
  | tried (a : Nat) (src : Src) (ok : Bool)
      (longLived sysStopping skipNext stopping suspended pausedF running : Bool)
      (now : Nat) (latest : Option Nat) (processed : Int)
  /-- `MessageProcessed` found `processed ≥ baseline + maxMessages` for entry `g` -/
  | crossed (a g : Nat) (processed baseline maxMessages : Int)
  /-- `processMessageEntry` is about to passivate entry `g` -/
  | countFire (a g : Nat)
  /-- the actor's PostStop hook ran (doStop) -/
  | postStop (a : Nat) (wasRunning : Bool)
  deriving Repr, DecidableEq

def upd {α : Type} (f : Nat → α) (k : Nat) (v : α) : Nat → α := fun x => if x = k then v else f x

structure State where
  now : Nat := 0
  nA : Nat := 0
  actors : Nat → Actor := fun _ => {}
  nE : Nat := 0
  objs : Nat → Entry := fun _ => {}
  idx : Nat → Int := fun _ => -1
  entries : Nat → Option Nat := fun _ => none    -- m.entries: actor ↦ entry object
  queue : List Nat := []                          -- m.queue (heap array of entry objects)
  chan : List Nat := []                           -- m.messageTriggers
  sysStopping : Bool := false
  halt : Option Halt := none
  log : List Ev := []                             -- newest first

namespace State

def setA (s : State) (a : Nat) (f : Actor → Actor) : State := { s with actors := upd s.actors a (f (s.actors a)) }
def setE (s : State) (g : Nat) (f : Entry → Entry) : State := { s with objs := upd s.objs g (f (s.objs g)) }
def setIdx (s : State) (g : Nat) (v : Int) : State := { s with idx := upd s.idx g v }
def emit (s : State) (e : Ev) : State := { s with log := e :: s.log }

/-! ### container/heap on `queue` -/

def dl (s : State) (g : Nat) : Int :=
  match (s.objs g).deadline with
  | none => -1
  | some d => d

/-- `h.Less(i, j)`: `h[i].deadline.Before(h[j].deadline)` -/
def less (s : State) (i j : Nat) : Bool :=
  match s.queue[i]?, s.queue[j]? with
  | some gi, some gj => s.dl gi < s.dl gj
  | _, _ => false

/-- `h.Swap(i, j)` -/
def swap (s : State) (i j : Nat) : State :=
  match s.queue[i]?, s.queue[j]? with
  | some gi, some gj =>
    let s := { s with queue := (s.queue.set i gj).set j gi }
    (s.setIdx gj i).setIdx gi j
  | _, _ => s

def up : Nat → State → Nat → State
  | 0, s, _ => s
  | f + 1, s, j =>
    let i := (j - 1) / 2
    if i == j || !s.less j i then s else up f (s.swap i j) i

/-- returns the final position too (`down` reports `i > i0`) -/
def down : Nat → State → Nat → Nat → State × Nat
  | 0, s, i, _ => (s, i)
  | f + 1, s, i, n =>
    let j1 := 2 * i + 1
    if j1 ≥ n then (s, i) else
    let j := if j1 + 1 < n && s.less (j1 + 1) j1 then j1 + 1 else j1
    if !s.less j i then (s, i) else down f (s.swap i j) j n

/-- `passivationHeap.Pop` (remove the last array slot) -/
def popLast (s : State) : State :=
  match s.queue.getLast? with
  | none => s
  | some g => ({ s with queue := s.queue.dropLast }).setIdx g (-1)

/-- `heap.Push` -/
def hpush (s : State) (g : Nat) : State :=
  let n := s.queue.length
  let s := ({ s with queue := s.queue ++ [g] }).setIdx g n
  up (n + 1) s n

/-- `heap.Pop` (caller guarantees a non-empty queue) -/
def hpop (s : State) : State :=
  let n := s.queue.length - 1
  let s := s.swap 0 n
  let (s, _) := down (n + 1) s 0 n
  s.popLast

/-- `heap.Remove(i)`; an index outside the array panics in Go -/
def hremove (s : State) (i : Int) : State :=
  if i < 0 || i ≥ s.queue.length then { s with halt := some .panic } else
  let i := i.toNat
  let n := s.queue.length - 1
  let s :=
    if n ≠ i then
      let s := s.swap i n
      let (s, i') := down (n + 1) s i n
      if i' > i then s else up (n + 1) s i
    else s
  s.popLast

/-- `heap.Fix(i)` -/
def hfix (s : State) (i : Int) : State :=
  if i < 0 || i ≥ s.queue.length then { s with halt := some .panic } else
  let i := i.toNat
  let n := s.queue.length
  let (s, i') := down (n + 1) s i n
  if i' > i then s else up (n + 1) s i

/-! ### passivationManager -/

/-- `entry.refreshDeadline()` -/
def refresh (s : State) (g : Nat) : State :=
  let e := s.objs g
  let last := ((s.actors e.actor).latest).getD s.now
  s.setE g fun e => { e with deadline := some (last + e.timeout) }

/-- `if entry.index >= 0 { heap.Remove(&m.queue, entry.index); entry.index = -1 }` -/
def dropFromHeap (s : State) (g : Nat) : State :=
  if s.idx g ≥ 0 then (s.hremove (s.idx g)).setIdx g (-1) else s

def signal (s : State) (g : Nat) : State := { s with chan := s.chan ++ [g] }

/-- `Register(participant, strategy)` (the manager is started, id and strategy non-nil) -/
def allocEntry (s : State) (a : Nat) : State :=
  { s with nE := s.nE + 1, objs := upd s.objs s.nE { actor := a }, idx := upd s.idx s.nE (-1),
           entries := upd s.entries a (some s.nE) }

/-- the entry `Register` works on: the existing one (taken off the heap) or a new object -/
def regTarget (s : State) (a : Nat) : State × Nat :=
  match s.entries a with
  | none => (s.allocEntry a, s.nE)
  | some g => (s.dropFromHeap g, g)

def delEntry (s : State) (a : Nat) : State := { s with entries := upd s.entries a none }

def regFinish (s : State) (a g : Nat) (st : Strat) : State :=
  let s := s.setE g fun e => { e with strat := st, paused := false, pending := false, enqueued := false }
  match st with
  | .time T => ((s.setE g fun e => { e with timeout := T }).refresh g).hpush g
  | .count n => s.setE g fun e => { e with maxMessages := n, baseline := (s.actors a).processed + 1 }
  | .longLived => s.delEntry a

def register (s : State) (a : Nat) (st : Strat) : State :=
  regFinish (s.regTarget a).1 a (s.regTarget a).2 st

/-- `Unregister` -/
def unregister (s : State) (a : Nat) : State :=
  match s.entries a with
  | none => s
  | some g => (s.dropFromHeap g).delEntry a

/-- `Pause` -/
def mpause (s : State) (a : Nat) : State :=
  match s.entries a with
  | none => s
  | some g =>
    if (s.objs g).paused then s else
    (s.setE g fun e => { e with paused := true }).dropFromHeap g

/-- the state part of `Resume` for a paused entry `g` -/
def resumeEntry (s : State) (g : Nat) : State :=
  let s := s.setE g fun e => { e with paused := false }
  if (s.objs g).strat.isTime then (s.refresh g).hpush g
  else if (s.objs g).pending && !(s.objs g).enqueued then (s.setE g fun e => { e with enqueued := true }).signal g
  else s

/-- `Resume`: the new state -/
def mresumeS (s : State) (a : Nat) : State :=
  match s.entries a with
  | none => s
  | some g => if !(s.objs g).paused then s else s.resumeEntry g

/-- `Resume`: its result (`ok` of the map lookup) -/
def mresumeB (s : State) (a : Nat) : Bool := (s.entries a).isSome

def mresume (s : State) (a : Nat) : State × Bool := (s.mresumeS a, s.mresumeB a)

/-- `Touch` -/
def mtouch (s : State) (a : Nat) : State :=
  match s.entries a with
  | none => s
  | some g =>
    if (s.objs g).paused then s else
    if !(s.objs g).strat.isTime || s.idx g < 0 then s else
    (s.refresh g).hfix (s.idx g)

/-- `MessageProcessed(pid)` -/
def mproc (s : State) (a : Nat) : State :=
  match s.entries a with
  | none => s
  | some g =>
    if !(s.objs g).strat.isCount then s else
    -- `current - entry.baseline < int64(entry.maxMessages)`: both counters are non-negative, the
    -- difference cannot overflow int64 (fix 5123092; the sum `baseline + maxMessages` used to wrap)
    if (s.actors a).processed - (s.objs g).baseline < (s.objs g).maxMessages then s else
    let t := (s.setE g fun e => { e with pending := true }).emit
      (.crossed a g (s.actors a).processed (s.objs g).baseline (s.objs g).maxMessages)
    if (s.objs g).paused || (s.objs g).enqueued then t else
    (t.setE g fun e => { e with enqueued := true }).signal g

/-! ### PID -/

/-- `pid.reset()` + `setState(runningState, false)` (the deferred part of `doStop`) -/
def resetActor (x : Actor) : Actor :=
  { x with latest := none, processed := 0, running := false, stopping := false, suspended := false,
           pausedF := false, skipNext := false }

/-- `doStop`: PostStop runs, then the deferred reset; returns whether it failed -/
def doStopS (s : State) (a : Nat) : State :=
  (s.emit (.postStop a (s.actors a).running)).setA a fun x => resetActor { x with postStops := x.postStops + 1 }

def doStop (s : State) (a : Nat) : State × Bool := (s.doStopS a, (s.actors a).failStop)

/-- the event `tryPassivation` logs: the flags it saw, the clock, the actor's latest activity -/
def triedEv (s : State) (a : Nat) (src : Src) (ok : Bool) : Ev :=
  let x := s.actors a
  .tried a src ok (x.strat == .longLived) s.sysStopping x.skipNext x.stopping x.suspended x.pausedF x.running
    s.now x.latest x.processed

/-- does `tryPassivation` get past its guards (in the code's order; the skip-next flag is
    consumed when it is the blocking one) -/
def tryBlocked (s : State) (a : Nat) : Bool :=
  let x := s.actors a
  x.strat == .longLived || s.sysStopping || x.skipNext || x.stopping || x.suspended || x.pausedF ||
    !x.running   -- under stopLocker: "actor is offline, maybe stopped already" (fix 6f92e10)

/-- `tryPassivation`: the result -/
def tryB (s : State) (a : Nat) : Bool := !s.tryBlocked a && !(s.actors a).failStop

/-- `tryPassivation`: the new state -/
def tryS (s : State) (a : Nat) (src : Src) : State :=
  let x := s.actors a
  if s.tryBlocked a then
    if x.strat != .longLived && !s.sysStopping && x.skipNext then
      (s.setA a fun x => { x with skipNext := false }).emit (s.triedEv a src false)
    else s.emit (s.triedEv a src false)
  else ((s.unregister a).doStopS a).emit (s.triedEv a src (s.tryB a))

def tryPassivation (s : State) (a : Nat) (src : Src) : State × Bool := (s.tryS a src, s.tryB a)

/-- `Shutdown` of a local user actor -/
def shutdown (s : State) (a : Nat) : State :=
  if !(s.actors a).running then s else
  ((s.setA a fun x => { x with stopping := true }).unregister a).doStopS a

/-- `markActivity(now)` -/
def touchDue (s : State) (a : Nat) : Bool :=
  match (s.actors a).lastTouch with
  | none => true
  | some u => u + touchIv ≤ s.now

def markActivity (s : State) (a : Nat) : State :=
  let t := s.setA a fun x => { x with latest := some s.now }
  if s.touchDue a then (t.setA a fun x => { x with lastTouch := some s.now }).mtouch a else t

/-- `recordProcessedMessage` -/
def recordProcessed (s : State) (a : Nat) : State :=
  let t := s.setA a fun x => { x with processed := x.processed + 1 }
  if (s.actors a).strat.isCount then t.mproc a else t

/-- `startPassivation` -/
def startPassivation (s : State) (a : Nat) : State :=
  if (s.actors a).strat == .longLived then s else s.register a (s.actors a).strat

/-- `pausePassivation` -/
def pausePassivation (s : State) (a : Nat) : State :=
  (s.mpause a).setA a fun x => { x with pausedF := true }

/-- `resumePassivation` -/
def resumePassivation (s : State) (a : Nat) : State :=
  if (s.actors a).pausedF then
    let t := s.setA a fun x => { x with pausedF := false }
    if t.mresumeB a then t.mresumeS a else (t.mresumeS a).startPassivation a
  else s.startPassivation a

/-- `suspend` -/
def suspend (s : State) (a : Nat) : State :=
  (s.setA a fun x => { x with suspended := true }).pausePassivation a

/-- `doReinstate` -/
def reinstate (s : State) (a : Nat) : State :=
  if (s.actors a).running && !(s.actors a).stopping && !(s.actors a).suspended then s else
  ((s.setA a fun x => { x with suspended := false, skipNext := true }).markActivity a).resumePassivation a

end State

/-! ### operations -/

/-- ops that may also run inside an unlock window -/
inductive SOp where
  | act (a : Nat) | recd (a : Nat) | pause (a : Nat) | resume (a : Nat) | susp (a : Nat)
  | reinst (a : Nat) | stop (a : Nat)
  -- raw calls (not reachable through the PID API in this form)
  | mreg (a : Nat) | munreg (a : Nat) | mpause (a : Nat) | mresume (a : Nat) | mtouch (a : Nat)
  | mproc (a : Nat) | try_ (a : Nat) | sysstop (b : Bool) | flagstop (a : Nat) (b : Bool)
  -- what the actor runtime does (the PID functions above under the runtime's own guards):
  -- a live actor handles a user message / PausePassivation / ResumePassivation / fails,
  -- `Reinstate` (API guard: only a suspended actor), `Shutdown` is `stop`
  | deliver (a : Nat) | pauseMsg (a : Nat) | resumeMsg (a : Nat) | fail (a : Nat) | reinstateApi (a : Nat)
  deriving Repr, DecidableEq

/-- the runtime-level ops: the ones the theorems about the whole system quantify over -/
def SOp.api : SOp → Bool
  | .deliver _ | .pauseMsg _ | .resumeMsg _ | .fail _ | .reinstateApi _ | .stop _ => true
  | _ => false

/-- the ops of the PID API (what the actor runtime itself does) -/
def SOp.pidLevel : SOp → Bool
  | .act _ | .recd _ | .pause _ | .resume _ | .susp _ | .reinst _ | .stop _ => true
  | _ => false

inductive Op where
  | adv (d : Nat)
  | simple (o : SOp)
  | tick (pre post : List SOp)
  | drain (pre post : List SOp)
  deriving Repr

def Op.api : Op → Bool
  | .adv _ => true
  | .simple o => o.api
  | .tick pre post => pre.all SOp.api && post.all SOp.api
  | .drain pre post => pre.all SOp.api && post.all SOp.api

/-- no other goroutine acts inside the manager's unlock windows -/
def Op.quiet : Op → Bool
  | .tick pre post => pre.isEmpty && post.isEmpty
  | .drain pre post => pre.isEmpty && post.isEmpty
  | _ => true

open State

/-- a simple op; the result is what the harness prints for it (`mresume`, `try`) -/
def sstep (s : State) : SOp → State × Option Bool
  | .act a => (s.markActivity a, none)
  | .recd a => (s.recordProcessed a, none)
  | .pause a => (s.pausePassivation a, none)
  | .resume a => (s.resumePassivation a, none)
  | .susp a => (s.suspend a, none)
  | .reinst a => (s.reinstate a, none)
  | .stop a => (s.shutdown a, none)
  | .mreg a => (s.register a (s.actors a).strat, none)
  | .munreg a => (s.unregister a, none)
  | .mpause a => (s.mpause a, none)
  | .mresume a => (s.mresumeS a, some (s.mresumeB a))
  | .mtouch a => (s.mtouch a, none)
  | .mproc a => (s.mproc a, none)
  | .try_ a => (s.tryS a .direct, some (s.tryB a))
  | .sysstop b => ({ s with sysStopping := b }, none)
  | .flagstop a b => (s.setA a fun x => { x with stopping := b }, none)
  | .deliver a => (if (s.actors a).running then (s.markActivity a).recordProcessed a else s, none)
  | .pauseMsg a => (if (s.actors a).running then s.pausePassivation a else s, none)
  | .resumeMsg a => (if (s.actors a).running then s.resumePassivation a else s, none)
  | .fail a => (if (s.actors a).running then s.suspend a else s, none)
  | .reinstateApi a => (if (s.actors a).suspended then s.reinstate a else s, none)

def srun (s : State) : List SOp → State
  | [] => s
  | o :: os => srun (sstep s o).1 os

/-- `passivate(entry)` with the window ops around the attempt -/
def passivateS (s : State) (g : Nat) (src : Src) (pre post : List SOp) : State :=
  srun ((srun s pre).tryS ((srun s pre).objs g).actor src) post

def passivateB (s : State) (g : Nat) (pre : List SOp) : Bool :=
  (srun s pre).tryB ((srun s pre).objs g).actor

def passivate (s : State) (g : Nat) (src : Src) (pre post : List SOp) : State × Bool :=
  (passivateS s g src pre post, passivateB s g pre)

/-- `nextEntry`: drops paused heads; returns the head if its deadline has passed -/
def nextEntry : Nat → State → State × Option Nat
  | 0, s => (s, none)
  | f + 1, s =>
    match s.queue with
    | [] => (s, none)
    | g :: _ =>
      if (s.objs g).paused then
        if ((s.hremove (s.idx g)).setIdx g (-1)).halt.isSome then ((s.hremove (s.idx g)).setIdx g (-1), none)
        else nextEntry f ((s.hremove (s.idx g)).setIdx g (-1))
      else if s.dl g ≤ s.now then (s, some g) else (s, none)

/-- the event `trigger` logs when it pops entry `g` (the decision instant) -/
def State.decideEv (s : State) (g : Nat) : Ev :=
  let e := s.objs g
  .decide e.actor g s.now (s.dl g).toNat e.timeout (s.actors e.actor).latest e.paused
    (s.actors e.actor).running (s.entries e.actor == some g) e.strat.isTime

/-- `trigger`: pop the head (under the lock) -/
def State.popHead (s : State) (g : Nat) : State := ((s.emit (s.decideEv g)).hpop).setIdx g (-1)

/-- `trigger(expected)`; the fuel is the number of passivation attempts left before the tick is
    reported as spinning (checked where the attempt would start, as the harness does) -/
def trigger : Nat → State → Nat → List SOp → List SOp → State
  | f, s, g, pre, post =>
    match s.queue with
    | [] => s
    | h :: _ =>
      if h ≠ g then s else
      if s.dl g > s.now then s else
      match f with
      | 0 => { s with halt := some .hang }
      | f + 1 =>
        let a := (s.objs g).actor
        let t := passivateS (s.popHead g) g .timer pre post
        if t.entries a ≠ some g then t else
        if passivateB (s.popHead g) g pre then t.delEntry a else
        if (t.objs g).paused then t else
        -- a Resume/Register inside the window has already re-queued the entry: no second push
        if t.idx g < 0 then trigger f ((t.refresh g).hpush g) g [] [] else trigger f t g [] []

/-- `processMessageEntry(entry)` -/
def processMessageEntry (s : State) (g : Nat) (pre post : List SOp) : State :=
  let a := (s.objs g).actor
  if s.entries a ≠ some g then s else
  if (s.objs g).paused then s.setE g fun e => { e with enqueued := false } else
  let t := (passivateS (s.emit (.countFire a g)) g .count pre post).setE g fun e => { e with enqueued := false }
  if t.entries a ≠ some g then t else
  if passivateB (s.emit (.countFire a g)) g pre then (t.delEntry a).setE g fun e => { e with pending := false }
  else if (t.objs g).paused then t
  else if (t.objs g).pending && !(t.objs g).enqueued then (t.setE g fun e => { e with enqueued := true }).signal g
  else t

def tickStep (s : State) (pre post : List SOp) : State :=
  match (nextEntry (s.queue.length + 1) s).2 with
  | none => (nextEntry (s.queue.length + 1) s).1
  | some g => trigger maxTries (nextEntry (s.queue.length + 1) s).1 g pre post

def drainStep (s : State) (pre post : List SOp) : State :=
  match s.chan with
  | [] => s
  | g :: rest => processMessageEntry { s with chan := rest } g pre post

/-- one operation; a halted state (panic / spin) absorbs everything -/
def step (s : State) (op : Op) : State :=
  if s.halt.isSome then s else
  match op with
  | .adv d => { s with now := s.now + d }
  | .simple o => (sstep s o).1
  | .tick pre post => tickStep s pre post
  | .drain pre post => drainStep s pre post

def run (s : State) : List Op → State
  | [] => s
  | o :: os => run (step s o) os

/-- the state after spawning actors with the given strategies (each `newPID` ends with
    `startPassivation`), clock 0 -/
def spawnAll : State → List (Strat × Bool) → State
  | s, [] => s
  | s, (st, fail) :: rest =>
    spawnAll (({ s with nA := s.nA + 1, actors := upd s.actors s.nA { strat := st, failStop := fail } }).startPassivation s.nA) rest

def init (cfg : List (Strat × Bool)) : State := spawnAll {} cfg

end GoaktVerif.Model.C12

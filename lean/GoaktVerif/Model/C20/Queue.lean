/-
C20 — small-step model of `internal/queue/queue.go` (Michael–Scott queue whose nodes are recycled
through a `sync.Pool`) and of the three subscriber methods that use it
(`eventstream/subscriber.go`: `signal`, `Iterator`, `Shutdown`).

One transition per atomic operation, labelled exactly as tools/yieldinject labels the sites of the
Go code (`Kind:field`).  Plain (non-atomic) statements between two sites belong to the step of the
preceding site, exactly as the instrumented code executes them:

* `getItem()` + `newNode.v = v` at the start of `Enqueue` run before the first site `Load:tail`, i.e.
  in the step that finished the thread's previous operation (or at spawn time);
* `value := nextNode.v` and `releaseItem(head)` (`i.v = nil; i.next = nil; pool.Put(i)`) run inside the
  step of the successful `CAS:head`.

`sync.Pool` is nondeterministic (it may return any pooled node, or none).  `getItem` therefore takes
the choice as an argument `pick : Option Nat` (index into the free list; `none` or an index out of
range = a fresh node).  Theorems quantify over every choice; the driver (and the harness, through an
in-package hook on `pool.New`) uses a deterministic policy.

`Mode.pooled` is the code AS IT IS.  `Mode.fresh` is the code after the proposed repair
(fixes/C20-queue-no-node-recycling.diff): `Enqueue` allocates, `Dequeue` does not call `releaseItem`
and clears the value of the new sentinel, and `Length`/`IsEmpty` never report a negative length.
-/
namespace GoaktVerif.Model.C20.Queue

abbrev NodeId := Nat
abbrev Val := Nat

structure Node where
  next : Option NodeId
  val : Option Val
  deriving Repr, DecidableEq

inductive Mode where
  | pooled | fresh
  deriving Repr, DecidableEq

inductive Op where
  | enq (v : Val)   -- Queue.Enqueue(v)
  | deq             -- Queue.Dequeue()
  | len             -- Queue.Length()
  | emp             -- Queue.IsEmpty()
  | sig (v : Val)   -- subscriber.signal(v)
  | iter            -- subscriber.Iterator()
  | shut            -- subscriber.Shutdown()
  deriving Repr, DecidableEq

inductive Res where
  | ok
  | val (r : Option Val)
  | num (n : Int)
  | bool (b : Bool)
  | items (l : List Val) (sawNil : Bool)   -- `sawNil` (ghost): the loop ended because a Dequeue returned nil
  | dropped                                -- (ghost) `signal` found the subscriber inactive; rendered like `ok`
  | panic
  deriving Repr, DecidableEq

/-- who called `Dequeue`: a plain `d` operation, or the loop of `Iterator` with `rem` iterations left
(the current one included) and the values collected so far (reversed) -/
inductive Cont where
  | plain
  | iter (rem : Nat) (acc : List Val)
  deriving Repr, DecidableEq

/-- program counter inside one operation, with the locals that are live at that site -/
inductive PC where
  | enqLoadTail (n : NodeId) (v : Val)             -- `Load:tail`
  | enqLoadNext (n : NodeId) (v : Val) (t : NodeId)      -- `Load:next`   (tail.next)
  | enqHelp (n : NodeId) (v : Val) (t x : NodeId)        -- `CAS:tail`    (help: tail t → x)
  | enqLink (n : NodeId) (v : Val) (t : NodeId)          -- `CAS:next`    (t.next nil → n)
  | enqSwing (n t : NodeId)                              -- `CAS:tail`    (tail t → n)
  | enqAdd                                               -- `Add:len` (+1)
  | deqLoadHead (k : Cont)                               -- `Load:head`
  | deqLoadNext (k : Cont) (h : NodeId)                  -- `Load:next`   (head.next)
  | deqCas (k : Cont) (h x : NodeId)                     -- `CAS:head`    (head h → x)
  | deqAdd (k : Cont) (r : Option Val)                   -- `Add:len` (-1)
  | len                                                  -- `Load:len`
  | emp                                                  -- `Load:len`
  | sigActive (v : Val)                                  -- `Load:active`
  | itLen                                                -- `Load:len`
  | shut                                                 -- `Store:active`
  deriving Repr, DecidableEq

/-- linearization events (ghost): appended by the step that takes effect -/
inductive Ev where
  | enq (v : Val)
  | deq (r : Option Val)
  deriving Repr, DecidableEq

structure Thread where
  pc : Option PC            -- none = finished
  cur : Option Op           -- operation in progress
  prog : List Op            -- operations still to start
  hist : List (Op × Res)    -- completed operations with their results, latest first
  deriving Repr, DecidableEq

structure Cfg where
  mode : Mode
  nodes : List Node         -- the heap: node `i` is `nodes[i]`; allocation appends
  head : NodeId
  tail : NodeId
  len : Int
  pool : List NodeId        -- nodes handed to `pool.Put`, latest first
  active : Bool             -- subscriber.active
  threads : List Thread
  lin : List (Nat × Ev)     -- ghost: linearization log (thread id, event), latest first
  deriving Repr, DecidableEq

def nextOf (c : Cfg) (i : NodeId) : Option NodeId :=
  match c.nodes[i]? with
  | some nd => nd.next
  | none => none

def valOf (c : Cfg) (i : NodeId) : Option Val :=
  match c.nodes[i]? with
  | some nd => nd.val
  | none => none

def setNext (c : Cfg) (i : NodeId) (x : Option NodeId) : Cfg :=
  { c with nodes := c.nodes.modify i (fun nd => { nd with next := x }) }

def setVal (c : Cfg) (i : NodeId) (x : Option Val) : Cfg :=
  { c with nodes := c.nodes.modify i (fun nd => { nd with val := x }) }

/-- what `Length()` reads: the counter as it is (it can be transiently negative: a dequeuer may decrement
before the enqueuer of the same item has incremented); the repaired code reports 0 then -/
def lenRead (c : Cfg) : Int :=
  match c.mode with
  | .pooled => c.len
  | .fresh => if c.len < 0 then 0 else c.len

/-- `q.getItem()` followed by `newNode.v = v` -/
def getItem (c : Cfg) (pick : Option Nat) (v : Val) : NodeId × Cfg :=
  let fresh : NodeId × Cfg := (c.nodes.length, { c with nodes := c.nodes ++ [{ next := none, val := some v }] })
  match c.mode, pick with
  | .pooled, some i =>
    match c.pool[i]? with
    | some n => (n, setVal { c with pool := c.pool.eraseIdx i } n (some v))
    | none => fresh
  | _, _ => fresh

/-- take the next operation of the program and run it up to its first site -/
def startNext (c : Cfg) (t : Thread) (pick : Option Nat) : Cfg × Thread :=
  match t.prog with
  | [] => (c, { t with pc := none, cur := none })
  | op :: rest =>
    let t := { t with cur := some op, prog := rest }
    match op with
    | .enq v =>
      let (n, c') := getItem c pick v
      (c', { t with pc := some (.enqLoadTail n v) })
    | .deq => (c, { t with pc := some (.deqLoadHead .plain) })
    | .len => (c, { t with pc := some .len })
    | .emp => (c, { t with pc := some .emp })
    | .sig v => (c, { t with pc := some (.sigActive v) })
    | .iter => (c, { t with pc := some .itLen })
    | .shut => (c, { t with pc := some .shut })

def finishOp (c : Cfg) (t : Thread) (r : Res) (pick : Option Nat) : Cfg × Thread :=
  match t.cur with
  | some op => startNext c { t with hist := (op, r) :: t.hist } pick
  | none => startNext c t pick

/-- `Dequeue` returns `r` to its caller -/
def ret (c : Cfg) (t : Thread) (k : Cont) (r : Option Val) (pick : Option Nat) : Cfg × Thread :=
  match k with
  | .plain => finishOp c t (.val r) pick
  | .iter rem acc =>
    match r with
    | none => finishOp c t (.items acc.reverse true) pick
    | some v =>
      if rem ≤ 1 then finishOp c t (.items (v :: acc).reverse false) pick
      else (c, { t with pc := some (.deqLoadHead (.iter (rem - 1) (v :: acc))) })

def logEv (c : Cfg) (tid : Nat) (e : Ev) : Cfg := { c with lin := (tid, e) :: c.lin }

/-- effect of the atomic operation thread `tid` is parked at (and of the plain code up to its next site) -/
def exec (c : Cfg) (tid : Nat) (t : Thread) (pick : Option Nat) : PC → Cfg × Thread
  | .enqLoadTail n v => (c, { t with pc := some (.enqLoadNext n v c.tail) })
  | .enqLoadNext n v tl =>
    match nextOf c tl with
    | some x => (c, { t with pc := some (.enqHelp n v tl x) })
    | none => (c, { t with pc := some (.enqLink n v tl) })
  | .enqHelp n v tl x =>
    ((if c.tail = tl then { c with tail := x } else c), { t with pc := some (.enqLoadTail n v) })
  | .enqLink n v tl =>
    match nextOf c tl with
    | none => (logEv (setNext c tl (some n)) tid (.enq v), { t with pc := some (.enqSwing n tl) })
    | some _ => (c, { t with pc := some (.enqLoadTail n v) })
  | .enqSwing n tl =>
    ((if c.tail = tl then { c with tail := n } else c), { t with pc := some .enqAdd })
  | .enqAdd => finishOp { c with len := c.len + 1 } t .ok pick
  | .deqLoadHead k => (c, { t with pc := some (.deqLoadNext k c.head) })
  | .deqLoadNext k h =>
    match nextOf c h with
    | none => ret (logEv c tid (.deq none)) t k none pick
    | some x => (c, { t with pc := some (.deqCas k h x) })
  | .deqCas k h x =>
    if c.head = h then
      let r := valOf c x
      let c1 := { c with head := x }
      let c2 := match c.mode with
        | .pooled => { setNext (setVal c1 h none) h none with pool := h :: c.pool }
        | .fresh => setVal c1 x none
      (logEv c2 tid (.deq r), { t with pc := some (.deqAdd k r) })
    else (c, { t with pc := some (.deqLoadHead k) })
  | .deqAdd k r => ret { c with len := c.len - 1 } t k r pick
  | .len => finishOp c t (.num (lenRead c)) pick
  | .emp => finishOp c t (.bool (lenRead c == 0)) pick
  | .sigActive v =>
    if c.active then
      let (n, c') := getItem c pick v
      (c', { t with pc := some (.enqLoadTail n v) })
    else finishOp c t .dropped pick
  | .itLen =>
    if lenRead c < 0 then finishOp c t .panic pick
    else if lenRead c = 0 then finishOp c t (.items [] false) pick
    else (c, { t with pc := some (.deqLoadHead (.iter (lenRead c).toNat [])) })
  | .shut => finishOp { c with active := false } t .ok pick

/-- one scheduler step: thread `tid` executes the operation it is parked at; `pick` resolves the
`sync.Pool.Get` (if any) performed during the step -/
def stepP (pick : Option Nat) (c : Cfg) (tid : Nat) : Cfg :=
  match c.threads[tid]? with
  | none => c
  | some t =>
    match t.pc with
    | none => c
    | some pc =>
      let (c', t') := exec c tid t pick pc
      { c' with threads := c'.threads.set tid t' }

def label : PC → String
  | .enqLoadTail .. => "Load:tail" | .enqLoadNext .. => "Load:next" | .enqHelp .. => "CAS:tail"
  | .enqLink .. => "CAS:next" | .enqSwing .. => "CAS:tail" | .enqAdd => "Add:len"
  | .deqLoadHead .. => "Load:head" | .deqLoadNext .. => "Load:next" | .deqCas .. => "CAS:head"
  | .deqAdd .. => "Add:len" | .len => "Load:len" | .emp => "Load:len"
  | .sigActive .. => "Load:active" | .itLen => "Load:len" | .shut => "Store:active"

/-- spawn the threads in tid order: each runs to its first site (the pool is empty: fresh nodes) -/
def spawn (c : Cfg) : List (List Op) → Cfg
  | [] => c
  | p :: ps =>
    let (c', t) := startNext c { pc := none, cur := none, prog := p, hist := [] } none
    spawn { c' with threads := c'.threads ++ [t] } ps

def empty (mode : Mode) : Cfg :=
  { mode, nodes := [{ next := none, val := none }], head := 0, tail := 0, len := 0, pool := [],
    active := true, threads := [], lin := [] }

def init (mode : Mode) (progs : List (List Op)) : Cfg := spawn (empty mode) progs

def done (c : Cfg) (tid : Nat) : Bool :=
  match c.threads[tid]? with
  | some t => t.pc.isNone
  | none => true

def allDone (c : Cfg) : Bool := c.threads.all (·.pc.isNone)

/-- a schedule with explicit pool choices -/
def runP (c : Cfg) : List (Nat × Option Nat) → Cfg
  | [] => c
  | (tid, pick) :: s => runP (stepP pick c tid) s

/-! ### sequential reading of the heap (used for the final digest and for the quiescent theorems) -/

/-- values of the nodes after `i`, following `next` (at most `fuel` nodes) -/
def chainVals (c : Cfg) : Nat → NodeId → List (Option Val)
  | 0, _ => []
  | f + 1, i =>
    match nextOf c i with
    | none => []
    | some x => valOf c x :: chainVals c f x

/-- number of `next` hops from `i` to `j` (at most `fuel`) -/
def hops (c : Cfg) (j : NodeId) : Nat → NodeId → Option Nat
  | 0, i => if i = j then some 0 else none
  | f + 1, i =>
    if i = j then some 0
    else match nextOf c i with
      | none => none
      | some x => (hops c j f x).map (· + 1)

/-- `Dequeue` run alone (no interleaving): the loop exits in its first iteration -/
def seqDequeue (c : Cfg) : Option Val × Cfg :=
  match nextOf c c.head with
  | none => (none, c)
  | some x =>
    let r := valOf c x
    let c1 := { c with head := x }
    let c2 := match c.mode with
      | .pooled => { setNext (setVal c1 c.head none) c.head none with pool := c.head :: c.pool }
      | .fresh => setVal c1 x none
    (r, { c2 with len := c2.len - 1 })

/-- repeated sequential `Dequeue` until it returns nil (at most `fuel` times) -/
def seqDrain : Nat → Cfg → List Val × Cfg
  | 0, c => ([], c)
  | f + 1, c =>
    match seqDequeue c with
    | (none, c') => ([], c')
    | (some v, c') => let (l, c'') := seqDrain f c'; (v :: l, c'')

end GoaktVerif.Model.C20.Queue

/-
C20 — sequential model of `eventstream/eventstream.go` (`EventsStream`) and of the bookkeeping half of
`eventstream/subscriber.go`.

* `EventsStream.topics : map[topic]map[subscriberID]Subscriber` is the finite relation `rel` (a list of
  pairs without duplicates; "delete the topic when its inner map becomes empty" is then automatic).
* `EventsStream.subscribers` is `registry`.
* a subscriber is identified by its creation index; its `messages` queue is a `List` — justified by
  `Props.C20`'s sequential theorem for `Model.C20.Queue` (run without interleaving the pooled queue is a
  FIFO), the operations here being executed one at a time.
* `publishToTopic` snapshots the inner map (iteration order is random in Go; every subscriber has its own
  queue, so the order is unobservable) and signals the subscribers that are active.
-/
namespace GoaktVerif.Model.C20.Stream

abbrev Topic := Nat
abbrev SubId := Nat
abbrev Msg := Topic × Nat

structure Sub where
  active : Bool
  topics : List Topic
  queue : List Msg
  deriving Repr, DecidableEq

structure State where
  subs : List Sub
  registry : List SubId
  rel : List (Topic × SubId)
  deriving Repr, DecidableEq

inductive Op where
  | add
  | sub (i : SubId) (t : Topic)
  | unsub (i : SubId) (t : Topic)
  | rm (i : SubId)
  | pub (t : Topic) (k : Nat)
  | bc (k : Nat) (ts : List Topic)
  | it (i : SubId)
  | shut (i : SubId)
  | close
  | count (t : Topic)
  | tops (i : SubId)
  | act (i : SubId)
  deriving Repr, DecidableEq

inductive Out where
  | idx (n : Nat)
  | ok
  | noop
  | nosub
  | msgs (l : List Msg)
  | num (n : Nat)
  | topics (l : List Topic)
  | bool (b : Bool)
  deriving Repr, DecidableEq

def init : State := { subs := [], registry := [], rel := [] }

def insertNew {α} [DecidableEq α] (l : List α) (a : α) : List α := if a ∈ l then l else l ++ [a]

/-- `EventsStream.Unsubscribe(sub i, t)` -/
def unsubscribe (s : State) (i : SubId) (t : Topic) : State :=
  { s with
    subs := s.subs.modify i (fun sb => { sb with topics := sb.topics.filter (· ≠ t) })
    rel := s.rel.filter (· ≠ (t, i)) }

/-- `publishToTopic(t, k)` -/
def publish (s : State) (t : Topic) (k : Nat) : State :=
  { s with subs := s.subs.mapIdx fun i sb =>
      if sb.active && decide ((t, i) ∈ s.rel) then { sb with queue := sb.queue ++ [(t, k)] } else sb }

def insertSorted (t : Topic) : List Topic → List Topic
  | [] => [t]
  | x :: xs => if t ≤ x then t :: x :: xs else x :: insertSorted t xs

def sortTopics (l : List Topic) : List Topic := l.foldr insertSorted []

def step (s : State) : Op → State × Out
  | .add =>
    ({ s with subs := s.subs ++ [{ active := true, topics := [], queue := [] }], registry := s.registry ++ [s.subs.length] },
     .idx s.subs.length)
  | .sub i t =>
    match s.subs[i]? with
    | none => (s, .nosub)
    | some sb =>
      if sb.active then
        ({ s with subs := s.subs.modify i (fun sb => { sb with topics := insertNew sb.topics t }),
                  rel := insertNew s.rel (t, i) }, .ok)
      else (s, .noop)
  | .unsub i t =>
    match s.subs[i]? with
    | none => (s, .nosub)
    | some _ => (unsubscribe s i t, .ok)
  | .rm i =>
    match s.subs[i]? with
    | none => (s, .nosub)
    | some sb =>
      let s1 := sb.topics.foldl (fun s t => unsubscribe s i t) s
      ({ s1 with registry := s1.registry.filter (· ≠ i),
                 subs := s1.subs.modify i (fun sb => { sb with active := false }) }, .ok)
  | .pub t k => (publish s t k, .ok)
  | .bc k ts => (ts.foldl (fun s t => publish s t k) s, .ok)
  | .it i =>
    match s.subs[i]? with
    | none => (s, .nosub)
    | some sb => ({ s with subs := s.subs.modify i (fun sb => { sb with queue := [] }) }, .msgs sb.queue)
  | .shut i =>
    match s.subs[i]? with
    | none => (s, .nosub)
    | some _ => ({ s with subs := s.subs.modify i (fun sb => { sb with active := false }) }, .ok)
  | .close =>
    ({ subs := s.subs.mapIdx (fun i sb => if decide (i ∈ s.registry) then { sb with active := false } else sb),
       registry := [], rel := [] }, .ok)
  | .count t => (s, .num (s.rel.filter (·.1 = t)).length)
  | .tops i =>
    match s.subs[i]? with
    | none => (s, .nosub)
    | some sb => (s, .topics (sortTopics sb.topics))
  | .act i =>
    match s.subs[i]? with
    | none => (s, .nosub)
    | some sb => (s, .bool sb.active)

def run : State → List Op → List Out
  | _, [] => []
  | s, op :: ops => let (s', o) := step s op; o :: run s' ops

/-! ### line protocol -/

def parseNat (s : String) : Option Nat := s.toNat?

def parseOp (w : String) : Option Op :=
  match w.splitOn ":" with
  | ["add"] => some .add
  | ["close"] => some .close
  | ["sub", i, t] => do some (.sub (← parseNat i) (← parseNat t))
  | ["unsub", i, t] => do some (.unsub (← parseNat i) (← parseNat t))
  | ["rm", i] => do some (.rm (← parseNat i))
  | ["pub", t, k] => do some (.pub (← parseNat t) (← parseNat k))
  | ["bc", k, ts] => do
    let ts ← if ts = "-" then some [] else (ts.splitOn ",").mapM parseNat
    some (.bc (← parseNat k) ts)
  | ["it", i] => do some (.it (← parseNat i))
  | ["shut", i] => do some (.shut (← parseNat i))
  | ["count", t] => do some (.count (← parseNat t))
  | ["tops", i] => do some (.tops (← parseNat i))
  | ["act", i] => do some (.act (← parseNat i))
  | _ => none

def showOut : Out → String
  | .idx n => s!"#{n}"
  | .ok => "ok"
  | .noop => "noop"
  | .nosub => "nosub"
  | .msgs l => if l.isEmpty then "-" else ".".intercalate (l.map fun (t, k) => s!"{t}/{k}")
  | .num n => toString n
  | .topics l => if l.isEmpty then "-" else ",".intercalate (l.map toString)
  | .bool b => toString b

def runLine (ws : List String) : String :=
  match ws.mapM parseOp with
  | some ops => " ".intercalate ((run init ops).map showOut)
  | none => "bad-case"

end GoaktVerif.Model.C20.Stream

/-
C07 — model of goakt's supervision path AS THE CODE IS (core Lean only).

Anchors: supervisor/supervisor.go (NewSupervisor, With*, Directive), actor/pid.go (notifyParent,
handlePanicking, handleStopDirective, handleRestartDirective, suspendGroup, restartChild,
recordFault, suspend, doReinstate, Shutdown/doStop/reset, restartSubtree, Reinstate),
actor/supervision.go (run: a signal of an actor that is not running is dropped).

A family: parent P with children c0..c(n-1), every child spawned with the same supervisor options;
the grandparent G only records what it receives.  Each function below mirrors the Go function of the
same name at quiescence (the harness lets every failure run to completion before the next op).
-/
namespace GoaktVerif.Model.C07

/-! ### supervisor/supervisor.go -/

inductive Strategy | oneForOne | oneForAll
  deriving DecidableEq, Repr

/-- `supervisor.Directive` is an `int`: 0 Stop, 1 Resume, 2 Restart, 3 Escalate, anything else falls
    into `default:` of `handlePanicking` -/
abbrev Directive := Nat
def dStop : Directive := 0
def dResume : Directive := 1
def dRestart : Directive := 2
def dEscalate : Directive := 3

/-- `errorType(err)`: reflect type name with the pointer stripped -/
abbrev ErrType := String
def tyAny : ErrType := "errors.AnyError"
def tyPanic : ErrType := "errors.PanicError"
def tyPanicNil : ErrType := "runtime.PanicNilError"
def tyA : ErrType := "main.ErrA"
def tyB : ErrType := "main.ErrB"

/-- `SupervisorOption`s; `WithAnyErrorDirective d` is `directive tyAny d` (the Go code stores it
    under `errorType(new(errors.AnyError))`, exactly as `WithDirective(&AnyError{}, d)` does) -/
inductive Opt
  | strategy (s : Strategy)
  | directive (ty : ErrType) (d : Directive)
  | retry (max : Nat) (timeout : Int)
  | backoff (initial max resetAfter : Int)
  deriving Repr

/-- xsync.Map as an association list; `Set` replaces -/
def mapGet (m : List (ErrType × Directive)) (k : ErrType) : Option Directive :=
  match m with
  | [] => none
  | (k', v) :: rest => if k' = k then some v else mapGet rest k

def mapSet (m : List (ErrType × Directive)) (k : ErrType) (v : Directive) : List (ErrType × Directive) :=
  match m with
  | [] => [(k, v)]
  | (k', v') :: rest => if k' = k then (k, v) :: rest else (k', v') :: mapSet rest k v

structure Supervisor where
  strategy : Strategy
  maxRetries : Nat
  timeout : Int
  initialDelay : Int
  maxDelay : Int
  backoffResetAfter : Int
  directives : List (ErrType × Directive)
  deriving Repr

def applyOpt (s : Supervisor) : Opt → Supervisor
  | .strategy st => { s with strategy := st }
  | .directive ty d => { s with directives := mapSet s.directives ty d }
  | .retry m t => { s with maxRetries := m, timeout := t }
  | .backoff i m r =>
    if i ≤ 0 then s else
    let m := if m < i then i else m
    let r := if r ≤ 0 then m else r
    { s with initialDelay := i, maxDelay := m, backoffResetAfter := r }

def defaultSupervisor : Supervisor :=
  { strategy := .oneForOne, maxRetries := 0, timeout := -1, initialDelay := 0, maxDelay := 0,
    backoffResetAfter := 0, directives := [(tyPanic, dStop), (tyPanicNil, dRestart)] }

/-- `NewSupervisor(opts...)`: defaults, options in order, then the any-error collapse -/
def newSupervisor (opts : List Opt) : Supervisor :=
  let s := opts.foldl applyOpt defaultSupervisor
  match mapGet s.directives tyAny with
  | some d => { s with directives := [(tyAny, d)] }
  | none => s

/-- the lookup of `notifyParent`: `Directive(err)`, else `Directive(AnyError)`, else none (= suspend) -/
def lookup (s : Supervisor) (ty : ErrType) : Option Directive :=
  match mapGet s.directives ty with
  | some d => some d
  | none => mapGet s.directives tyAny

/-- the reset window of `handleRestartDirective` -/
def window (s : Supervisor) : Int :=
  if s.backoffResetAfter ≤ 0 then s.timeout else s.backoffResetAfter

/-! ### actors -/

structure Child where
  reg : Bool        -- node present in the actors tree
  running : Bool    -- runningState flag
  susp : Bool       -- suspendedState flag
  pre : Nat         -- PreStart calls seen by the actor value
  post : Nat        -- PostStop calls
  handled : Nat     -- the actor's own state: pings handled since the last PreStart
  rc : Nat          -- restartCount
  cf : Nat          -- consecutiveFaults
  last : Int        -- lastFaultAtNano (0 = never)
  hist : List Int   -- ghost: the clock readings of `recordFault`, newest first (never printed)
  failNext : Nat := 0   -- script-controlled: how many of the next PreStart calls return an error
  deriving Repr

def Child.fresh : Child :=
  { reg := true, running := true, susp := false, pre := 1, post := 0, handled := 0, rc := 0, cf := 0, last := 0, hist := [] }

/-- `PID.IsRunning` at quiescence (stopping/passivating flags are clear) -/
def Child.alive (c : Child) : Bool := c.running && !c.susp

inductive EvKind | su | re | st | sa | ri
  deriving DecidableEq, Repr

abbrev Event := EvKind × Nat

structure Family where
  sup : Supervisor
  cs : List Child
  pSig : List Nat     -- senders of the PanicSignals the parent's Receive got
  gSig : List Nat     -- same for the grandparent
  now : Int           -- clock (ns)
  deriving Repr

def clock0 : Int := 1000000000000000000
def tick : Int := 1000000

def Family.init (opts : List Opt) (n : Nat) : Family :=
  { sup := newSupervisor opts, cs := List.replicate n Child.fresh, pSig := [], gSig := [], now := clock0 }

/-- `pid.suspend` -/
def suspend (c : Child) : Child := { c with susp := true }

/-- `pid.doReinstate`; the Bool says whether ActorReinstated was published -/
def doReinstate (c : Child) : Child × Bool :=
  if c.alive then (c, false) else ({ c with susp := false }, true)

/-- `pid.Shutdown` (doStop + reset); the Bool says whether it did anything (ActorStopped published) -/
def shutdown (c : Child) : Child × Bool :=
  if !c.running then (c, false)
  else ({ c with running := false, susp := false, post := c.post + 1, rc := 0 }, true)

/-- `pid.recordFault(window)` -/
def recordFault (w now : Int) (c : Child) : Child :=
  let cf0 := if w > 0 ∧ c.last > 0 ∧ now - c.last > w then 0 else c.cf
  { c with cf := cf0 + 1, last := now, hist := now :: c.hist }

/-- `restartSubtree` of a leaf whose PreStart succeeds: shutdown when running, init, re-attach,
    unsuspend, ActorRestarted.  The restart count is snapshotted before the embedded shutdown (whose
    reset() zeroes it) and stored back + 1 (fix 6e40710) -/
def restartOne (c : Child) : Child × Bool :=
  let (c1, stopped) := if c.alive then shutdown c else (c, false)
  ({ c1 with pre := c1.pre + 1, handled := 0, running := true, reg := true, susp := false, rc := c.rc + 1 }, stopped)

/-! #### a restart whose PreStart fails (scripted by the harness op `F<i><k>`) -/

/-- `pid.init`: PreStart is tried up to DefaultInitMaxRetries = 5 times -/
def initOnce (c : Child) : Child × Bool :=
  if c.failNext ≥ 5 then ({ c with pre := c.pre + 5, failNext := c.failNext - 5 }, false)
  else ({ c with pre := c.pre + c.failNext + 1, failNext := 0 }, true)

/-- one attempt of `restartChild` = `spid.restartUnder(ctx, parent)` (restartSubtree of a leaf): the parent is
    the one restartChild already holds, so the re-attach works even when a failed earlier attempt's shutdown
    made the death watch remove the node (fix 07658af) -/
def restartAttempt (c : Child) : Child × List EvKind × Bool :=
  let (c1, ev1) := if c.alive then ({ (shutdown c).1 with reg := false }, [EvKind.st]) else (c, [])
  let (c2, ok) := initOnce c1
  if ok then
    ({ c2 with handled := 0, running := true, reg := true, susp := false, rc := c.rc + 1 }, ev1 ++ [.sa, .re], true)
  else (c2, ev1, false)

/-- `restartChild`: up to `tries` attempts (the retrier), then a final Shutdown of what is left; after a
    successful (re)try the restart count is the count before the FIRST attempt + 1 -/
def restartLoopFrom (rc0 : Nat) : Nat → Child → Child × List EvKind
  | 0, c =>
    if c.running then ({ (shutdown c).1 with reg := false }, [.st]) else (c, [])
  | tries + 1, c =>
    let (c1, ev, ok) := restartAttempt c
    if ok then ({ c1 with rc := rc0 + 1 }, ev)
    else let (c2, ev2) := restartLoopFrom rc0 tries c1; (c2, ev ++ ev2)

def restartLoop (tries : Nat) (c : Child) : Child × List EvKind := restartLoopFrom c.rc tries c

def restartTries (s : Supervisor) : Nat := if s.maxRetries = 0 ∨ s.timeout ≤ 0 then 1 else s.maxRetries

/-- group of `handleStopDirective` / `handleRestartDirective` for faulty child `i`:
    `i` itself, plus `tree.siblings(cid)` when the strategy is one-for-all -/
def inGroup (f : Family) (all : Bool) (i j : Nat) : Bool :=
  j == i || (all && (f.cs.getD i Child.fresh).reg && (f.cs.getD j Child.fresh).reg)

def evIf (b : Bool) (k : EvKind) (j : Nat) : List Event := if b then [(k, j)] else []

/-- apply `g` to every member of the group (children only) -/
def mapGroup (f : Family) (all : Bool) (i : Nat) (g : Nat → Child → Child) : List Child :=
  f.cs.mapIdx (fun j c => if inGroup f all i j then g j c else c)

/-- the events published while doing so -/
def groupEvents (f : Family) (all : Bool) (i : Nat) (e : Nat → Child → List Event) : List Event :=
  (f.cs.mapIdx (fun j c => if inGroup f all i j then e j c else [])).flatten

/-- Shutdown + tree.deleteNode of one member -/
def stopOne (c : Child) : Child := { (shutdown c).1 with reg := false }

/-- `handleStopDirective`: Shutdown + tree.deleteNode for every member -/
def handleStopDirective (f : Family) (i : Nat) (all : Bool) : Family × List Event :=
  ({ f with cs := mapGroup f all i (fun _ c => stopOne c) },
   groupEvents f all i (fun j c => evIf (shutdown c).2 .st j))

/-- the budget test of `handleRestartDirective` -/
def budgetExhausted (s : Supervisor) (faults : Nat) : Bool :=
  decide (s.maxRetries > 0 ∧ window s > 0 ∧ faults > s.maxRetries)

/-- `suspendGroup`: the faulty child is already suspended; running siblings are suspended too -/
def suspendSibling (i j : Nat) (c : Child) : Child := if j != i && c.alive then suspend c else c

/-- `handleRestartDirective` (+ `suspendGroup`, `restartChild`) -/
def handleRestartDirective (f : Family) (i : Nat) (all : Bool) : Family × List Event :=
  let w := window f.sup
  let f1 := { f with cs := mapGroup f all i (fun _ c => recordFault w f.now c) }
  let faults := (f1.cs.getD i Child.fresh).cf
  if budgetExhausted f.sup faults then
    ({ f1 with cs := mapGroup f1 all i (suspendSibling i) },
     groupEvents f1 all i (fun j c => evIf (j != i && c.alive) .su j))
  else if f.cs.all (fun c => c.failNext == 0) then
    ({ f1 with cs := mapGroup f1 all i (fun _ c => (restartOne c).1) },
     groupEvents f1 all i (fun j c => evIf (restartOne c).2 .st j ++ [(.sa, j), (.re, j)]))
  else
    -- some PreStart is scripted to fail: the attempts are played one by one
    ({ f1 with cs := mapGroup f1 all i (fun _ c => (restartLoop (restartTries f.sup) c).1) },
     groupEvents f1 all i (fun j c => (restartLoop (restartTries f.sup) c).2.map (fun k => (k, j))))

def setChild (f : Family) (i : Nat) (c : Child) : Family := { f with cs := f.cs.set i c }

/-- `handlePanicking` run by the parent for child `i` (already suspended by notifyParent) -/
def handlePanicking (f : Family) (i : Nat) (d : Directive) : Family × List Event :=
  let all := f.sup.strategy == .oneForAll
  let c := f.cs.getD i Child.fresh
  if d = dStop then handleStopDirective f i all
  else if d = dRestart then handleRestartDirective f i all
  else if d = dResume then
    let (c1, ev) := doReinstate c
    (setChild f i c1, evIf ev .ri i)
  else if d = dEscalate then
    -- `cid.Tell(ctx, pid, PanicSignal)`: the receiver is `pid`, the PARENT that runs handlePanicking
    ({ f with pSig := f.pSig ++ [i] }, [])
  else (setChild f i (suspend c), [(.su, i)])

/-- `notifyParent` for a child that is running; `ty = none` encodes `errors.Is(err, ErrDead)` -/
def notifyParent (f : Family) (i : Nat) (ty : Option ErrType) : Family × List Event :=
  match ty with
  | none => (f, [])
  | some ty =>
    let c := f.cs.getD i Child.fresh
    match lookup f.sup ty with
    | none => (setChild f i (suspend c), [(.su, i)])
    | some d =>
      if d = dResume then
        -- not suspended, parent not told; (it would be reinstated here if it were suspended)
        if c.susp then let (c1, ev) := doReinstate c; (setChild f i c1, evIf ev .ri i) else (f, [])
      else
        let (f2, ev) := handlePanicking (setChild f i (suspend c)) i d
        (f2, (.su, i) :: ev)

/-! ### ops of the harness -/

inductive Kind | A | B | P | Q | N | D
  deriving DecidableEq, Repr

/-- the error type the supervisor sees: panics are always wrapped into `*errors.PanicError` by `recovery` -/
def Kind.ty : Kind → Option ErrType
  | .A => some tyA | .B => some tyB | .P => some tyPanic | .Q => some tyPanic | .N => some tyPanicNil | .D => none

inductive Op
  | fail (i : Nat) (k : Kind)
  | ping (i : Nat)
  | reinstate (i : Nat)
  | age (i : Nat)
  | failPre (i : Nat) (k : Nat)   -- harness: the next k PreStart calls of child i fail
  | restartPub (i : Nat)          -- the public `PID.Restart(ctx)` called on child i from outside
  deriving Repr

def Op.idx : Op → Nat
  | .fail i _ => i | .ping i => i | .reinstate i => i | .age i => i | .failPre i _ => i | .restartPub i => i

/-- ops the refinement theorems cover (everything but scripted PreStart failures) -/
def Op.plain : Op → Bool
  | .failPre _ _ => false
  | .restartPub _ => false
  | _ => true

inductive Res | ok | dead | err
  deriving DecidableEq, Repr

def step (f : Family) (op : Op) : Family × Res × List Event :=
  let f := { f with now := f.now + tick }
  match op with
  | .fail i k =>
    let c := f.cs.getD i Child.fresh
    -- `Tell` refuses when the target is not running; supervision.run drops signals of non-running actors
    if !c.alive then (f, .dead, [])
    else let (f2, ev) := notifyParent f i k.ty; (f2, .ok, ev)
  | .ping i =>
    let c := f.cs.getD i Child.fresh
    if !c.alive then (f, .dead, []) else (setChild f i { c with handled := c.handled + 1 }, .ok, [])
  | .reinstate i =>
    let c := f.cs.getD i Child.fresh
    -- `PID.Reinstate`: ActorOf must find the child; no-op unless suspended
    if !c.reg then (f, .err, [])
    else if !c.susp || c.alive then (f, .ok, [])
    else let (c1, ev) := doReinstate c; (setChild f i c1, .ok, evIf ev .ri i)
  | .age i =>
    let c := f.cs.getD i Child.fresh
    if c.last = 0 then (f, .ok, [])
    -- ghost: the whole current run of consecutive faults is moved into the distant past
    else (setChild f i { c with last := 1, hist := List.replicate c.cf 1 }, .ok, [])
  | .failPre i k =>
    let c := f.cs.getD i Child.fresh
    (setChild f i { c with failNext := k }, .ok, [])
  | .restartPub i =>
    let c := f.cs.getD i Child.fresh
    -- the harness only calls Restart on a child the system still resolves by name
    if !c.reg then (f, .err, [])
    else if c.failNext = 0 then
      -- Restart -> restartSubtree of a leaf: as for a group member of a Restart directive, but no fault is recorded
      (setChild f i (restartOne c).1, .ok, evIf (restartOne c).2 .st i ++ [(.sa, i), (.re, i)])
    else
      let (c1, ev, ok) := restartAttempt c
      (setChild f i c1, if ok then .ok else .err, ev.map (fun k => (k, i)))

/-- run a whole op script; returns every intermediate (family, result, events), oldest first -/
def run (f : Family) : List Op → List (Family × Res × List Event)
  | [] => []
  | op :: ops => let r := step f op; r :: run r.1 ops

/-! ### observations (what the harness prints) -/

structure CObs where
  reg : Bool
  alive : Bool
  susp : Bool
  pre : Nat
  post : Nat
  handled : Nat
  rc : Nat
  cf : Nat
  lk : Nat      -- 0 never faulted, 1 aged, 2 real clock reading
  deriving DecidableEq, Repr

structure Obs where
  cs : List CObs
  pSig : List Nat
  gSig : List Nat
  deriving DecidableEq, Repr

def Child.obs (c : Child) : CObs :=
  { reg := c.reg, alive := c.alive, susp := c.susp, pre := c.pre, post := c.post, handled := c.handled,
    rc := c.rc, cf := c.cf, lk := if c.last = 0 then 0 else if c.last = 1 then 1 else 2 }

def Family.obs (f : Family) : Obs := { cs := f.cs.map Child.obs, pSig := f.pSig, gSig := f.gSig }

end GoaktVerif.Model.C07

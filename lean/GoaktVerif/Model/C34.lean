/-
C34 — membership-event bookkeeping of internal/cluster/cluster.go
(trackNodeJoinEvent, trackNodeLeftEvent, emitOverdueNodeLeft, processRebalanceStart,
 processRebalanceComplete, assign*EpochLocked, emitPending*ForEpochLocked, emitNode*Locked).

Executable model of THE CODE AS IT IS.  Nodes and epochs are `Nat` (node 0 = the local node).

Shape of the model.  The Go state is six maps/sets keyed by node, two maps keyed by epoch and two
scalars.  Every loop of the Go code over a node-keyed map treats each key independently of the
other keys (it reads, rewrites or deletes only the entry of the key it is visiting), so Go's
unspecified map iteration order is unobservable and the state factors into
  * `Glob`  — rebalanceJoinLatestEpoch, rebalanceLeftLatestEpoch, rebalanceStartSeen,
              rebalanceCompleteSeen (their updates depend on the notification only), and
  * `Loc`   — for each node its entries in nodeJoinTimestamps, nodeLeftTimestamps,
              rebalanceJoinNodeEpochs, rebalanceLeftNodeEpochs and the two filters.
A handler call updates every node's `Loc` by `stepL`; the only coupling between nodes is
whether the notification's target node was newly tracked (`fire`), because only then
trackNode{Join,Left}Event goes on to call emitPending…ForEpochLocked, which visits all nodes.

Outside the model: the events channel capacity (256; the harness drains it after every op),
LeaderChanged detection, the 30 s `time.AfterFunc` (the op `overdue n` IS the timer callback),
locking (every handler body runs under eventsLock, so handler calls are atomic steps).
The whole state (not only the emitted events) is compared with the real struct after every
history by the differential run.
-/
namespace GoaktVerif.Model.C34

abbrev Node := Nat
abbrev Epoch := Nat

/-- the local node (x.node.PeersAddress()) -/
def self : Node := 0

inductive Reason where
  | left | join | other
  deriving Repr, DecidableEq

/-- notifications.  `cov` on `left` is a ground-truth annotation for the spec (the first epoch
    that covers this departure); the code never sees it and the model ignores it. -/
inductive Op where
  | join (n : Node)
  | left (n : Node) (cov : Epoch)
  | start (r : Reason) (n : Node) (e : Epoch)
  | complete (e : Epoch)
  | overdue (n : Node)
  deriving Repr, DecidableEq

structure Glob where
  joinLatest : Epoch              -- rebalanceJoinLatestEpoch
  leftLatest : Epoch              -- rebalanceLeftLatestEpoch
  startSeen : Epoch → Bool        -- rebalanceStartSeen
  completeSeen : Epoch → Bool     -- rebalanceCompleteSeen

structure Loc where
  joinTs : Option Nat             -- nodeJoinTimestamps[n]
  leftTs : Option Nat             -- nodeLeftTimestamps[n]
  joinEp : Option Epoch           -- rebalanceJoinNodeEpochs[n]
  leftEp : Option Epoch           -- rebalanceLeftNodeEpochs[n]
  joinF : Bool                    -- n ∈ nodeJoinedEventsFilter
  leftF : Bool                    -- n ∈ nodeLeftEventsFilter
  deriving Repr, DecidableEq

structure St where
  g : Glob
  loc : Node → Loc

def Loc.init : Loc := ⟨none, none, none, none, false, false⟩
def Glob.init : Glob := ⟨0, 0, fun _ => false, fun _ => false⟩
def init : St := ⟨Glob.init, fun _ => Loc.init⟩

def upd (f : Nat → Bool) (k : Nat) : Nat → Bool := fun x => if x = k then true else f x

/-- what one node emits in one handler call: NodeLeft timestamp, NodeJoined timestamp -/
structure Ev where
  left : Option Nat
  join : Option Nat
  deriving Repr, DecidableEq

def Ev.none : Ev := ⟨Option.none, Option.none⟩

/-- emitPendingLeftForEpochLocked(e), the loop body for this node (emitNodeLeftLocked inlined) -/
def Loc.pendLeft (l : Loc) (e : Epoch) : Loc × Option Nat :=
  if l.leftEp = some e then
    if l.leftTs.isSome then
      ({ l with leftEp := none, leftTs := none, joinF := false, leftF := true },
       if l.leftF then none else l.leftTs)
    else ({ l with leftEp := none }, none)
  else (l, none)

/-- emitPendingJoinForEpochLocked(e), the loop body for this node (emitNodeJoinedLocked inlined) -/
def Loc.pendJoin (l : Loc) (e : Epoch) : Loc × Option Nat :=
  if l.joinEp = some e then
    if l.joinTs.isSome then
      ({ l with joinEp := none, joinTs := none, joinF := true },
       if l.joinF then none else l.joinTs)
    else ({ l with joinEp := none }, none)
  else (l, none)

/-- is a join notification for `m` newly tracked? (trackNodeJoinEvent's three early returns) -/
def joinTracked (m : Node) (l : Loc) : Bool := m != self && !l.joinF && !l.joinTs.isSome

/-- is a left notification (for a node other than the local one) newly tracked? -/
def leftTracked (l : Loc) : Bool := !l.leftF && !l.leftTs.isSome

/-- the global part of a handler call -/
def stepG (g : Glob) : Op → Glob
  | .start .join node e =>
    if node = self ∨ g.startSeen e then g
    else { g with startSeen := upd g.startSeen e, joinLatest := e }
  | .start .left _ e =>
    if g.startSeen e then g
    else { g with startSeen := upd g.startSeen e, leftLatest := e }
  | .complete e => { g with completeSeen := upd g.completeSeen e }
  | _ => g

/-- one handler call as seen by node `n` with entries `l`.  `ts` = the notification's timestamp,
    `fire` = the notification's target was newly tracked (computed by `step` from the target). -/
def stepL (g : Glob) (ts : Nat) (op : Op) (fire : Bool) (n : Node) (l : Loc) : Loc × Ev :=
  match op with
  | .join m =>
    -- trackNodeJoinEvent
    if n = m then
      if joinTracked n l then
        let l1 := { l with joinTs := some ts }
        if g.joinLatest ≠ 0 then
          let l2 := { l1 with joinEp := some g.joinLatest }
          if g.completeSeen g.joinLatest then
            ((l2.pendJoin g.joinLatest).1, ⟨none, (l2.pendJoin g.joinLatest).2⟩)
          else (l2, Ev.none)
        else (l1, Ev.none)
      else (l, Ev.none)
    else if fire ∧ g.joinLatest ≠ 0 ∧ g.completeSeen g.joinLatest then
      ((l.pendJoin g.joinLatest).1, ⟨none, (l.pendJoin g.joinLatest).2⟩)
    else (l, Ev.none)
  | .left m _ =>
    -- trackNodeLeftEvent: a notification naming the local node is ignored altogether
    if n = m then
      let l0 := { l with joinF := false }
      if n = self then (l, Ev.none)
      else if leftTracked l0 then
        let l1 := { l0 with leftTs := some ts }
        if g.leftLatest ≠ 0 then
          let l2 := { l1 with leftEp := some g.leftLatest }
          if g.completeSeen g.leftLatest then
            ((l2.pendLeft g.leftLatest).1, ⟨(l2.pendLeft g.leftLatest).2, none⟩)
          else (l2, Ev.none)
        else (l1, Ev.none)
      else (l0, Ev.none)
    else if fire ∧ g.leftLatest ≠ 0 ∧ g.completeSeen g.leftLatest then
      ((l.pendLeft g.leftLatest).1, ⟨(l.pendLeft g.leftLatest).2, none⟩)
    else (l, Ev.none)
  | .overdue m =>
    -- emitOverdueNodeLeft
    if n = m ∧ l.leftTs.isSome then
      ({ l with joinF := false, leftF := true, leftTs := none, leftEp := none },
       ⟨if l.leftF then none else l.leftTs, none⟩)
    else (l, Ev.none)
  | .start .other _ _ => (l, Ev.none)
  | .start .join node e =>
    -- processRebalanceStart, reason node-join
    if node = self ∨ g.startSeen e then (l, Ev.none)
    else
      let l1 := if l.joinTs.isSome then { l with joinEp := some e } else l
      if g.completeSeen e then ((l1.pendJoin e).1, ⟨none, (l1.pendJoin e).2⟩) else (l1, Ev.none)
  | .start .left _ e =>
    -- processRebalanceStart, reason node-left
    if g.startSeen e then (l, Ev.none)
    else
      let l1 := if l.leftTs.isSome then { l with leftEp := some e } else l
      if g.completeSeen e then ((l1.pendLeft e).1, ⟨(l1.pendLeft e).2, none⟩) else (l1, Ev.none)
  | .complete e =>
    -- processRebalanceComplete: pending lefts first, then pending joins
    if g.completeSeen e then (l, Ev.none)
    else
      (((l.pendLeft e).1.pendJoin e).1, ⟨(l.pendLeft e).2, ((l.pendLeft e).1.pendJoin e).2⟩)

/-- was the target of a join/left notification newly tracked? -/
def fireOf (s : St) : Op → Bool
  | .join m => joinTracked m (s.loc m)
  | .left m _ => m != self && leftTracked (s.loc m)
  | _ => false

/-- one handler call on the whole state; the events emitted are a function of the node -/
def step (s : St) (ts : Nat) (op : Op) : St × (Node → Ev) :=
  (⟨stepG s.g op, fun n => (stepL s.g ts op (fireOf s op) n (s.loc n)).1⟩,
   fun n => (stepL s.g ts op (fireOf s op) n (s.loc n)).2)

/-- run a history; the op at (absolute, 0-based) position `k` carries timestamp `k+1` -/
def runFrom : Nat → St → List Op → List (Node → Ev) × St
  | _, s, [] => ([], s)
  | k, s, op :: ops =>
    ((step s (k + 1) op).2 :: (runFrom (k + 1) (step s (k + 1) op).1 ops).1,
     (runFrom (k + 1) (step s (k + 1) op).1 ops).2)

def run (h : List Op) : List (Node → Ev) × St := runFrom 0 init h

/-- state reached after a history -/
def after (h : List Op) : St := (run h).2

end GoaktVerif.Model.C34

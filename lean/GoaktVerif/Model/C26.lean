/-
C26 — model of internal/address/address.go (as of the fixed tree: 59b56d7 last-colon split in Parse,
2166441 Validate rejects hosts containing '/' or '@').

Strings are `List Char` (`Str`).  Go strings are byte strings; every delimiter the code looks
for is ASCII and UTF-8 is self-synchronising, so cutting a valid UTF-8 string at an ASCII
delimiter is the same on bytes and on code points.  `len(name) <= 255` is a BYTE length:
`byteLen`.

Modelled functions (same order of tests as the Go code):
  buildString / String, HostPort, FormatHostPort, HostPortOf, Parse (with strconvx.ParseInt32
  = strconv.ParseInt(s,10,64) + the int32 range test), Validate (pattern validator on system and
  TrimSpace(name), empty-string validators, the 255-byte limit, the TCP validator
  net.SplitHostPort(TrimSpace(net.JoinHostPort(host, Itoa(port)))), the host delimiter assertion
  !strings.ContainsAny(host, "/@"), the parent checks).
An address is a node plus the chain of its ancestors (nearest first): `parent` pointers in Go
form a chain, and String/Parse/Validate only ever walk that chain.

The two slice expressions of Parse (`hostPort[:sep]`, `hostPort[sep+1:]`) are modelled with
explicit indices and an explicit `panic` outcome, so "Parse never panics" is a statement about
the model (Props.C26_total) and not a by-product of totality of Lean functions.
-/
namespace GoaktVerif.Model.C26

abbrev Str := List Char

/-! ### strings package -/

/-- strings.HasPrefix s pat -/
def hasPrefix : Str → Str → Bool
  | _, [] => true
  | [], _ :: _ => false
  | c :: cs, p :: ps => c == p && hasPrefix cs ps

/-- strings.Cut s sep (sep non-empty in every use): `some (before, after)` when found -/
def cut? (sep : Str) : Str → Option (Str × Str)
  | [] => if sep.isEmpty then some ([], []) else none
  | c :: cs =>
    if hasPrefix (c :: cs) sep then some ([], (c :: cs).drop sep.length)
    else match cut? sep cs with
      | some (b, a) => some (c :: b, a)
      | none => none

/-- strings.Contains s sep -/
def contains (s sep : Str) : Bool := (cut? sep s).isSome

/-- strings.LastIndex s ":" for a one-character separator; `none` = -1 -/
def lastIndex (c : Char) : Str → Option Nat
  | [] => none
  | x :: xs =>
    match lastIndex c xs with
    | some i => some (i + 1)
    | none => if x == c then some 0 else none

/-- `s[:i]`; `none` = slice bounds out of range (a Go panic) -/
def sliceTo (s : Str) (i : Nat) : Option Str := if i ≤ s.length then some (s.take i) else none
/-- `s[i:]`; `none` = slice bounds out of range (a Go panic) -/
def sliceFrom (s : Str) (i : Nat) : Option Str := if i ≤ s.length then some (s.drop i) else none

/-- unicode.IsSpace -/
def isSpace (c : Char) : Bool :=
  let n := c.toNat
  n == 0x20 || (0x09 ≤ n && n ≤ 0x0d) || n == 0x85 || n == 0xA0 || n == 0x1680 ||
  (0x2000 ≤ n && n ≤ 0x200a) || n == 0x2028 || n == 0x2029 || n == 0x202f || n == 0x205f || n == 0x3000

def trimLeft (s : Str) : Str := s.dropWhile isSpace
/-- strings.TrimSpace -/
def trimSpace (s : Str) : Str := ((trimLeft s).reverse.dropWhile isSpace).reverse

def byteLen (s : Str) : Nat := (s.map Char.utf8Size).sum

/-! ### strconv -/

def digitChar (d : Nat) : Char := Char.ofNat (48 + d)

/-- decimal digits of a natural number (strconv.AppendInt for n ≥ 0) -/
def natDigits (n : Nat) : Str :=
  if n < 10 then [digitChar n] else natDigits (n / 10) ++ [digitChar (n % 10)]

/-- strconv.AppendInt(_, n, 10) / strconv.Itoa -/
def intDigits (n : Int) : Str :=
  if n < 0 then '-' :: natDigits n.natAbs else natDigits n.natAbs

def isDigit (c : Char) : Bool := 48 ≤ c.toNat && c.toNat ≤ 57
def digitVal (c : Char) : Nat := c.toNat - 48

inductive NumErr | syntax | range
  deriving DecidableEq, Repr

/-- strconv.ParseUint(s, 10, 64) on the digits, left to right: a non-digit is a syntax error, a
    value above 2^64-1 a range error, whichever comes first -/
def parseUint : Nat → Str → Except NumErr Nat
  | acc, [] => .ok acc
  | acc, c :: cs =>
    if !isDigit c then .error .syntax
    else
      let v := acc * 10 + digitVal c
      if v > 2^64 - 1 then .error .range else parseUint v cs

/-- strconvx.ParseInt32: strconv.ParseInt(s, 10, 64) then the int32 range test -/
def parseInt32 (s : Str) : Except NumErr Int :=
  match s with
  | [] => .error .syntax
  | c :: cs =>
    let neg := c == '-'
    let body := if c == '+' || c == '-' then cs else c :: cs
    if body.isEmpty then .error .syntax else
    match parseUint 0 body with
    | .error .syntax => .error .syntax
    | .error .range => .error .range
    | .ok un =>
      if !neg && un ≥ 2^63 then .error .range
      else if neg && un > 2^63 then .error .range
      else
        let v : Int := if neg then - (un : Int) else (un : Int)
        if v < -(2^31) || v > 2^31 - 1 then .error .range else .ok v

/-! ### addresses -/

structure Node where
  name : Str
  system : Str
  host : Str
  port : Int
  deriving DecidableEq, Repr

/-- an address: its own four fields and the chain of ancestors reachable through `parent`
    (nearest first; `[]` = parent is nil).  The incarnation id is not part of the text form
    and is not modelled (New/NewWithParent always mint a valid one). -/
structure Addr where
  self : Node
  ancestors : List Node
  deriving DecidableEq, Repr

/-- `x.Equals(NoSender())` -/
def Node.isZero (n : Node) : Bool := n.name.isEmpty && n.system.isEmpty && n.host.isEmpty && n.port == 0

/-- the parent name String() embeds: `parent != nil && !parent.Equals(NoSender())` -/
def Addr.parentName (a : Addr) : Str :=
  match a.ancestors with
  | [] => []
  | p :: _ => if p.isZero then [] else p.name

def scheme : Str := ['g', 'o', 'a', 'k', 't']
/-- "://" -/
def sepScheme : Str := [':', '/', '/']

/-- Address.buildString (= String()) -/
def build (a : Addr) : Str :=
  let pn := a.parentName
  scheme ++ sepScheme ++ a.self.system ++ ['@'] ++ a.self.host ++ [':'] ++ intDigits a.self.port ++ ['/'] ++
    (if pn.isEmpty then [] else pn ++ ['/']) ++ a.self.name

/-- Address.HostPort -/
def hostPort (n : Node) : Str := n.host ++ [':'] ++ intDigits n.port
/-- address.FormatHostPort -/
def formatHostPort (host : Str) (port : Int) : Str := host ++ [':'] ++ intDigits port

/-- address.HostPortOf: `(hostPort, ok)` -/
def hostPortOf (addr : Str) : Str × Bool :=
  match cut? ['@'] addr with
  | none => ([], false)
  | some (_, rest) =>
    match cut? ['/'] rest with
    | none => ([], false)
    | some (hp, _) => (hp, !hp.isEmpty)

inductive Err | required | format | protocol | portSyntax | portRange
  deriving DecidableEq, Repr

inductive Outcome
  | ok (a : Addr)
  | err (e : Err)
  | panic
  deriving DecidableEq, Repr

/-- result of the host/port split of Parse: `sep := strings.LastIndex(hostPort, ":")`, then the two
    slice expressions `hostPort[:sep]`, `hostPort[sep+1:]` (out of range = Go panic) -/
inductive Split
  | ok (host portStr : Str)
  | noColon
  | panic
  deriving DecidableEq, Repr

def splitHostPort (hp : Str) : Split :=
  match lastIndex ':' hp with
  | none => .noColon
  | some sep =>
    match sliceTo hp sep, sliceFrom hp (sep + 1) with
    | some host, some portStr => .ok host portStr
    | _, _ => .panic

/-- the last block of Parse: split the path into `[parent/]name` and build the address with
    `New` / `NewWithParent(…, New(parentName, system, host, port))` -/
def finish (system host : Str) (port : Int) (path : Str) : Outcome :=
  match cut? ['/'] path with
  | some (parentPart, childPart) =>
    if contains childPart ['/'] then .err .format else
    if parentPart.isEmpty then .ok ⟨⟨childPart, system, host, port⟩, []⟩
    else .ok ⟨⟨childPart, system, host, port⟩, [⟨parentPart, system, host, port⟩]⟩
  | none => .ok ⟨⟨path, system, host, port⟩, []⟩

/-- address.Parse, test by test -/
def parse (addr : Str) : Outcome :=
  if addr.isEmpty then .err .required else
  match cut? sepScheme addr with
  | none => .err .format
  | some (schemePart, rest) =>
    if contains rest sepScheme then .err .format else
    if schemePart ≠ scheme then .err .protocol else
    match cut? ['@'] rest with
    | none => .err .format
    | some (system, rest) =>
      if contains rest ['@'] then .err .format else
      match cut? ['/'] rest with
      | none => .err .format
      | some (hp, path) =>
        if hasPrefix path ['/'] then .err .format else
        match splitHostPort hp with
        | .noColon => .err .format
        | .panic => .panic
        | .ok host portStr =>
          match parseInt32 portStr with
          | .error .syntax => .err .portSyntax
          | .error .range => .err .portRange
          | .ok port => finish system host port path

/-! ### Validate -/

def isAlnum (c : Char) : Bool :=
  let n := c.toNat
  (48 ≤ n && n ≤ 57) || (65 ≤ n && n ≤ 90) || (97 ≤ n && n ≤ 122)

/-- one character of the class `[a-zA-Z0-9-_\.]` -/
def isNameChar (c : Char) : Bool := isAlnum c || c == '-' || c == '_' || c == '.'

/-- the pattern `^[a-zA-Z0-9][a-zA-Z0-9-_\.]*$` -/
def matchesPattern : Str → Bool
  | [] => false
  | c :: cs => isAlnum c && cs.all isNameChar

/-- net.JoinHostPort brackets the host when it contains ':' or '%' -/
def needsBrackets (host : Str) : Bool := host.contains ':' || host.contains '%'

/-- validation.TCPAddressValidator on net.JoinHostPort(host, Itoa(port)):
    net.SplitHostPort(strings.TrimSpace(joined)) succeeds with a non-empty host and
    0 ≤ port ≤ 65535 -/
def tcpOK (host : Str) (port : Int) : Bool :=
  let noBr (s : Str) : Bool := !s.contains '[' && !s.contains ']'
  (0 ≤ port && port ≤ 65535) &&
  (if needsBrackets host then noBr host
   else
     match trimLeft host with
     | [] => false
     | '[' :: t =>
       -- "[x]:port": the first ']' must be the last character, x non-empty without brackets
       (match t.reverse with
        | ']' :: xr => !xr.isEmpty && noBr xr
        | _ => false)
     | h => noBr h)

/-- the checks of Validate on the address itself (everything before the parent block) -/
def selfOK (n : Node) : Bool :=
  tcpOK n.host n.port && (!n.host.contains '/' && !n.host.contains '@') && !n.system.isEmpty && !n.name.isEmpty && decide (byteLen n.name ≤ 255) &&
  matchesPattern n.system && matchesPattern (trimSpace n.name)

def lowerAscii (c : Char) : Char := if 65 ≤ c.toNat && c.toNat ≤ 90 then Char.ofNat (c.toNat + 32) else c
/-- strings.EqualFold restricted to what matters here: both sides match the ASCII pattern
    whenever the result is used -/
def equalFold (a b : Str) : Bool := a.map lowerAscii == b.map lowerAscii

/-- Address.Validate() == nil, for an address whose incarnation ids are valid UUIDs.
    `validateChain self ancestors` -/
def validateChain (self : Node) : List Node → Bool
  | [] => self.isZero || selfOK self
  | p :: rest =>
    if self.isZero then true
    else if p.isZero then selfOK self
    else selfOK self && validateChain p rest && equalFold p.system self.system &&
      p.host == self.host && p.port == self.port && p.name != self.name

def validate (a : Addr) : Bool := validateChain a.self a.ancestors

end GoaktVerif.Model.C26

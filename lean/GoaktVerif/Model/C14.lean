/-
C14 model — behaviour switching, mirroring the CURRENT code (after fix c9f88bb and the fix that
keeps the base behaviour in unsetBehaviorStacked):

  actor/behavior_stack.go   behaviorStack {top, length}: Peek / Pop / Push / Reset / Len
  actor/pid.go              newPID pushes actor.Receive; setBehavior = Reset;Push b
                            resetBehavior = Reset;Push actor.Receive
                            setBehaviorStacked = Push b; unsetBehaviorStacked = `if Len() > 1 { Pop() }`
                            handleReceived: `if behavior := Peek(); behavior != nil { behavior(received) }`
  actor/receive_context.go  Become / BecomeStacked / UnBecomeStacked / UnBecome call the four above

Behaviours are numbers; `dflt` is the actor's own Receive.  The stack is the linked list of
nodes from the top plus the separate `length` counter the code keeps next to it.
Core Lean only.
-/
namespace GoaktVerif.Model.C14

abbrev Beh := Nat

/-- the four calls a handler can make on its ReceiveContext -/
inductive Op where
  | become (b : Beh)
  | becomeStacked (b : Beh)
  | unbecomeStacked
  | unbecome
  deriving Repr, DecidableEq

/-- `behaviorStack`: nodes from the top, and the `length` counter kept beside them -/
structure BStack where
  nodes : List Beh
  length : Nat
  deriving Repr, DecidableEq

namespace BStack
def new : BStack := ⟨[], 0⟩
/-- Peek: nil when top == nil -/
def peek (s : BStack) : Option Beh := s.nodes.head?
/-- Push: CAS the new node in, then length += 1 -/
def push (s : BStack) (b : Beh) : BStack := ⟨b :: s.nodes, s.length + 1⟩
/-- Pop: returns nil and changes nothing when top == nil; else unlinks the top and length -= 1 -/
def pop (s : BStack) : BStack :=
  match s.nodes with
  | [] => s
  | _ :: rest => ⟨rest, s.length - 1⟩
/-- Reset: top = nil, length = 0 -/
def reset (_ : BStack) : BStack := ⟨[], 0⟩
def len (s : BStack) : Nat := s.length
end BStack

/-- the part of PID that behaviour switching touches -/
structure PID where
  dflt : Beh
  stack : BStack
  deriving Repr, DecidableEq

/-- newPID: `behaviorStack := newBehaviorStack(); behaviorStack.Push(pid.actor.Receive)` -/
def PID.init (d : Beh) : PID := ⟨d, BStack.new.push d⟩

def setBehavior (p : PID) (b : Beh) : PID := { p with stack := (p.stack.reset).push b }
def resetBehavior (p : PID) : PID := { p with stack := (p.stack.reset).push p.dflt }
def setBehaviorStacked (p : PID) (b : Beh) : PID := { p with stack := p.stack.push b }
/-- `if pid.behaviorStack.Len() > 1 { pid.behaviorStack.Pop() }` — the guard reads the length COUNTER -/
def unsetBehaviorStacked (p : PID) : PID :=
  if p.stack.len > 1 then { p with stack := p.stack.pop } else p

/-- ReceiveContext.Become / BecomeStacked / UnBecomeStacked / UnBecome -/
def applyOp (p : PID) : Op → PID
  | .become b => setBehavior p b
  | .becomeStacked b => setBehaviorStacked p b
  | .unbecomeStacked => unsetBehaviorStacked p
  | .unbecome => resetBehavior p

/-- what one call of the chosen behaviour does: it runs the message's switch script.  `exec`
    records, for every call it makes, WHICH behaviour is executing — the closure that was
    entered, a value fixed at entry — and the PID state after the call. -/
def exec (b : Beh) : PID → List Op → List (Beh × Op) × PID
  | p, [] => ([], p)
  | p, op :: ops =>
    let r := exec b (applyOp p op) ops
    ((b, op) :: r.1, r.2)

/-- handleReceived: Peek ONCE; nil ⇒ the message is dropped without any handler; otherwise the
    behaviour read is called with the message. Returns (handler used, calls made, new state). -/
def handleReceived (p : PID) (script : List Op) : Option Beh × List (Beh × Op) × PID :=
  match p.stack.peek with
  | none => (none, [], p)
  | some b => let r := exec b p script; (some b, r.1, r.2)

/-- a message stream: every message carries the switch script its handler will execute -/
def run : PID → List (List Op) → List (Option Beh) × PID
  | p, [] => ([], p)
  | p, m :: ms =>
    let h := handleReceived p m
    let r := run h.2.2 ms
    (h.1 :: r.1, r.2)

/-- all handler-side events of a run: for each message the calls made, tagged with the executing behaviour -/
def runEvents : PID → List (List Op) → List (List (Beh × Op))
  | _, [] => []
  | p, m :: ms =>
    let h := handleReceived p m
    h.2.1 :: runEvents h.2.2 ms

end GoaktVerif.Model.C14

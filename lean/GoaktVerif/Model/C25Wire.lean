/-
C25 — a concrete protobuf wire encoder for the messages the delivery envelope and the harness use
(proto3, fields in field-number order, implicit presence: default scalars are not emitted, a present
message-typed field is always emitted).  It instantiates the `EnvCodec` / `ProtoCodec` parameters of
Model/C25.lean; the differential ties it byte-for-byte to google.golang.org/protobuf on the generated values.
-/
import GoaktVerif.Model.C25

namespace GoaktVerif.Model.C25.Wire
open GoaktVerif.Model.C25

/-- base-128 varint, little-endian groups (fuel 10 is enough for 64 bits) -/
def varintF : Nat → Nat → Bytes
  | 0, n => [n % 128]
  | f + 1, n => if n < 128 then [n] else (n % 128 + 128) :: varintF f (n / 128)

def varint (n : Nat) : Bytes := varintF 10 n

def tag (field wt : Nat) : Bytes := varint (field * 8 + wt)

def fBytes (field : Nat) (s : Bytes) : Bytes := if s.isEmpty then [] else tag field 2 ++ varint s.length ++ s
def fInt64 (field : Nat) (i : Int) : Bytes := if i = 0 then [] else tag field 0 ++ varint (toU64 i)
def fBool (field : Nat) (b : Bool) : Bytes := if b then tag field 0 ++ [1] else []
def fMsg (field : Nat) (body : Bytes) : Bytes := tag field 2 ++ varint body.length ++ body

/-- `proto.Marshal(&internalpb.DeliveryEnvelope{…})` -/
def encEnv : Env → Bytes
  | .none => []
  | .registerConsumer nonce => fMsg 1 (fBytes 1 nonce)
  | .registrationAck s n nonce => fMsg 2 (fBytes 1 s ++ fInt64 2 n ++ fBytes 3 nonce)
  | .request s nonce c u v => fMsg 3 (fBytes 1 s ++ fBytes 2 nonce ++ fInt64 3 c ++ fInt64 4 u ++ fBool 5 v)
  | .ack s nonce c => fMsg 4 (fBytes 1 s ++ fBytes 2 nonce ++ fInt64 3 c)
  | .sequenced s id seq payload chunk =>
    fMsg 5 (fBytes 1 s ++ fBytes 2 id ++ fInt64 3 seq ++
      (match payload with | some p => fMsg 4 (fBytes 1 p) | Option.none => []) ++
      (match chunk with | some (f, l) => fMsg 5 (fBool 1 f ++ fBool 2 l) | Option.none => []))

/-- a message with one string field (number 1): `testpb.Reply`, `testpb.TestLog`, `testpb.GetAccount` -/
def encStr1 (content : Bytes) : Bytes := fBytes 1 content

/-- decoder for such a message, on the byte strings the generator produces (repeated field: last wins;
    lengths below 128; anything else is rejected) -/
def decStr1F : Nat → Bytes → Bytes → Option Bytes
  | _, [], acc => some acc
  | 0, _, _ => none
  | f + 1, 10 :: l :: rest, _ =>
    if l < 128 && l ≤ rest.length && (rest.take l).all (· < 128) then decStr1F f (rest.drop l) (rest.take l) else none
  | _, _, _ => none

def decStr1 (p : Bytes) : Option Bytes := decStr1F (p.length + 1) p []

end GoaktVerif.Model.C25.Wire

/-
C39 — delta replication between replicators: the replicator state machine of `Model/C41.lean`
(handleUpdate: apply, Delta(), ResetDelta(), store, publish; handleDelta: store-or-merge) for any
number of replicas, the codec between publisher and receiver (`wire`), and a network in which every
published delta goes to a log and the script delivers any logged delta to any replica, in any
order, any number of times, or never
(actor/replicator.go handleUpdate → publishDelta/encodeDelta → handleProtoDelta/decodeDelta → handleDelta).

Generic in the value type: `FNet V` works for any `Ops V`; `Net` is the instance with the concrete
CRDT state models (`Model.C40.CV` over `Model/Crdt/*`) and the codec model `Model.C40.wire`.
-/
import GoaktVerif.Model.C41
import GoaktVerif.Model.C40

namespace GoaktVerif.Model.C39
open GoaktVerif.Model.Crdt GoaktVerif.Model.C40 GoaktVerif.Model.C41

/-- replicas are indexed by naturals (replica `i` has node id `i`); `log` = everything published -/
structure FNet (V : Type) where
  reps : Nat → Rep V
  log : List (DeltaMsg V)

def FNet.init {V : Type} : FNet V := ⟨fun i => Rep.init i 0, []⟩

inductive Act (V : Type) where
  /-- `crdt.Update` handled by replica `i`: key, data type, Initial, Modify -/
  | upd (i k dt : Nat) (init : V) (f : V → V)
  /-- logged delta `j` reaches replica `i` -/
  | dlv (i j : Nat)
  /-- anti-entropy: replica `i` handles a full-state entry carrying what replica `i'` currently
      stores under key `k` (handleDigest at `i'` → EncodeCRDT → handleFullState at `i`) -/
  | sync (i i' k dt : Nat)

variable {V : Type}

/-- what the topic receives: the delta after encodeDelta (dropped when encoding fails) -/
def onWire (wire : V → Option V) (os : List (Out V)) : List (DeltaMsg V) :=
  os.filterMap fun
    | .pubDelta d => (wire d.data).map fun v => { d with data := v }
    | _ => none

def setRep (reps : Nat → Rep V) (i : Nat) (r : Rep V) : Nat → Rep V := fun j => if j = i then r else reps j

def FNet.step (ops : Ops V) (wire : V → Option V) (w : FNet V) : Act V → FNet V
  | .upd i k dt init f =>
    let res := Model.C41.step ops (w.reps i) (.update k dt init f)
    ⟨setRep w.reps i res.1, w.log ++ onWire wire res.2⟩
  | .dlv i j =>
    match w.log[j]? with
    | some d => ⟨setRep w.reps i (Model.C41.step ops (w.reps i) (.delta d)).1, w.log⟩
    | none => w
  | .sync i i' k dt =>
    match aget (w.reps i').store k with
    | some v =>
      match wire v with
      | some v' => ⟨setRep w.reps i (Model.C41.step ops (w.reps i) (.fullState [(k, dt, v')])).1, w.log⟩
      | none => w
    | none => w

def FNet.run (ops : Ops V) (wire : V → Option V) (w : FNet V) (as : List (Act V)) : FNet V :=
  as.foldl (FNet.step ops wire) w

/-- the value stored under key `k` at replica `i` -/
def FNet.at (w : FNet V) (i k : Nat) : Option V := aget (w.reps i).store k

/-! ### the concrete instance -/

/-- `crdt.ReplicatedData` as the replicator uses it -/
def cvOps : Ops CV := ⟨CV.merge, CV.delta?, CV.resetDelta, CV.compact⟩

abbrev Net := FNet CV

def Net.run (as : List (Act CV)) : Net := FNet.run cvOps (wire idSer) FNet.init as

end GoaktVerif.Model.C39

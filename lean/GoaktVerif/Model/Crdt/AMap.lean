/-
Go maps with comparable keys, as used by the crdt package (`map[string]uint64`, `map[any][]dot`,
`map[any]ReplicatedData`).  Keys are `Nat` (node ids / elements are numbered by the harness through
an order-preserving naming).  Representation: association list kept STRICTLY SORTED by key, so that
two maps with the same lookups are the same list (`Lemmas/Crdt/AMap.lean`, `AMap.ext`).  Go's map
iteration order is unspecified; every loop of the crdt package over a map is modelled as a fold in
key order (the loops are order-insensitive: they compute max / union).
Core Lean only.
-/
namespace GoaktVerif.Model.Crdt

abbrev AMap (V : Type) := List (Nat × V)

namespace AMap
variable {V : Type}

/-- `m[k]` with presence: `v, ok := m[k]` -/
def get? : AMap V → Nat → Option V
  | [], _ => none
  | (k, v) :: m, x => if x = k then some v else get? m x

/-- `m[k]` with Go's zero value for a missing key -/
def getD (m : AMap V) (x : Nat) (d : V) : V := (get? m x).getD d

def contains (m : AMap V) (x : Nat) : Bool := (get? m x).isSome

/-- `m[k] = v` -/
def set : AMap V → Nat → V → AMap V
  | [], x, v => [(x, v)]
  | (k, w) :: m, x, v =>
    if x < k then (x, v) :: (k, w) :: m
    else if x = k then (k, v) :: m
    else (k, w) :: set m x v

/-- `delete(m, k)` -/
def erase : AMap V → Nat → AMap V
  | [], _ => []
  | (k, w) :: m, x => if x = k then m else (k, w) :: erase m x

/-- `if v, ok := ...; ok { m[k] = v }` -/
def setOpt (m : AMap V) (k : Nat) : Option V → AMap V
  | some v => set m k v
  | none => m

def keys (m : AMap V) : List Nat := m.map (·.1)

/-- strictly increasing keys -/
def Sorted (m : AMap V) : Prop := m.Pairwise (fun a b => a.1 < b.1)

def sortedB : AMap V → Bool
  | [] => true
  | [_] => true
  | a :: b :: m => decide (a.1 < b.1) && sortedB (b :: m)

/-- build a map from arbitrary pairs (later pairs overwrite earlier ones) -/
def ofList (l : List (Nat × V)) : AMap V := l.foldl (fun m p => set m p.1 p.2) []

end AMap

/-- clock / counter merge used by MVRegister.Merge and ORSet.Merge:
    `maps.Copy(merged, a); for n, c := range b { if c > merged[n] { merged[n] = c } }` -/
def mergeClock (a b : AMap Nat) : AMap Nat :=
  b.foldl (fun m p => if p.2 > AMap.getD m p.1 0 then AMap.set m p.1 p.2 else m) a

/-- GCounter.Merge's loop:
    `for n, rv := range b { if lv, ok := merged[n]; !ok || rv > lv { merged[n] = rv } }` -/
def mergeMax (a b : AMap Nat) : AMap Nat :=
  b.foldl (fun m p =>
    match AMap.get? m p.1 with
    | none => AMap.set m p.1 p.2
    | some lv => if p.2 > lv then AMap.set m p.1 p.2 else m) a

/-- 2^64: width of Go's uint64 -/
def U64 : Nat := 18446744073709551616

end GoaktVerif.Model.Crdt

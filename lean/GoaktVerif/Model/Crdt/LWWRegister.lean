/-
crdt/lww_register.go — last-writer-wins register.  Fields `value any` (nil for a fresh register:
`Option Nat`), `timestamp int64` (the caller's time.Time in nanoseconds), `nodeID string`, `dirty`.
Node ids are `Nat`: 0 stands for the empty string of a fresh register, k ≥ 1 for the harness's
fixed-width name of node k, so that Go's string comparison `o.nodeID > r.nodeID` is `>` on Nat.
-/
namespace GoaktVerif.Model.Crdt

structure LWWRegister where
  value : Option Nat
  timestamp : Int
  nodeID : Nat
  dirty : Bool
  deriving DecidableEq, Repr, Inhabited

namespace LWWRegister

def new : LWWRegister := ⟨none, 0, 0, false⟩

/-- Set(value, timestamp, nodeID): a write whose stamp loses against the stored one under Merge's
    order (`ts < r.timestamp || (ts == r.timestamp && nodeID < r.nodeID)`) returns a clone of the
    receiver (fix 670e96a); otherwise the new write, marked dirty -/
def set (r : LWWRegister) (v : Nat) (ts : Int) (n : Nat) : LWWRegister :=
  if ts < r.timestamp ∨ (ts = r.timestamp ∧ n < r.nodeID) then r else ⟨some v, ts, n, true⟩

/-- the test of Merge: `o.timestamp > r.timestamp || (o.timestamp == r.timestamp && o.nodeID > r.nodeID)` -/
def otherWins (r o : LWWRegister) : Bool :=
  decide (o.timestamp > r.timestamp) || (decide (o.timestamp = r.timestamp) && decide (o.nodeID > r.nodeID))

/-- Merge: copy of the winner with `dirty` cleared; the receiver wins ties -/
def merge (r o : LWWRegister) : LWWRegister :=
  let w := if otherWins r o then o else r
  ⟨w.value, w.timestamp, w.nodeID, false⟩

def delta? (r : LWWRegister) : Option LWWRegister := if r.dirty then some r else none

def resetDelta (r : LWWRegister) : LWWRegister := { r with dirty := false }

def clone (r : LWWRegister) : LWWRegister := r

def fromState (v : Option Nat) (ts : Int) (n : Nat) : LWWRegister := ⟨v, ts, n, false⟩

/-- the write stamp that Merge orders by -/
def stamp (r : LWWRegister) : Int × Nat := (r.timestamp, r.nodeID)

inductive Reachable : LWWRegister → Prop
  | new : Reachable new
  | set {r} (v : Nat) (ts : Int) (n : Nat) : Reachable r → Reachable (r.set v ts n)
  | merge {r o} : Reachable r → Reachable o → Reachable (r.merge o)
  | delta {r d} : Reachable r → r.delta? = some d → Reachable d
  | resetDelta {r} : Reachable r → Reachable r.resetDelta
  | clone {r} : Reachable r → Reachable r.clone

end LWWRegister
end GoaktVerif.Model.Crdt

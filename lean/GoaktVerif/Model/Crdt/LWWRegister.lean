/-
crdt/lww_register.go — last-writer-wins register.  Fields `value any` (nil for a fresh register:
`Option Nat`), `timestamp int64` (the caller's time.Time in nanoseconds), `nodeID string`, `dirty`.
Node ids are `Nat`: 0 stands for the empty string of a fresh register, k ≥ 1 for the harness's
fixed-width name of node k, so that Go's string comparison `o.nodeID > r.nodeID` is `>` on Nat.
-/
namespace GoaktVerif.Model.Crdt

structure LWWRegister where
  value : Option Nat
  timestamp : Int
  nodeID : Nat
  dirty : Bool
  deriving DecidableEq, Repr, Inhabited

namespace LWWRegister

def new : LWWRegister := ⟨none, 0, 0, false⟩

/-- Set(value, timestamp, nodeID): a write whose stamp loses against the stored one under Merge's
    order (`ts < r.timestamp || (ts == r.timestamp && nodeID < r.nodeID)`) returns a clone of the
    receiver (fix 670e96a); a write by the SAME node under the SAME timestamp as the stored write is
    ordered right after it (`ts++`, unless ts is MaxInt64), so that one stamp never names two writes;
    otherwise the new write; marked dirty -/
def set (r : LWWRegister) (v : Nat) (ts : Int) (n : Nat) : LWWRegister :=
  if ts < r.timestamp ∨ (ts = r.timestamp ∧ n < r.nodeID) then r
  else if ts = r.timestamp ∧ n = r.nodeID ∧ ts < 9223372036854775807 then ⟨some v, ts + 1, n, true⟩
  else ⟨some v, ts, n, true⟩

/-- the test of Merge: `o.timestamp > r.timestamp || (o.timestamp == r.timestamp && o.nodeID > r.nodeID)` -/
def otherWins (r o : LWWRegister) : Bool :=
  decide (o.timestamp > r.timestamp) || (decide (o.timestamp = r.timestamp) && decide (o.nodeID > r.nodeID))

/-- Merge: copy of the winner with `dirty` cleared; the receiver wins ties -/
def merge (r o : LWWRegister) : LWWRegister :=
  let w := if otherWins r o then o else r
  ⟨w.value, w.timestamp, w.nodeID, false⟩

def delta? (r : LWWRegister) : Option LWWRegister := if r.dirty then some r else none

def resetDelta (r : LWWRegister) : LWWRegister := { r with dirty := false }

def clone (r : LWWRegister) : LWWRegister := r

def fromState (v : Option Nat) (ts : Int) (n : Nat) : LWWRegister := ⟨v, ts, n, false⟩

/-- the write stamp that Merge orders by -/
def stamp (r : LWWRegister) : Int × Nat := (r.timestamp, r.nodeID)

inductive Reachable : LWWRegister → Prop
  | new : Reachable new
  | set {r} (v : Nat) (ts : Int) (n : Nat) : Reachable r → Reachable (r.set v ts n)
  | merge {r o} : Reachable r → Reachable o → Reachable (r.merge o)
  | delta {r d} : Reachable r → r.delta? = some d → Reachable d
  | resetDelta {r} : Reachable r → Reachable r.resetDelta
  | clone {r} : Reachable r → Reachable r.clone

/-- A system of replicas (as for MVRegister): `replica n` is the register of the node whose id is `n`,
    the only place where `Set(·, ·, n)` is called; `pool` holds every other register value in
    existence (snapshots, messages in flight, deltas, results of arbitrary merges). -/
structure World where
  replica : Nat → LWWRegister
  pool : List LWWRegister

def World.has (w : World) (x : LWWRegister) : Prop := x ∈ w.pool ∨ ∃ n, x = w.replica n

def World.setReplica (w : World) (n : Nat) (x : LWWRegister) : World :=
  { w with replica := fun k => if k = n then x else w.replica k }

/-- all executions: local writes with any value and any timestamp below MaxInt64 (time.Time.UnixNano
    of any date before the year 2262), delivery of ANY existing value to any replica, snapshots /
    deltas / clones, merges of any two existing values -/
inductive World.Reachable : World → Prop
  | init : World.Reachable ⟨fun _ => new, []⟩
  | set {w} (n v : Nat) (ts : Int) : World.Reachable w → ts < 9223372036854775807 →
      World.Reachable (w.setReplica n ((w.replica n).set v ts n))
  | deliver {w} (n : Nat) (m : LWWRegister) : World.Reachable w → w.has m →
      World.Reachable (w.setReplica n ((w.replica n).merge m))
  | resetDelta {w} (n : Nat) : World.Reachable w → World.Reachable (w.setReplica n (w.replica n).resetDelta)
  | snapshot {w} (x : LWWRegister) : World.Reachable w → w.has x → World.Reachable { w with pool := x.clone :: w.pool }
  | delta {w} (x d : LWWRegister) : World.Reachable w → w.has x → x.delta? = some d →
      World.Reachable { w with pool := d :: w.pool }
  | mergeAny {w} (x y : LWWRegister) : World.Reachable w → w.has x → w.has y →
      World.Reachable { w with pool := x.merge y :: w.pool }
  | resetAny {w} (x : LWWRegister) : World.Reachable w → w.has x →
      World.Reachable { w with pool := x.resetDelta :: w.pool }

end LWWRegister
end GoaktVerif.Model.Crdt

/-
crdt/mv_register.go — multi-value register.  `entries []mvEntry` (slice order is kept exactly as the
Go code builds it), `clock map[string]uint64`, `dirty`.
-/
import GoaktVerif.Model.Crdt.Dot

namespace GoaktVerif.Model.Crdt

structure MvEntry where
  value : Nat
  dot : Dot
  deriving DecidableEq, Repr, Inhabited

structure MVRegister where
  entries : List MvEntry
  clock : AMap Nat
  dirty : Bool
  deriving DecidableEq, Repr, Inhabited

def containsMVDot (es : List MvEntry) (d : Dot) : Bool :=
  es.any (fun e => e.dot.nodeID == d.nodeID && e.dot.counter == d.counter)

def appendMVEntryUnique (es : List MvEntry) (e : MvEntry) : List MvEntry :=
  if containsMVDot es e.dot then es else es ++ [e]

namespace MVRegister

def new : MVRegister := ⟨[], [], false⟩

/-- Set(nodeID, value): `clock[nodeID]++`, the single new entry replaces all entries -/
def set (r : MVRegister) (n v : Nat) : MVRegister :=
  let (clk, d) := tick r.clock n
  ⟨[⟨v, d⟩], clk, true⟩

/-- Values(): the entry values in slice order -/
def values (r : MVRegister) : List Nat := r.entries.map (·.value)

/-- one of the two filter loops of Merge -/
def keepLoop (acc : List MvEntry) (mine : List MvEntry) (otherClock : AMap Nat) (otherEntries : List MvEntry) :
    List MvEntry :=
  mine.foldl (fun acc e =>
    if !isDominated e.dot otherClock || containsMVDot otherEntries e.dot then appendMVEntryUnique acc e else acc) acc

def merge (r o : MVRegister) : MVRegister :=
  let clk := mergeClock r.clock o.clock
  let k1 := keepLoop [] r.entries o.clock o.entries
  let k2 := keepLoop k1 o.entries r.clock r.entries
  ⟨k2, clk, false⟩

def delta? (r : MVRegister) : Option MVRegister := if r.dirty then some r else none

def resetDelta (r : MVRegister) : MVRegister := { r with dirty := false }

def clone (r : MVRegister) : MVRegister := r

def fromRawState (es : List MvEntry) (clk : AMap Nat) : MVRegister := ⟨es, clk, false⟩

/-- representation invariant: clock is a map, it covers every dot held, no dot is held twice -/
structure WF (r : MVRegister) : Prop where
  clock_sorted : r.clock.Sorted
  dots_le : ∀ e ∈ r.entries, e.dot.counter ≤ r.clock.getD e.dot.nodeID 0
  nodup : r.entries.Nodup
  dotfun : ∀ a ∈ r.entries, ∀ b ∈ r.entries, a.dot = b.dot → a = b

/-- a dot names ONE write: two registers never hold different values under the same dot -/
def Compat (a b : MVRegister) : Prop := ∀ e ∈ a.entries, ∀ f ∈ b.entries, e.dot = f.dot → e = f

/-- A system of replicas.  `replica n` is the register of the node whose id is `n` — the only place
    where `Set(n, ·)` is ever called (the contract of the `nodeID` parameter); `pool` holds every other
    register value in existence: snapshots, messages in flight, deltas, results of arbitrary merges. -/
structure World where
  replica : Nat → MVRegister
  pool : List MVRegister

def World.has (w : World) (x : MVRegister) : Prop := x ∈ w.pool ∨ ∃ n, x = w.replica n

def World.setReplica (w : World) (n : Nat) (x : MVRegister) : World :=
  { w with replica := fun k => if k = n then x else w.replica k }

/-- all executions: local writes, delivery of ANY existing value to any replica (any order, any
    duplication), snapshots / deltas / clones, merges of any two existing values in any grouping -/
inductive World.Reachable : World → Prop
  | init : World.Reachable ⟨fun _ => new, []⟩
  | set {w} (n v : Nat) : World.Reachable w → World.Reachable (w.setReplica n ((w.replica n).set n v))
  | deliver {w} (n : Nat) (m : MVRegister) : World.Reachable w → w.has m →
      World.Reachable (w.setReplica n ((w.replica n).merge m))
  | resetDelta {w} (n : Nat) : World.Reachable w → World.Reachable (w.setReplica n (w.replica n).resetDelta)
  | snapshot {w} (x : MVRegister) : World.Reachable w → w.has x → World.Reachable { w with pool := x.clone :: w.pool }
  | delta {w} (x d : MVRegister) : World.Reachable w → w.has x → x.delta? = some d →
      World.Reachable { w with pool := d :: w.pool }
  | mergeAny {w} (x y : MVRegister) : World.Reachable w → w.has x → w.has y →
      World.Reachable { w with pool := x.merge y :: w.pool }
  | resetAny {w} (x : MVRegister) : World.Reachable w → w.has x →
      World.Reachable { w with pool := x.resetDelta :: w.pool }

end MVRegister
end GoaktVerif.Model.Crdt

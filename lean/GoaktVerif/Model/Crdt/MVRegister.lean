/-
crdt/mv_register.go — multi-value register.  `entries []mvEntry` (slice order is kept exactly as the
Go code builds it), `clock map[string]uint64`, `dirty`.
-/
import GoaktVerif.Model.Crdt.Dot

namespace GoaktVerif.Model.Crdt

structure MvEntry where
  value : Nat
  dot : Dot
  deriving DecidableEq, Repr, Inhabited

structure MVRegister where
  entries : List MvEntry
  clock : AMap Nat
  dirty : Bool
  deriving DecidableEq, Repr, Inhabited

def containsMVDot (es : List MvEntry) (d : Dot) : Bool :=
  es.any (fun e => e.dot.nodeID == d.nodeID && e.dot.counter == d.counter)

def appendMVEntryUnique (es : List MvEntry) (e : MvEntry) : List MvEntry :=
  if containsMVDot es e.dot then es else es ++ [e]

namespace MVRegister

def new : MVRegister := ⟨[], [], false⟩

/-- Set(nodeID, value): `clock[nodeID]++`, the single new entry replaces all entries -/
def set (r : MVRegister) (n v : Nat) : MVRegister :=
  let (clk, d) := tick r.clock n
  ⟨[⟨v, d⟩], clk, true⟩

/-- Values(): the entry values in slice order -/
def values (r : MVRegister) : List Nat := r.entries.map (·.value)

/-- one of the two filter loops of Merge -/
def keepLoop (acc : List MvEntry) (mine : List MvEntry) (otherClock : AMap Nat) (otherEntries : List MvEntry) :
    List MvEntry :=
  mine.foldl (fun acc e =>
    if !isDominated e.dot otherClock || containsMVDot otherEntries e.dot then appendMVEntryUnique acc e else acc) acc

def merge (r o : MVRegister) : MVRegister :=
  let clk := mergeClock r.clock o.clock
  let k1 := keepLoop [] r.entries o.clock o.entries
  let k2 := keepLoop k1 o.entries r.clock r.entries
  ⟨k2, clk, false⟩

def delta? (r : MVRegister) : Option MVRegister := if r.dirty then some r else none

def resetDelta (r : MVRegister) : MVRegister := { r with dirty := false }

def clone (r : MVRegister) : MVRegister := r

def fromRawState (es : List MvEntry) (clk : AMap Nat) : MVRegister := ⟨es, clk, false⟩

end MVRegister
end GoaktVerif.Model.Crdt

/-
crdt/gcounter.go — grow-only counter.  Field by field: `state`, `delta : map[string]uint64`.
uint64 arithmetic wraps (`+=` in Increment, the sum in Value); the model keeps every stored number
below 2^64 the same way.  `Clone` is the identity on values (Lean values are immutable).
-/
import GoaktVerif.Model.Crdt.AMap

namespace GoaktVerif.Model.Crdt

structure GCounter where
  state : AMap Nat
  delta : AMap Nat
  deriving DecidableEq, Repr, Inhabited

namespace GCounter

/-- NewGCounter -/
def new : GCounter := ⟨[], []⟩

/-- Increment(nodeID, value): clone, `state[nodeID] += value`, `delta[nodeID] += value` -/
def increment (c : GCounter) (n v : Nat) : GCounter :=
  { state := c.state.set n ((c.state.getD n 0 + v) % U64)
    delta := c.delta.set n ((c.delta.getD n 0 + v) % U64) }

/-- Value(): wrapping uint64 sum of the per-node slots -/
def value (c : GCounter) : Nat := (c.state.foldl (fun t p => t + p.2) 0) % U64

/-- Merge(other): clone the receiver (state AND delta), then pointwise max over `other.state` -/
def merge (c o : GCounter) : GCounter :=
  { state := mergeMax c.state o.state, delta := c.delta }

/-- Delta(): nil when nothing changed, else the FULL slot value of every changed node -/
def delta? (c : GCounter) : Option GCounter :=
  if c.delta.isEmpty then none
  else some { state := c.delta.map (fun p => (p.1, c.state.getD p.1 0)), delta := [] }

/-- ResetDelta(): `clear(c.delta)` (in place in Go) -/
def resetDelta (c : GCounter) : GCounter := { c with delta := [] }

def clone (c : GCounter) : GCounter := c

/-- GCounterFromState -/
def fromState (s : AMap Nat) : GCounter := ⟨s, []⟩

/-- representation invariant: both maps are maps (sorted, hence no duplicate keys) -/
def WF (c : GCounter) : Prop := c.state.Sorted ∧ c.delta.Sorted

/-- every value obtainable from `new` by the public operations, in any order, on any replicas -/
inductive Reachable : GCounter → Prop
  | new : Reachable new
  | increment {c} (n v : Nat) : Reachable c → Reachable (c.increment n v)
  | merge {c o} : Reachable c → Reachable o → Reachable (c.merge o)
  | delta {c d} : Reachable c → c.delta? = some d → Reachable d
  | resetDelta {c} : Reachable c → Reachable c.resetDelta
  | clone {c} : Reachable c → Reachable c.clone

end GCounter
end GoaktVerif.Model.Crdt

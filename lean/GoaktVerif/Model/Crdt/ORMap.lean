/-
crdt/or_map.go — map whose key set is an ORSet and whose values are CRDTs merged per key.
`keys *ORSet`, `values map[any]ReplicatedData`, `dirty`.  The value type is a parameter
(`CrdtValue`): any type with a merge; Clone is the identity on Lean values.  The driver and the
differential instantiate it with GCounter.
-/
import GoaktVerif.Model.Crdt.ORSet
import GoaktVerif.Model.Crdt.GCounter

namespace GoaktVerif.Model.Crdt

class CrdtValue (V : Type) where
  merge : V → V → V

instance : CrdtValue GCounter := ⟨GCounter.merge⟩

structure ORMap (V : Type) where
  keys : ORSet
  values : AMap V
  dirty : Bool
  deriving Repr, Inhabited

namespace ORMap
variable {V : Type} [CrdtValue V]

def new : ORMap V := ⟨ORSet.new, [], false⟩

/-- Set(nodeID, key, value): Add the key; merge into an existing value, else store a clone -/
def set (m : ORMap V) (n k : Nat) (v : V) : ORMap V :=
  { keys := m.keys.add n k
    values := match m.values.get? k with
      | some ex => m.values.set k (CrdtValue.merge ex v)
      | none => m.values.set k v
    dirty := true }

/-- Remove(key): the receiver itself when the key set does not contain the key -/
def remove (m : ORMap V) (k : Nat) : ORMap V :=
  if !m.keys.contains k then m
  else { keys := m.keys.remove k, values := m.values.erase k, dirty := true }

def removeAliases (m : ORMap V) (k : Nat) : Bool := !m.keys.contains k

def get (m : ORMap V) (k : Nat) : Option V := if !m.keys.contains k then none else m.values.get? k

def keyList (m : ORMap V) : List Nat := m.keys.elements

def len (m : ORMap V) : Nat := m.keys.len

/-- Entries(): key ↦ value for every key of the key set that has a value -/
def entriesOf (m : ORMap V) : AMap V :=
  m.keys.elements.filterMap (fun k => (m.values.get? k).map (fun v => (k, v)))

/-- Merge(other) -/
def merge (m o : ORMap V) : ORMap V :=
  let ks := m.keys.merge o.keys
  { keys := ks
    values := ks.elements.foldl (fun (vals : AMap V) k =>
      match m.values.get? k, o.values.get? k with
      | some lv, some rv => AMap.set vals k (CrdtValue.merge lv rv)
      | some lv, none => AMap.set vals k lv
      | none, some rv => AMap.set vals k rv
      | none, none => vals) ([] : AMap V)
    dirty := false }

def delta? (m : ORMap V) : Option (ORMap V) := if m.dirty then some m else none

def resetDelta (m : ORMap V) : ORMap V := { m with dirty := false, keys := m.keys.resetDelta }

def clone (m : ORMap V) : ORMap V := m

/-- Compact(): compacted key set, values restricted to its elements -/
def compact (m : ORMap V) : ORMap V :=
  let ks := m.keys.compact
  { keys := ks
    values := ks.elements.foldl (fun (vals : AMap V) k =>
      match m.values.get? k with
      | some v => AMap.set vals k v
      | none => vals) ([] : AMap V)
    dirty := false }

def fromRawState (es : AMap (List Dot)) (clk : AMap Nat) (vals : AMap V) : ORMap V :=
  ⟨ORSet.fromRawState es clk, vals, false⟩

end ORMap
end GoaktVerif.Model.Crdt

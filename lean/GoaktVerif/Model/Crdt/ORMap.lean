/-
crdt/or_map.go — map whose key set is an ORSet and whose values are CRDTs merged per key.
`keys *ORSet`, `values map[any]ReplicatedData`, `dirty`.  The value type is a parameter
(`CrdtValue`): any type with a merge; Clone is the identity on Lean values.  The driver and the
differential instantiate it with GCounter.
-/
import GoaktVerif.Model.Crdt.ORSet
import GoaktVerif.Model.Crdt.GCounter

namespace GoaktVerif.Model.Crdt

class CrdtValue (V : Type) where
  merge : V → V → V

instance : CrdtValue GCounter := ⟨GCounter.merge⟩

structure ORMap (V : Type) where
  keys : ORSet
  values : AMap V
  dirty : Bool
  deriving Repr, Inhabited

namespace ORMap
variable {V : Type} [CrdtValue V]

def new : ORMap V := ⟨ORSet.new, [], false⟩

/-- the `switch` of Merge for one key: both sides ⇒ `lv.Merge(rv)`, one side ⇒ its clone, none ⇒ nothing -/
def optMerge : Option V → Option V → Option V
  | none, none => none
  | some a, none => some a
  | none, some b => some b
  | some a, some b => some (CrdtValue.merge a b)

/-- Set(nodeID, key, value): Add the key; merge into an existing value, else store a clone -/
def set (m : ORMap V) (n k : Nat) (v : V) : ORMap V :=
  { keys := m.keys.add n k
    values := match m.values.get? k with
      | some ex => m.values.set k (CrdtValue.merge ex v)
      | none => m.values.set k v
    dirty := true }

/-- Remove(key): the receiver itself when the key set does not contain the key -/
def remove (m : ORMap V) (k : Nat) : ORMap V :=
  if !m.keys.contains k then m
  else { keys := m.keys.remove k, values := m.values.erase k, dirty := true }

def removeAliases (m : ORMap V) (k : Nat) : Bool := !m.keys.contains k

def get (m : ORMap V) (k : Nat) : Option V := if !m.keys.contains k then none else m.values.get? k

def keyList (m : ORMap V) : List Nat := m.keys.elements

def len (m : ORMap V) : Nat := m.keys.len

/-- Entries(): key ↦ value for every key of the key set that has a value -/
def entriesOf (m : ORMap V) : AMap V :=
  m.keys.elements.filterMap (fun k => (m.values.get? k).map (fun v => (k, v)))

/-- Merge(other) -/
def merge (m o : ORMap V) : ORMap V :=
  let ks := m.keys.merge o.keys
  { keys := ks
    values := ks.elements.foldl (fun (vals : AMap V) k =>
      AMap.setOpt vals k (optMerge (m.values.get? k) (o.values.get? k))) ([] : AMap V)
    dirty := false }

def delta? (m : ORMap V) : Option (ORMap V) := if m.dirty then some m else none

def resetDelta (m : ORMap V) : ORMap V := { m with dirty := false, keys := m.keys.resetDelta }

def clone (m : ORMap V) : ORMap V := m

/-- Compact(): compacted key set, values restricted to its elements -/
def compact (m : ORMap V) : ORMap V :=
  let ks := m.keys.compact
  { keys := ks
    values := ks.elements.foldl (fun (vals : AMap V) k => AMap.setOpt vals k (m.values.get? k)) ([] : AMap V)
    dirty := false }

def fromRawState (es : AMap (List Dot)) (clk : AMap Nat) (vals : AMap V) : ORMap V :=
  ⟨ORSet.fromRawState es clk, vals, false⟩

/-- representation invariant (relative to a predicate `RV` on stored values): the key set is a
    well-formed ORSet, `values` is a map whose domain is exactly `Keys()`, every stored value is `RV` -/
structure WF (RV : V → Prop) (m : ORMap V) : Prop where
  keys_wf : m.keys.WF
  values_sorted : m.values.Sorted
  dom : ∀ k, (m.values.get? k).isSome ↔ k ∈ m.keys.elements
  vals : ∀ k v, m.values.get? k = some v → RV v

/-- every map obtainable from `new` by the public API, storing values that satisfy `RV` -/
inductive Reachable (RV : V → Prop) : ORMap V → Prop
  | new : Reachable RV new
  | set {m} (n k : Nat) (v : V) : Reachable RV m → RV v → Reachable RV (m.set n k v)
  | remove {m} (k : Nat) : Reachable RV m → Reachable RV (m.remove k)
  | merge {m o} : Reachable RV m → Reachable RV o → Reachable RV (m.merge o)
  | delta {m d} : Reachable RV m → m.delta? = some d → Reachable RV d
  | resetDelta {m} : Reachable RV m → Reachable RV m.resetDelta
  | clone {m} : Reachable RV m → Reachable RV m.clone
  | compact {m} : Reachable RV m → Reachable RV m.compact

/-- decidable guard of the associativity law on values: every key of the three-way merge that one
    operand of an inner merge holds is still a key of that inner merge (no key is dropped by a
    concurrent removal in `x.Merge(y)` or `y.Merge(z)` and brought back by the third operand) -/
def noResurrect (x y z : ORMap V) : Bool :=
  (x.keys.merge (y.keys.merge z.keys)).elements.all fun k =>
    ((!(x.keys.contains k || y.keys.contains k)) || (x.keys.merge y.keys).contains k) &&
    ((!(y.keys.contains k || z.keys.contains k)) || (y.keys.merge z.keys).contains k)

end ORMap
end GoaktVerif.Model.Crdt

/-
crdt/flag.go — enable-only flag.  Fields `enabled`, `dirty`.
-/
namespace GoaktVerif.Model.Crdt

structure Flag where
  enabled : Bool
  dirty : Bool
  deriving DecidableEq, Repr, Inhabited

namespace Flag

def new : Flag := ⟨false, false⟩

/-- Enable(): a clone when already enabled (keeps `dirty`), else `{true, true}` -/
def enable (x : Flag) : Flag := if x.enabled then x else ⟨true, true⟩

def value (x : Flag) : Bool := x.enabled

/-- Merge: `{enabled: x.enabled || o.enabled}`; `dirty` is dropped -/
def merge (x o : Flag) : Flag := ⟨x.enabled || o.enabled, false⟩

def delta? (x : Flag) : Option Flag := if x.dirty then some x else none

def resetDelta (x : Flag) : Flag := { x with dirty := false }

def clone (x : Flag) : Flag := x

def fromState (e : Bool) : Flag := ⟨e, false⟩

inductive Reachable : Flag → Prop
  | new : Reachable new
  | enable {x} : Reachable x → Reachable x.enable
  | merge {x o} : Reachable x → Reachable o → Reachable (x.merge o)
  | delta {x d} : Reachable x → x.delta? = some d → Reachable d
  | resetDelta {x} : Reachable x → Reachable x.resetDelta
  | clone {x} : Reachable x → Reachable x.clone

end Flag
end GoaktVerif.Model.Crdt

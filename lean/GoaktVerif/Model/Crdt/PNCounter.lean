/-
crdt/pncounter.go — two GCounters.  Value() = int64(inc.Value()) - int64(dec.Value()) with Go's
conversions and wrapping subtraction.
-/
import GoaktVerif.Model.Crdt.GCounter

namespace GoaktVerif.Model.Crdt

structure PNCounter where
  increments : GCounter
  decrements : GCounter
  deriving DecidableEq, Repr, Inhabited

/-- int64(x) for a uint64 x -/
def u64ToI64 (n : Nat) : Int := if n < U64 / 2 then (n : Int) else (n : Int) - (U64 : Int)
/-- wrap an integer into int64 -/
def wrapI64 (i : Int) : Int := ((i + (U64 / 2 : Nat)) % (U64 : Int)) - (U64 / 2 : Nat)

namespace PNCounter

def new : PNCounter := ⟨GCounter.new, GCounter.new⟩

def increment (c : PNCounter) (n v : Nat) : PNCounter :=
  ⟨c.increments.increment n v, c.decrements.clone⟩

def decrement (c : PNCounter) (n v : Nat) : PNCounter :=
  ⟨c.increments.clone, c.decrements.increment n v⟩

def value (c : PNCounter) : Int :=
  wrapI64 (u64ToI64 c.increments.value - u64ToI64 c.decrements.value)

def merge (c o : PNCounter) : PNCounter :=
  ⟨c.increments.merge o.increments, c.decrements.merge o.decrements⟩

def delta? (c : PNCounter) : Option PNCounter :=
  match c.increments.delta?, c.decrements.delta? with
  | none, none => none
  | i, d => some ⟨i.getD GCounter.new, d.getD GCounter.new⟩

def resetDelta (c : PNCounter) : PNCounter := ⟨c.increments.resetDelta, c.decrements.resetDelta⟩

def clone (c : PNCounter) : PNCounter := c

def fromState (i d : AMap Nat) : PNCounter := ⟨GCounter.fromState i, GCounter.fromState d⟩

def WF (c : PNCounter) : Prop := c.increments.WF ∧ c.decrements.WF

inductive Reachable : PNCounter → Prop
  | new : Reachable new
  | increment {c} (n v : Nat) : Reachable c → Reachable (c.increment n v)
  | decrement {c} (n v : Nat) : Reachable c → Reachable (c.decrement n v)
  | merge {c o} : Reachable c → Reachable o → Reachable (c.merge o)
  | delta {c d} : Reachable c → c.delta? = some d → Reachable d
  | resetDelta {c} : Reachable c → Reachable c.resetDelta
  | clone {c} : Reachable c → Reachable c.clone

end PNCounter
end GoaktVerif.Model.Crdt

/-
crdt/or_set.go — `dot`, `isDominated`, `containsDot`, `appendDotUnique` (shared by ORSet, ORMap and
MVRegister).  Counters are unbounded `Nat` (the Go `uint64` counter would need 2^64 writes by one
node to wrap; not modelled).
-/
import GoaktVerif.Model.Crdt.AMap

namespace GoaktVerif.Model.Crdt

structure Dot where
  nodeID : Nat
  counter : Nat
  deriving DecidableEq, Repr, Inhabited

/-- `d.counter <= clock[d.nodeID]` -/
def isDominated (d : Dot) (clock : AMap Nat) : Bool := decide (d.counter ≤ clock.getD d.nodeID 0)

def containsDot (dots : List Dot) (t : Dot) : Bool := dots.any (fun d => d.nodeID == t.nodeID && d.counter == t.counter)

def appendDotUnique (dots : List Dot) (d : Dot) : List Dot :=
  if containsDot dots d then dots else dots ++ [d]

/-- `clock[n]++` and the dot it produces -/
def tick (clock : AMap Nat) (n : Nat) : AMap Nat × Dot :=
  let c := clock.getD n 0 + 1
  (clock.set n c, ⟨n, c⟩)

/-- order used only to print dot lists canonically -/
def Dot.lt (a b : Dot) : Bool := a.nodeID < b.nodeID || (a.nodeID == b.nodeID && a.counter < b.counter)

end GoaktVerif.Model.Crdt

/-
crdt/or_set.go — observed-remove set with a version-vector causal context.
`entries map[any][]dot` (no key ever maps to an empty slice), `clock map[string]uint64`,
`delta *orSetDelta{added, removed map[any][]dot}`.  Elements are `Nat`.
Dot slices keep the order in which the Go code appends; only `Compact` (which ranges over a map)
has no defined order, the model emits its dots in node order.
-/
import GoaktVerif.Model.Crdt.Dot

namespace GoaktVerif.Model.Crdt

structure ORSetDelta where
  added : AMap (List Dot)
  removed : AMap (List Dot)
  deriving DecidableEq, Repr, Inhabited

structure ORSet where
  entries : AMap (List Dot)
  clock : AMap Nat
  delta : ORSetDelta
  deriving DecidableEq, Repr, Inhabited

namespace ORSet

def newDelta : ORSetDelta := ⟨[], []⟩

def new : ORSet := ⟨[], [], newDelta⟩

/-- `s.entries[e]` (nil slice when absent) -/
def dotsOf (s : ORSet) (e : Nat) : List Dot := s.entries.getD e []

/-- Add(nodeID, element) -/
def add (s : ORSet) (n e : Nat) : ORSet :=
  let (clk, d) := tick s.clock n
  { entries := s.entries.set e (s.dotsOf e ++ [d])
    clock := clk
    delta := { s.delta with added := s.delta.added.set e (s.delta.added.getD e [] ++ [d]) } }

/-- Remove(element): the receiver itself when the element has no entry -/
def remove (s : ORSet) (e : Nat) : ORSet :=
  match s.entries.get? e with
  | none => s
  | some dots =>
    { entries := s.entries.erase e
      clock := s.clock
      delta := { s.delta with removed := s.delta.removed.set e (s.delta.removed.getD e [] ++ dots) } }

/-- Go returns the SAME pointer from Remove when the element has no entry -/
def removeAliases (s : ORSet) (e : Nat) : Bool := (s.entries.get? e).isNone

def contains (s : ORSet) (e : Nat) : Bool :=
  match s.entries.get? e with
  | some dots => !dots.isEmpty
  | none => false

/-- Elements(): elements with at least one dot (as a sorted list; Go's order is unspecified) -/
def elements (s : ORSet) : List Nat := (s.entries.filter (fun p => !p.2.isEmpty)).map (·.1)

def len (s : ORSet) : Nat := s.elements.length

/-- the two loops of Merge that compute `kept` for one element -/
def keptLoop (acc mine : List Dot) (otherClock : AMap Nat) (otherDots : List Dot) : List Dot :=
  mine.foldl (fun acc d =>
    if !isDominated d otherClock || containsDot otherDots d then appendDotUnique acc d else acc) acc

def kept (s o : ORSet) (e : Nat) : List Dot :=
  keptLoop (keptLoop [] (s.dotsOf e) o.clock (o.dotsOf e)) (o.dotsOf e) s.clock (s.dotsOf e)

/-- Merge(other) -/
def merge (s o : ORSet) : ORSet :=
  let all := s.entries.keys ++ o.entries.keys
  { entries := all.foldl (fun (m : AMap (List Dot)) e => let k := kept s o e; if k.isEmpty then m else AMap.set m e k) ([] : AMap (List Dot))
    clock := mergeClock s.clock o.clock
    delta := newDelta }

/-- Delta(): nil when nothing was added or removed since the last reset -/
def delta? (s : ORSet) : Option ORSet :=
  if s.delta.added.isEmpty && s.delta.removed.isEmpty then none
  else
    let clk1 : AMap Nat := s.delta.added.foldl (fun (clk : AMap Nat) p =>
      p.2.foldl (fun (clk : AMap Nat) dt =>
        match s.clock.get? dt.nodeID with
        | some c => if c > AMap.getD clk dt.nodeID 0 then AMap.set clk dt.nodeID c else clk
        | none => clk) clk) ([] : AMap Nat)
    let clk2 : AMap Nat := s.delta.removed.foldl (fun (clk : AMap Nat) p =>
      p.2.foldl (fun (clk : AMap Nat) dt =>
        if dt.counter > AMap.getD clk dt.nodeID 0 then AMap.set clk dt.nodeID dt.counter else clk) clk) clk1
    some { entries := s.delta.added, clock := clk2, delta := newDelta }

def resetDelta (s : ORSet) : ORSet := { s with delta := newDelta }

def clone (s : ORSet) : ORSet := s

/-- highest-counter dot per node, emitted in node order -/
def compactDots (dots : List Dot) : List Dot :=
  let hi : AMap Nat := dots.foldl (fun h d =>
    match AMap.get? h d.nodeID with
    | none => AMap.set h d.nodeID d.counter
    | some c => if d.counter > c then AMap.set h d.nodeID d.counter else h) ([] : AMap Nat)
  hi.map (fun p => ⟨p.1, p.2⟩)

/-- Compact(): drops entries with no dots, keeps the highest dot per node; fresh delta -/
def compact (s : ORSet) : ORSet :=
  { entries := (s.entries.filter (fun p => !p.2.isEmpty)).map (fun p => (p.1, compactDots p.2))
    clock := s.clock
    delta := newDelta }

def fromRawState (es : AMap (List Dot)) (clk : AMap Nat) : ORSet := ⟨es, clk, newDelta⟩

end ORSet
end GoaktVerif.Model.Crdt

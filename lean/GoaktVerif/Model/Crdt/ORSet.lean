/-
crdt/or_set.go — observed-remove set with a version-vector causal context.
`entries map[any][]dot` (no key ever maps to an empty slice), `clock map[string]uint64`,
`delta *orSetDelta{added, removed map[any][]dot}`.  Elements are `Nat`.
Dot slices keep the order in which the Go code appends; only `Compact` (which ranges over a map)
has no defined order, the model emits its dots in node order.
-/
import GoaktVerif.Model.Crdt.Dot

namespace GoaktVerif.Model.Crdt

structure ORSetDelta where
  added : AMap (List Dot)
  removed : AMap (List Dot)
  deriving DecidableEq, Repr, Inhabited

structure ORSet where
  entries : AMap (List Dot)
  clock : AMap Nat
  delta : ORSetDelta
  deriving DecidableEq, Repr, Inhabited

namespace ORSet

def newDelta : ORSetDelta := ⟨[], []⟩

def new : ORSet := ⟨[], [], newDelta⟩

/-- `s.entries[e]` (nil slice when absent) -/
def dotsOf (s : ORSet) (e : Nat) : List Dot := s.entries.getD e []

/-- Add(nodeID, element) -/
def add (s : ORSet) (n e : Nat) : ORSet :=
  let (clk, d) := tick s.clock n
  { entries := s.entries.set e (s.dotsOf e ++ [d])
    clock := clk
    delta := { s.delta with added := s.delta.added.set e (s.delta.added.getD e [] ++ [d]) } }

/-- Remove(element): the receiver itself when the element has no entry -/
def remove (s : ORSet) (e : Nat) : ORSet :=
  match s.entries.get? e with
  | none => s
  | some dots =>
    { entries := s.entries.erase e
      clock := s.clock
      delta := { s.delta with removed := s.delta.removed.set e (s.delta.removed.getD e [] ++ dots) } }

/-- Go returns the SAME pointer from Remove when the element has no entry -/
def removeAliases (s : ORSet) (e : Nat) : Bool := (s.entries.get? e).isNone

def contains (s : ORSet) (e : Nat) : Bool :=
  match s.entries.get? e with
  | some dots => !dots.isEmpty
  | none => false

/-- Elements(): elements with at least one dot (as a sorted list; Go's order is unspecified) -/
def elements (s : ORSet) : List Nat := (s.entries.filter (fun p => !p.2.isEmpty)).map (·.1)

def len (s : ORSet) : Nat := s.elements.length

/-- the two loops of Merge that compute `kept` for one element -/
def keptLoop (acc mine : List Dot) (otherClock : AMap Nat) (otherDots : List Dot) : List Dot :=
  mine.foldl (fun acc d =>
    if !isDominated d otherClock || containsDot otherDots d then appendDotUnique acc d else acc) acc

def kept (s o : ORSet) (e : Nat) : List Dot :=
  keptLoop (keptLoop [] (s.dotsOf e) o.clock (o.dotsOf e)) (o.dotsOf e) s.clock (s.dotsOf e)

/-- Merge(other) -/
def merge (s o : ORSet) : ORSet :=
  let all := s.entries.keys ++ o.entries.keys
  { entries := all.foldl (fun (m : AMap (List Dot)) e => let k := kept s o e; if k.isEmpty then m else AMap.set m e k) ([] : AMap (List Dot))
    clock := mergeClock s.clock o.clock
    delta := newDelta }

/-- first loop of Delta(): `if c, ok := s.clock[dt.nodeID]; ok { if c > d.clock[dt.nodeID] { d.clock[dt.nodeID] = c } }` -/
def deltaAddedStep (sclock clk : AMap Nat) (dt : Dot) : AMap Nat :=
  match sclock.get? dt.nodeID with
  | some c => if c > AMap.getD clk dt.nodeID 0 then AMap.set clk dt.nodeID c else clk
  | none => clk

/-- second loop of Delta(): `if dt.counter > d.clock[dt.nodeID] { d.clock[dt.nodeID] = dt.counter }` -/
def deltaRemovedStep (clk : AMap Nat) (dt : Dot) : AMap Nat :=
  if dt.counter > AMap.getD clk dt.nodeID 0 then AMap.set clk dt.nodeID dt.counter else clk

/-- Delta(): nil when nothing was added or removed since the last reset; else the added dots with
    the node's WHOLE clock entry for every node that produced one, plus the removed dots' counters -/
def delta? (s : ORSet) : Option ORSet :=
  if s.delta.added.isEmpty && s.delta.removed.isEmpty then none
  else
    let clk1 : AMap Nat := s.delta.added.foldl (fun (clk : AMap Nat) p => p.2.foldl (deltaAddedStep s.clock) clk) ([] : AMap Nat)
    let clk2 : AMap Nat := s.delta.removed.foldl (fun (clk : AMap Nat) p => p.2.foldl deltaRemovedStep clk) clk1
    some { entries := s.delta.added, clock := clk2, delta := newDelta }

def resetDelta (s : ORSet) : ORSet := { s with delta := newDelta }

def clone (s : ORSet) : ORSet := s

/-- one iteration of Compact's inner loop:
    `if existing, ok := highest[d.nodeID]; !ok || d.counter > existing.counter { highest[d.nodeID] = d }` -/
def compactStep (h : AMap Nat) (d : Dot) : AMap Nat :=
  match AMap.get? h d.nodeID with
  | none => AMap.set h d.nodeID d.counter
  | some c => if d.counter > c then AMap.set h d.nodeID d.counter else h

/-- highest-counter dot per node, emitted in node order -/
def compactDots (dots : List Dot) : List Dot :=
  (dots.foldl compactStep ([] : AMap Nat)).map (fun p => ⟨p.1, p.2⟩)

/-- Compact(): drops entries with no dots, keeps the highest dot per node; fresh delta -/
def compact (s : ORSet) : ORSet :=
  { entries := (s.entries.filter (fun p => !p.2.isEmpty)).map (fun p => (p.1, compactDots p.2))
    clock := s.clock
    delta := newDelta }

def fromRawState (es : AMap (List Dot)) (clk : AMap Nat) : ORSet := ⟨es, clk, newDelta⟩

/-- representation invariant: the maps are maps (sorted, no duplicate keys), and the causal context
    covers every dot the set holds or has recorded in its pending delta (`dots ≤ clock`) -/
structure WF (s : ORSet) : Prop where
  entries_sorted : s.entries.Sorted
  clock_sorted : s.clock.Sorted
  dots_le : ∀ e d, d ∈ s.dotsOf e → d.counter ≤ s.clock.getD d.nodeID 0
  added_sorted : s.delta.added.Sorted
  added_le : ∀ e d, d ∈ s.delta.added.getD e [] → d.counter ≤ s.clock.getD d.nodeID 0

/-- every value obtainable from `new` by the public API: any operation sequence with any node ids on
    any replicas, merges of any two reachable values in any grouping, deltas, compaction -/
inductive Reachable : ORSet → Prop
  | new : Reachable new
  | add {s} (n e : Nat) : Reachable s → Reachable (s.add n e)
  | remove {s} (e : Nat) : Reachable s → Reachable (s.remove e)
  | merge {s o} : Reachable s → Reachable o → Reachable (s.merge o)
  | delta {s d} : Reachable s → s.delta? = some d → Reachable d
  | resetDelta {s} : Reachable s → Reachable s.resetDelta
  | clone {s} : Reachable s → Reachable s.clone
  | compact {s} : Reachable s → Reachable s.compact

end ORSet
end GoaktVerif.Model.Crdt

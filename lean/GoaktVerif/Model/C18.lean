/-
C18 model — undeliverable messages surface as dead letters.

Anchors (goakt, as the code is now):
  actor/pid.go          doReceive (mailbox.Enqueue error → handleReceivedError), handleReceivedErrorWithMessage,
                        toDeadletter, Tell's state test, isControlMessage/isSystemMessage (SendDeadletter is both,
                        so it travels through the dead-letter actor's SYSTEM mailbox and is accepted while stopping)
  actor/receive_context.go  Unhandled → handleReceivedError(ErrUnhandled)
  actor/remote_server.go    deliverRemoteTellMessage (receiver missing / not running / dispatch error →
                        deadLetterRemoteMessage), enqueueCoalescedFailure, drainCoalescedFailures, publishCoalescedFailure
  actor/dead_letter.go  handleDeadletter (counter, publish, per-receiver counter), count, handlePublishDeadletters,
                        handlePostStart (resets the counters)

Addresses are numbers; `0` is the system's NoSender.  The actor system is a sequential machine over events:
drop events put a `SendDeadletter` command into the dead-letter actor's system mailbox, `dlStep` lets the
dead-letter actor handle one command (system mailbox first — `runTurn` always prefers it), `drain` lets the
coalesced-failure goroutine unpack one failed batch.  Interleavings of concurrent senders are event orders.
-/
namespace GoaktVerif.Model.C18

abbrev Addr := Nat

def noSender : Addr := 0

/-- message kinds `handleReceivedErrorWithMessage` distinguishes -/
inductive Kind | user | postStart | terminated | sendDeadletter
  deriving DecidableEq, Repr

/-- why a message was dropped (the `Reason` text is `err.Error()`) -/
inductive Cause | mailboxFull | unhandled | notFound | notRunning | dispatch | batch | other
  deriving DecidableEq, Repr

/-- a published dead letter: (message, sender, receiver, reason) -/
structure DL where
  msg : Nat
  sender : Addr
  receiver : Addr
  cause : Cause
  deriving DecidableEq, Repr

/-- commands in the dead-letter actor's mailboxes -/
inductive Cmd
  | send (d : DL)                 -- *commands.SendDeadletter (system mailbox)
  | count (addr : Option Addr)    -- *commands.DeadlettersCountRequest (an Ask; user mailbox)
  | publishAll                    -- *commands.PublishDeadletters (user mailbox; nothing in goakt sends it)
  | postStart                     -- *PostStart (user mailbox; sent again when the actor is restarted)
  deriving DecidableEq, Repr

/-- one wire message of a failed coalesced batch as `drainCoalescedFailures` sees it:
    `address.Parse(receiver)` result, `Deserialize(payload)` result, sender string parsed (none = empty/unparseable) -/
structure BatchMsg where
  receiver : Option Addr
  payload : Option Nat
  sender : Option Addr
  deriving DecidableEq, Repr

structure Sys where
  dlRunning : Bool := true        -- dead-letter PID: running, not stopping / passivating / suspended
  guardianRunning : Bool := true  -- system guardian (sender of the remote-path dead letters)
  shuttingDown : Bool := false    -- actorSystem.shuttingDown (enqueueCoalescedFailure consults it)
  sysBox : List Cmd := []
  userBox : List Cmd := []
  fq : List (List BatchMsg) := []  -- coalescedFailureQueue
  fqCap : Nat := 256
  counter : Nat := 0
  per : List (Addr × Nat) := []    -- counters map
  letters : List (Addr × DL) := [] -- letters map (latest per receiver)
  published : List DL := []        -- what went to the events stream, in order
  replies : List Nat := []         -- DeadlettersCountResponse values, in order
  deriving Repr

/-- `pid.Tell(ctx, deadletter, command)` / `guardian.Tell(…)`: the state test, then `doReceive`, which puts a
    control message into the system mailbox (no capacity limit, accepted even while the system is stopping) -/
def tellDL (s : Sys) (d : DL) : Sys :=
  if s.dlRunning then { s with sysBox := s.sysBox ++ [.send d] } else s

/-- `handleReceivedErrorWithMessage(senderPID, message, err)` on the receiving PID
    (`hasStream` = `pid.eventsStream != nil`; `sender` = none for a nil sender PID) -/
def localDrop (s : Sys) (hasStream : Bool) (kind : Kind) (sender : Option Addr) (receiver : Addr) (msg : Nat)
    (cause : Cause) : Sys :=
  if !hasStream then s else
  match kind with
  | .postStart | .terminated | .sendDeadletter => s
  | .user =>
    -- NoSender unless a sender PID is given that is not the NoSender PID
    let from_ := match sender with | some a => a | none => noSender
    tellDL s ⟨msg, from_, receiver, cause⟩

/-- the failure branches of `deliverRemoteTellMessage` → `deadLetterRemoteMessage`:
    the payload was decoded (else the function returns earlier), `receiver` = `address.Parse` of the wire receiver -/
def remoteDL (s : Sys) (sender : Option Addr) (receiver : Addr) (msg : Nat) (cause : Cause) : Sys :=
  if !s.dlRunning then s else
  if !s.guardianRunning then s else
  tellDL s ⟨msg, (match sender with | some a => a | none => noSender), receiver, cause⟩

def remoteDrop (s : Sys) (sender : Option Addr) (receiver : Option Addr) (payload : Option Nat) (cause : Cause) : Sys :=
  match payload with
  | none => s                                  -- "deserialize payload …: log and skip"
  | some msg =>
    match receiver with
    | none => s                                -- parseForFailure failed: log and bail
    | some r => remoteDL s sender r msg cause

/-- `publishCoalescedFailure` for one message (shared by the drain goroutine and the inline fallback) -/
def drainMsg (s : Sys) (m : BatchMsg) : Sys :=
  match m.receiver with
  | none => s
  | some r =>
    match m.payload with
    | none => s
    | some msg => remoteDL s m.sender r msg .batch

/-- `enqueueCoalescedFailure` (since fix f8d2f6b): when the hand-off is not possible — the system is shutting down,
    or the fan-out queue is full — the batch is dead-lettered INLINE on the caller's goroutine
    (`publishCoalescedFailure`); otherwise it is handed to the drain goroutine -/
def batchFail (s : Sys) (msgs : List BatchMsg) : Sys :=
  if s.shuttingDown then msgs.foldl drainMsg s else
  if s.fq.length ≥ s.fqCap then msgs.foldl drainMsg s else { s with fq := s.fq ++ [msgs] }

/-- one iteration of the drain goroutine's outer loop -/
def drain (s : Sys) : Sys :=
  match s.fq with
  | [] => s
  | b :: rest => b.foldl drainMsg { s with fq := rest }

def bump : List (Addr × Nat) → Addr → List (Addr × Nat)
  | [], r => [(r, 1)]
  | (a, n) :: rest, r => if a = r then (a, n + 1) :: rest else (a, n) :: bump rest r

def lookupN : List (Addr × Nat) → Addr → Nat
  | [], _ => 0
  | (a, n) :: rest, r => if a = r then n else lookupN rest r

def setLetter : List (Addr × DL) → Addr → DL → List (Addr × DL)
  | [], r, d => [(r, d)]
  | (a, x) :: rest, r, d => if a = r then (a, d) :: rest else (a, x) :: setLetter rest r d

/-- `deadLetter.Receive` on one command -/
def handle (s : Sys) : Cmd → Sys
  | .send d =>
    { s with counter := s.counter + 1, published := s.published ++ [d],
             letters := setLetter s.letters d.receiver d, per := bump s.per d.receiver }
  | .count none => { s with replies := s.replies ++ [s.counter] }
  | .count (some a) => { s with replies := s.replies ++ [lookupN s.per a] }
  | .publishAll => { s with published := s.published ++ s.letters.map (·.2) }
  | .postStart => { s with counter := 0, per := [], letters := [] }

/-- one message handled by the dead-letter actor: `runTurn` takes from the system mailbox first -/
def dlStep (s : Sys) : Sys :=
  match s.sysBox with
  | c :: rest => handle { s with sysBox := rest } c
  | [] =>
    match s.userBox with
    | c :: rest => handle { s with userBox := rest } c
    | [] => s

inductive Ev
  | localDrop (hasStream : Bool) (kind : Kind) (sender : Option Addr) (receiver : Addr) (msg : Nat) (cause : Cause)
  | remoteDrop (sender : Option Addr) (receiver : Option Addr) (payload : Option Nat) (cause : Cause)
  | batchFail (msgs : List BatchMsg)
  | drain
  | dlStep
  | askCount (addr : Option Addr)     -- guardian.Ask(deadletter, DeadlettersCountRequest)
  | publishAll
  | restartDL
  deriving Repr

def step (s : Sys) : Ev → Sys
  | .localDrop h k sd r m c => localDrop s h k sd r m c
  | .remoteDrop sd r p c => remoteDrop s sd r p c
  | .batchFail ms => batchFail s ms
  | .drain => drain s
  | .dlStep => dlStep s
  | .askCount a => if s.dlRunning then { s with userBox := s.userBox ++ [.count a] } else s
  | .publishAll => { s with userBox := s.userBox ++ [.publishAll] }
  | .restartDL => { s with userBox := s.userBox ++ [.postStart] }

def run (s : Sys) (evs : List Ev) : Sys := evs.foldl step s

/-- quiescence: the drain goroutine empties its queue, then the dead-letter actor empties its mailboxes -/
def drainAll : Nat → Sys → Sys
  | 0, s => s
  | n + 1, s => drainAll n (drain s)

def stepAll : Nat → Sys → Sys
  | 0, s => s
  | n + 1, s => stepAll n (dlStep s)

def quiesce (s : Sys) : Sys :=
  let s1 := drainAll s.fq.length s
  stepAll (s1.sysBox.length + s1.userBox.length) s1

end GoaktVerif.Model.C18

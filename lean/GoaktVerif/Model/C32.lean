/-
C32 — executable model of the relocation planning code
(actor/relocation_worker.go: eligibleForRole, allocateActors, relocatableGrains, allocateGrains,
 leastLoadedEligibleSurvivor, reassignByRole, the grain round-robin of relocateShare, the dispatch
 gate of enqueueRelocation/recreateActorFromWire/recreateSingletonFromWire,
 buildRelocateBatchRequests; internal/chunk/chunk.go: Chunkify).

Conventions
* a role is a `Nat`; `0` is the empty role string "" (actor needs no role).
* Go ranges over `PeerState.Actors` / `PeerState.Grains`, which are maps: the iteration ORDER is an
  explicit list argument here, and every theorem quantifies over it.
* target index 0 is the leader, index i+1 is `peers[i]`.
* loads are `Nat` (they come from a per-host actor count, never negative).
Core Lean only.
-/
namespace GoaktVerif.Model.C32

abbrev Role := Nat

structure Actor where
  id : Nat
  role : Role
  singleton : Bool
  relocatable : Bool
  system : Bool
deriving DecidableEq, Repr, Inhabited

structure Grain where
  id : Nat
  disabled : Bool
  eager : Bool
deriving DecidableEq, Repr, Inhabited

/-- `eligibleForRole`: `role == "" || slices.Contains(targetRoles, role)` -/
def eligibleForRole (targetRoles : List Role) (role : Role) : Bool :=
  role == 0 || targetRoles.contains role

/-! ### list helpers (own definitions, structural) -/

/-- `shares[i] = append(shares[i], a)` (no-op when `i` is out of range) -/
def appendAt {α : Type} : List (List α) → Nat → α → List (List α)
  | [], _, _ => []
  | s :: ss, 0, a => (s ++ [a]) :: ss
  | s :: ss, i + 1, a => s :: appendAt ss i a

/-- `loads[i]++` -/
def incAt : List Nat → Nat → List Nat
  | [], _ => []
  | x :: xs, 0 => (x + 1) :: xs
  | x :: xs, i + 1 => x :: incAt xs i

/-! ### allocateActors -/

/-- one iteration of the inner `for idx := range targetRoles` loop -/
def better (targets : List (List Role)) (loads : List Nat) (role : Role) (best : Option Nat) (idx : Nat) : Option Nat :=
  if !eligibleForRole (targets.getD idx []) role then best
  else match best with
    | none => some idx
    | some b => if loads.getD idx 0 < loads.getD b 0 then some idx else some b

/-- the inner loop run over the first `k` targets -/
def pickUpTo (targets : List (List Role)) (loads : List Nat) (role : Role) : Nat → Option Nat
  | 0 => none
  | k + 1 => better targets loads role (pickUpTo targets loads role k) k

/-- the whole inner loop: least-loaded eligible target, ties to the lower index; `none` = `best == -1` -/
def pickTarget (targets : List (List Role)) (loads : List Nat) (role : Role) : Option Nat :=
  pickUpTo targets loads role targets.length

structure Alloc where
  singles : List Actor
  shares : List (List Actor)
  loads : List Nat
  unplaceable : List Actor
deriving Repr

/-- body of `for _, actor := range nodeLeftState.GetActors()` -/
def allocStep (targets : List (List Role)) (st : Alloc) (a : Actor) : Alloc :=
  if a.singleton then { st with singles := st.singles ++ [a] }
  else match pickTarget targets st.loads a.role with
    | none => { st with unplaceable := st.unplaceable ++ [a] }
    | some i => { st with shares := appendAt st.shares i a, loads := incAt st.loads i }

/-- `loads := make([]int, n); if len(baseLoads) == len(loads) { copy(loads, baseLoads) }` -/
def initLoads (n : Nat) (baseLoads : List Nat) : List Nat :=
  if baseLoads.length = n then baseLoads else List.replicate n 0

def allocInit (n : Nat) (baseLoads : List Nat) : Alloc :=
  { singles := [], shares := List.replicate n [], loads := initLoads n baseLoads, unplaceable := [] }

def allocRun (targets : List (List Role)) (baseLoads : List Nat) (order : List Actor) : Alloc :=
  order.foldl (allocStep targets) (allocInit targets.length baseLoads)

/-- `allocateActors(leaderRoles, peers, state, baseLoads)` for the iteration order `order`:
    (leaderShares, peersShares, unplaceable) -/
def allocateActors (leaderRoles : List Role) (peers : List (List Role)) (baseLoads : List Nat) (order : List Actor) :
    List Actor × List (List Actor) × List Actor :=
  let st := allocRun (leaderRoles :: peers) baseLoads order
  (st.singles ++ st.shares.headD [], st.shares, st.unplaceable)

/-! ### Chunkify, relocatableGrains, allocateGrains, buildRelocateBatchRequests -/

/-- `chunk.Chunkify`; `fuel` bounds the `for len(slice) != 0` loop (with `size = 0` on a non-empty
    slice the Go loop never ends; the callers never do that, see `Props.C32`). -/
def chunkifyAux {α : Type} : Nat → List α → Nat → List (List α)
  | 0, _, _ => []
  | fuel + 1, l, size =>
    if l.isEmpty then []
    else
      let size' := if l.length < size then l.length else size
      l.take size' :: chunkifyAux fuel (l.drop size') size'

def chunkify {α : Type} (l : List α) (size : Nat) : List (List α) := chunkifyAux l.length l size

/-- `relocatableGrains` for the map iteration order `order` -/
def relocatableGrains (order : List Grain) : List Grain := order.filter (fun g => !g.disabled)

/-- `allocateGrains(totalPeers, grains)`: (leaderShares, peersShares) -/
def allocateGrains (totalPeers : Nat) (grains : List Grain) : List Grain × List (List Grain) :=
  let quotient := grains.length / totalPeers
  let remainder := grains.length % totalPeers
  let peersShares := chunkify (grains.drop remainder) quotient
  (grains.take remainder ++ peersShares.headD [], peersShares)

inductive Batch where
  | actors (l : List Actor)
  | grains (l : List Grain)
deriving Repr

/-- `buildRelocateBatchRequests` with batch size `bs` (`defaultRelocationBatchSize`) -/
def buildBatches (bs : Nat) (actors : List Actor) (grains : List Grain) : List Batch :=
  (chunkify actors bs).map Batch.actors ++ (chunkify grains bs).map Batch.grains

/-! ### redistribution after a target became unreachable -/

/-- a cluster peer as `survivingPeersExcept` sees it: remoting endpoint + advertised roles -/
structure Peer where
  host : Nat
  port : Nat
  roles : List Role
deriving DecidableEq, Repr

/-- `survivingPeersExcept`: every peer other than `target`, matched on host AND remoting port, order kept -/
def survivingPeersExcept (peers : List Peer) (target : Peer) : List Peer :=
  peers.filter (fun p => !(p.host == target.host && p.port == target.port))

/-- `leastLoadedEligibleSurvivor`: same scan, the load of a survivor is the length of its share -/
def leastLoadedEligibleSurvivor (survivors : List (List Role)) (shares : List (List Actor)) (role : Role) : Option Nat :=
  pickTarget survivors (shares.map List.length) role

structure Request where
  actors : List Actor
  grains : List Grain
deriving Repr

structure Reassign where
  shares : List (List Actor)
  leader : List Actor
  failed : List Actor
deriving Repr

def reassignStep (survivors : List (List Role)) (leaderRoles : List Role) (st : Reassign) (a : Actor) : Reassign :=
  match leastLoadedEligibleSurvivor survivors st.shares a.role with
  | some i => { st with shares := appendAt st.shares i a }
  | none =>
    if eligibleForRole leaderRoles a.role then { st with leader := st.leader ++ [a] }
    else { st with failed := st.failed ++ [a] }

def reassignInit (n : Nat) : Reassign := { shares := List.replicate n [], leader := [], failed := [] }

/-- the actors of all unsent requests in wire order -/
def requestActors (requests : List Request) : List Actor := (requests.map (·.actors)).flatten
def requestGrains (requests : List Request) : List Grain := (requests.map (·.grains)).flatten

/-- `reassignByRole`: (actorShares, leaderActors, recorded failures), flattened grains -/
def reassignByRole (requests : List Request) (survivors : List (List Role)) (leaderRoles : List Role) :
    Reassign × List Grain :=
  ((requestActors requests).foldl (reassignStep survivors leaderRoles) (reassignInit survivors.length),
   requestGrains requests)

/-- `for i, grain := range grains { grainShares[i%len(survivors)] = append(.., grain) }` -/
def rrLoop (k : Nat) : List Grain → Nat → List (List Grain) → List (List Grain)
  | [], _, sh => sh
  | g :: gs, i, sh => rrLoop k gs (i + 1) (appendAt sh (i % k) g)

structure Redistribution where
  actorShares : List (List Actor)
  leaderActors : List Actor
  failedActors : List Actor
  grainShares : List (List Grain)
  leaderGrains : List Grain
deriving Repr

/-- the planning part of `relocateShare` after `sendBatches` failed (worker has a pid) -/
def redistribute (requests : List Request) (survivors : List (List Role)) (leaderRoles : List Role) : Redistribution :=
  let (st, grains) := reassignByRole requests survivors leaderRoles
  if survivors.length = 0 then
    { actorShares := st.shares, leaderActors := st.leader, failedActors := st.failed, grainShares := [], leaderGrains := grains }
  else
    { actorShares := st.shares, leaderActors := st.leader, failedActors := st.failed,
      grainShares := rrLoop survivors.length grains 0 (List.replicate survivors.length []), leaderGrains := [] }

/-! ### what a target does with an item of its share (enqueueRelocation dispatch) -/

/-- `true` = the recreate path goes on to the registry/respawn; `false` = the entry is skipped.
    singleton → `recreateSingletonFromWire` (skips system names only);
    otherwise → `recreateActorFromWire` (skips system names and non-relocatable entries).
    Reliable-delivery endpoints (registry withdrawal without respawn) are not modelled. -/
def recreateGate (a : Actor) : Bool :=
  if a.singleton then !a.system else (!a.system && a.relocatable)

/-! ### the snapshot builders (upstream end of the relocatable / system filter) -/

/-- what both snapshot builders keep of an actor entry: `preShutdown` ranges over `localActors()`
    (no reserved names) and skips `!IsRelocatable()`; `deriveRelocationSetFromRegistry` skips
    non-relocatable records (reliable-delivery endpoints, kept for registry withdrawal, are not
    modelled) and reserved names -/
def snapshotKeep (a : Actor) : Bool := !a.system && a.relocatable

/-- the `Actors` of the snapshot built from the population `pop` of the departed node (any order) -/
def snapshotActors (pop : List Actor) : List Actor := pop.filter snapshotKeep

end GoaktVerif.Model.C32

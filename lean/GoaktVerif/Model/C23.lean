/-
C23 — wire frames (internal/net/proto_serializer.go, metadata.go, client.go, proto_server.go,
frame_pool.go).  Hand-written executable model over byte lists, core Lean only.

Conventions
* `Bytes = List UInt8`.  Every Go slice expression `d[lo:hi]`, `d[lo:]` and every
  `binary.BigEndian.UintN(d[pos:])` is modelled by a CHECKED operation that returns
  `Err.panic` when Go's runtime bounds check would fire (the check is against `len`, which is
  stricter than Go's `cap` rule for re-slicing: reading stale pool bytes beyond `len` would
  also count as a panic here).  `Props/C23` proves `panic` is unreachable for every input.
* protobuf and the type registry are PARAMETERS (`Codec`): `reg name` = `FindMessageType`
  succeeds, `pdec name payload` = `proto.Unmarshal` accepts the payload.  A decoded message is
  its type name plus its payload bytes.
* the clock is an explicit argument (`remainingOf deadline now`, `deadlineOf now remaining`);
  decoded metadata carries the WIRE field (`remaining`), not a wall-clock deadline.
* Go's `map[string]string` is an association list with `mapSet` (overwrite or append) on the
  decoding side; on the encoding side the (random) iteration order is the order of the list
  given to `mdMarshal`.
-/
namespace GoaktVerif.Model.C23

abbrev Bytes := List UInt8

inductive Err where
  | invalidLength    -- ErrInvalidMessageLength
  | unknownType      -- ErrUnknownMessageType
  | unmarshalFailed  -- ErrUnmarshalBinaryFailed
  | invalidMetadata  -- ErrInvalidMetadata
  | frameTooLarge    -- ErrFrameTooLarge
  | eof              -- io.EOF
  | unexpectedEOF    -- io.ErrUnexpectedEOF
  | panic            -- a Go runtime bounds-check panic (proved unreachable)
  deriving DecidableEq, Repr, Inhabited

abbrev R := Except Err

/-! ## big-endian integers -/

/-- `binary.BigEndian.PutUint16(buf, uint16(n))` (the conversion truncates) -/
def be16 (n : Nat) : Bytes := [UInt8.ofNat (n / 2 ^ 8), UInt8.ofNat n]
/-- `binary.BigEndian.PutUint32(buf, uint32(n))` -/
def be32 (n : Nat) : Bytes :=
  [UInt8.ofNat (n / 2 ^ 24), UInt8.ofNat (n / 2 ^ 16), UInt8.ofNat (n / 2 ^ 8), UInt8.ofNat n]
/-- `binary.BigEndian.PutUint64(buf, uint64(n))` -/
def be64 (n : Nat) : Bytes := be32 (n / 2 ^ 32) ++ be32 n

/-- Go `d[lo:hi]` -/
def slice (d : Bytes) (lo hi : Nat) : R Bytes :=
  if lo ≤ hi ∧ hi ≤ d.length then .ok ((d.drop lo).take (hi - lo)) else .error .panic

/-- `binary.BigEndian.Uint16(d[pos:])` — panics unless `pos + 2 ≤ len d` -/
def u16At (d : Bytes) (pos : Nat) : R Nat :=
  match d.drop pos with
  | a :: b :: _ => .ok (a.toNat * 256 + b.toNat)
  | _ => .error .panic

/-- `binary.BigEndian.Uint32(d[pos:pos+4])` / `Uint32(d[pos:])` — panics unless `pos + 4 ≤ len d` -/
def u32At (d : Bytes) (pos : Nat) : R Nat :=
  match d.drop pos with
  | a :: b :: c :: e :: _ => .ok (((a.toNat * 256 + b.toNat) * 256 + c.toNat) * 256 + e.toNat)
  | _ => .error .panic

/-- `binary.BigEndian.Uint64(d[pos:])` — panics unless `pos + 8 ≤ len d` -/
def u64At (d : Bytes) (pos : Nat) : R Nat :=
  match u32At d pos, u32At d (pos + 4) with
  | .ok hi, .ok lo => .ok (hi * 2 ^ 32 + lo)
  | _, _ => .error .panic

/-- two's complement reading of a 64-bit pattern: Go `int64(u)` -/
def toInt64 (u : Nat) : Int := if u < 2 ^ 63 then (u : Int) else (u : Int) - 2 ^ 64
/-- the 64-bit pattern of an integer: Go `uint64(i)` -/
def ofInt64 (i : Int) : Nat := (i % 2 ^ 64).toNat
/-- int64 wrap-around of an exact integer result -/
def wrap64 (i : Int) : Int := toInt64 (ofInt64 i)

/-! ## the bounds the decoders test

Named (as reducible abbreviations, so every proof sees through them) because `Props/C23` ties each of
them to the condition REGENERATED from the Go source (`Gen.C23.*`, go2lean `if_cond`). -/

/-- `len(data) < 8` (UnmarshalBinary) -/
abbrev UmShort (dataLen : Nat) : Prop := dataLen < 8
/-- `len(data) < messageLength || messageLength < 8` -/
abbrev UmTotal (dataLen messageLength : Nat) : Prop := dataLen < messageLength ∨ messageLength < 8
/-- `8+nameLen > messageLength` -/
abbrev UmName (nameLen messageLength : Nat) : Prop := 8 + nameLen > messageLength
/-- `len(data) < 12` (UnmarshalBinaryWithMetadata) -/
abbrev UwmShort (dataLen : Nat) : Prop := dataLen < 12
/-- `len(data) < messageLength || messageLength < 12` -/
abbrev UwmTotal (dataLen messageLength : Nat) : Prop := dataLen < messageLength ∨ messageLength < 12
/-- `12+nameLen+metaLen > messageLength` -/
abbrev UwmBound (nameLen metaLen messageLength : Nat) : Prop := 12 + nameLen + metaLen > messageLength
/-- `metaLen > 0` -/
abbrev UwmHasMeta (metaLen : Nat) : Prop := metaLen > 0
/-- `totalLen < 8` (readProtoFrame, handleConn) -/
abbrev RdMin (totalLen : Nat) : Prop := totalLen < 8
/-- `totalLen > maxFrameSize` (readProtoFrame, handleConn) -/
abbrev RdMax (totalLen maxFrameSize : Nat) : Prop := totalLen > maxFrameSize
/-- `len(frame) >= 12` (handleConn tries the metadata format) -/
abbrev SrvTriesMeta (frameLen : Nat) : Prop := frameLen ≥ 12
/-- `len(frame) < 12` (unmarshalProtoResponse) -/
abbrev CliShort (frameLen : Nat) : Prop := frameLen < 12
/-- `nameLen > 0 && potentialMetaLen >= 0 && 12+nameLen+potentialMetaLen <= totalLen` -/
abbrev CliDetect (totalLen nameLen potentialMetaLen : Nat) : Prop :=
  nameLen > 0 ∧ 12 + nameLen + potentialMetaLen ≤ totalLen
/-- `len(data) < 10` (Metadata.UnmarshalBinary) -/
abbrev MdShort (dataLen : Nat) : Prop := dataLen < 10
/-- `pos+keyLen > len(data)` / `pos+valLen > len(data)` / `pos+2 > len(data)` / `pos+8 > len(data)` -/
abbrev MdNeeds (pos n dataLen : Nat) : Prop := pos + n > dataLen
/-- `remaining != 0` -/
abbrev MdHasDeadline (remaining : Int) : Prop := remaining ≠ 0

/-! ## metadata (metadata.go) -/

abbrev Headers := List (Bytes × Bytes)

/-- decoded metadata: the header map and the wire `remaining` field (int64 nanoseconds; 0 = no deadline) -/
structure MD where
  headers : Headers
  remaining : Int
  deriving DecidableEq, Repr

/-- `m.headers[key] = val` on an association list: overwrite in place or append -/
def mapSet : Headers → Bytes → Bytes → Headers
  | [], k, v => [(k, v)]
  | (k', v') :: rest, k, v => if k' = k then (k, v) :: rest else (k', v') :: mapSet rest k v

/-- the `remaining` computation of `Metadata.MarshalBinary`: `deadlineNano` is the stored UnixNano
    (0 = none), `now` is `time.Now().UnixNano()`; a zero remainder is nudged to −1 -/
def remainingOf (deadlineNano now : Int) : Int :=
  if deadlineNano ≠ 0 then
    let r := wrap64 (deadlineNano - now)
    if r = 0 then -1 else r
  else 0

/-- the receiving side of `Metadata.UnmarshalBinary`: rebase the remaining time on the local clock -/
def deadlineOf (now remaining : Int) : Int :=
  if MdHasDeadline remaining then wrap64 (now + remaining) else 0

def encHeader (kv : Bytes × Bytes) : Bytes :=
  be16 kv.1.length ++ kv.1 ++ (be16 kv.2.length ++ kv.2)

/-- `Metadata.MarshalBinary` with the map iterated in the order of `hs`, `remaining` already computed -/
def mdMarshal (hs : Headers) (remaining : Int) : Bytes :=
  be16 hs.length ++ (hs.flatMap encHeader ++ be64 (ofInt64 remaining))

/-- the `for range count` loop of `Metadata.UnmarshalBinary`; state = (pos, map) -/
def mdLoop (data : Bytes) : Nat → Nat → Headers → R (Nat × Headers)
  | 0, pos, m => .ok (pos, m)
  | count + 1, pos, m =>
    if MdNeeds pos 2 data.length then .error .invalidMetadata else
    match u16At data pos with
    | .error e => .error e
    | .ok keyLen =>
    let pos := pos + 2
    if MdNeeds pos keyLen data.length then .error .invalidMetadata else
    match slice data pos (pos + keyLen) with
    | .error e => .error e
    | .ok key =>
    let pos := pos + keyLen
    if MdNeeds pos 2 data.length then .error .invalidMetadata else
    match u16At data pos with
    | .error e => .error e
    | .ok valLen =>
    let pos := pos + 2
    if MdNeeds pos valLen data.length then .error .invalidMetadata else
    match slice data pos (pos + valLen) with
    | .error e => .error e
    | .ok val =>
    mdLoop data count (pos + valLen) (mapSet m key val)

/-- `Metadata.UnmarshalBinary` (on a zero-value receiver) -/
def mdUnmarshal (data : Bytes) : R MD :=
  if MdShort data.length then .error .invalidMetadata else
  match u16At data 0 with
  | .error e => .error e
  | .ok count =>
  match mdLoop data count 2 [] with
  | .error e => .error e
  | .ok (pos, m) =>
  if MdNeeds pos 8 data.length then .error .invalidMetadata else
  match u64At data pos with
  | .error e => .error e
  | .ok r => .ok ⟨m, toInt64 r⟩

/-! ## frames (proto_serializer.go) -/

/-- protobuf + registry as parameters -/
structure Codec where
  reg : Bytes → Bool
  pdec : Bytes → Bytes → Bool

/-- the codec that knows every name and accepts every payload (framing-level view) -/
def Codec.top : Codec := ⟨fun _ => true, fun _ _ => true⟩

/-- a decoded frame -/
structure Decoded where
  name : Bytes
  payload : Bytes
  md : Option MD
  deriving DecidableEq, Repr

/-- `ProtoSerializer.MarshalBinary`: `name = proto.MessageName(m)`, `payload = proto.Marshal(m)` -/
def marshal (name payload : Bytes) : R Bytes :=
  if name.length = 0 then .error .unknownType else
  .ok (be32 (4 + 4 + name.length + payload.length) ++ (be32 name.length ++ (name ++ payload)))

/-- `ProtoSerializer.MarshalBinaryWithMetadata`; `metaBytes` = `md.MarshalBinary()` or `[]` for a nil `md` -/
def marshalWithMeta (name payload metaBytes : Bytes) : R Bytes :=
  if name.length = 0 then .error .unknownType else
  .ok (be32 (4 + 4 + name.length + 4 + metaBytes.length + payload.length) ++
       (be32 name.length ++ (be32 metaBytes.length ++ (name ++ (metaBytes ++ payload)))))

/-- `ProtoSerializer.UnmarshalBinary` -/
def unmarshal (c : Codec) (data : Bytes) : R Decoded :=
  if UmShort data.length then .error .invalidLength else
  match u32At data 0 with
  | .error e => .error e
  | .ok messageLength =>
  if UmTotal data.length messageLength then .error .invalidLength else
  match u32At data 4 with
  | .error e => .error e
  | .ok nameLen =>
  if UmName nameLen messageLength then .error .invalidLength else
  match slice data 8 (8 + nameLen) with
  | .error e => .error e
  | .ok typeName =>
  if !c.reg typeName then .error .unknownType else
  match slice data (8 + nameLen) messageLength with
  | .error e => .error e
  | .ok payload =>
  if !c.pdec typeName payload then .error .unmarshalFailed else
  .ok ⟨typeName, payload, none⟩

/-- `ProtoSerializer.UnmarshalBinaryWithMetadata` -/
def unmarshalWithMeta (c : Codec) (data : Bytes) : R Decoded :=
  if UwmShort data.length then .error .invalidLength else
  match u32At data 0 with
  | .error e => .error e
  | .ok messageLength =>
  if UwmTotal data.length messageLength then .error .invalidLength else
  match u32At data 4, u32At data 8 with
  | .error e, _ => .error e
  | _, .error e => .error e
  | .ok nameLen, .ok metaLen =>
  if UwmBound nameLen metaLen messageLength then .error .invalidLength else
  match slice data 12 (12 + nameLen) with
  | .error e => .error e
  | .ok typeName =>
  if !c.reg typeName then .error .unknownType else
  match (if UwmHasMeta metaLen then
           match slice data (12 + nameLen) (12 + nameLen + metaLen) with
           | .error e => .error e
           | .ok mb => match mdUnmarshal mb with
             | .error e => .error e
             | .ok md => .ok (some md)
         else .ok none : R (Option MD)) with
  | .error e => .error e
  | .ok md =>
  match slice data (12 + nameLen + metaLen) messageLength with
  | .error e => .error e
  | .ok payload =>
  if !c.pdec typeName payload then .error .unmarshalFailed else
  .ok ⟨typeName, payload, md⟩

/-! ## framing-level view (what the bytes determine before the parameters are consulted) -/

/-- the three regions of a frame -/
structure Raw where
  name : Bytes
  metaBytes : Bytes   -- `[]` for a legacy frame or `metaLen = 0`
  payload : Bytes
  deriving DecidableEq, Repr

/-- the length checks and slicing of `UnmarshalBinary` -/
def frameLegacy (data : Bytes) : R Raw :=
  if UmShort data.length then .error .invalidLength else
  match u32At data 0 with
  | .error e => .error e
  | .ok messageLength =>
  if UmTotal data.length messageLength then .error .invalidLength else
  match u32At data 4 with
  | .error e => .error e
  | .ok nameLen =>
  if UmName nameLen messageLength then .error .invalidLength else
  match slice data 8 (8 + nameLen), slice data (8 + nameLen) messageLength with
  | .ok typeName, .ok payload => .ok ⟨typeName, [], payload⟩
  | _, _ => .error .panic

/-- the length checks and slicing of `UnmarshalBinaryWithMetadata` -/
def frameMeta (data : Bytes) : R Raw :=
  if UwmShort data.length then .error .invalidLength else
  match u32At data 0 with
  | .error e => .error e
  | .ok messageLength =>
  if UwmTotal data.length messageLength then .error .invalidLength else
  match u32At data 4, u32At data 8 with
  | .error e, _ => .error e
  | _, .error e => .error e
  | .ok nameLen, .ok metaLen =>
  if UwmBound nameLen metaLen messageLength then .error .invalidLength else
  match slice data 12 (12 + nameLen), slice data (12 + nameLen) (12 + nameLen + metaLen),
        slice data (12 + nameLen + metaLen) messageLength with
  | .ok typeName, .ok mb, .ok payload => .ok ⟨typeName, mb, payload⟩
  | _, _, _ => .error .panic

/-- what happens after framing: registry lookup, then metadata, then the payload -/
def finish (c : Codec) (r : Raw) : R Decoded :=
  if !c.reg r.name then .error .unknownType else
  match (if UwmHasMeta r.metaBytes.length then
           match mdUnmarshal r.metaBytes with
           | .error e => .error e
           | .ok md => .ok (some md)
         else .ok none : R (Option MD)) with
  | .error e => .error e
  | .ok md =>
  if !c.pdec r.name r.payload then .error .unmarshalFailed else .ok ⟨r.name, r.payload, md⟩

/-- framing-level view of the server's decode block -/
def serverFrame (frame : Bytes) : R Raw :=
  if SrvTriesMeta frame.length then
    match frameMeta frame with
    | .error .invalidLength => frameLegacy frame
    | r => r
  else frameLegacy frame

/-- does the client's heuristic try the metadata format first? -/
def clientTriesMeta (frame : Bytes) : Bool :=
  if CliShort frame.length then false else
  match u32At frame 0, u32At frame 4, u32At frame 8 with
  | .ok totalLen, .ok nameLen, .ok potentialMetaLen =>
    decide (CliDetect totalLen nameLen potentialMetaLen)
  | _, _, _ => false

/-! ## format detection -/

/-- the decode block of `ProtoServer.handleConn`: metadata format first, legacy on
    `ErrInvalidMessageLength` -/
def serverDecode (c : Codec) (frame : Bytes) : R Decoded :=
  if SrvTriesMeta frame.length then
    match unmarshalWithMeta c frame with
    | .error .invalidLength => unmarshal c frame
    | r => r
  else unmarshal c frame

/-- `Client.unmarshalProtoResponse`: the heuristic on bytes 8:12 -/
def clientDecode (c : Codec) (frame : Bytes) : R Decoded :=
  if CliShort frame.length then unmarshal c frame else
  match u32At frame 0, u32At frame 4, u32At frame 8 with
  | .ok totalLen, .ok nameLen, .ok potentialMetaLen =>
    if CliDetect totalLen nameLen potentialMetaLen then
      match unmarshalWithMeta c frame with
      | .ok r => .ok r
      | .error _ => unmarshal c frame
    else unmarshal c frame
  | _, _, _ => .error .panic

/-! ## frame pool (frame_pool.go) -/

structure PoolCfg where
  minBucketShift : Nat
  numBuckets : Nat

/-- the loop `for v > 0 { v >>= 1; shift++ }` -/
def bitLen (v : Nat) : Nat := if h : v = 0 then 0 else bitLen (v / 2) + 1
decreasing_by omega

/-- `bucketIndex(n)` for an `int` n (negative n fall in bucket 0) -/
def bucketIndex (p : PoolCfg) (n : Int) : Nat :=
  if n ≤ 2 ^ p.minBucketShift then 0 else
  let shift := bitLen (n - 1).toNat
  let idx : Int := (shift : Int) - p.minBucketShift
  if idx ≥ p.numBuckets then p.numBuckets else idx.toNat

/-- `bucketIndexExact(c)`: −1 unless c is an exact bucket size -/
def bucketIndexExact (p : PoolCfg) (c : Nat) : Int :=
  if c = 0 ∨ c &&& (c - 1) ≠ 0 then -1 else
  let shift := bitLen c - 1        -- the loop `for v > 1` counts one less than bitLen
  let idx : Int := (shift : Int) - p.minBucketShift
  if idx < 0 ∨ idx ≥ p.numBuckets then -1 else idx

/-- capacity of the buffer returned by `FramePool.Get(n)` for `n ≥ 0`
    (bucket size for pooled sizes, exactly `n` for oversized requests) -/
def poolCap (p : PoolCfg) (n : Nat) : Nat :=
  let idx := bucketIndex p n
  if idx ≥ p.numBuckets then n else 2 ^ (p.minBucketShift + idx)

/-- `FramePool.Get(n)`: (len, cap) of the result, `panic` for a negative request
    (`(*bp)[:n]` with n < 0) -/
def poolGet (p : PoolCfg) (n : Int) : R (Nat × Nat) :=
  if n < 0 then .error .panic else
  let cap := poolCap p n.toNat
  if n.toNat ≤ cap then .ok (n.toNat, cap) else .error .panic

/-! ## reading frames from a stream (client.go readProtoFrame, proto_server.go handleConn) -/

/-- `io.ReadFull(r, buf)` with `len buf = n` on a stream holding `s`: EOF when nothing could be
    read (and n > 0), ErrUnexpectedEOF on a short read -/
def readFull (s : Bytes) (n : Nat) : R (Bytes × Bytes) :=
  if n ≤ s.length then .ok (s.take n, s.drop n)
  else if s.length = 0 then .error .eof else .error .unexpectedEOF

structure Frame where
  frame : Bytes
  rest : Bytes
  alloc : Nat       -- the size requested from the pool / `make`
  deriving DecidableEq, Repr

/-- the size `readProtoFrame` / `handleConn` request for the frame buffer, if they get that far -/
def allocRequest (maxFrameSize : Nat) (s : Bytes) : Option Nat :=
  match readFull s 4 with
  | .error _ => none
  | .ok (hdr, _) =>
    match u32At hdr 0 with
    | .error _ => none
    | .ok totalLen => if RdMin totalLen ∨ RdMax totalLen maxFrameSize then none else some totalLen

/-- `readProtoFrame(reader, pool, maxFrameSize)` on a reader holding `s` -/
def readFrame (maxFrameSize : Nat) (s : Bytes) : R Frame :=
  match readFull s 4 with
  | .error e => .error e
  | .ok (hdr, s1) =>
  match u32At hdr 0 with
  | .error e => .error e
  | .ok totalLen =>
  if RdMin totalLen then .error .invalidLength else
  if RdMax totalLen maxFrameSize then .error .frameTooLarge else
  -- frame := make([]byte, totalLen); copy(frame[:4], hdr); io.ReadFull(reader, frame[4:])
  if 4 > totalLen then .error .panic else
  match readFull s1 (totalLen - 4) with
  | .error e => .error e
  | .ok (body, rest) => .ok ⟨hdr ++ body, rest, totalLen⟩

/-- read frames until the first error; returns the frames and the terminating error -/
def readAll (maxFrameSize : Nat) (s : Bytes) : List Bytes × Err :=
  match readFrame maxFrameSize s with
  | .error e => ([], e)
  | .ok f =>
    if _hlt : f.rest.length < s.length then
      let (fs, e) := readAll maxFrameSize f.rest
      (f.frame :: fs, e)
    else ([f.frame], .panic)   -- unreachable: a frame consumes at least 8 bytes
termination_by s.length

/-- the read loop of `handleConn` with a recording handler that never replies: the decoded
    requests in order, until the first read or decode error closes the connection -/
def serverLoop (c : Codec) (maxFrameSize : Nat) (s : Bytes) : List Decoded :=
  match readFrame maxFrameSize s with
  | .error _ => []
  | .ok f =>
    match serverDecode c f.frame with
    | .error _ => []
    | .ok d =>
      if _hlt : f.rest.length < s.length then d :: serverLoop c maxFrameSize f.rest else [d]
termination_by s.length

/-- `handleConn` with an echo handler (the handler returns its request): the decoded requests and
    the bytes written to the connection — one `MarshalBinaryTo` (legacy) frame per request; a read,
    decode or marshal failure closes the connection -/
def serverEcho (c : Codec) (maxFrameSize : Nat) (s : Bytes) : List Decoded × Bytes :=
  match readFrame maxFrameSize s with
  | .error _ => ([], [])
  | .ok f =>
    match serverDecode c f.frame with
    | .error _ => ([], [])
    | .ok d =>
      match marshal d.name d.payload with
      | .error _ => ([d], [])
      | .ok resp =>
        if _hlt : f.rest.length < s.length then
          let (ds, w) := serverEcho c maxFrameSize f.rest
          (d :: ds, resp ++ w)
        else ([d], resp)
termination_by s.length

/-- `Client.marshalProtoWithContext`: the metadata format is used only when the context carries a
    non-nil `*Metadata` (`ctxMD = none`: no metadata in the context; `some none`: a nil one) -/
def clientMarshal (ctxMD : Option (Option Bytes)) (name payload : Bytes) : R Bytes :=
  match ctxMD with
  | some (some mb) => marshalWithMeta name payload mb
  | _ => marshal name payload

/-- the response-reading loop of `Client.SendBatchProto`: `n` responses, stop at the first error -/
def clientReadN (c : Codec) (maxFrameSize : Nat) : Nat → Bytes → R (List Decoded)
  | 0, _ => .ok []
  | n + 1, s =>
    match readFrame maxFrameSize s with
    | .error e => .error e
    | .ok f =>
      match clientDecode c f.frame with
      | .error e => .error e
      | .ok d =>
        match clientReadN c maxFrameSize n f.rest with
        | .error e => .error e
        | .ok ds => .ok (d :: ds)

end GoaktVerif.Model.C23

/-
C08 — restart backoff and fault counting (actor/pid.go backoffDelay, recordFault;
supervisor/supervisor.go WithExponentialBackoff).  Model of THE CODE AS IT IS, over Int
(time.Duration and the counters are int64; Props/C08 proves that the Int64 definition regenerated
from pid.go by go2lean equals `backoff` on every int64 triple).
-/
namespace GoaktVerif.Model.C08

/-- `backoffDelay(faults, initialDelay, maxDelay)`, statement by statement:
    disabled / no fault ⇒ 0; early cap at shift ≥ 63; `initial > max >> shift` ⇒ max;
    otherwise `initial << shift` -/
def backoff (n i m : Int) : Int :=
  if i ≤ 0 ∨ n < 1 then 0
  else if n - 1 ≥ 63 then m
  else if i > m / 2 ^ (n - 1).toNat then m
  else i * 2 ^ (n - 1).toNat

/-- `WithExponentialBackoff(i, m, r)` applied to a fresh supervisor (fields start at 0):
    resulting (initialDelay, maxDelay, backoffResetAfter) -/
def configure (i m r : Int) : Int × Int × Int :=
  if i ≤ 0 then (0, 0, 0)
  else
    let m' := if m < i then i else m
    let r' := if r ≤ 0 then m' else r
    (i, m', r')

/-- the two atomics of a PID that `recordFault` touches -/
structure Faults where
  count : Int
  last : Int
  deriving Repr, DecidableEq

/-- `recordFault(window)` with the wall clock reading `now` as an input:
    returns the updated consecutive-fault count and the new state -/
def recordFault (window now : Int) (s : Faults) : Int × Faults :=
  let c := if window > 0 ∧ s.last > 0 ∧ now - s.last > window then 0 else s.count
  (c + 1, { count := c + 1, last := now })

/-- a sequence of faults at the given clock readings: the counts returned -/
def recordFaults (window : Int) : List Int → Faults → List Int
  | [], _ => []
  | now :: rest, s =>
    let (c, s') := recordFault window now s
    c :: recordFaults window rest s'

end GoaktVerif.Model.C08

/-
C36 — model of cluster singletons (actor/spawn.go: SpawnSingleton / retrySpawnSingleton /
spawnSingletonRetryError / handleSingletonNameConflict / resolveExistingSingleton / spawnSingletonOnLocal;
actor/cluster_singleton.go: spawnSingletonOnLeader; actor/actor_system.go: checkSpawnPreconditions /
completeSpawn / publishSpawnedActor (plain PutActor for singletons); actor/death_watch.go: RemoveActor).

Nodes hold a (possibly stale) view of who the coordinator is.  A SpawnSingleton issued on node `n`
follows the views (one RemoteSpawn per hop, each hop re-resolving the coordinator on the node it
reached) until it reaches a node that believes it is the coordinator itself, and spawns there:
registry precondition read (ActorExists), local tree check, new PID, PreStart — PHASE BOUNDARY — the actor
runs, is attached, and its record is written with a PLAIN put (no reservation).  The phase boundary is the
window the harness holds open with a gate inside PreStart.

Code as it is: nothing reserves the name between the precondition read and the publication; the death
watch removes the registry record by name unconditionally.
-/
namespace GoaktVerif.Model.C36

abbrev Node := Nat

inductive Op where
  | spawn (n : Node)          -- X.n
  | sBegin (n : Node)         -- bX.n
  | sEnd (n : Node)           -- eX.n
  | view (n k : Node)         -- L.n.k
  | kill (n : Node)           -- K.n
  | cancelHeld (n : Node)     -- xX.n: the context of the HELD call (the flight's winner) is cancelled
  | follow (n : Node)         -- fX.n: a call that joins the flight held open on its executing node
  | cancel (n : Node)         -- cX.n: the follower's context is cancelled
  | join (n : Node)           -- jX.n: the follower's result after the flight ended
  | bad
  deriving Repr, DecidableEq

inductive Out where
  | ok (owner : Node) | pre (exec : Node) | done | busy | none | nf | eloop | badOp | wait | cancelled | failed | retry
  deriving Repr, DecidableEq

/-- registry log entries: node, operation -/
inductive Ev where
  | members (n : Node) | getHit (n : Node) | getMiss (n : Node) | put (n : Node) | del (n : Node)
  deriving Repr, DecidableEq

structure St where
  views : List Node            -- views[n] = who node n believes is the coordinator
  reg : Option Node            -- the registry record of the singleton's name: the node it names
  live : List Bool             -- live[m] = an instance of the singleton runs on node m (and is in m's tree)
  held : List (Node × Node)    -- spawns held inside PreStart: (calling node, executing node)
  fol : List (Node × Node)     -- followers of a flight: (calling node, executing node); they share the leader's result
  gaveUp : List Node           -- callers whose HELD call had its context cancelled (the spawn is still inside PreStart)
  retrying : List Node         -- callers whose held entry now stands for their followers' retry (held in ITS PreStart)
  shared : List (Node × Out)   -- per executing node: the result the followers of its last flight share
  maxLive : Nat
  started : Nat
  log : List Ev                -- reversed
  deriving Repr, DecidableEq

def St.init (nn : Nat) (leader : Node := 0) : St :=
  { views := List.replicate nn leader, reg := none, live := List.replicate nn false, held := [], fol := [], gaveUp := [], retrying := [], shared := [], maxLive := 0, started := 0, log := [] }

def nn (s : St) : Nat := s.views.length

def totalLive (s : St) : Nat := (s.live.filter id).length

def liveAt (s : St) (m : Node) : Bool := s.live.getD m false

/-- follow the leader views from `cur`: the nodes visited (each reads its membership once) and the node
that ends up spawning locally (`none`: hop budget exhausted — a cycle of stale views) -/
def chase (views : List Node) : Nat → Node → Nat → List Node × Option Node
  | 0, cur, _ => ([cur], none)
  | fuel + 1, cur, hops =>
    let l := views.getD cur cur
    if l = cur then ([cur], some cur)
    else if hops ≥ views.length then ([cur], none)
    else
      let (vis, r) := chase views fuel l (hops + 1)
      (cur :: vis, r)

def route (s : St) (n : Node) : List Node × Option Node := chase s.views (nn s + 2) n 0

def logMembers (s : St) (vis : List Node) : St := { s with log := (vis.map Ev.members).reverse ++ s.log }

inductive Begin where
  | done (o : Out)
  | held

/-- first phase on the executing node `m` (the caller's membership reads are already logged) -/
def localBegin (s : St) (m : Node) : St × Begin :=
  match s.reg with
  | some o =>
    -- ActorExists = true ⇒ ErrActorAlreadyExists ⇒ handleSingletonNameConflict reads the record: same
    -- singleton ⇒ success; resolveExistingSingleton prefers a live local instance
    ({ s with log := .getHit m :: .getHit m :: s.log }, .done (.ok (if liveAt s m then m else o)))
  | none =>
    let s := { s with log := .getMiss m :: s.log }
    if liveAt s m then (s, .done (.ok m))           -- a running local instance satisfies the call
    else (s, .held)                                   -- new PID, PreStart entered

/-- second phase on node `m`: the instance runs, is attached, publishes its record with a plain put -/
def localEnd (s : St) (m : Node) : St :=
  let s := { s with live := s.live.set m true, started := s.started + 1, reg := some m, log := .put m :: s.log }
  { s with maxLive := max s.maxLive (totalLive s) }

def heldBy (s : St) (n : Node) : Bool := s.held.any (·.1 = n)
def heldOn (s : St) (m : Node) : Bool := s.held.any (·.2 = m)
def folBy (s : St) (n : Node) : Bool := s.fol.any (·.1 = n)
/-- some follower waits behind the flight of node `m` -/
def heldOnFol (s : St) (m : Node) : Bool := s.fol.any (·.2 = m)

def sharedOf (s : St) (m : Node) : Out :=
  match s.shared.find? (·.1 = m) with
  | some (_, o) => o
  | none => .ok m

def step (s : St) : Op → St × Out
  | .view n k =>
    if n < nn s && k < nn s then ({ s with views := s.views.set n k }, .done) else (s, .badOp)
  | .spawn n =>
    if !(n < nn s) then (s, .badOp)
    else if heldBy s n || folBy s n then (s, .busy)
    else
      match route s n with
      | (vis, none) => (logMembers s vis, .eloop)
      | (vis, some m) =>
        if heldOn s m then (s, .busy)
        else
          match localBegin (logMembers s vis) m with
          | (s', .done o) => (s', o)
          | (s', .held) => (localEnd s' m, .ok m)
  | .sBegin n =>
    if !(n < nn s) then (s, .badOp)
    else if heldBy s n || folBy s n then (s, .busy)
    else
      match route s n with
      | (vis, none) => (logMembers s vis, .eloop)
      | (vis, some m) =>
        if heldOn s m then (s, .busy)
        else
          match localBegin (logMembers s vis) m with
          | (s', .done o) => (s', o)
          | (s', .held) => ({ s' with held := (n, m) :: s'.held }, .pre m)
  | .sEnd n =>
    if !(n < nn s) then (s, .badOp)
    else
      match s.held.find? (·.1 = n) with
      | some (_, m) =>
        let s0 := { s with held := s.held.filter (·.1 ≠ n) }
        if s.retrying.contains n then
          -- second release: the followers' retry leaves PreStart, runs and publishes
          let s1 := localEnd { s0 with retrying := s0.retrying.filter (· ≠ n) } m
          ({ s1 with shared := (m, .ok m) :: s1.shared.filter (·.1 ≠ m) }, .done)
        else if s.gaveUp.contains n then
          -- PreStart honours its context: initialisation fails, no instance; the flight ends with the winner's
          -- context error; its followers (healthy contexts) retry ONCE, coalesced on one new execution
          let s1 := { s0 with gaveUp := s0.gaveUp.filter (· ≠ n) }
          if heldOnFol s m then
            match s1.reg with
            | some o =>
              -- the name was published meanwhile: one precondition read, then every follower reads the record
              let k := (s.fol.filter (·.2 = m)).length
              ({ s1 with log := List.replicate (k + 1) (.getHit m) ++ s1.log,
                         shared := (m, .ok (if liveAt s1 m then m else o)) :: s1.shared.filter (·.1 ≠ m) }, .failed)
            | none =>
              -- (a node whose tree already holds a live instance cannot have an open flight: not reachable)
              -- the retry is held inside its own PreStart: the flight of node m stays open, led by the followers
              ({ s1 with held := s.held, retrying := n :: s1.retrying, log := .getMiss m :: s1.log }, .retry)
          else (s1, .failed)
        else
          let s1 := localEnd s0 m
          ({ s1 with shared := (m, .ok m) :: s1.shared.filter (·.1 ≠ m) }, .ok m)
      | none => (s, .none)
  | .cancelHeld n =>
    if !(n < nn s) then (s, .badOp)
    else if heldBy s n && !s.gaveUp.contains n && !s.retrying.contains n then ({ s with gaveUp := n :: s.gaveUp }, .cancelled)
    else (s, .none)
  | .kill n =>
    if !(n < nn s) then (s, .badOp)
    else if liveAt s n then
      -- PostStop; death watch: tree node removed, registry record removed BY NAME
      ({ s with live := s.live.set n false, reg := none, log := .del n :: s.log }, .done)
    else (s, .nf)
  | .follow n =>
    if !(n < nn s) then (s, .badOp)
    else if heldBy s n || folBy s n then (s, .busy)
    else
      match route s n with
      | (_, none) => (s, .none)
      | (vis, some m) =>
        if heldOn s m then
          -- the membership reads happen, then the call parks behind the single flight of node m
          ({ logMembers s vis with fol := (n, m) :: s.fol }, .wait)
        else (s, .none)
  | .cancel n =>
    if !(n < nn s) then (s, .badOp)
    else
      match s.fol.find? (·.1 = n) with
      | some (_, m) =>
        -- still parked behind the flight: the context error; already served: the shared result
        ({ s with fol := s.fol.filter (·.1 ≠ n) }, if heldOn s m then .cancelled else sharedOf s m)
      | none => (s, .none)
  | .join n =>
    if !(n < nn s) then (s, .badOp)
    else
      match s.fol.find? (·.1 = n) with
      | some (_, m) =>
        if heldOn s m then (s, .busy)
        else ({ s with fol := s.fol.filter (·.1 ≠ n) }, sharedOf s m)     -- the flight's result, shared
      | none => (s, .none)
  | .bad => (s, .badOp)

def run (s : St) : List Op → St × List Out
  | [] => (s, [])
  | op :: ops =>
    let (s1, o) := step s op
    let (s2, os) := run s1 ops
    (s2, o :: os)

end GoaktVerif.Model.C36

import GoaktVerif.Driver.Util
import GoaktVerif.Model.C12
import GoaktVerif.Spec.C12

/-
C12 driver.  Case line: `sys <strategies> | op ; op ; …`
  strategies: `T<ms>` | `C<n>` | `L`, suffix `e` = the actor's PostStop returns an error
  ops: adv D | act I | rec I | pause I | resume I | susp I | reinst I | stop I
       mreg I | munreg I | mpause I | mresume I | mtouch I | mproc I | try I | sysstop B | flagstop I B
       w< <simple op>   (queue an op for the pre-window of the next tick/drain)
       w> <simple op>   (… post-window)
       tick | drain
Output: `res#digest ; res#digest ; …` — first item is the initial state; see the Go driver
(harness/inpkg/actor/zz_verif_c12.go) for the digest format, which `digest` mirrors.
-/
namespace GoaktVerif.Driver.C12
open GoaktVerif.Driver GoaktVerif.Model.C12 GoaktVerif.Spec.C12

def trim (s : String) : String := s.trimAscii.toString

def b2s (b : Bool) : String := if b then "1" else "0"
def optS : Option Nat → String
  | none => "-"
  | some v => toString v

def parseStrat (w : String) : Option (Strat × Bool) :=
  let cs := w.toList
  let fail := cs.getLast? == some 'e'
  let cs := if fail then cs.dropLast else cs
  match cs with
  | ['L'] => some (.longLived, fail)
  | 'T' :: r => (String.ofList r).toNat?.map fun n => (.time n, fail)
  | 'C' :: r => (String.ofList r).toInt?.map fun n => (.count n, fail)
  | _ => none

def parseSOp (ws : List String) : Option SOp :=
  match ws with
  | [k, a] =>
    match a.toNat? with
    | none => none
    | some a =>
      match k with
      | "act" => some (.act a) | "rec" => some (.recd a) | "pause" => some (.pause a)
      | "resume" => some (.resume a) | "susp" => some (.susp a) | "reinst" => some (.reinst a)
      | "stop" => some (.stop a) | "mreg" => some (.mreg a) | "munreg" => some (.munreg a)
      | "mpause" => some (.mpause a) | "mresume" => some (.mresume a) | "mtouch" => some (.mtouch a)
      | "mproc" => some (.mproc a) | "try" => some (.try_ a) | "sysstop" => some (.sysstop (a != 0))
      | _ => none
  | ["flagstop", a, b] => a.toNat?.map fun a => .flagstop a (b != "0")
  | _ => none

/-- a parsed top-level item -/
inductive Item where
  | op (o : Op)
  | pre (o : SOp)
  | post (o : SOp)
  | tick
  | drain

def parseItem (s : String) : Option Item :=
  match words s with
  | ["tick"] => some .tick
  | ["drain"] => some .drain
  | ["adv", d] => d.toNat?.map fun d => .op (.adv d)
  | "w<" :: r => (parseSOp r).map .pre
  | "w>" :: r => (parseSOp r).map .post
  | ws => (parseSOp ws).map fun o => .op (.simple o)

def sopActor : SOp → Option Nat
  | .act a | .recd a | .pause a | .resume a | .susp a | .reinst a | .stop a
  | .mreg a | .munreg a | .mpause a | .mresume a | .mtouch a | .mproc a | .try_ a | .flagstop a _
  | .deliver a | .pauseMsg a | .resumeMsg a | .fail a | .reinstateApi a => some a
  | .sysstop _ => none

def stratS : Strat → String
  | .time T => s!"T{T}"
  | .count n => s!"C{n}"
  | .longLived => "?"

def entS (s : State) (g : Nat) : String :=
  let e := s.objs g
  s!"{stratS e.strat},d{optS e.deadline},b{e.baseline},{b2s e.paused}{b2s e.pending}{b2s e.enqueued},x{s.idx g}"

def nameS (s : State) (g : Nat) : String :=
  let a := (s.objs g).actor
  if s.entries a == some g then toString a else s!"{a}'({entS s g})"

def digest (s : State) : String :=
  let as := (List.range s.nA).map fun i =>
    let x := s.actors i
    s!"a{i}:r{b2s x.running}p{x.postStops}f{b2s x.pausedF}{b2s x.suspended}{b2s x.skipNext}{b2s x.stopping}c{x.processed}l{optS x.latest}u{optS x.lastTouch} "
  let es := (List.range s.nA).filterMap fun i => (s.entries i).map fun g => s!"{i}={entS s g}"
  String.join as ++ "E[" ++ " ".intercalate es ++ "] Q[" ++ " ".intercalate (s.queue.map (nameS s)) ++ "] H["
    ++ " ".intercalate (s.chan.map (nameS s)) ++ "]"

/-- attempts made by the manager since the log had length `n0` (oldest first) -/
def newTries (s : State) (n0 : Nat) : List String :=
  ((s.log.take (s.log.length - n0)).reverse).filterMap fun
    | .tried a src ok _ _ _ _ _ _ _ _ _ _ => if src == .direct then none else some s!"{a}={b2s ok}"
    | _ => none

def haltS : Halt → String
  | .panic => "panic"
  | .hang => "hang"

/-- run the items; `pre`/`post` are the windows queued so far -/
def runItems : State → List SOp → List SOp → List Item → List String → List String
  | _, _, _, [], acc => acc.reverse
  | s, pre, post, it :: rest, acc =>
    match it with
    | .pre o => runItems s (pre ++ [o]) post rest (("-#" ++ digest s) :: acc)
    | .post o => runItems s pre (post ++ [o]) rest (("-#" ++ digest s) :: acc)
    | .op o =>
      let res := match o with
        | .simple so => match (sstep s so).2 with
          | none => "-"
          | some b => b2s b
        | _ => "-"
      let s' := step s o
      match s'.halt with
      | some h => (haltS h :: acc).reverse
      | none => runItems s' pre post rest ((res ++ "#" ++ digest s') :: acc)
    | .tick | .drain =>
      let o : Op := match it with
        | .tick => .tick pre post
        | _ => .drain pre post
      let s' := step s o
      match s'.halt with
      | some h => (haltS h :: acc).reverse
      | none =>
        let res := "[" ++ ",".intercalate (newTries s' s.log.length) ++ "]"
        runItems s' [] [] rest ((res ++ "#" ++ digest s') :: acc)

def parseCase (line : String) : Option (List (Strat × Bool) × List Item) :=
  match line.splitOn "|" with
  | [hd, ops] =>
    match words hd with
    | "sys" :: ss =>
      if ss.isEmpty then none else
      match ss.mapM parseStrat, ((ops.splitOn ";").map trim).filter (· ≠ "") |>.mapM parseItem with
      | some cfg, some items =>
        -- ops on actors that do not exist are `bad-op` in the harness; reject the case instead
        let n := cfg.length
        let okA (o : SOp) : Bool := match sopActor o with
          | some a => a < n
          | none => true
        if items.all (fun
            | .op (.simple o) => okA o
            | .pre o => okA o
            | .post o => okA o
            | _ => true) then some (cfg, items) else none
      | _, _ => none
    | _ => none
  | _ => none

def model (line : String) : String :=
  if trim line == "const" then s!"touch={touchIv * 1000000}" else
  match parseCase line with
  | none => "bad-case"
  | some (cfg, items) =>
    let s := init cfg
    " ; ".intercalate (runItems s [] [] items ["-#" ++ digest s])

/-! ### judge: the Spec predicates evaluated on the implementation's printed states -/

structure ObsActor where
  running : Bool
  postStops : Nat
  pausedF : Bool
  suspended : Bool
  stopping : Bool
  processed : Int
  latest : Option Nat

structure Obs where
  actors : List ObsActor
  /-- actor ↦ baseline of its current entry -/
  baselines : List (Nat × Int)

def digits (cs : List Char) : List Char × List Char := (cs.takeWhile Char.isDigit, cs.dropWhile Char.isDigit)

def natOf (cs : List Char) : Option Nat := (String.ofList cs).toNat?

def bit (c : Char) : Bool := c == '1'

/-- `r1p0f0000c1l-u-` -/
def parseActor (cs : List Char) : Option ObsActor :=
  match cs with
  | 'r' :: r :: 'p' :: rest =>
    let (p, rest) := digits rest
    match rest with
    | 'f' :: f1 :: f2 :: _f3 :: f4 :: 'c' :: rest =>
      let (neg, rest) := match rest with
        | '-' :: r => (true, r)
        | r => (false, r)
      let (c, rest) := digits rest
      match rest, natOf p, natOf c with
      | 'l' :: rest, some p, some c =>
        let (l, _) := digits rest
        some { running := bit r, postStops := p, pausedF := bit f1, suspended := bit f2, stopping := bit f4,
               processed := if neg then -(c : Int) else c, latest := natOf l }
      | _, _, _ => none
    | _ => none
  | _ => none

def parseObs (item : String) : Option Obs :=
  match item.splitOn "#" with
  | [_, d] =>
    match d.splitOn "E[" with
    | [as, rest] =>
      let acts := (words as).mapM fun w =>
        match w.splitOn ":" with
        | [_, body] => parseActor body.toList
        | _ => none
      let es := match rest.splitOn "] Q[" with
        | e :: _ => (words e).filterMap fun w =>
          match w.splitOn "=" with
          | [i, body] =>
            match i.toNat?, (body.splitOn ",") with
            | some i, [_, _, b, _, _] => ((b.drop 1).toString.toInt?).map fun b => (i, b)
            | _, _ => none
          | _ => none
        | [] => []
      acts.map fun a => { actors := a, baselines := es }
    | _ => none
  | _ => none

def parseEvents (item : String) : List (Nat × Bool) :=
  match item.splitOn "#" with
  | r :: _ =>
    if r.startsWith "[" then
      (((r.drop 1).toString.dropEnd 1).toString.splitOn ",").filterMap fun e =>
        match e.splitOn "=" with
        | [a, b] => a.toNat?.map fun a => (a, b == "1")
        | _ => none
    else []
  | [] => []

def slack : Nat := touchIv

/-- smallest baseline any registration of the actor recorded so far ("N messages since its
    registration": a re-registration while a trigger is already queued does not cancel it) -/
def minBase (mb : List (Nat × Int)) (bs : List (Nat × Int)) : List (Nat × Int) :=
  bs.foldl (fun acc (a, b) =>
    match acc.lookup a with
    | some b0 => if b < b0 then (a, b) :: acc.filter (·.1 != a) else acc
    | none => (a, b) :: acc) mb

/-- one successful passivation of actor `a` observed between `prev` and `next` -/
def judgePass (cfg : List (Strat × Bool)) (now : Nat) (pre : List SOp) (mb : List (Nat × Int)) (prev next : Obs) (a : Nat) (viaCount : Bool) : Option String :=
  match cfg[a]?, prev.actors[a]?, next.actors[a]? with
  | some (st, _), some p, some n =>
    let actedInWindow := pre.any fun o => o == .act a || o == .reinst a
    let latest := if actedInWindow then some now else p.latest
    let timeBad := match st with
      | .time T => !viaCount && p.running && !timeOK slack T now latest
      | _ => false
    let countBad := match st with
      | .count k => viaCount && pre.isEmpty && p.running &&
          (match mb.lookup a with
           | some b => !countOK p.processed b k
           | none => false)
      | _ => false
    if st == .longLived then some "bad a long-lived actor was passivated"
    else if timeBad && actedInWindow then some "bad passivated although it handled a message within the last T: the message was handled inside the manager's unlock window"
    else if timeBad then some "bad passivated although it handled a message within the last T (minus the coalescing slack)"
    else if pre.isEmpty && p.running && !guardsOK false p.pausedF p.suspended p.stopping then
      some "bad passivated while paused, suspended or stopping"
    else if countBad then some "bad message-count passivation before N messages since registration"
    else if n.running then some "bad a passivated actor is still running"
    else none
  | _, _, _ => some "bad unparsable state"

def judgeItems (cfg : List (Strat × Bool)) : Nat → List SOp → List (Nat × Int) → List Item → List String → Option String
  | _, _, _, [], _ => none
  | now, pre, mb0, it :: rest, prevS :: curS :: outs =>
    if curS == "panic" then some "bad the passivation manager panicked (in production: an unrecovered panic of its goroutine)" else
    if curS == "?" || curS == "hang" then none else
    match parseObs prevS, parseObs curS with
    | some prev, some cur =>
      let mb := minBase mb0 prev.baselines
      match cur.actors.find? (fun x => !onceOK x.postStops) with
      | some _ => some "bad PostStop ran more than once for one actor"
      | none =>
        let passes : List (Nat × Bool) := match it with
          | .tick => (parseEvents curS).filter (·.2) |>.map fun e => (e.1, false)
          | .drain => (parseEvents curS).filter (·.2) |>.map fun e => (e.1, true)
          | .op (.simple (.try_ a)) => if curS.startsWith "1#" then [(a, false)] else []
          | _ => []
        let direct := match it with
          | .op (.simple (.try_ _)) => true
          | _ => false
        match passes.findSome? (fun (a, c) =>
            -- a direct `try` is not a manager decision: only the guard / once clauses apply
            if direct then
              match cfg[a]?, prev.actors[a]? with
              | some (st, _), some p =>
                if st == .longLived then some "bad a long-lived actor was passivated"
                else if p.running && !guardsOK false p.pausedF p.suspended p.stopping then some "bad passivated while paused, suspended or stopping"
                else none
              | _, _ => none
            else judgePass cfg now pre mb prev cur a c) with
        | some bad => some bad
        | none =>
          let now' := match it with
            | .op (.adv d) => now + d
            | _ => now
          let pre' := match it with
            | .pre o => pre ++ [o]
            | .tick | .drain => []
            | _ => pre
          judgeItems cfg now' pre' mb rest (curS :: outs)
    | _, _ => some "bad unparsable state"
  | _, _, _, _, _ => none

def judge (line : String) : String :=
  let (c, o) := splitTab line
  if trim c == "const" then (if o == s!"touch={slack * 1000000}" then "ok" else "bad the coalescing slack is not the documented 100ms") else
  match parseCase c with
  | none => if o == "bad-case" then "ok" else "bad-case"
  | some (cfg, items) =>
    if o.startsWith "CRASH" then "bad harness crashed" else
    if o == "?" then "ok" else
    match judgeItems cfg 0 [] [] items ((o.splitOn " ; ").map trim) with
    | none => "ok"
    | some bad => bad

def run (args : List String) : IO UInt32 := runWith args model judge

end GoaktVerif.Driver.C12

import GoaktVerif.Driver.Conc
import GoaktVerif.Model.C04.Unbounded

namespace GoaktVerif.Driver.C04
open GoaktVerif.Driver

def unbounded : Machine where
  Cfg := Model.C04.Unbounded.Cfg
  init := fun _ progs => some (Model.C04.Unbounded.init progs)
  nthreads := fun c => c.threads.length
  done := Model.C04.Unbounded.done
  step := Model.C04.Unbounded.step
  results := fun c => c.threads.map fun t => t.results.reverse
  final := Model.C04.Unbounded.final

def model (line : String) : String :=
  match (line.splitOn "|").head?.map (fun s => s.trimAscii.toString) with
  | some "unbounded" => runConc unbounded line
  | _ => "bad-case"

def judge (_ : String) : String := "ok"

def run (args : List String) : IO UInt32 := runWith args model judge

end GoaktVerif.Driver.C04

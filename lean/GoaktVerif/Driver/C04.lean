import GoaktVerif.Driver.Conc
import GoaktVerif.Model.C04.Core
import GoaktVerif.Model.C04.Unbounded
import GoaktVerif.Model.C04.Intake
import GoaktVerif.Model.C04.Locked
import GoaktVerif.Model.C04.Ring
import GoaktVerif.Model.C04.Segmented
import GoaktVerif.Model.C04.Fair
import GoaktVerif.Model.C04.Bounded
import GoaktVerif.Spec.C04

namespace GoaktVerif.Driver.C04
open GoaktVerif.Driver GoaktVerif.Model.C04

/-- wrap a mailbox algorithm as a schedule-replay machine -/
def machineOf (A : Algo) (sh0 : A.Sh) : Machine where
  Cfg := Cfg A
  init := fun _ progs => (parseProgs progs).map (initCfg A sh0)
  nthreads := fun c => c.threads.length
  done := isDone
  step := fun c tid => (stepLabel c tid, stepCfg c tid)
  results := fun c => c.threads.map fun t =>
    t.hist.reverse.map fun d => s!"{d.res.toString}@{d.inv}-{d.ret}"
  final := fun c => finalDigest A c.sh

def capOk (c : Nat) : Bool := 1 ≤ c && c ≤ 65536

def machineFor (cfg : List String) : Option Machine :=
  match cfg with
  | ["unbounded"] => some (machineOf Unbounded.algo Unbounded.init)
  | ["segmented", n] => n.toNat?.bind fun n => if capOk n then some (machineOf Segmented.algo (Segmented.init n)) else none
  | ["fair"] => some (machineOf Fair.algo Fair.init)
  | ["uprio", pf] => (Heap.prioOf pf).map fun lt => machineOf (Locked.algo lt) Locked.init
  | ["usprio", pf] => (Heap.prioOf pf).map fun lt => machineOf (Intake.algo { cap := none, stable := true, lt }) Intake.init
  | ["bprio", c, pf] =>
    match c.toNat?, Heap.prioOf pf with
    | some c, some lt => if capOk c then some (machineOf (Intake.algo { cap := some c, stable := false, lt }) Intake.init) else none
    | _, _ => none
  | ["bsprio", c, pf] =>
    match c.toNat?, Heap.prioOf pf with
    | some c, some lt => if capOk c then some (machineOf (Intake.algo { cap := some c, stable := true, lt }) Intake.init) else none
    | _, _ => none
  | ["ring", c] => c.toNat?.bind fun c => if capOk c then some (machineOf Ring.algo (Ring.init c)) else none
  | _ => none

/-- the black-box BoundedMailbox: one sequential program -/
def runBounded (cap : Nat) (line : String) : String :=
  match line.splitOn "|" with
  | [_, prog, _] =>
    match (words prog).mapM parseOp with
    | none => "bad-case"
    | some ops =>
      match Bounded.runOps (Bounded.init cap) ops [] with
      | none => "stuck"
      | some (s, rs) =>
        let fin := (" ".intercalate (s.q.map toString) ++ " # 0").trimAscii.toString
        "T | R " ++ ",".intercalate (rs.map Res.toString) ++ " | F " ++ fin
  | _ => "bad-case"

def model (line : String) : String :=
  match (line.splitOn "|").head?.map words with
  | some ["bounded", c] =>
    match c.toNat? with
    | some c => if capOk c then runBounded c line else "bad-case"
    | none => "bad-case"
  | some cfg =>
    match machineFor cfg with
    | some M => runConc M line
    | none => "bad-case"
  | none => "bad-case"

/-! ### judge: the Spec oracle evaluated on the implementation's output -/

open GoaktVerif.Spec.C04 in
def setupFor (cfg : List String) : Option Setup :=
  match cfg with
  | ["unbounded"] => some { fifo := true }
  | ["segmented", _] => some { fifo := true }
  | ["fair"] => some { perKey := true }
  | ["uprio", pf] => (Heap.prioOf pf).map fun lt => { prio := some lt }
  | ["usprio", pf] => (Heap.prioOf pf).map fun lt => { prio := some lt, stable := true }
  | ["bprio", c, pf] => match c.toNat?, Heap.prioOf pf with
    | some c, some lt => some { prio := some lt, cap := some c }
    | _, _ => none
  | ["bsprio", c, pf] => match c.toNat?, Heap.prioOf pf with
    | some c, some lt => some { prio := some lt, stable := true, cap := some c }
    | _, _ => none
  | ["ring", c] => c.toNat?.map fun c => { fifo := true, cap := some (Ring.nextPow2 c) }
  | ["bounded", c] => c.toNat?.map fun c => { fifo := true, cap := some (Bounded.roundUp c) }
  | _ => none

def parseRes (op : Op) (s : String) : Option Res :=
  match op with
  | .enq _ _ => if s = "ok" then some .ok else if s = "full" then some .full else none
  | .deq => if s = "nil" then some .none else s.toNat?.map .val
  | .emp => if s = "true" then some (.bool true) else if s = "false" then some (.bool false) else none
  | .len => s.toInt?.map .num

/-- `res@inv-ret`; sequential black-box runs carry no stamps and get consecutive ones from `seq` -/
def parseDone (op : Op) (s : String) (seq : Nat) : Option Done :=
  match s.splitOn "@" with
  | [r] => (parseRes op r).map fun res => { op, res, inv := 2 * seq + 1, ret := 2 * seq + 2 }
  | [r, st] =>
    match st.splitOn "-" with
    | [a, b] =>
      match parseRes op r, a.toNat?, b.toNat? with
      | some res, some inv, some ret => some { op, res, inv, ret }
      | _, _, _ => none
    | _ => none
  | _ => none

def parseThread : List Op → List String → Nat → Option (List Done)
  | [], [], _ => some []
  | op :: ops, r :: rs, k => do
    let d ← parseDone op r k
    let rest ← parseThread ops rs (k + 1)
    pure (d :: rest)
  | _, _, _ => none

def parseHistory (progs : List (List Op)) (r f : String) : Option Spec.C04.History := do
  let rs := (r.splitOn ";").map fun t => (t.trimAscii.toString.splitOn ",").filter (· ≠ "")
  if rs.length ≠ progs.length then none
  let ds ← (progs.zip rs).mapM fun (p, r) => parseThread p r 0
  match f.splitOn "#" with
  | [ids, l] =>
    let drained ← nats? (words ids)
    let finalLen ← l.trimAscii.toString.toInt?
    pure { ops := ds.flatten, drained, finalLen }
  | _ => none

def judge (line : String) : String :=
  let (case, out) := splitTab line
  match case.splitOn "|" with
  | [cfg, progs, _] =>
    match setupFor (words cfg), parseProgs ((progs.splitOn ";").map words) with
    | some su, some ps =>
      -- output:  T … | R … | F …
      match out.splitOn " | R " with
      | [_, rest] =>
        match rest.splitOn " | F" with
        | [r, f] =>
          match parseHistory ps r f with
          | some h =>
            match Spec.C04.verdict su h with
            | none => "ok"
            | some v => "bad " ++ v
          | none => "bad unparsable-history"
        | _ => "bad unparsable-output"
      | _ => "bad unparsable-output"
    | _, _ => "bad-case"
  | _ => "bad-case"

def run (args : List String) : IO UInt32 := runWith args model judge

end GoaktVerif.Driver.C04

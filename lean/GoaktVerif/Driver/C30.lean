import GoaktVerif.Driver.Conc
import GoaktVerif.Model.C30
import GoaktVerif.Spec.C30

namespace GoaktVerif.Driver.C30
open GoaktVerif.Driver GoaktVerif.Model.C30

def parseOp (s : String) : Option Op :=
  if s = "s" then some .s else if s = "sa" then some .sa else if s = "sp" then some .sp
  else if s = "d" then some .d else if s = "t" then some .t else none

def showRes : Res → String
  | .ok => "ok" | .own n => s!"own{n}" | .eact => "eact" | .ereg => "ereg" | .none => "none" | .tick => "tick"

def showEv : HookEv → String
  | .act n => s!"a{n}" | .fail n => s!"f{n}" | .deact n => s!"d{n}" | .deactIdle n => s!"e{n}"

def showLog : RegEv → String
  | .getHit n => s!"{n}g" | .getMiss n => s!"{n}G" | .put n => s!"{n}p" | .putFail n => s!"{n}p!"
  | .nxOk n => s!"{n}x" | .nxRefused n => s!"{n}X" | .del n => s!"{n}d"

def final (c : Cfg) : String :=
  let sh := c.sh
  let r := match sh.reg with | some n => toString n | none => "none"
  let tbl := String.join ((List.range sh.nn).map fun n =>
    match sh.tbl n with
    | none => "-"
    | some p => if (sh.procs p).activated then "a" else "i")
  let act := ",".intercalate ((List.range sh.nn).map fun n => toString (activeOn sh n))
  s!"R={r} tbl={tbl} act={act} max={sh.maxAct} ev={",".intercalate (sh.ev.reverse.map showEv)} log={",".intercalate (sh.log.reverse.map showLog)}"

/-- cfg = `c30 <nnodes> <node of thread 0> …` -/
def initCase (fix : Bool) (cfg : String) (progs : List (List String)) : Option Cfg :=
  let _ := fix
  match words cfg with
  | "c30" :: nn :: nodes =>
    match nn.toNat?, nats? nodes, progs.mapM (fun p => p.mapM parseOp) with
    | some nn, some nodes, some progs =>
      if nodes.length = progs.length && nodes.all (· < nn) && decide (1 ≤ nn) && decide (nn ≤ 8) then
        some (init nn (nodes.zip progs))
      else none
    | _, _, _ => none
  | _ => none

def machine (fix : Bool) : Machine where
  Cfg := Cfg
  init := initCase fix
  nthreads := fun c => c.threads.length
  done := done
  step := stepL fix
  results := fun c => c.threads.map fun t => t.results.reverse.map showRes
  final := final

def model (line : String) : String := runConc (machine false) line

/-- value of `key=` in the final digest of an output line -/
def field (out key : String) : Option String :=
  match out.splitOn " | F " with
  | [_, f] => (words f).findSome? fun w => if w.startsWith (key ++ "=") then some (w.drop (key.length + 1)).toString else none
  | _ => none

def judge (line : String) : String :=
  let (_, o) := splitTab line
  if !o.startsWith "T " then "ok"   -- rejected case: nothing to judge
  else
    match field o "R", field o "act", field o "max" with
    | some r, some act, some mx =>
      let reg := if r = "none" then some none else r.toNat?.map some
      match reg, commaNats? act, mx.toNat? with
      | some reg, some act, some mx =>
        if Spec.C30.okFinal reg act mx then "ok"
        else if !(decide (mx ≤ 1) && Spec.C30.atMostOne act) then s!"bad two instances of the grain were active at once (max={mx} act={act})"
        else s!"bad the registry names {r} but the active instance is elsewhere (act={act})"
      | _, _, _ => "bad unparsable digest"
    | _, _, _ => if o.endsWith "unfinished" then "ok" else "bad no digest"

def run (args : List String) : IO UInt32 := runWith args model judge

end GoaktVerif.Driver.C30

import GoaktVerif.Driver.Util
import GoaktVerif.Model.C09.Scenario
import GoaktVerif.Spec.C10

/-
Line protocol of C10: the `sys` scenario scripts of C09 (harness/inpkg/actor/zz_verif_c09sys.go).
model: same interpreter as C09 (`Model/C09/Scenario.lean`).
judge: the Terminated counts of the last segment against `Spec.C10` (computed from the script alone).
-/
namespace GoaktVerif.Driver.C10
open GoaktVerif.Driver GoaktVerif.Model.C09 GoaktVerif.Model.C09.Scenario GoaktVerif.Spec.C10

def model (line : String) : String :=
  match words line with
  | "sys" :: ops =>
    match sysRun sys0 ops [] with
    | some (s, outs) => "#".intercalate (outs ++ [sysEnd s])
    | none => "bad-case"
  | _ => "bad-case"

def sop? (tok : String) : Option SOp :=
  match tok.splitOn ":" with
  | ["S", x] => (actorId? x).map .spawn
  | ["C", p, x] => do some (.child (← actorId? p) (← actorId? x))
  | ["W", a, b] => do some (.watch (← actorId? a) (← actorId? b))
  | ["U", a, b] => do some (.unwatch (← actorId? a) (← actorId? b))
  | ["F", x] => (actorId? x).map .fail
  | ["K", x] => (actorId? x).map .stop
  | ["P", x] => (actorId? x).map .stop
  | ["Q", x] => (actorId? x).map .stop
  | ["T", _, x] => (actorId? x).map .stop
  | ["R", x] => (actorId? x).map .restart
  | ["Z"] => some .stopAll
  | _ => none

def triple? (e : String) : Option (Nat × Nat × Nat) :=
  match e.splitOn "=" with
  | [k, n] => match k.splitOn ">" with
    | [w, y] => do some ((← actorId? w), (← actorId? y), (← n.toNat?))
    | _ => none
  | _ => none

def judge (line : String) : String :=
  let (c, o) := splitTab line
  match words c with
  | "sys" :: toks =>
    if o.startsWith "panic" || o.startsWith "CRASH" then "bad " ++ o
    else if (o.splitOn ";lost=").length > 1 || (o.splitOn "#R:err").length > 1 then "ok inconclusive"
    else
      match toks.mapM sop?, (o.splitOn "#").getLast? with
      | some ops, some last =>
        let term := ((last.splitOn "term=").getD 1 "").splitOn ";tree=" |>.headD ""
        let got := if term = "" then some [] else (term.splitOn ",").mapM triple?
        match got with
        | none => "bad unparsable Terminated counts: " ++ term
        | some got =>
          let s := run ops
          if countsOK s got then "ok"
          else match firstBad s got with
            | some (w, y, n, e) => s!"bad watcher {actorName w} received {n} Terminated for {actorName y}, expected {e}"
            | none => "bad Terminated counts differ from the specification"
      | _, _ => "bad-case"
  | _ => "bad-case"

def run (args : List String) : IO UInt32 := runWith args model judge

end GoaktVerif.Driver.C10

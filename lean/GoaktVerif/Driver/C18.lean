import GoaktVerif.Driver.Util
import GoaktVerif.Model.C18
import GoaktVerif.Spec.C18

/-!
C18 line-protocol front-end (see harness/verifdrv/c18/main.go for the case grammar).
`model` replays the event script on Model.C18 and prints what the harness prints;
`judge` compares the implementation's dead letters and counts with Spec.C18.expected.
-/
namespace GoaktVerif.Driver.C18
open GoaktVerif.Driver GoaktVerif.Model.C18 GoaktVerif.Spec.C18

def addrOfName (n : String) : Option Addr :=
  match n with
  | "nosender" => some 0 | "none" => some 0 | "A" => some 1 | "B" => some 2 | "G" => some 3 | "U" => some 4 | "ghost" => some 6
  | _ =>
    if n.startsWith "s" then (n.drop 1).toString.toNat?.map (· + 100)
    else if n.startsWith "P" then (n.drop 1).toString.toNat?.map (· + 200)
    else if n.startsWith "V" then (n.drop 1).toString.toNat?.map (· + 300)
    else none

def nameOfAddr (a : Addr) : String :=
  if a = 0 then "nosender" else if a = 1 then "A" else if a = 2 then "B" else if a = 3 then "G" else if a = 4 then "U"
  else if a = 6 then "ghost" else if a ≥ 300 then s!"V{a - 300}" else if a ≥ 200 then s!"P{a - 200}" else if a ≥ 100 then s!"s{a - 100}" else s!"?{a}"

def causeStr : Cause → String
  | .mailboxFull => "full" | .unhandled => "unhandled" | .notFound => "notfound" | .batch => "batch"
  | .notRunning => "notrunning" | .dispatch => "dispatch" | .other => "other"

def dlStr (d : DL) : String := s!"{d.msg}/{nameOfAddr d.sender}/{nameOfAddr d.receiver}/{causeStr d.cause}"

def idList (s : String) : List Nat := if s = "-" || s = "" then [] else (s.splitOn ",").filterMap String.toNat?

def senderSpec (s : String) : Option Addr :=
  match s with
  | "A" => some 1 | "B" => some 2 | _ => none

def batchSpec (s : String) : Option BatchMsg :=
  match (s.drop 1).toString.toNat? with
  | none => none
  | some id =>
    match s.toList.head? with
    | some 'g' => some ⟨some 6, some id, some 1⟩
    | some 'n' => some ⟨some 6, some id, none⟩
    | some 'r' => some ⟨none, some id, some 1⟩
    | some 'p' => some ⟨some 6, none, some 1⟩
    | _ => none

def batchOf (specs : String) : List BatchMsg :=
  if specs = "-" || specs = "" then [] else (specs.splitOn ",").filterMap batchSpec

/-- the model events of one harness event; `none` = not an event of the drop alphabet (mq / malformed) -/
def evsOf (f : List String) : Option (List Ev) :=
  match f with
  | ["full", snd, l] => some ((idList l).map fun id => .localDrop true .user (senderSpec snd) 3 id .mailboxFull)
  | ["unh", snd, l] => some ((idList l).map fun id => .localDrop true .user (senderSpec snd) 4 id .unhandled)
  | ["unhps", k] => some [.localDrop true .postStart none (200 + k.toNat?.getD 0) 0 .unhandled]
  | ["rmiss", snd, l] => some ((idList l).map fun id => .remoteDrop (senderSpec snd) (some 6) (some id) .notFound)
  | ["rpass", k, _, snd, l] =>
    -- the target is in the tree but `IsRunning()` is false (passivating): `deadLetterRemoteMessage` with ErrDead
    some ((idList l).map fun id => .remoteDrop (senderSpec snd) (some (300 + k.toNat?.getD 0)) (some id) .notRunning)
  | ["rbadr", id] => some [.remoteDrop (some 1) none (some (id.toNat?.getD 0)) .notFound]
  | ["rbadp", _] => some [.remoteDrop (some 1) (some 6) none .notFound]
  | ["rtell", k, l] =>
    let k := k.toNat?.getD 0
    some (((idList l).map fun id => Ev.remoteDrop (some 1) (some 6) (some id) .notFound)
      ++ [.remoteDrop (some 1) (some (100 + k)) (some (900000 + k)) .notFound])
  | ["batch", k, specs] =>
    let k := k.toNat?.getD 0
    some [.batchFail (batchOf specs), .drain, .batchFail [⟨some (100 + k), some (900000 + k), some 1⟩], .drain]
  | ["mbatch", specs] => some [.batchFail (batchOf specs)]
  | ["mdrain"] => some [.drain]     -- expanded to a full drain by `runHarnessEv`
  | ["count"] => some [.askCount none]
  | _ => none

def splitPar (f : List String) : List (List String) :=
  ((" ".intercalate f).splitOn "|").map words |>.filter (· ≠ [])

/-- all model events of a harness event, `par` flattened (any order of the branches owes the same dead letters) -/
def flatEvs (f : List String) : List Ev :=
  match f with
  | "par" :: rest => (splitPar rest).flatMap fun g => (evsOf g).getD []
  | _ => (evsOf f).getD []

def settle (s : Sys) : Sys := stepAll (s.sysBox.length + s.userBox.length) s

def runHarnessEv (s : Sys) (f : List String) : Sys :=
  match f with
  | ["mq", c] => { s with fqCap := c.toNat?.getD 0 }
  | ["mdrain"] => settle (drainAll s.fq.length s)
  | _ => settle (run s (flatEvs f))

def events (line : String) : Option (Nat × List (List String)) :=
  match (line.splitOn ";").map words with
  | ["sys", c] :: evs => c.toNat?.map fun c => (c, evs.filter (· ≠ []))
  | _ => none

def perNames (evs : List (List String)) : List String :=
  let sent := evs.flatMap fun f =>
    let fs := match f with | "par" :: rest => splitPar rest | _ => [f]
    fs.filterMap fun g => match g with
      | ["rtell", k, _] => some s!"s{k}"
      | ["batch", k, _] => some s!"s{k}"
      | ["rpass", k, _, _, _] => some s!"V{k}"
      | _ => none
  ["G", "U", "ghost"] ++ sent

def model (line : String) : String :=
  match events line with
  | none => "bad-case"
  | some (_, evs) =>
    let s := evs.foldl runHarnessEv { fqCap := 256 }
    let s := settle (step s (.askCount none))
    let total := s.replies.getLastD 0
    let reads := s.replies.dropLast
    let per := (perNames evs).map fun n => s!"{n}:{lookupN s.per ((addrOfName n).getD 999)}"
    s!"dl={",".intercalate (s.published.map dlStr)} total={total} per={",".intercalate per} reads={",".intercalate (reads.map toString)}"

/-! ### judge -/

def parseDL (t : String) : Option DL :=
  match t.splitOn "/" with
  | [id, snd, rcv, c] =>
    match id.toNat?, addrOfName snd, addrOfName rcv with
    | some id, some s, some r =>
      let cause := match c with
        | "full" => some Cause.mailboxFull | "unhandled" => some .unhandled | "notfound" => some .notFound
        | "batch" => some .batch | "notrunning" => some .notRunning | _ => none
      cause.map fun c => ⟨id, s, r, c⟩
    | _, _, _ => none
  | _ => none

def field (fs : List String) (k : String) : String :=
  match fs.find? (·.startsWith (k ++ "=")) with
  | some x => (x.drop (k.length + 1)).toString
  | none => ""

/-- number of dead letters owed before each `count` event -/
def readsExpected (evs : List (List String)) : List Nat :=
  let rec go : List (List String) → Nat → List Nat → List Nat
    | [], _, acc => acc.reverse
    | f :: rest, n, acc =>
      let n' := n + (expected (flatEvs f)).length
      if f == ["count"] then go rest n' (n :: acc) else go rest n' acc
  go evs 0 []

def judge (line : String) : String :=
  let (c, o) := splitTab line
  match events c with
  | none => "bad-case"
  | some (_, evs) =>
    let fs := words o
    if (field fs "problems") != "" then "bad harness problem: " ++ field fs "problems" else
    let dlTxt := field fs "dl"
    let toks := if dlTxt = "" then [] else dlTxt.splitOn ","
    match toks.mapM parseDL with
    | none => "bad unparsable dead letter list: " ++ dlTxt
    | some dls =>
      let exp := expected (evs.flatMap flatEvs)
      let missing := exp.filter fun d => dls.count d < exp.count d
      let extra := dls.filter fun d => dls.count d > exp.count d
      if !extra.isEmpty then "bad duplicate-or-unowed dead letters: " ++ ",".intercalate (extra.map dlStr)
      else if !missing.isEmpty then "bad missing dead letters: " ++ ",".intercalate (missing.eraseDups.map dlStr)
      else if !sameMultiset dls exp then "bad dead letters differ from the ones owed"
      else if (field fs "total").toNat? != some dls.length then
        s!"bad count: reported {field fs "total"}, published {dls.length}"
      else
        let perOK := ((field fs "per").splitOn ",").all fun t =>
          match t.splitOn ":" with
          | [n, v] => (addrOfName n).map (fun a => tally dls a) == v.toNat?
          | _ => false
        if !perOK then "bad per-receiver count: " ++ field fs "per"
        else
          let rd := if field fs "reads" = "" then [] else ((field fs "reads").splitOn ",").map String.toNat?
          -- a count served in a history with unconsumed batches only has to cover what has been published
          if evs.any (fun f => f.head? == some "mq") then "ok"
          else if rd == (readsExpected evs).map some then "ok"
          else s!"bad count reads: {field fs "reads"}"

def run (args : List String) : IO UInt32 := runWith args model judge

end GoaktVerif.Driver.C18

import GoaktVerif.Driver.Util
import GoaktVerif.Model.C29
import GoaktVerif.Spec.C29

/-!
C29 driver: builds each caller's `http.Header` the way the harness' propagator does (`Add`
canonicalises the key, `~key` is a raw map assignment), runs the model's tell / ask path and prints
one token per message in the harness' format.
-/
namespace GoaktVerif.Driver.C29
open GoaktVerif.Driver GoaktVerif.Model.C29

def addEntry (h : Header) (k : Str) (vals : List Str) : Header :=
  if h.any (·.1 == k) then h.map fun e => if e.1 == k then (k, e.2 ++ vals) else e
  else h ++ [(k, vals)]

def parseSpec (s : String) : Option Header :=
  let s := s.trimAscii.toString
  if s == "-" || s == "" then some [] else
  (s.splitOn ",").foldlM (fun h part =>
    match part.splitOn "=" with
    | k :: v :: rest =>
      if k == "" then none else
      let v := "=".intercalate (v :: rest)
      let vals := (v.splitOn ";").map String.toList
      if k.startsWith "~" then some (addEntry h (k.drop 1).toString.toList vals)
      else some (addEntry h (canonKey k.toList) vals)
    | _ => none) []

def insertKey (e : Str × Str) : List (Str × Str) → List (Str × Str)
  | [] => [e]
  | x :: xs => if String.ofList e.1 < String.ofList x.1 then e :: x :: xs else x :: insertKey e xs

def showFlat (m : Flat) : String :=
  ",".intercalate ((m.foldr insertKey []).map fun e => String.ofList e.1 ++ "=" ++ String.ofList e.2)

def parseStep (s : String) : Option (Bool × Header) :=
  let s := s.trimAscii.toString
  match s.toList with
  | k :: ':' :: rest =>
    if k == 'a' || k == 'b' || k == 's' || k == 't' then (parseSpec (String.ofList rest)).map fun h => (k != 't', h)
    else none
  | _ => none

def modelSeq (specs : List String) : String :=
  match specs.mapM parseStep with
  | some steps =>
    if steps.isEmpty || steps.length > 39 then "bad-case" else
    " ".intercalate ((seqPath steps).zipIdx.map fun (r, i) => s!"{i}.0[{showFlat r}]")
  | none => "bad-case"

def model (line : String) : String :=
  match line.splitOn "|" with
  | head :: specs =>
    if (words head).head? == some "seq" then
      (if (words head).length == 2 && ((words head).getD 1 "").toNat?.any (· ≥ 1) then modelSeq specs else "bad-case")
    else
    match words head, specs.mapM parseSpec with
    | ["prop", mode, mb, reps], some hs =>
      match mb.toNat?, reps.toNat? with
      | some mb, some reps =>
        if mb < 1 || reps < 1 || reps > 16 || hs.isEmpty then "bad-case" else
        if mode != "tell" && mode != "stell" && mode != "ask" && mode != "bask" then "bad-case" else
        -- all messages of the case, caller-major; the coalescer may cut this stream into batches anywhere
        let msgs := hs.zipIdx.flatMap fun (h, i) => (List.range reps).map fun j => (i, j, h)
        let restored : List Flat :=
          if mode == "tell" then tellPath (msgs.map (·.2.2)) else msgs.map fun m => askPath m.2.2
        " ".intercalate ((msgs.zip restored).map fun ((i, j, _), r) => s!"{i}.{j}[{showFlat r}]")
      | _, _ => "bad-case"
    | _, _ => "bad-case"
  | [] => "bad-case"

/-- judge: every message's restored headers equal, as a map, what its own caller injected (first
    values, canonical keys) -/
def parseTok (t : String) : Option (Nat × Nat × Flat × Bool) :=
  let badReply := t.endsWith "!reply"
  let t := if badReply then (t.dropEnd 6).toString else t
  match t.splitOn "[" with
  | [ij, rest] =>
    match ij.splitOn ".", rest.endsWith "]" with
    | [i, j], true =>
      let body := (rest.dropEnd 1).toString
      let ents : Option Flat := if body == "" then some [] else
        (body.splitOn ",").mapM fun kv => match kv.splitOn "=" with
          | k :: v :: r => some (k.toList, ("=".intercalate (v :: r)).toList)
          | _ => none
      match i.toNat?, j.toNat?, ents with
      | some i, some j, some e => some (i, j, e, badReply)
      | _, _, _ => none
    | _, _ => none
  | _ => none

def judge (line : String) : String :=
  let (c, o) := splitTab line
  if o == "bad-case" then "ok" else
  match c.splitOn "|" with
  | head :: specs =>
    let isSeq := (words head).head? == some "seq"
    let specs := if isSeq then specs.map fun s => (s.trimAscii.toString.drop 2).toString else specs
    match (if isSeq then some 1 else (words head).getD 3 "" |>.toNat?), specs.mapM parseSpec with
    | some reps, some hs =>
      match (words o).mapM parseTok with
      | none => "bad unparsable output: " ++ o
      | some toks =>
        if toks.length != hs.length * reps then s!"bad {toks.length} messages observed, {hs.length * reps} sent" else
        match toks.find? fun (i, _, e, br) => br || !(Spec.C29.sameMap e (expected (hs.getD i []))) with
        | none => "ok"
        | some (i, j, e, br) =>
          if br then s!"bad the reply to message {i}.{j} does not answer that request with that request's headers"
          else s!"bad message {i}.{j} was delivered with headers [{showFlat e}], its caller injected [{showFlat (expected (hs.getD i []))}]"
    | _, _ => "ok"
  | [] => "ok"

def run (args : List String) : IO UInt32 := runWith args model judge

end GoaktVerif.Driver.C29

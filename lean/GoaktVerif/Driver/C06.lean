/-
C06 driver.  `model`: interprets a harness script on the small-step model under the PROMPT reading
of the script (after every harness action each thread runs until it finishes, parks at a closed
gate, or blocks); prints `*` when the script is racy under that reading (two threads enabled at
once) or uses an action the model does not cover.  `judge`: runs the spec monitor on the hook-event
history recorded from the real actor system.
-/
import GoaktVerif.Driver.Util
import GoaktVerif.Model.C06
import GoaktVerif.Spec.C06

namespace GoaktVerif.Driver.C06
open GoaktVerif.Driver GoaktVerif.Model.C06 GoaktVerif.Spec.C06

structure St where
  c : Cfg
  gr : Bool := false       -- Receive gate closed
  gp : Bool := false       -- PostStop gate closed
  gs : Bool := false       -- PreStart gate closed
  hog : Bool := false      -- every dispatcher worker is occupied elsewhere
  n : Nat := 0             -- pool threads created so far
  racy : Bool := false
  res : List String := []  -- reversed

def holderIs (c : Cfg) (me : Nat) (pc : SD) : Bool :=
  match c.locker with
  | some h => h.id == me && h.pc == pc
  | none => false

/-- the worker can make a step that changes the configuration and is not parked at a closed gate -/
def wEnabled (s : St) : Bool :=
  if s.hog then
    -- a worker that is already inside the turn keeps running; only `take` needs a free worker
    match s.c.w with
    | .idle => false
    | .loop _ => true
    | .recv _ => !s.gr
    | .sdLock _ => s.c.locker.isNone
    | .sdIn _ => !(s.gp && holderIs s.c wid .postE)
  else
    match s.c.w with
    | .idle => s.c.sched == .scheduled
    | .loop _ => true
    | .recv _ => !s.gr
    | .sdLock _ => s.c.locker.isNone
    | .sdIn _ => !(s.gp && holderIs s.c wid .postE)

def tParked (s : St) (i : Nat) : Bool :=
  match s.c.threads i with
  | .sdIn _ => s.gp && holderIs s.c (tidOf i) .postE
  | .rPreE => s.gs
  | _ => false

def tEnabled (s : St) (i : Nat) : Bool :=
  match s.c.threads i with
  | .done => false
  | .sdLock _ => s.c.locker.isNone
  | .sdIn _ => !(s.gp && holderIs s.c (tidOf i) .postE)
  | .rWait => !s.c.isRunning
  | .rSpin => s.c.sched == .idle
  | .rPreE => !s.gs
  | _ => true

def enabledList (s : St) : List Nat :=
  (if wEnabled s then [0] else []) ++ ((List.range s.n).filter (tEnabled s)).map (· + 1)

/-- run until nothing is enabled (lowest actor first); remember whether a choice ever existed -/
def settle : Nat → St → St
  | 0, s => { s with racy := true }
  | fuel + 1, s =>
    match enabledList s with
    | [] => s
    | [a] => settle fuel { s with c := step s.c a }
    | a :: _ => settle fuel { s with c := step s.c a, racy := true }

def fuel : Nat := 4000

def spawnT (s : St) (pc : TPC) : St × Nat :=
  ({ s with c := setT s.c s.n pc, n := s.n + 1 }, s.n)

/-- a synchronous Tell by the harness goroutine: both steps, nothing else in between -/
def tell (s : St) (pill : Bool) : St :=
  let (s1, i) := spawnT s (.tCheck pill)
  let c1 := step s1.c (i + 1)
  let ok := match c1.threads i with | .tEnq _ => true | _ => false
  let c2 := if ok then step c1 (i + 1) else c1
  settle fuel { s1 with c := c2, res := (if ok then "ok" else "dead") :: s1.res }

def launch (s : St) (pc : TPC) : St :=
  let (s1, i) := spawnT s pc
  let s2 := settle fuel s1
  let r := match s2.c.threads i with
    | .done => "done"
    | _ => if tParked s2 i then "parked" else "blocked"
  { s2 with res := r :: s2.res }

def b01 (b : Bool) : String := if b then "1" else "0"

def probe (c : Cfg) : String :=
  "r" ++ b01 c.running ++ "s" ++ b01 c.stopping ++ "u" ++ b01 c.suspended ++ "p" ++ b01 c.passivating ++
  "d" ++ (match c.sched with | .idle => "0" | .scheduled => "1" | .processing => "2") ++
  (if c.box == 0 && c.sysbox == 0 then "e" else "q") ++ (if c.beh then "B" else "n")

def gateOp (s : St) (f : St → St) : St :=
  let s1 := settle fuel (f s)
  { s1 with res := "." :: s1.res }

/-- `none` = the model does not cover this action -/
def doOp (s : St) (op : String) : Option St :=
  if op = "g+r" then some (gateOp s fun s => { s with gr := true })
  else if op = "g-r" then some (gateOp s fun s => { s with gr := false })
  else if op = "g+p" then some (gateOp s fun s => { s with gp := true })
  else if op = "g-p" then some (gateOp s fun s => { s with gp := false })
  else if op = "g+s" then some (gateOp s fun s => { s with gs := true })
  else if op = "g-s" then some (gateOp s fun s => { s with gs := false })
  else if op = "hog" then some (gateOp s fun s => { s with hog := true })
  else if op = "unhog" then some (gateOp s fun s => { s with hog := false })
  else if op = "t" then some (tell s false)
  else if op = "pill" then some (tell s true)
  else if op = "kill" then some (launch s (.xPre .kill))
  else if op = "pstop" then some (launch s (.xPre .stop))
  else if op = "parent" then some (launch s (.xPre .parent))
  else if op = "ctx" then some (launch s (.xPre .ctx))
  else if op = "sup" then some (launch s (.xPre .sup))
  else if op = "pass" then some (launch s .pCheck)
  else if op = "restart" then some (launch s .rCheck)
  else if op = "probe" then
    let s1 := settle fuel s
    some { s1 with res := probe s1.c :: s1.res }
  else none

def evStr : Ev → String
  | .preB _ v => "preB/" ++ v.toString
  | .preE _ => "preE"
  | .recvB _ => "recvB"
  | .recvE _ => "recvE"
  | .postB _ v => "postB/" ++ v.toString
  | .postE _ => "postE"

def runOps : St → List String → Option St
  | s, [] => some s
  | s, op :: ops =>
    match doOp s op with
    | some s' => runOps s' ops
    | none => none

def parseBudget (cfg : List String) : Nat :=
  match cfg.find? (·.startsWith "b=") with
  | some t => ((t.drop 2).toString.toNat?).getD 32
  | none => 32

def model (line : String) : String :=
  match line.splitOn "|" with
  | [cfg, ops] =>
    let cfgw := words cfg
    match cfgw.head? with
    | none => "bad-case"
    | some topo =>
      if topo != "solo" && topo != "child" && topo != "sib" then "bad-case" else
      let c0 := init (parseBudget cfgw) (fun _ => .done)
      let s0 := settle fuel { c := c0 }
      match runOps s0 (words ops) with
      | none => "*"
      | some s =>
        let s := settle fuel { s with gr := false, gp := false, gs := false, hog := false }
        if s.racy then "*" else
        let stuck := (List.range s.n).any fun i => s.c.threads i != .done
        " ".intercalate s.res.reverse ++ " | LOG " ++ " ".intercalate (s.c.log.reverse.map evStr) ++ " | FIN " ++
          (if stuck then "timeout " else "") ++ probe s.c
  | _ => "bad-case"

/-! ### judge: the spec monitor on the implementation's history -/

def parseEv (tok : String) : Option Ev :=
  match tok.splitOn "@" with
  | [kind, rest] =>
    let (gs, via) := match rest.splitOn "/" with
      | [g] => (g, "")
      | g :: v :: _ => (g, v)
      | [] => ("", "")
    match gs.toNat? with
    | none => none
    | some g =>
      if kind = "preB" then some (.preB g (Via.ofString via))
      else if kind = "preE" then some (.preE g)
      else if kind = "recvB" then some (.recvB g)
      else if kind = "recvE" then some (.recvE g)
      else if kind = "postB" then some (.postB g (Via.ofString via))
      else if kind = "postE" then some (.postE g)
      else none
  | _ => none

def judge (line : String) : String :=
  let (_, o) := splitTab line
  if o.startsWith "CRASH" || o = "bad-case" then "bad harness: " ++ o else
  match o.splitOn "|" with
  | [_, log, fin] =>
    let toks := (words log).drop 1
    match toks.mapM parseEv with
    | none => "bad unparsable history"
    | some evs =>
      let _ := fin
      match (violations evs).eraseDups with
      | [] => "ok"
      | vs => "bad " ++ " ".intercalate vs
  | _ => "bad unparsable output"

def run (args : List String) : IO UInt32 := runWith args model judge

end GoaktVerif.Driver.C06

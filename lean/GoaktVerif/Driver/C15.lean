import GoaktVerif.Driver.Conc
import GoaktVerif.Model.C15
import GoaktVerif.Model.C15Grain
import GoaktVerif.Spec.C15

/-
C15 driver:  ask <asis|nopool|fixed> | prog0 ; prog1 ; … | schedule      ops: a<k> / b<k> / c<k> (PID.Ask / actor.Ask / handleRemoteAsk with request id k: one protocol), h (dequeue + Response)
With N programs, schedule entry t < N steps thread t, entry N+i is the deadline of caller i.
`CAS:responseClosed` and the send of `Response` are one step here, as in the instrumented code.
-/
namespace GoaktVerif.Driver.C15
open GoaktVerif.Driver
open GoaktVerif.Model.C15

def parseOp (s : String) : Option Op :=
  if s = "h" then some .handle
  else if s.startsWith "a" || s.startsWith "b" || s.startsWith "c" then (s.drop 1).toString.toNat?.map .ask
  else none

def showRes : Res → String
  | .reply v => s!"r{v}"
  | .timeout => "timeout"
  | .handled k => s!"h{k}"
  | .empty => "empty"

def flags (l : List Bool) : String :=
  if l.isEmpty then "-" else String.join (l.map fun b => if b then "t" else "f")

def machine : Machine where
  Cfg := Model.C15.Cfg
  init := fun cfg progs =>
    let mode? : Option Mode := match words cfg with
      | ["ask", "asis"] => some .asIs
      | ["ask", "nopool"] => some .noPool
      | ["ask", "fixed"] => some .fixed
      | _ => none
    match mode?, progs.mapM (fun (p : List String) => p.mapM parseOp) with
    | some m, some ps => some (Model.C15.init m ps)
    | _, _ => none
  nthreads := fun c => 2 * c.threads.length
  done := fun c t =>
    let i := if t < c.threads.length then t else t - c.threads.length
    match c.threads[i]? with
    | some th => th.pc.isNone
    | none => true
  step := fun c t =>
    let n := c.threads.length
    if t ≥ n then ("Timeout", timeout c (t - n))
    else match c.threads[t]? with
      | none => ("!nothread", c)
      | some th =>
        match th.pc with
        | none => ("!done", c)
        | some pc =>
          if blocked c th then (label pc ++ "!blocked", c)
          else
            let c1 := Model.C15.step c t
            let c2 := match pc, (c1.threads[t]?).bind (·.pc) with
              | .hCas .., some (.hSend ..) => Model.C15.step c1 t
              | _, _ => c1
            (label pc, c2)
  results := fun c => c.threads.map fun t => t.hist.reverse.map fun (_, r) => showRes r
  final := fun c =>
    s!"ctxpool={flags (c.ctxPool.map fun i => (ctxOf c i).closed)} chanpool={flags (c.chanPool.map fun i => (chanOf c i).isSome)} mbox={c.mbox.length} timers=ok"

/-! ### grain path:  gask asis | progs | schedule -/

def parseOpG (s : String) : Option Model.C15Grain.Op :=
  if s = "h" then some .handle
  else if s.startsWith "a" then (s.drop 1).toString.toNat?.map .ask
  else none

def showResG : Model.C15Grain.Res → String
  | .reply v => s!"r{v}"
  | .timeout => "timeout"
  | .handled k => s!"h{k}"
  | .empty => "empty"

def grainMachine : Machine where
  Cfg := Model.C15Grain.Cfg
  init := fun cfg progs =>
    match words cfg, progs.mapM (fun (p : List String) => p.mapM parseOpG) with
    | ["gask", "asis"], some ps => some (Model.C15Grain.init false ps)
    | ["gask", "fixed"], some ps => some (Model.C15Grain.init true ps)
    | _, _ => none
  nthreads := fun c => 2 * c.threads.length
  done := fun c t =>
    let i := if t < c.threads.length then t else t - c.threads.length
    match c.threads[i]? with
    | some th => th.pc.isNone
    | none => true
  step := fun c t =>
    let n := c.threads.length
    if t ≥ n then ("Timeout", Model.C15Grain.timeout c (t - n))
    else match c.threads[t]? with
      | none => ("!nothread", c)
      | some th =>
        match th.pc with
        | none => ("!done", c)
        | some pc =>
          if Model.C15Grain.blocked c th then (Model.C15Grain.label pc ++ "!blocked", c)
          else
            let c1 := Model.C15Grain.step c t
            let c2 := match pc, (c1.threads[t]?).bind (·.pc) with
              | .hCas .., some (.hSend ..) => Model.C15Grain.step c1 t
              | _, _ => c1
            (Model.C15Grain.label pc, c2)
  results := fun c => c.threads.map fun t => t.hist.reverse.map fun (_, r) => showResG r
  final := fun c =>
    s!"ctxpool={flags (c.ctxPool.map fun i => (Model.C15Grain.ctxOf c i).closed)} chanpool={c.chanPool.length} mbox={Model.C15Grain.linked c 1000 c.head} timers=ok"

def model (line : String) : String :=
  if line.startsWith "gask" then runConc grainMachine line else runConc machine line

def judge (line : String) : String :=
  let (case, out) := splitTab line
  Spec.C15.judge case out

def run (args : List String) : IO UInt32 := runWith args model judge

end GoaktVerif.Driver.C15

import GoaktVerif.Driver.Util
import GoaktVerif.Model.C11
import GoaktVerif.Spec.C11

namespace GoaktVerif.Driver.C11
open GoaktVerif.Driver GoaktVerif.Model.C11

def parseReq (kind : String) (args : List String) : Option Req :=
  match kind, args with
  | "S", [a] => some ⟨.spawn, [a]⟩
  | "F", [a] => some ⟨.func, [a]⟩
  | "C", [p, x] => some ⟨.child, [p, x]⟩
  | _, _ => none

def parseOp (tok : String) : Op :=
  if tok.startsWith "P(" && tok.endsWith ")" then
    let inner := ((tok.drop 2).dropEnd 1).toString
    match (inner.splitOn ",").mapM (fun s => match s.splitOn "." with | k :: args => parseReq k args | [] => none) with
    | some rs => .par rs
    | none => .bad
  else
    match tok.splitOn "." with
    | "K" :: p => if p.isEmpty then .bad else .kill p
    | "bK" :: p => if p.isEmpty then .bad else .kBegin p
    | "eK" :: p => if p.isEmpty then .bad else .kEnd p
    | "eS" :: p | "eF" :: p | "eC" :: p => .sEnd p
    | "cS" :: p | "cF" :: p | "cC" :: p => .cancel p
    | "jS" :: p | "jF" :: p | "jC" :: p => .join p
    | k :: args =>
      if k = "S" || k = "F" || k = "C" then (match parseReq k args with | some r => .full r | none => .bad)
      else if k = "bS" || k = "bF" || k = "bC" then (match parseReq (k.drop 1).toString args with | some r => .sBegin r | none => .bad)
      else if k = "fS" || k = "fF" || k = "fC" then (match parseReq (k.drop 1).toString args with | some r => .follow r | none => .bad)
      else .bad
    | [] => .bad

/-- PID numbers are handed out by first appearance in the output -/
def pidNo (seen : List ProcId) (p : ProcId) : List ProcId × Nat :=
  match seen.idxOf? p with
  | some i => (seen, i + 1)
  | none => (seen ++ [p], seen.length + 1)

def showPid (seen : List ProcId) (p : ProcId) (running : Bool) : List ProcId × String :=
  let (seen', n) := pidNo seen p
  (seen', s!"p{n}{if running then "r" else "s"}")

partial def showOut (seen : List ProcId) : Out → List ProcId × String
  | .pid p r => showPid seen p r
  | .pre => (seen, "pre") | .post => (seen, "post") | .ok => (seen, "ok") | .nf => (seen, "nf")
  | .off => (seen, "off") | .busy => (seen, "busy") | .none => (seen, "none") | .badOp => (seen, "bad-op")
  | .err m => (seen, "err:" ++ m)
  | .wait => (seen, "wait")
  | .group rs =>
    let (seen', ss) := rs.foldl (fun (acc : List ProcId × List String) o => let (s1, t) := showOut acc.1 o; (s1, t :: acc.2)) (seen, [])
    (seen', "[" ++ ",".intercalate ss.reverse ++ "]")
  | .shared rs =>
    -- followers' results: PID identity only
    let (seen', ss) := rs.foldl (fun (acc : List ProcId × List String) o =>
      match o with
      | .pid p _ => let (s1, n) := pidNo acc.1 p; (s1, s!"p{n}" :: acc.2)
      | o => let (s1, t) := showOut acc.1 o; (s1, t :: acc.2)) (seen, [])
    (seen', "[" ++ ",".intercalate ss.reverse ++ "]")

def insertSorted (x : String) : List String → List String
  | [] => [x]
  | y :: ys => if x ≤ y then x :: y :: ys else y :: insertSorted x ys

def sortStrings (l : List String) : List String := l.foldr insertSorted []

def pathStr (k : Path) : String := "/".intercalate k

/-- the harness releases every spawn still held before it takes the digest -/
def closeFlights (s : St) : St :=
  let keys := sortStrings (s.flights.map fun f => pathStr f.1)
  keys.foldl (fun s k =>
    match s.flights.find? (fun f => pathStr f.1 = k) with
    | some f => (spawnEnd s f.1 f.2.1 f.2.2).1
    | none => s) s

def digest (seen : List ProcId) (s : St) : String :=
  let nodes := (s.tree.map fun n => (pathStr n.1, n.2))
  let sorted := sortStrings (nodes.map (·.1))
  let (_, toks) := sorted.foldl (fun (acc : List ProcId × List String) ps =>
      match nodes.find? (·.1 = ps) with
      | some (_, p) => let (s1, t) := showPid acc.1 p (isRunning s p); (s1, (ps ++ "=" ++ t) :: acc.2)
      | none => acc) (seen, [])
  let live := sortStrings ((s.procs.filter (·.phase = .running)).map fun pr => pathStr pr.path)
  let over := sortStrings ((s.maxLive.filter (·.2 > 1)).map fun e => s!"{pathStr e.1}:{e.2}")
  s!"tree={",".intercalate toks.reverse} num={s.counter} live={",".intercalate live} started={s.started} over={",".intercalate over} open={s.stops.length} fol={s.fol.length}"

def model (line : String) : String :=
  let toks := words line
  if toks.isEmpty then "bad-case" else
  let (s, outs) := run St.init (toks.map parseOp)
  let (seen, ss) := outs.foldl (fun (acc : List ProcId × List String) o => let (s1, t) := showOut acc.1 o; (s1, t :: acc.2)) ([], [])
  " ".intercalate ss.reverse ++ " | " ++ digest seen (closeFlights s)

def fieldOf (d key : String) : Option String :=
  (words d).findSome? fun w => if w.startsWith (key ++ "=") then some (w.drop (key.length + 1)).toString else none

def judge (line : String) : String :=
  let (_, o) := splitTab line
  match o.splitOn " | " with
  | [res, d] =>
    let toks := (words res).flatMap fun t =>
      if t.startsWith "[" then (((t.drop 1).dropEnd 1).toString.splitOn ",") else [t]
    if !(toks.all Spec.C11.resultOK) then "bad a successful spawn returned an actor that is not running"
    else
      match fieldOf d "num", fieldOf d "live", fieldOf d "over", fieldOf d "open" with
      | some num, some live, some over, some opn =>
        let lives := if live = "" then [] else live.splitOn ","
        match num.toNat?, opn.toNat? with
        | some n, some k =>
          if over ≠ "" then s!"bad two live instances of one path ({over})"
          else if k > 0 || Spec.C11.settledOK n lives.length then "ok"
          else s!"bad settled actor count {n} differs from the number of running user actors {lives.length}"
        | _, _ => "bad unparsable digest"
      | _, _, _, _ => "bad no digest"
  | _ => if o.startsWith "err:" || o = "bad-case" then "ok" else "bad no digest"

def run (args : List String) : IO UInt32 := runWith args model judge

end GoaktVerif.Driver.C11

import GoaktVerif.Driver.Util
import GoaktVerif.Model.C16
import GoaktVerif.Spec.C16
import GoaktVerif.Driver.C16G

namespace GoaktVerif.Driver.C16
open GoaktVerif.Driver GoaktVerif.Model.C16 GoaktVerif.Spec.C16

/-! parsing of `mode=<a|s|-> max=<n> | ops` (see harness/verifdrv/c16/main.go) -/

def digit? (c : Char) : Option Nat := if c.isDigit then some (c.toNat - '0'.toNat) else none

def mode? (c : Char) : Option (Option Mode) :=
  if c = 'a' then some (some .allowAll) else if c = 's' then some (some .stash)
  else if c = 'o' then some (some .off) else if c = 'd' then some none else none

def op? (t : String) : Option Op :=
  match t.toList with
  | ['H'] => some .H
  | ['L'] => some .L
  | ['S'] => some .S
  | ['q', k, m, th] => do
    let k ← digit? k; let m ← mode? m
    if th = 't' then pure (.q k m true) else if th = 'n' then pure (.q k m false) else none
  | [c, k] => do
    let k ← digit? k
    if c = 'm' then pure (.m k) else if c = 'a' then pure (.a k) else if c = 'r' then pure (.r k) else if c = 'x' then pure (.x k)
    else if c = 'c' then pure (.c k) else if c = 'T' then pure (.T k) else none
  | _ => none

def qLabels (ops : List Op) : List Nat := ops.filterMap fun | .q k _ _ => some k | _ => none

def nodupNat : List Nat → Bool
  | [] => true
  | x :: xs => !xs.contains x && nodupNat xs

structure Case where
  grain : Bool
  installed : Bool
  defMode : Mode
  max : Nat
  ops : List Op

def parse (line : String) : Option Case :=
  match line.splitOn "|" with
  | [cfg, ops] =>
    let ws := words cfg
    let (grain?, ws) := match ws with
      | [m, mx, "to=g"] => (some true, [m, mx])
      | [m, mx, "to=a"] => (some false, [m, mx])
      | [m, mx, "to=n"] => (some false, [m, mx])   -- RequestName: same machinery after the name lookup
      | [m, mx] => (some false, [m, mx])
      | _ => (none, ws)
    match grain?, ws with
    | some grain, [m, mx] =>
      if !(m.startsWith "mode=" && mx.startsWith "max=") then none else do
        let max ← (mx.drop 4).toString.toNat?
        let ms := (m.drop 5).toString
        let (inst, dm) ← (if ms = "a" then some (true, Mode.allowAll) else if ms = "s" then some (true, Mode.stash)
                          else if ms = "-" then some (false, Mode.off) else none)
        let ops ← (words ops).mapM op?
        if nodupNat (qLabels ops) then pure { grain := grain, installed := inst, defMode := dm, max := max, ops := ops } else none
    | _, _ => none
  | _ => none

/-! rendering -/

def renderOutcome : Outcome → String
  | .ok => "ok" | .timeout => "to" | .canceled => "ca"

def renderEntry : Entry → String
  | .handled k => if k ≥ 100 then "a" ++ toString (k - 100) else "m" ++ toString k
  | .held => "H"
  | .req k r => "q" ++ toString k ++ "=" ++ (match r with | .ok => "ok" | .lim => "lim" | .dis => "dis")
  | .cb k o t => "cb" ++ toString k ++ ":" ++ renderOutcome o ++ ":" ++ (if t then "1" else "0")

def renderRes : Res → String
  | .ok => "ok" | .dead => "dead" | .none => "none" | .gone => "gone" | .err => "err" | .held => "held"

def countInMap (l : List (Nat × Req)) : Nat := (l.filter fun p => p.2.inMap).length

def renderCounters (s : St) : String :=
  if !s.installed then "-1.-1.-1.-1"
  else ".".intercalate [toString s.inFlight, toString s.blocking, toString (countInMap s.reqs), toString s.stash.length]

def renderStep (prevLog : Nat) (s : St) (r : Res) : String :=
  let d := s.log.drop prevLog
  "|".intercalate [renderRes r, renderCounters s, if d.isEmpty then "-" else ",".intercalate (d.map renderEntry)]

def renderRun : Nat → List (St × Res) → List String
  | _, [] => []
  | n, (s, r) :: rest => renderStep n s r :: renderRun s.log.length rest

def model (line : String) : String :=
  match parse line with
  | none => "bad-case"
  | some c => " ; ".intercalate (renderRun 0 (run (St.init c.installed c.defMode c.max c.grain) c.ops))

/-! parsing the implementation's output -/

def outcome? (s : String) : Option Outcome :=
  if s = "ok" then some .ok else if s = "to" then some .timeout else if s = "ca" then some .canceled else none

def entry? (s : String) : Option Entry :=
  if s = "H" then some .held
  else if s.startsWith "cb" then
    match (s.drop 2).toString.splitOn ":" with
    | [k, o, t] => do pure (.cb (← k.toNat?) (← outcome? o) (t = "1"))
    | _ => none
  else if s.startsWith "m" then (s.drop 1).toString.toNat?.map .handled
  else if s.startsWith "a" then (s.drop 1).toString.toNat?.map (fun k => Entry.handled (100 + k))
  else if s.startsWith "q" then
    match (s.drop 1).toString.splitOn "=" with
    | [k, r] => do
      let k ← k.toNat?
      if r = "ok" then pure (.req k .ok) else if r = "lim" then pure (.req k .lim) else if r = "dis" then pure (.req k .dis) else none
    | _ => none
  else none

def res? (s : String) : Option Res :=
  if s = "ok" then some .ok else if s = "dead" then some .dead else if s = "none" then some .none
  else if s = "gone" then some .gone else if s = "err" then some .err else if s = "held" then some .held else none

def stepObs? (s : String) : Option StepObs :=
  match s.splitOn "|" with
  | [r, cs, lg] => do
    let r ← res? r
    match (cs.splitOn ".").mapM String.toInt? with
    | some [i, b, st, sh] =>
      let es ← (if lg = "-" then some [] else (lg.splitOn ",").mapM entry?)
      pure { res := r, inFlight := i, blocking := b, states := st, stashed := sh, delta := es }
    | _ => none
  | _ => none

def judge (line : String) : String :=
  let (c, o) := splitTab line
  match parse c with
  | none => "ok"
  | some cs =>
    match (o.splitOn " ; ").mapM stepObs? with
    | none => if cs.ops.isEmpty then "ok" else "bad unparsable output: " ++ (o.take 120).toString
    | some obs =>
      if obs.length != cs.ops.length then s!"bad {obs.length} step results for {cs.ops.length} ops" else
      match judgeAll cs.installed cs.max cs.ops obs with
      | none => "ok"
      | some why => "bad " ++ why

def isGrainCase (line : String) : Bool := (words ((line.splitOn "|").headD "")).head? == some "who=g"

def modelAny (line : String) : String :=
  if isGrainCase line then
    match line.splitOn "|" with
    | [cfg, ops] => GoaktVerif.Driver.C16G.model ((words cfg).drop 1) ops
    | _ => "bad-case"
  else model line

def judgeAny (line : String) : String :=
  let (c, o) := splitTab line
  if isGrainCase c then GoaktVerif.Driver.C16G.judgeLine c o else judge line

def run (args : List String) : IO UInt32 := runWith args modelAny judgeAny

end GoaktVerif.Driver.C16

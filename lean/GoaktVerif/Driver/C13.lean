import GoaktVerif.Driver.Util
import GoaktVerif.Model.C13
import GoaktVerif.Spec.C13

namespace GoaktVerif.Driver.C13
open GoaktVerif.Driver GoaktVerif.Model.C13 GoaktVerif.Spec.C13

def parseBatch (s : String) : Option (List Nat) :=
  if s = "" then some [] else (s.splitOn ",").mapM String.toNat?

def parseBatches (s : String) : Option (List (List Nat)) :=
  if s = "-" then some [] else (s.splitOn "/").mapM parseBatch

def parseAct : Char → Option Act
  | 'S' => some .stash
  | 'U' => some .unstash
  | 'A' => some .unstashAll
  | _ => none

def parseDecision (s : String) : Option (List Act) :=
  if s = "" then none else if s = "h" then some [] else s.toList.mapM parseAct

def parseDecisions (s : String) : Option (List (List Act)) :=
  if s = "-" then some [] else (s.splitOn ",").mapM parseDecision

structure Case where
  buf : Bool
  batches : List (List Nat)
  ds : List (List Act)

def parseCase (line : String) : Option Case :=
  match words line with
  | [b, bs, ds] =>
    if b ≠ "0" ∧ b ≠ "1" then none else
    match parseBatches bs, parseDecisions ds with
    | some bs, some ds => some ⟨b = "1", bs, ds⟩
    | _, _ => none
  | _ => none

def showCode : Code → String
  | .ok => "o" | .notSet => "n" | .empty => "e"

def showObs (o : Nat × Bool × List Code) : String :=
  if o.2.1 then s!"{o.1}:" ++ String.join (o.2.2.map showCode) else toString o.1

def model (line : String) : String :=
  match parseCase line with
  | none => "bad-case"
  | some c =>
    let r := runCase c.buf c.batches c.ds
    if r.1.mailbox.isEmpty then
      " ".intercalate (r.2.1.map showObs) ++ s!";st={(r.1.stash.getD []).length};alias=0"
    else "model-out-of-fuel"

def parseCode : Char → Option Code
  | 'o' => some .ok | 'n' => some .notSet | 'e' => some .empty | _ => none

/-- `<id>` or `<id>:<codes>` -/
def parseEvent (s : String) : Option (Nat × Option (List Code)) :=
  match s.splitOn ":" with
  | [i] => i.toNat?.map (·, none)
  | [i, cs] => match i.toNat?, cs.toList.mapM parseCode with
    | some i, some cs => some (i, some cs)
    | _, _ => none
  | _ => none

def mkObs : List (Nat × Option (List Code)) → List (List Act) → Option (List Obs)
  | [], _ => some []
  | (i, cs) :: es, ds =>
    let d := ds.headD []
    -- the harness prints `<id>` exactly for a plain handle and `<id>:<codes>` otherwise
    if d.isEmpty != cs.isNone then none else
    (mkObs es ds.tail).map (⟨i, d, cs.getD []⟩ :: ·)

def judge (line : String) : String :=
  let (cs, o) := splitTab line
  match parseCase cs with
  | none => if o = "bad-case" then "ok" else "bad harness accepted an unparsable case"
  | some c =>
    match o.splitOn ";st=" with
    | [evs, rest] =>
      let (st, al) := match rest.splitOn ";alias=" with
        | [a, b] => (a, b)
        | _ => (rest, "missing")
      if al ≠ "0" then "bad one ReceiveContext object is in two places at once (main mailbox / stash mailbox / pool): " ++ al else
      match (words evs).mapM parseEvent, st.toNat? with
      | some es, some st =>
        match mkObs es c.ds with
        | none => "bad a delivery does not report the calls its decision prescribes"
        | some obs =>
          match check c.buf c.batches.flatten obs st with
          | none => "ok"
          | some why => "bad " ++ why
      | _, _ => "bad unparsable output: " ++ o
    | _ => "bad unparsable output: " ++ o

def run (args : List String) : IO UInt32 := runWith args model judge

end GoaktVerif.Driver.C13

/-
Generic replay of a controlled schedule on a small-step model (engine E3), mirroring
harness/verifdrv/vlib/conc.go exactly: the schedule, then deterministic round-robin completion
(lowest tid first, one step each, at most `finishCap` steps).
-/
import GoaktVerif.Driver.Util

namespace GoaktVerif.Driver

structure Machine where
  Cfg : Type
  /-- cfg string, per-thread programs → initial configuration (every thread parked at its first point) -/
  init : String → List (List String) → Option Cfg
  nthreads : Cfg → Nat
  done : Cfg → Nat → Bool
  /-- execute the operation thread `tid` is parked at and run it to its next point; returns the label -/
  step : Cfg → Nat → String × Cfg
  /-- per-thread op results so far -/
  results : Cfg → List (List String)
  /-- sequential digest once every thread is done -/
  final : Cfg → String

def finishCap : Nat := 4000

def allDone (M : Machine) (c : M.Cfg) : Bool := (List.range (M.nthreads c)).all (M.done c)

def runSchedule (M : Machine) : M.Cfg → List Nat → List String → M.Cfg × List String
  | c, [], tr => (c, tr)
  | c, t :: ts, tr =>
    if t ≥ M.nthreads c then runSchedule M c ts (s!"{t}:!nothread" :: tr)
    else if M.done c t then runSchedule M c ts (s!"{t}:!done" :: tr)
    else
      let (l, c') := M.step c t
      runSchedule M c' ts (s!"{t}:{l}" :: tr)

/-- one round-robin pass over the threads; returns new cfg, trace, steps used -/
def rrPass (M : Machine) (c : M.Cfg) (tids : List Nat) (tr : List String) (n : Nat) : M.Cfg × List String × Nat :=
  match tids with
  | [] => (c, tr, n)
  | t :: ts =>
    if n ≥ finishCap then (c, tr, n)
    else if M.done c t then rrPass M c ts tr n
    else
      let (l, c') := M.step c t
      rrPass M c' ts (s!"{t}:{l}" :: tr) (n + 1)

def finish (M : Machine) : Nat → M.Cfg → List String → Nat → M.Cfg × List String
  | 0, c, tr, _ => (c, tr)
  | fuel + 1, c, tr, n =>
    if allDone M c || n ≥ finishCap then (c, tr)
    else
      let (c', tr', n') := rrPass M c (List.range (M.nthreads c)) tr n
      finish M fuel c' tr' n'

def runConc (M : Machine) (line : String) : String :=
  match line.splitOn "|" with
  | [cfg, progs, sched] =>
    let progs := (progs.splitOn ";").map words
    match nats? (words sched), M.init cfg.trimAscii.toString progs with
    | some sched, some c0 =>
      let (c1, tr1) := runSchedule M c0 sched []
      let (c2, tr2) := finish M (finishCap + 1) c1 tr1 0
      let tr := if allDone M c2 then tr2 else "cap" :: tr2
      let rs := ";".intercalate ((M.results c2).map fun r => ",".intercalate r)
      let fin := if allDone M c2 then M.final c2 else "unfinished"
      "T " ++ " ".intercalate tr.reverse ++ " | R " ++ rs ++ " | F " ++ fin
    | _, _ => "bad-case"
  | _ => "bad-case"

end GoaktVerif.Driver

import GoaktVerif.Driver.Util
import GoaktVerif.Model.C26
import GoaktVerif.Spec.C26

/-
Line protocol of C26 (see harness/verifdrv/c26/main.go).  String fields are percent-encoded.
-/
namespace GoaktVerif.Driver.C26
open GoaktVerif.Driver GoaktVerif.Model.C26

def hexDigit (n : Nat) : Char := if n < 10 then Char.ofNat (48 + n) else Char.ofNat (55 + n)

def safeByte (b : UInt8) : Bool :=
  let n := b.toNat
  (48 ≤ n && n ≤ 57) || (65 ≤ n && n ≤ 90) || (97 ≤ n && n ≤ 122) ||
  n == 46 || n == 95 || n == 58 || n == 47 || n == 64 || n == 91 || n == 93 || n == 45

def enc (s : Str) : String :=
  if s.isEmpty then "%" else
  let bytes := (String.ofList s).toUTF8
  String.ofList (bytes.toList.flatMap fun b =>
    if safeByte b then [Char.ofNat b.toNat] else ['%', hexDigit (b.toNat / 16), hexDigit (b.toNat % 16)])

def hexVal (c : Char) : Option Nat :=
  let n := c.toNat
  if 48 ≤ n && n ≤ 57 then some (n - 48)
  else if 65 ≤ n && n ≤ 70 then some (n - 55)
  else if 97 ≤ n && n ≤ 102 then some (n - 87)
  else none

def decBytes : List Char → ByteArray → Option ByteArray
  | [], acc => some acc
  | '%' :: a :: b :: rest, acc =>
    match hexVal a, hexVal b with
    | some x, some y => decBytes rest (acc.push (UInt8.ofNat (x * 16 + y)))
    | _, _ => none
  | '%' :: _, _ => none
  | c :: rest, acc => if c.toNat < 128 then decBytes rest (acc.push (UInt8.ofNat c.toNat)) else none

def dec (s : String) : Option Str :=
  if s = "%" then some [] else
  match decBytes s.toList ByteArray.empty with
  | some b => (String.fromUTF8? b).map String.toList
  | none => none

def nodes? : List String → Option (List Node)
  | [] => some []
  | n :: s :: h :: p :: rest =>
    match dec n, dec s, dec h, p.toInt?, nodes? rest with
    | some n, some s, some h, some p, some r => some (⟨n, s, h, p⟩ :: r)
    | _, _, _, _, _ => none
  | _ => none

def showOutcome : Outcome → String
  | .panic => "panic"
  | .err .required => "err:required"
  | .err .format => "err:format"
  | .err .protocol => "err:protocol"
  | .err .portSyntax => "err:portSyntax"
  | .err .portRange => "err:portRange"
  | .ok a =>
    s!"ok,{enc a.self.name},{enc a.self.system},{enc a.self.host},{a.self.port}," ++
    (match a.ancestors with
     | [] => "%"
     | p :: _ => s!"{enc p.name},{enc p.system},{enc p.host},{p.port}")

def showHpof (r : Str × Bool) : String := enc r.1 ++ "," ++ (if r.2 then "1" else "0")

def model (line : String) : String :=
  match words line with
  | ["ps", s] =>
    match dec s with
    | some s => "parse=" ++ showOutcome (parse s) ++ " hpof=" ++ showHpof (hostPortOf s)
    | none => "bad-case"
  | "rt" :: g =>
    match nodes? g with
    | some (self :: anc) =>
      let a : Addr := ⟨self, anc⟩
      let str := build a
      "valid=" ++ (if validate a then "1" else "0") ++ " str=" ++ enc str ++ " parse=" ++ showOutcome (parse str) ++
        " hpof=" ++ showHpof (hostPortOf str) ++ " fmt=" ++ enc (formatHostPort self.host self.port) ++ " hp=" ++ enc (hostPort self)
    | _ => "bad-case"
  | _ => "bad-case"

/-- `key=value` lookup in an output line -/
def field (key : String) (out : String) : Option String :=
  (words out).findSome? fun w => if w.startsWith (key ++ "=") then some (w.drop (key.length + 1)).toString else none

open GoaktVerif.Spec.C26 in
def parsedOf (s : String) : Option Parsed :=
  match s.splitOn "," with
  | "ok" :: n :: sy :: h :: p :: pn :: _ =>
    match dec n, dec sy, dec h, p.toInt?, dec pn with
    | some n, some sy, some h, some p, some pn => some ⟨n, sy, h, p, pn⟩
    | _, _, _, _, _ => none
  | _ => none

def hpofOf (s : String) : Option (Str × Bool) :=
  match s.splitOn "," with
  | [h, b] => (dec h).map fun h => (h, b == "1")
  | _ => none

def judge (line : String) : String :=
  let (c, o) := splitTab line
  if (o.splitOn "panic").length > 1 then "bad panic" else
  match words c with
  | ["ps", _] => if (field "parse" o).isSome then "ok" else "bad unparsable output"
  | "rt" :: g =>
    match nodes? g, field "valid" o, field "parse" o, field "hpof" o with
    | some (self :: anc), some v, some p, some hp =>
      if v != "1" then "ok" else
      -- the all-empty NoSender sentinel is "no actor": outside the property (Props.C26_sentinel_corner)
      if self.name.isEmpty && self.system.isEmpty && self.host.isEmpty && self.port == 0 then "ok" else
      let pn : Str := match anc with
        | [] => []
        | q :: _ => if q.name.isEmpty && q.system.isEmpty && q.host.isEmpty && q.port == 0 then [] else q.name
      match hpofOf hp with
      | some hpv =>
        if Spec.C26.roundtripOK self.name self.system self.host self.port pn (parsedOf p) hpv then "ok"
        else "bad roundtrip: an address accepted by Validate does not survive its text form"
      | none => "bad unparsable output"
    | _, _, _, _ => "bad unparsable output"
  | _ => "bad-case"

def run (args : List String) : IO UInt32 := runWith args model judge

end GoaktVerif.Driver.C26

import GoaktVerif.Driver.Util
import GoaktVerif.Model.C42c

/-! Trace printer for the chunk-aware model (Model/C42c); same format as Driver/C42. -/
namespace GoaktVerif.Driver.C42c
open GoaktVerif.Driver GoaktVerif.Model.C42c
open GoaktVerif.Model.C42 (HS CMsg PUMsg Delivery Step)

def b2n (b : Bool) : Nat := if b then 1 else 0

def showC : CMsg → String
  | .register n => s!"G({n})"
  | .request s n c u v => s!"Q({s},{n},{c},{u},{b2n v})"
  | .ack s n c => s!"K({s},{n},{c})"

def showPU : PUMsg → String
  | .requestNext s t => s!"N({s},{t})"
  | .stored s t i q => s!"T({s},{t},{i},{q})"
  | .deliveryConfirmed s i q => s!"F({s},{i},{q})"

def showD (d : Delivery) : String := s!"D({d.session},{d.id},{d.seq},{d.payload})"

def hsNum : HS → Nat
  | .idle => 0 | .credit => 1 | .store => 2 | .storedAck => 3 | .accept => 4

def group (tag : String) (l : List String) : String :=
  if l.isEmpty then "" else tag ++ ":" ++ String.join l ++ " "

/-! ### the chunk-aware model (Model/C42c) prints the same trace format -/


def showPl : Pl → String
  | .whole v => s!"{v}"
  | .piece _ _ _ len => s!"c{len}"

def showU (u : UMsg) : String :=
  if u.mark.chunked then s!"{u.id}:{u.seq}:c{match u.payload with | .piece _ _ _ l => l | .whole _ => 0}/{b2n u.mark.first}{b2n u.mark.last}"
  else s!"{u.id}:{u.seq}:{showPl u.payload}"

def showP : PMsg → String
  | .regAck s nx n => s!"A({s},{nx},{n})"
  | .sequenced s m =>
    if m.mark.chunked then s!"SC({s},{m.id},{m.seq},{match m.payload with | .piece _ _ _ l => l | .whole _ => 0},{b2n m.mark.first},{b2n m.mark.last})"
    else s!"S({s},{m.id},{m.seq},{showPl m.payload})"

def digestP (p : Producer) : String :=
  let unc := ",".intercalate (p.unconfirmed.map showU)
  let st := match p.storedMessage with | some m => showPU m | none => "-"
  s!"P\{cur={p.currentSeq} conf={p.confirmedSeq} pers={p.persistedConfirmedSeq} unc=[{unc}] reg={b2n p.registered} n={p.nonce} dem={p.demandUpTo} span={p.windowSpan} hs={hsNum p.handshake} tok={p.token} pid={p.pendingId} pseq={p.pendingSeq} ppl={p.pendingPayload} st={st} pch={p.pendingChunks.length} lt={p.lastToken} lid={p.lastId} f={b2n p.failed}}"

def digestC (c : Consumer) : String :=
  let buf := ",".intercalate (c.buffer.map showU)
  let inf := match c.inFlight with | some d => showD d | none => "-"
  s!"C\{w={c.window} hp={b2n c.hasProducer} s={c.session} n={c.nonce} exp={c.expectedSeq} conf={c.confirmedSeq} upto={c.requestUpToSeq} buf=[{buf}] inf={inf} rl={c.runLastSeq} saw={b2n c.sawValidTraffic} gap={b2n c.lastGap.isSome} f={b2n c.failed}}"

def traceOf (w' : World) (o : StepOut) : String :=
  if o.who == 0 then "-"
  else
    group "pc" ((pcOf o.pouts).map showP) ++ group "cp" ((cpOf o.couts).map showC) ++
    group "pu" ((puOf o.pouts).map showPU) ++ group "cu" ((cuOf o.couts).map showD) ++
    (if o.who == 1 then digestP w'.p else digestC w'.c)

/-- script ops of a chunk-mode case: an ordinary step, or a FORGED SequencedMessage handed to the consumer
    controller under the current session (only the differential uses these: they exercise the terminal
    structural-violation paths `scanChunkRun` / `failWedgedChunkRun`, which a correct producer never triggers) -/
inductive Op
  | step (s : Step)
  /-- whole message `m99` at sequence `seq` -/
  | forgeWhole (seq : Nat)
  /-- first chunk (2 bytes) of message `m98` at sequence `seq` -/
  | forgeFirst (seq : Nat)
  /-- deliver the NEWEST message of the consumer→producer / producer→consumer link (ops `dcpL` / `dpcL`) -/
  | lastCP
  | lastPC

def Op.run (w : World) : Op → World × StepOut
  | .step s => w.step s
  | .forgeWhole q => w.stepC (.fromProducer (.sequenced w.p.session ⟨99, q, .whole (GoaktVerif.Spec.C42.payloadOf 99), {}⟩))
  | .forgeFirst q => w.stepC (.fromProducer (.sequenced w.p.session ⟨98, q, .piece 0 1 2 2, ⟨true, true, false⟩⟩))
  | .lastCP => w.step (.deliverCP (w.netCP.length - 1))
  | .lastPC => w.step (.deliverPC (w.netPC.length - 1))

def runTrace (w : World) : List Op → List String
  | [] => []
  | s :: ss =>
    let (w', o) := s.run w
    traceOf w' o :: runTrace w' ss

def run (window : Nat) (dc : Bool) (maxChunk : Nat) (lens : List Nat) (steps : List Op) : String :=
  let w0 := World.init window 1 dc maxChunk lens
  let init := "init " ++ group "cp" (w0.netCP.map showC) ++ digestP w0.p ++ " " ++ digestC w0.c
  ";".intercalate (init :: runTrace w0 steps)



end GoaktVerif.Driver.C42c

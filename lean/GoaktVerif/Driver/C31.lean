/-
C31 driver.  `model`: interprets a grain script on the small-step model under the prompt reading;
the grain identity is a SEQUENCE of processes (a send that finds its process deleted from the grain
map creates the next one), each an instance of Model.C31.  `judge`: the spec monitor on the hook
history of every grain instance, plus "a deactivated instance is never re-activated".
-/
import GoaktVerif.Driver.Util
import GoaktVerif.Model.C31
import GoaktVerif.Spec.C06

namespace GoaktVerif.Driver.C31
open GoaktVerif.Driver GoaktVerif.Model.C31 GoaktVerif.Spec.C06
open GoaktVerif.Model.C06 (Sched)

structure Proc where
  c : Cfg
  n : Nat := 0

structure St where
  procs : Array Proc
  ga : Bool := false
  gr : Bool := false
  gd : Bool := false
  racy : Bool := false
  lost : Nat := 0
  res : List String := []

def wEnabled (s : St) (p : Proc) : Bool :=
  match p.c.w with
  | .idle => p.c.sched == .scheduled
  | .loop _ => true
  | .rcv _ => !s.gr
  | .dea .deaE _ _ => !s.gd
  | .dea _ _ _ => true

def tParked (s : St) (p : Proc) (i : Nat) : Bool :=
  match p.c.threads i with
  | .aE _ => s.ga
  | .mDea .deaE => s.gd
  | _ => false

def tEnabled (s : St) (p : Proc) (i : Nat) : Bool :=
  match p.c.threads i with
  | .done => false
  | .fresh _ => true              -- the driver moves it to the next process
  | .aE _ => !s.ga
  | .mDea .deaE => !s.gd
  | .sEnsure _ => (p.c.inMap && p.c.active) || p.c.deleted || p.c.inMap
  | _ => true

/-- (process index, actor) pairs that can move -/
def enabledList (s : St) : List (Nat × Nat) :=
  (List.range s.procs.size).flatMap fun k =>
    match s.procs[k]? with
    | none => []
    | some p =>
      (if wEnabled s p then [(k, 0)] else []) ++
        ((List.range p.n).filter (tEnabled s p)).map fun i => (k, i + 1)

def newProc (reent : Bool) (budget : Nat) (pill : Bool) : Proc :=
  -- default options: deactivateAfter is minutes away, a passivation pill only re-registers the grain
  { c := init reent false budget (fun i => if i = 0 then .aB pill else .done), n := 1 }

def addThread (p : Proc) (pc : GT) : Proc := { c := setT p.c p.n pc, n := p.n + 1 }

/-- one move; a thread that turned `fresh` is re-issued against the newest process (or creates it) -/
def move (s : St) (k a : Nat) : St :=
  match s.procs[k]? with
  | none => s
  | some p =>
    match a with
    | 0 => { s with procs := s.procs.set! k { p with c := step p.c 0 } }
    | i + 1 =>
      match p.c.threads i with
      | .fresh pill =>
        let p' := { p with c := setT p.c i .done }
        let s1 := { s with procs := s.procs.set! k p' }
        let last := s1.procs.size - 1
        -- ensureNewGrainProcess builds the next process with newGrainConfig(): DEFAULT options, the
        -- reentrancy (and every other option) given to GrainIdentity is not carried over
        if k == last then { s1 with procs := s1.procs.push (newProc false p.c.budget pill) }
        else match s1.procs[last]? with
          | some q => { s1 with procs := s1.procs.set! last (addThread q (.sEnsure pill)) }
          | none => s1
      | .sRecv _ =>
        let lost := if p.c.active then s.lost else s.lost + 1
        { s with procs := s.procs.set! k { p with c := step p.c (i + 1) }, lost := lost }
      | _ => { s with procs := s.procs.set! k { p with c := step p.c (i + 1) } }

def settle : Nat → St → St
  | 0, s => { s with racy := true }
  | fuel + 1, s =>
    match enabledList s with
    | [] => s
    | [(k, a)] => settle fuel (move s k a)
    | (k, a) :: _ => settle fuel { move s k a with racy := true }

def fuel : Nat := 4000

def b01 (b : Bool) : String := if b then "1" else "0"

def probe (s : St) : String :=
  match s.procs[s.procs.size - 1]? with
  | none => "?"
  | some p =>
    if !p.c.inMap then "m0" else
    "m1a" ++ b01 p.c.active ++ "o" ++ b01 p.c.onPill ++
    "d" ++ (match p.c.sched with | .idle => "0" | .scheduled => "1" | .processing => "2") ++
    "q" ++ toString p.c.box.length

/-- issue a send / passivation attempt against the newest process; report how far it got -/
def launch (s : St) (pc : GT) (isSend : Bool) : St :=
  let last := s.procs.size - 1
  match s.procs[last]? with
  | none => s
  | some p =>
    let i := p.n
    let s1 := { s with procs := s.procs.set! last (addThread p pc) }
    let s2 := settle fuel s1
    -- where did the activity end up?  follow it: it is thread i of process `last`, or (after
    -- `fresh`) the newest thread of the newest process
    let r :=
      match s2.procs[last]? with
      | none => "?"
      | some p2 =>
        match p2.c.threads i with
        | .done =>
          if isSend then
            -- moved on to a newer process?
            if s2.procs.size - 1 > last then
              match s2.procs[s2.procs.size - 1]? with
              | some q =>
                let j := q.n - 1
                (match q.c.threads j with
                 | .done => "sent"
                 | _ => if tParked s2 q j then "parked" else "wait")
              | none => "?"
            else "sent"
          else "done"
        | _ => if tParked s2 p2 i then "parked" else "wait"
    { s2 with res := r :: s2.res }

def gateOp (s : St) (f : St → St) : St :=
  let s1 := settle fuel (f s)
  { s1 with res := "." :: s1.res }

def doOp (s : St) (op : String) : Option St :=
  if op = "g+a" then some (gateOp s fun s => { s with ga := true })
  else if op = "g-a" then some (gateOp s fun s => { s with ga := false })
  else if op = "g+r" then some (gateOp s fun s => { s with gr := true })
  else if op = "g-r" then some (gateOp s fun s => { s with gr := false })
  else if op = "g+d" then some (gateOp s fun s => { s with gd := true })
  else if op = "g-d" then some (gateOp s fun s => { s with gd := false })
  else if op = "t" || op = "T" then some (launch s (.sEnsure false) true)
  else if op = "pill" || op = "PILL" then some (launch s (.sEnsure true) true)
  else if op = "pass" then some (launch s .mCheck false)
  else if op = "probe" then
    let s1 := settle fuel s
    some { s1 with res := probe s1 :: s1.res }
  else none

def runOps : St → List String → Option St
  | s, [] => some s
  | s, op :: ops =>
    match doOp s op with
    | some s' => runOps s' ops
    | none => none

def evStr : Ev → String
  | .preB _ _ => "actB"
  | .preE _ => "actE"
  | .recvB _ => "rcvB"
  | .recvE _ => "rcvE"
  | .postB _ v => "deaB/" ++ v.toString
  | .postE _ => "deaE"

def parseBudget (cfg : List String) : Nat :=
  match cfg.find? (·.startsWith "b=") with
  | some t => ((t.drop 2).toString.toNat?).getD 32
  | none => 32

/-- the scenario starts with the identity activated by a no-message activation (GrainIdentity) -/
def startProc (reent : Bool) (budget : Nat) : Proc :=
  -- the scenario's first process is created WithLongLivedGrain: no idle time-out, a pill deactivates at once
  let c0 := init reent true budget (fun i => if i = 0 then .aB false else .done)
  -- activation: aB, aE; the activating call carries no message (thread 0 ends without sending)
  let c1 := step (step c0 1) 1
  { c := setT c1 0 .done, n := 1 }

def model (line : String) : String :=
  match line.splitOn "|" with
  | [cfg, ops] =>
    let cfgw := words cfg
    if cfgw.head? != some "grain" then "bad-case" else
    let reent := cfgw.contains "reent"
    let s0 : St := { procs := #[startProc reent (parseBudget cfgw)] }
    match runOps s0 (words ops) with
    | none => "*"
    | some s =>
      let s := settle fuel { s with ga := false, gr := false, gd := false }
      if s.racy then "*" else
      let logs := (List.range s.procs.size).map fun k =>
        match s.procs[k]? with
        | some p => s!"#{k + 1}: " ++ " ".intercalate (p.c.log.reverse.map evStr)
        | none => ""
      " ".intercalate s.res.reverse ++ " | LOG " ++ " ; ".intercalate logs ++ " | FIN " ++
        (if s.lost > 0 then s!"lost={s.lost} " else "") ++ probe s
  | _ => "bad-case"

/-! ### judge -/

/-- `kind@gid[/via]#inst` -/
def parseEv (tok : String) : Option (Nat × Ev) :=
  match tok.splitOn "#" with
  | [body, inst] =>
    match inst.toNat?, body.splitOn "@" with
    | some k, [kind, rest] =>
      let (gs, via) := match rest.splitOn "/" with
        | [g] => (g, "")
        | g :: v :: _ => (g, v)
        | [] => ("", "")
      match gs.toNat? with
      | none => none
      | some g =>
        if kind = "actB" then some (k, .preB g .spawn)
        else if kind = "actE" then some (k, .preE g)
        else if kind = "rcvB" then some (k, .recvB g)
        else if kind = "rcvE" then some (k, .recvE g)
        else if kind = "deaB" then some (k, .postB g (Via.ofString via))
        else if kind = "deaE" then some (k, .postE g)
        else none
    | _, _ => none
  | _ => none

def judge (line : String) : String :=
  let (_, o) := splitTab line
  if o.startsWith "CRASH" || o = "bad-case" then "bad harness: " ++ o else
  match o.splitOn "|" with
  | [_, log, _] =>
    let toks := (words log).drop 1
    match toks.mapM parseEv with
    | none => "bad unparsable history"
    | some evs =>
      let insts := (evs.map (·.1)).eraseDups
      let vs := insts.flatMap fun k =>
        let h := (evs.filter (·.1 == k)).map (·.2)
        -- an instance is activated once: a second actB on the same Go object is a re-activation
        let acts := (h.filter fun e => match e with | .preB _ _ => true | _ => false).length
        (violations h).eraseDups ++ (if acts > 1 then ["reactivated"] else [])
      match vs.eraseDups with
      | [] => "ok"
      | vs => "bad " ++ " ".intercalate vs
  | _ => "bad unparsable output"

def run (args : List String) : IO UInt32 := runWith args model judge

end GoaktVerif.Driver.C31

import GoaktVerif.Driver.Util
import GoaktVerif.Model.C16G
import GoaktVerif.Spec.C16G

/-! line-protocol front-end of the grain-requester model (`who=g ...` cases of C16); used by Driver/C16.lean -/
namespace GoaktVerif.Driver.C16G
open GoaktVerif.Driver GoaktVerif.Model.C16G
open GoaktVerif.Model.C16 (Mode)

def digit? (c : Char) : Option Nat := if c.isDigit then some (c.toNat - '0'.toNat) else none

def mode? (c : Char) : Option (Option Mode) :=
  if c = 'a' then some (some .allowAll) else if c = 's' then some (some .stash)
  else if c = 'o' then some (some .off) else if c = 'd' then some none else none

def nodupNat : List Nat → Bool
  | [] => true
  | x :: xs => !xs.contains x && nodupNat xs

/-! ### a grain as the requester (`who=g ...`) -/


def op? (t : String) : Option Op :=
  match t.toList with
  | ['H'] => some .H
  | ['L'] => some .L
  | ['S'] => some .S
  | ['q', k, m, th] => do
    let k ← digit? k; let m ← mode? m
    if th = 't' then pure (.q k m true) else if th = 'n' then pure (.q k m false) else none
  | [c, k] => do
    let k ← digit? k
    if c = 'm' then pure (.m k) else if c = 'r' then pure (.r k) else if c = 'x' then pure (.x k)
    else if c = 'c' then pure (.c k) else if c = 'T' then pure (.T k) else none
  | _ => none

def qLabels (ops : List Op) : List Nat := ops.filterMap fun | .q k _ _ => some k | _ => none

def renderOutcome : Outcome → String
  | .ok => "ok" | .timeout => "to" | .canceled => "ca" | .limit => "lim" | .disabled => "dis"

def renderEntry : Entry → String
  | .handled k => "m" ++ toString k
  | .held => "H"
  | .req k => "q" ++ toString k
  | .cb k o t => "cb" ++ toString k ++ ":" ++ renderOutcome o ++ ":" ++ (if t then "1" else "0")
  | .deactivated => "D"

def isCancelCb : Entry → Bool
  | .cb _ .canceled _ => true
  | _ => false

def cbLabel : Entry → Nat
  | .cb k _ _ => k
  | _ => 0

def insertBy (e : Entry) : List Entry → List Entry
  | [] => [e]
  | x :: xs => if cbLabel e ≤ cbLabel x then e :: x :: xs else x :: insertBy e xs

/-- the order in which a shutdown cancels several requests follows Go map iteration: every maximal run of
    consecutive cancelled-continuation entries is sorted by label (the harness does the same) -/
def canon : List Entry → List Entry → List Entry
  | [], run => run
  | e :: es, run =>
    if isCancelCb e then canon es (insertBy e run)
    else run ++ e :: canon es []

def renderCounters (s : St) : String :=
  if !s.active then "x"
  else if !s.installed then "-1.-1.-1." ++ toString s.queue.length ++ "." ++ toString s.responses.length
  else ".".intercalate [toString s.inFlight, toString s.blocking,
    toString (s.reqs.filter fun p => p.2.inMap).length, toString s.queue.length, toString s.responses.length]

def renderRes : Res → String
  | .ok => "ok" | .none => "none" | .gone => "gone"

def renderStep (prevLog : Nat) (s : St) (r : Res) : String :=
  let d := canon (s.log.drop prevLog) []
  "|".intercalate [renderRes r, renderCounters s, if d.isEmpty then "-" else ",".intercalate (d.map renderEntry)]

def renderRun : Nat → List (St × Res) → List String
  | _, [] => []
  | n, (s, r) :: rest => renderStep n s r :: renderRun s.log.length rest

def model (cfg : List String) (opsS : String) : String :=
  let (grain?, ws) := match cfg with
    | [m, mx, "to=g"] => (some true, [m, mx])
    | [m, mx, "to=a"] => (some false, [m, mx])
    | [m, mx] => (some false, [m, mx])
    | _ => (none, cfg)
  match grain?, ws with
  | some grain, [m, mx] =>
    if !(m.startsWith "mode=" && mx.startsWith "max=") then "bad-case" else
    match (mx.drop 4).toString.toNat?, (words opsS).mapM op? with
    | some max, some ops =>
      let ms := (m.drop 5).toString
      let cfg? := if ms = "a" then some (true, Mode.allowAll) else if ms = "s" then some (true, Mode.stash)
                  else if ms = "-" then some (false, Mode.off) else none
      match cfg? with
      | some (inst, dm) =>
        if !nodupNat (qLabels ops) then "bad-case"
        else " ; ".intercalate (renderRun 0 (run (St.init inst dm max grain) ops))
      | none => "bad-case"
    | _, _ => "bad-case"
  | _, _ => "bad-case"

def outcome? (s : String) : Option Outcome :=
  if s = "ok" then some .ok else if s = "to" then some .timeout else if s = "ca" then some .canceled
  else if s = "lim" then some .limit else if s = "dis" then some .disabled else none

def entry? (s : String) : Option Entry :=
  if s = "H" then some .held
  else if s = "D" then some .deactivated
  else if s.startsWith "cb" then
    match (s.drop 2).toString.splitOn ":" with
    | [k, o, t] => do pure (.cb (← k.toNat?) (← outcome? o) (t = "1"))
    | _ => none
  else if s.startsWith "m" then (s.drop 1).toString.toNat?.map .handled
  else if s.startsWith "q" then (s.drop 1).toString.toNat?.map .req
  else none

def res? (s : String) : Option Res :=
  if s = "ok" then some .ok else if s = "none" then some .none else if s = "gone" then some .gone else none

def stepObs? (s : String) : Option GoaktVerif.Spec.C16G.StepObs :=
  match s.splitOn "|" with
  | [r, cs, lg] => do
    let r ← res? r
    let es ← (if lg = "-" then some [] else (lg.splitOn ",").mapM entry?)
    if cs = "x" then pure { res := r, counters := none, delta := es } else
    match (cs.splitOn ".").mapM String.toInt? with
    | some [i, b, st, q, rs] => pure { res := r, counters := some (i, b, st, q, rs), delta := es }
    | _ => none
  | _ => none

def judgeLine (c o : String) : String :=
  match c.splitOn "|" with
  | [cfg, opsS] =>
    let ws := (words cfg).drop 1
    match ws, (words opsS).mapM op? with
    | m :: mx :: _, some ops =>
      match (mx.drop 4).toString.toNat? with
      | some max =>
        match (o.splitOn " ; ").mapM stepObs? with
        | none => if ops.isEmpty then "ok" else "bad unparsable output: " ++ (o.take 120).toString
        | some obs =>
          if obs.length != ops.length then s!"bad {obs.length} step results for {ops.length} ops" else
          match GoaktVerif.Spec.C16G.judgeAll ((m.drop 5).toString != "-") max ops obs with
          | none => "ok"
          | some why => "bad " ++ why
      | none => "ok"
    | _, _ => "ok"
  | _ => "ok"



end GoaktVerif.Driver.C16G

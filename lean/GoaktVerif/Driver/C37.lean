import GoaktVerif.Driver.Util
import GoaktVerif.Model.C37
import GoaktVerif.Spec.C37

/- Line protocol of C37 (see harness/verifdrv/c37/main.go). -/
namespace GoaktVerif.Driver.C37
open GoaktVerif.Driver GoaktVerif.Model.C37

def errKeys : List String :=
  ["errors.PanicError", "runtime.PanicNilError", "errors.AnyError", "errors.InternalError", "actor.VerifC37ErrA",
   "actor.VerifC37ErrB", "errors.errorString", "nil", "fmt.wrapError"]

def strategy? (n : Int) : Option Strategy := if n = 0 then some .oneForOne else if n = 1 then some .oneForAll else none
def directive? (n : Int) : Option Directive :=
  if n = 0 then some .stop else if n = 1 then some .resume else if n = 2 then some .restart else if n = 3 then some .escalate else none
def mode? (n : Int) : Option Mode :=
  if n = 0 then some .off else if n = 1 then some .allowAll else if n = 2 then some .stashNonReentrant else none

def Strategy.num : Strategy → Nat | .oneForOne => 0 | .oneForAll => 1
def Directive.num : Directive → Nat | .stop => 0 | .resume => 1 | .restart => 2 | .escalate => 3
def Mode.num : Mode → Nat | .off => 0 | .allowAll => 1 | .stashNonReentrant => 2

def ints? (s : String) (sep : String) : Option (List Int) := (s.splitOn sep).mapM String.toInt?

/-- one optlist item → constructor option or post op -/
def item? (it : String) : Option (Option SupOpt × Option PostOp) :=
  if it = "" || it = "N" then some (none, none) else
  let arg := (it.drop 1).toString
  match it.front with
  | 'S' => do let n ← arg.toInt?; let s ← strategy? n; pure (some (.strategy s), none)
  | 'R' => do
    match ← ints? arg ":" with
    | [n, t] => if 0 ≤ n && n < 4294967296 then pure (some (.retry n.toNat t), none) else none
    | _ => none
  | 'B' => do
    match ← ints? arg ":" with
    | [i, m, r] => pure (some (.backoff i m r), none)
    | _ => none
  | 'D' =>
    match arg.splitOn "=" with
    | [e, d] => do
      let e ← e.toNat?; let k ← errKeys[e]?; let d ← d.toInt?; let d ← directive? d
      pure (some (.directive k d), none)
    | _ => none
  | 'A' => do let n ← arg.toInt?; let d ← directive? n; pure (some (.anyError d), none)
  | 'X' => some (none, some .reset)
  | 'T' =>
    match arg.splitOn "=" with
    | [k, d] => do let d ← d.toInt?; let d ← directive? d; pure (none, some (.setByType k d))
    | _ => none
  | _ => none

def buildSup? (spec : String) : Option Sup := do
  let items ← (spec.splitOn ",").mapM item?
  let opts := items.filterMap (·.1)
  let posts := items.filterMap (·.2)
  pure (posts.foldl applyPost (newSupervisor opts))

def insertStr (s : String) : List String → List String
  | [] => [s]
  | x :: xs => if s < x then s :: x :: xs else x :: insertStr s xs
def sortStrs : List String → List String
  | [] => []
  | x :: xs => insertStr x (sortStrs xs)

def showRules (r : Rules) : List String := r.map fun e => s!"{e.1}:{Directive.num e.2}"

def supDump (s : Sup) : String :=
  s!"st={Strategy.num s.strategy};mr={s.maxRetries};to={s.timeout};id={s.initialDelay};md={s.maxDelay};ra={s.resetAfter};rules=" ++
    ",".intercalate (sortStrs (showRules s.rules)) ++ ";any=" ++
    (match rget s.rules anyKey with | some d => toString (Directive.num d) | none => "-")

def durDump : Option WDur → String
  | some d => s!"{d.secs}.{d.nanos}"
  | none => "-"

def specDump (s : SupSpec) : String :=
  s!"st={Strategy.num s.strategy};mr={s.maxRetries};to={durDump s.timeout};dirs=" ++ ",".intercalate (showRules s.directives) ++
    ";any=" ++ (match s.anyError with | some d => toString (Directive.num d) | none => "-") ++
    ";bo=" ++ (match s.backoff with
      | some (i, m, r) => durDump (some i) ++ "/" ++ durDump (some m) ++ "/" ++ durDump (some r)
      | none => "-")

def reDump : Option Reentrancy → String
  | some r => s!"{Mode.num r.mode}:{r.maxInFlight}"
  | none => "-"

def roleDump : Option String → String
  | some r => if r = "" then "%" else r
  | none => "-"

def pasDump : Passivation → String
  | .timeBased ns => s!"t:{ns}"
  | .messageCount n => s!"m:{n}"
  | .longLived => "l"

def wpasDump : Option WPas → String
  | some (.timeBased d) => "t:" ++ durDump (some d)
  | some (.messageCount n) => s!"m:{n}"
  | some .longLived => "l"
  | none => "-"

def pas? (v : String) : Option Passivation :=
  if v = "l" then some .longLived
  else if v.startsWith "t:" then (v.drop 2).toString.toInt?.map .timeBased
  else if v.startsWith "m:" then (v.drop 2).toString.toInt?.map .messageCount
  else none

def pidDump (p : PidCfg) : String :=
  let pas := pasDump p.pas
  let deps := sortStrs (p.deps.map fun d => d.id ++ ":" ++ d.payload)
  s!"sup={supDump p.sup} pas={pas} re={reDump p.re} stash={if p.stash then 1 else 0} role={roleDump p.role} deps=" ++
    (if deps.isEmpty then "-" else ",".intercalate deps) ++ " init=" ++ (match p.initTimeout with | some t => toString t | none => "-")

def depTypeName : String := "actor.verifc37dep"

def wireDump (w : WireActor) : String :=
  let pas := wpasDump w.pas
  let deps := sortStrs (w.deps.map fun d => d.id ++ ":" ++ depTypeName ++ ":" ++ d.id ++ ":" ++ d.payload)
  "sup=" ++ (match w.sup with | some s => specDump s | none => "-") ++
  s!" pas={pas} re={reDump w.re} stash={if w.stash then 1 else 0} role={roleDump w.role} deps=" ++
    (if deps.isEmpty then "-" else ",".intercalate deps) ++ " init=" ++ durDump w.initTimeout

def defaults : Defaults := ⟨newSupervisor [], .timeBased 120000000000⟩

def kv? (w : String) : Option (String × String) :=
  match w.splitOn "=" with
  | k :: v :: rest => some (k, "=".intercalate (v :: rest))
  | _ => none

def applyKV (c : SpawnCfg) (k v : String) : Option SpawnCfg :=
  if v = "-" then some c else
  match k with
  | "sup" => do let s ← buildSup? v; pure { c with sup := some s }
  | "pas" => do let p ← pas? v; pure { c with pas := some p }
  | "re" =>
    match v.splitOn ":" with
    | [m, l] => do let m ← m.toInt?; let m ← mode? m; let l ← l.toInt?; pure { c with re := some (Reentrancy.new m l) }
    | _ => none
  | "stash" => some { c with stash := v = "1" }
  | "role" => some { c with role := some (if v = "%" then "" else v) }
  | "deps" => do
    let ds ← (v.splitOn ",").mapM fun d =>
      match d.splitOn ":" with
      | id :: rest => some (⟨id, ":".intercalate rest⟩ : Dep)
      | [] => none
    pure { c with deps := ds }
  | "init" => do let t ← v.toInt?; pure { c with initTimeout := withInitTimeout t }
  | _ => none

def fieldsLine : String :=
  "SupervisorSpec(strategy#1,max_retries#2,timeout#3,directives#4,any_error_directive#5,backoff_initial_delay#6," ++
  "backoff_max_delay#7,backoff_reset_after#8) " ++
  "SupervisorDirectiveRule(error_type#1,directive#2) ReentrancyConfig(mode#1,max_in_flight#2) " ++
  "Actor(address#1,type#2,singleton#3,relocatable#4,passivation_strategy#5,dependencies#6,enable_stash#7,role#8,supervisor#9," ++
  "reentrancy#10,init_timeout#11,incarnation_id#12,reliable_delivery#13,reliable_companion#14)"

def model (line : String) : String :=
  match words line with
  | ["fields"] => fieldsLine
  | ["sup", spec] =>
    match buildSup? spec with
    | some s =>
      let w := encodeSup s
      "B{" ++ supDump s ++ "} W{" ++ specDump w ++ "} A{" ++ supDump (decodeSup w) ++ "}"
    | none => "bad-case"
  | ["re", m, l] =>
    match m.toInt?.bind mode?, l.toInt? with
    | some m, some l =>
      let r := Reentrancy.new m l
      let w := encodeRe r
      "B{" ++ reDump (some r) ++ "} W{" ++ reDump (some w) ++ "} A{" ++ reDump (some (decodeRe w)) ++ "}"
    | _, _ => "bad-case"
  | ["pas", v] =>
    match pas? v with
    | some p =>
      let w := encodePas p
      "B{" ++ pasDump p ++ "} W{" ++ wpasDump (some w) ++ "} A{" ++ pasDump (decodePas w) ++ "}"
    | none => "bad-case"
  | "cfg" :: kvs =>
    let c0 : SpawnCfg := ⟨none, none, none, false, none, [], none⟩
    match kvs.foldlM (fun c w => (kv? w).bind fun (k, v) => applyKV c k v) c0 with
    | some c =>
      let p := configPID defaults c
      "B{" ++ pidDump p ++ "} W{" ++ wireDump (toSerialize p) ++ "} A{" ++ pidDump (relocate defaults c) ++ "}"
    | none => "bad-case"
  | "rsp" :: kvs =>
    let c0 : SpawnCfg := ⟨none, none, none, false, none, [], none⟩
    match kvs.foldlM (fun c w => (kv? w).bind fun (k, v) => applyKV c k v) c0 with
    | some c =>
      "B{" ++ pidDump (configPID defaults c) ++ "} W{" ++ wireDump (clientEncode c) ++ "} A{" ++ pidDump (remoteSpawn defaults c) ++ "}"
    | none => "bad-case"
  | _ => "bad-case"

def judge (line : String) : String :=
  let (c, o) := splitTab line
  match words c with
  | ["fields"] => "ok"
  | _ =>
    if o.startsWith "err:" || o.startsWith "panic" then "bad the configuration could not be carried: " ++ o
    else if Spec.C37.sameConfig o then "ok"
    else "bad configuration differs after the wire"

def run (args : List String) : IO UInt32 := runWith args model judge

end GoaktVerif.Driver.C37

import GoaktVerif.Driver.Util
import GoaktVerif.Model.Crdt.PNCounter
import GoaktVerif.Model.Crdt.Flag
import GoaktVerif.Model.Crdt.LWWRegister
import GoaktVerif.Model.Crdt.MVRegister
import GoaktVerif.Model.Crdt.ORMap
import GoaktVerif.Spec.C38

/-!
C38 driver.  Case format and dump format: see harness/verifdrv/c38/main.go and
harness/inpkg/crdt/zz_verif_c38.go.  Variables are Go pointers: the driver keeps a heap of cells so
that the two places where the Go API returns its receiver (`ORSet.Remove` / `ORMap.Remove` of an absent
element) alias exactly as in Go, and `ResetDelta` (the only in-place mutator) hits every alias.
-/
namespace GoaktVerif.Driver.C38
open GoaktVerif.Driver GoaktVerif.Model.Crdt GoaktVerif.Spec.C38

/-! ### dumps -/

def pMap (m : AMap Nat) (sep : String := ",") : String := sep.intercalate (m.map fun p => s!"{p.1}.{p.2}")
def pDot (d : Dot) : String := s!"{d.nodeID}.{d.counter}"
def sortDots (l : List Dot) : List Dot := l.mergeSort (fun a b => !Dot.lt b a)
def pDotMap (m : AMap (List Dot)) : String :=
  ",".intercalate (m.map fun p => s!"{p.1}:" ++ "+".intercalate ((sortDots p.2).map pDot))
def pB (b : Bool) : String := if b then "1" else "0"
def pNats (l : List Nat) : String := ",".intercalate (l.map toString)
def pOpt : Option Nat → String
  | none => "_"
  | some v => toString v

def gcState (c : GCounter) : String := pMap c.state ++ "/" ++ pMap c.delta
def dumpGC (c : GCounter) : String := gcState c ++ "~" ++ toString c.value
def dumpPN (c : PNCounter) : String := gcState c.increments ++ "/" ++ gcState c.decrements ++ "~" ++ toString c.value
def dumpFL (x : Flag) : String := pB x.enabled ++ "/" ++ pB x.dirty ++ "~" ++ pB x.value
def dumpLW (r : LWWRegister) : String :=
  s!"{pOpt r.value}/{r.timestamp}/{r.nodeID}/{pB r.dirty}~{pOpt r.value}"
def dumpMV (r : MVRegister) : String :=
  ",".intercalate (r.entries.map fun e => s!"{e.value}@{pDot e.dot}") ++ "/" ++ pMap r.clock ++ "/" ++ pB r.dirty
    ++ "~" ++ pNats r.values
def osState (s : ORSet) : String :=
  pDotMap s.entries ++ "/" ++ pMap s.clock ++ "/" ++ pDotMap s.delta.added ++ "/" ++ pDotMap s.delta.removed
def dumpOS (s : ORSet) : String := osState s ++ "~" ++ pNats s.elements ++ "#" ++ toString s.len
def pValMap (m : AMap GCounter) : String :=
  ",".intercalate (m.map fun p => s!"{p.1}>{pMap p.2.state "+"}>{pMap p.2.delta "+"}")
def dumpOM (m : ORMap GCounter) : String :=
  osState m.keys ++ "/" ++ pValMap m.values ++ "/" ++ pB m.dirty ++ "~" ++ pNats m.keyList ++ "#" ++ toString m.len
    ++ "#" ++ pValMap m.entriesOf

/-! ### the generic register machine -/

structure Ops (σ : Type) where
  new : σ
  merge : σ → σ → σ
  delta? : σ → Option σ
  resetDelta : σ → σ
  dump : σ → String
  /-- type specific op: token name, remaining numeric fields, source ↦ (result, result IS the source pointer) -/
  op : String → List Int → σ → Option (σ × Bool)

structure St (σ : Type) where
  vars : Array Nat      -- variable ↦ cell
  cells : Array σ
  prev : Array String

def alloc {σ} (st : St σ) (d : Nat) (x : σ) : St σ :=
  { st with vars := st.vars.set! d st.cells.size, cells := st.cells.push x }

def cell {σ} [Inhabited σ] (st : St σ) (v : Nat) : σ := st.cells[st.vars[v]!]!

/-- emit `i=dump` for every variable whose dump changed -/
def changes {σ} [Inhabited σ] (o : Ops σ) (st : St σ) (marker : String) : St σ × String := Id.run do
  let mut prev := st.prev
  let mut out : Array String := if marker = "" then #[] else #[marker]
  for i in [0:st.vars.size] do
    let s := o.dump (cell st i)
    if s ≠ prev[i]! then
      out := out.push s!"{i}={s}"
      prev := prev.set! i s
  return ({ st with prev := prev }, ";".intercalate out.toList)

def lawSection {σ} [Inhabited σ] (o : Ops σ) (st : St σ) : String := Id.run do
  let n := st.vars.size
  let v := fun i => cell st i
  let mut out : Array String := #["L"]
  for i in [0:n] do out := out.push s!"V{i}={o.dump (v i)}"
  for i in [0:n] do out := out.push s!"C{i}={o.dump (v i)}"
  for i in [0:n] do
    for j in [0:n] do
      out := out.push s!"M{i}{j}={o.dump (o.merge (v i) (v j))}"
  for i in [0:n] do
    for j in [0:n] do
      for k in [0:n] do
        out := out.push s!"A{i}{j}{k}={o.dump (o.merge (o.merge (v i) (v j)) (v k))}"
        out := out.push s!"B{i}{j}{k}={o.dump (o.merge (v i) (o.merge (v j) (v k)))}"
  out := out.push "P=ok"
  return ";".intercalate out.toList

def stepTok {σ} [Inhabited σ] (o : Ops σ) (st : St σ) (tok : String) : Option (St σ × String) :=
  let f := tok.splitOn ":"
  let nv := st.vars.size
  let ix : String → Option Nat := fun s => s.toNat?.bind fun i => if i < nv then some i else none
  match f with
  | ["L"] => some (st, lawSection o st)
  | ["m", d, a, b] => do
    let d ← ix d; let a ← ix a; let b ← ix b
    some (changes o (alloc st d (o.merge (cell st a) (cell st b))) "")
  | ["c", d, a] => do
    let d ← ix d; let a ← ix a
    some (changes o (alloc st d (cell st a)) "")
  | ["r", a] => do
    let a ← ix a
    let c := st.vars[a]!
    some (changes o { st with cells := st.cells.set! c (o.resetDelta st.cells[c]!) } "")
  | ["D", d, a] => do
    let d ← ix d; let a ← ix a
    match o.delta? (cell st a) with
    | none => some (changes o (alloc st d o.new) "N")
    | some x => some (changes o (alloc st d x) "")
  | name :: d :: a :: rest => do
    let d ← ix d; let a ← ix a
    let args ← rest.mapM String.toInt?
    let (x, same) ← o.op name args (cell st a)
    if same then some (changes o { st with vars := st.vars.set! d st.vars[a]! } "")
    else some (changes o (alloc st d x) "")
  | _ => none

def runOps {σ} [Inhabited σ] (o : Ops σ) (nv : Nat) (toks : List String) : String :=
  let st0 : St σ := { vars := (Array.range nv), cells := Array.replicate nv o.new,
                      prev := Array.replicate nv (o.dump o.new) }
  let rec go (st : St σ) (toks : List String) (acc : Array String) : String :=
    match toks with
    | [] => "|".intercalate acc.toList
    | t :: ts =>
      match stepTok o st t with
      | none => "bad-case"
      | some (st', seg) => go st' ts (acc.push seg)
  go st0 toks #[]

/-! ### per-type operation tables -/

def nat? (i : Int) : Option Nat := if i ≥ 0 then some i.toNat else none

def opsGC : Ops GCounter :=
  { new := .new, merge := .merge, delta? := GCounter.delta?, resetDelta := .resetDelta, dump := dumpGC
    op := fun name args s => match name, args with
      | "i", [n, v] => do some (s.increment (← nat? n) (← nat? v), false)
      | _, _ => none }

def opsPN : Ops PNCounter :=
  { new := .new, merge := .merge, delta? := PNCounter.delta?, resetDelta := .resetDelta, dump := dumpPN
    op := fun name args s => match name, args with
      | "i", [n, v] => do some (s.increment (← nat? n) (← nat? v), false)
      | "k", [n, v] => do some (s.decrement (← nat? n) (← nat? v), false)
      | _, _ => none }

def opsFL : Ops Flag :=
  { new := .new, merge := .merge, delta? := Flag.delta?, resetDelta := .resetDelta, dump := dumpFL
    op := fun name args s => match name, args with
      | "e", [] => some (s.enable, false)
      | _, _ => none }

def opsLW : Ops LWWRegister :=
  { new := .new, merge := .merge, delta? := LWWRegister.delta?, resetDelta := .resetDelta, dump := dumpLW
    op := fun name args s => match name, args with
      | "s", [v, ts, n] => do some (s.set (← nat? v) ts (← nat? n), false)
      | _, _ => none }

def opsMV : Ops MVRegister :=
  { new := .new, merge := .merge, delta? := MVRegister.delta?, resetDelta := .resetDelta, dump := dumpMV
    op := fun name args s => match name, args with
      | "s", [n, v] => do some (s.set (← nat? n) (← nat? v), false)
      | _, _ => none }

def opsOS : Ops ORSet :=
  { new := .new, merge := .merge, delta? := ORSet.delta?, resetDelta := .resetDelta, dump := dumpOS
    op := fun name args s => match name, args with
      | "a", [n, e] => do some (s.add (← nat? n) (← nat? e), false)
      | "x", [e] => do let e ← nat? e; some (s.remove e, s.removeAliases e)
      | "p", [] => some (s.compact, false)
      | _, _ => none }

def opsOM : Ops (ORMap GCounter) :=
  { new := .new, merge := .merge, delta? := ORMap.delta?, resetDelta := .resetDelta, dump := dumpOM
    op := fun name args s => match name, args with
      | "s", [n, k, gn, gv] => do
        some (s.set (← nat? n) (← nat? k) (GCounter.new.increment (← nat? gn) (← nat? gv)), false)
      | "x", [k] => do let k ← nat? k; some (s.remove k, s.removeAliases k)
      | "p", [] => some (s.compact, false)
      | _, _ => none }

def model (line : String) : String :=
  match words line with
  | ty :: nv :: toks =>
    match nv.toNat? with
    | some nv =>
      if nv < 1 || nv > 8 then "bad-case" else
      match ty with
      | "gc" => runOps opsGC nv toks
      | "pn" => runOps opsPN nv toks
      | "fl" => runOps opsFL nv toks
      | "lw" => runOps opsLW nv toks
      | "mv" => runOps opsMV nv toks
      | "os" => runOps opsOS nv toks
      | "om" => runOps opsOM nv toks
      | _ => "bad-case"
    | none => "bad-case"
  | _ => "bad-case"

/-- the judge: evaluates Spec.C38 on the law section printed by the IMPLEMENTATION -/
def judge (line : String) : String :=
  let (c, o) := splitTab line
  match words c with
  | ty :: _ => judgeOutput ty o
  | _ => "bad-case"

def run (args : List String) : IO UInt32 := runWith args model judge

end GoaktVerif.Driver.C38

import GoaktVerif.Driver.Util
import GoaktVerif.Model.C08
import GoaktVerif.Spec.C08

/-
C08 line protocol (all numbers decimal int64):
  bo <n> <i> <m>                 backoffDelay(n, i, m)                                  -> delay
  seq <i> <m> <n0> <k>           backoffDelay(n, i, m) for n = n0 .. n0+k-1             -> delays
  cfg <i> <m> <r>                NewSupervisor(WithExponentialBackoff(i,m,r))           -> i' m' r'
  cfgbo <i> <m> <r> <n>          same supervisor, backoffDelay(n, InitialDelay, MaxDelay) -> delay
  rf <window> <count> <a1> ...   recordFault(window) once per a_k on a PID whose counter starts at
                                 <count>; before call k lastFaultAtNano is set to (clock - a_k), or to 0
                                 for `z`, or to -5 for `neg`                            -> counts, then `fresh`
-/
namespace GoaktVerif.Driver.C08
open GoaktVerif.Driver GoaktVerif.Model.C08 GoaktVerif.Spec.C08

/-- the clock reading the model uses for `rf` cases (only differences matter) -/
def T0 : Int := 1000000000000000000

def lastOf (a : String) : Option Int :=
  if a = "z" then some 0 else if a = "neg" then some (-5) else (a.toInt?).map (T0 - ·)

def rfRun (window : Int) : List String → Int → List Int → Option (List Int)
  | [], _, acc => some acc.reverse
  | a :: rest, count, acc =>
    match lastOf a with
    | some last =>
      let (c, s') := recordFault window T0 ⟨count, last⟩
      rfRun window rest s'.count (c :: acc)
    | none => none

def model (line : String) : String :=
  match words line with
  | ["bo", n, i, m] =>
    match n.toInt?, i.toInt?, m.toInt? with
    | some n, some i, some m => toString (backoff n i m)
    | _, _, _ => "bad-case"
  | ["seq", i, m, n0, k] =>
    match i.toInt?, m.toInt?, n0.toInt?, k.toNat? with
    | some i, some m, some n0, some k => joinInts ((List.range k).map fun (j : Nat) => backoff (n0 + (j : Int)) i m)
    | _, _, _, _ => "bad-case"
  | ["cfg", i, m, r] =>
    match i.toInt?, m.toInt?, r.toInt? with
    | some i, some m, some r => let c := configure i m r; joinInts [c.1, c.2.1, c.2.2]
    | _, _, _ => "bad-case"
  | ["cfgbo", i, m, r, n] =>
    match i.toInt?, m.toInt?, r.toInt?, n.toInt? with
    | some i, some m, some r, some n => let c := configure i m r; toString (backoff n c.1 c.2.1)
    | _, _, _, _ => "bad-case"
  | "rf" :: w :: c :: ages =>
    match w.toInt?, c.toInt? with
    | some w, some c =>
      match rfRun w ages c [] with
      | some outs => joinInts outs ++ " fresh"
      | none => "bad-case"
    | _, _ => "bad-case"
  | _ => "bad-case"

/-- spec replay of an rf case on the implementation's counts -/
def rfJudge (window : Int) : List String → Int → List Int → Bool
  | [], _, [] => true
  | a :: rest, prev, o :: outs =>
    match lastOf a with
    | some last => o == specCount window last T0 prev && rfJudge window rest o outs
    | none => false
  | _, _, _ => false

def judge (line : String) : String :=
  let (c, o) := splitTab line
  match words c with
  | ["bo", n, i, m] =>
    match n.toInt?, i.toInt?, m.toInt?, o.toInt? with
    | some n, some i, some m, some out =>
      -- the law is claimed for configurable pairs only: (0,0)/disabled or 0 < i ≤ m
      if i ≤ 0 then (if out == 0 then "ok" else "bad delay not zero although backoff is disabled")
      else if m < i then "ok"
      else if !boundsOK m out then "bad delay outside [0, max]"
      else if delayOK n i m out then "ok" else s!"bad delay {out} is not min(initial*2^(n-1), max) = {specDelayExec n i m}"
    | _, _, _, _ => "bad unparsable: " ++ o
  | ["seq", i, m, n0, k] =>
    match i.toInt?, m.toInt?, n0.toInt?, k.toNat?, ints? (words o) with
    | some i, some m, some n0, some k, some outs =>
      if outs.length ≠ k then "bad wrong number of results"
      else if i ≤ 0 then (if outs.all (· == 0) then "ok" else "bad delay not zero although backoff is disabled")
      else if m < i then "ok"
      else if !outs.all (boundsOK m) then "bad delay outside [0, max]"
      else if !nondecreasing outs then "bad delay decreases as faults accumulate"
      else
        match (outs.zipIdx).find? (fun ((out, j) : Int × Nat) => !delayOK (n0 + (j : Int)) i m out) with
        | some (out, j) => s!"bad delay {out} at n={n0 + j} is not min(initial*2^(n-1), max) = {specDelayExec (n0 + j) i m}"
        | none => "ok"
    | _, _, _, _, _ => "bad unparsable: " ++ o
  | ["cfg", _, _, _] =>
    match ints? (words o) with
    | some [i', m', r'] =>
      if (i' == 0 && m' == 0) || (decide (0 < i') && decide (i' ≤ m') && decide (0 < r')) then "ok"
      else "bad supervisor holds a pair outside {(0,0)} ∪ {0 < initial ≤ max}"
    | _ => "bad unparsable: " ++ o
  | ["cfgbo", i, m, r, n] =>
    match i.toInt?, m.toInt?, r.toInt?, n.toInt?, o.toInt? with
    | some i, some m, some _r, some n, some out =>
      -- documented: i ≤ 0 ignored (delay 0); max below initial is raised to initial
      let m' := if m < i then i else m
      if i ≤ 0 then (if out == 0 then "ok" else "bad delay not zero although backoff is disabled")
      else if !boundsOK m' out then "bad delay outside [0, max]"
      else if delayOK n i m' out then "ok" else s!"bad delay {out} is not min(initial*2^(n-1), max) = {specDelayExec n i m'}"
    | _, _, _, _, _ => "bad unparsable: " ++ o
  | "rf" :: w :: c :: ages =>
    match w.toInt?, c.toInt? with
    | some w, some c =>
      let ws := words o
      match ints? ws.dropLast with
      | some outs =>
        if ws.getLast? != some "fresh" then "bad lastFaultAtNano not refreshed"
        else if rfJudge w ages c outs then "ok" else "bad fault counter does not follow the window rule"
      | none => "bad unparsable: " ++ o
    | _, _ => "bad-case"
  | _ => "bad-case"

def run (args : List String) : IO UInt32 := runWith args model judge

end GoaktVerif.Driver.C08

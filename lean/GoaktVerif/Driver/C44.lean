import GoaktVerif.Driver.Util
import GoaktVerif.Model.C44
import GoaktVerif.Spec.C44

/-!
Line protocol for C44.  Case: `<deliveryConfirmation 0|1> op op …` with ops
  r<w><c>n<k>                 RegisterConsumer(nonce k) from companion c of worker w
  q<w><c>n<k>a<da>b<db>v<0|1> Request(confirmed = binding(w).confirmedSeq+da, upTo = confirmed+db, viaTimeout)
  k<w><c>n<k>a<da>            Ack(confirmed = binding(w).confirmedSeq+da)
  t<w><c>                     Terminated(companion c of worker w)
  up / xp / tp                producer endpoint handles / loses the head of its mailbox; controller tick
-/
namespace GoaktVerif.Driver.C44
open GoaktVerif.Driver GoaktVerif.Model.C44
open GoaktVerif.Model.C42 (PMsg PUMsg HS)

def b2n (b : Bool) : Nat := if b then 1 else 0

def showP : PMsg → String
  | .regAck s nx n => s!"A({s},{nx},{n})"
  | .sequenced s i q pl => s!"S({s},{i},{q},{pl})"

def showPU : PUMsg → String
  | .requestNext s t => s!"N({s},{t})"
  | .stored s t i q => s!"T({s},{t},{i},{q})"
  | .deliveryConfirmed s i q => s!"F({s},{i},{q})"

def hsNum : HS → Nat
  | .idle => 0 | .credit => 1 | .store => 2 | .storedAck => 3 | .accept => 4

def digest (x : WP) : String :=
  let pend := ",".intercalate (x.pending.map fun j => s!"{j.id}:{j.storeSeq}:{j.payload}")
  let bs := "|".intercalate (x.bindings.map fun b =>
    let unc := ",".intercalate (b.unconfirmed.map fun d => s!"{d.id}:{d.workerSeq}:{d.storeSeq}:{d.payload}")
    s!"{b.name}/{b.comp}/{b.nonce}/{b.currentSeq}/{b.confirmedSeq}/{b.demandUpTo}/[{unc}]")
  let st := match x.storedMessage with | some m => showPU m | none => "-"
  let fd := ",".intercalate (([1, 2, 3] : List Nat).filterMap fun w => (x.find w).map fun b => s!"{w}:{b.freeDemand}")
  s!"W\{ss={x.storeSeq} pend=[{pend}] b=[{bs}] fd=[{fd}] nm={x.bindings.length} nw={x.nextWorker} hs={hsNum x.handshake} tok={x.token} pid={x.pendingId} pss={x.pendingStoreSeq} ppl={x.pendingPayload} st={st} lt={x.lastToken} lid={x.lastId} f={b2n x.failed}}"

def traceOf (x : WP) (o : List WOut) : String :=
  let dests : List (Nat × Nat) := [(1,0),(1,1),(2,0),(2,1),(3,0),(3,1)]
  let ws := dests.map fun (w, c) =>
    let ms := o.filterMap fun | .toWorker n k m => if n == w && k == c then some (showP m) else none | _ => none
    if ms.isEmpty then "" else s!"w{w}{c}:" ++ String.join ms ++ " "
  let pu := o.filterMap fun | .toUser m => some (showPU m) | _ => none
  String.join ws ++ (if pu.isEmpty then "" else "pu:" ++ String.join pu ++ " ") ++ digest x

/-- the producer endpoint (same contract as in Model/C42) and its FIFO mailbox -/
structure Sim where
  x : WP
  inboxP : List PUMsg := []
  answered : Option (Nat × Nat × Nat) := none
  jobs : Nat := 0

/-- `<key><digits>` inside an op, after the three leading characters -/
def numAfter (op : String) (key : Char) : Nat :=
  let cs := (op.drop 3).toString.toList
  let rec go : List Char → Nat
    | [] => 0
    | c :: r => if c == key then (String.ofList (r.takeWhile Char.isDigit)).toNat?.getD 0 else go r
  go cs

def puOf (o : List WOut) : List PUMsg := o.filterMap fun | .toUser m => some m | _ => none

def deliver (s : Sim) (m : WIn) : Sim × String :=
  let (x', o) := s.x.handle m
  ({ s with x := x', inboxP := s.inboxP ++ puOf o }, traceOf x' o)

def stepOp (s : Sim) (op : String) : Sim × String :=
  if op = "tp" then deliver s .tick
  else if op = "xp" then ({ s with inboxP := s.inboxP.drop 1 }, "-")
  else if op = "up" then
    match s.inboxP with
    | [] => (s, "-")
    | m :: rest =>
      let s := { s with inboxP := rest }
      match m with
      | .requestNext ss t =>
        let reuse := match s.answered with | some (t', _, _) => t' == t | none => false
        let s := if reuse then s else
          let k := s.jobs + 1
          { s with answered := some (t, k, Spec.C42.payloadOf k), jobs := k }
        match s.answered with
        | some (_, i, pl) => deliver s (.produced ss t i pl)
        | none => (s, "-")
      | .stored ss t i _ => deliver s (.storedAck ss t i)
      | .deliveryConfirmed _ _ _ => (s, "-")
  else
    match op.toList with
    | kind :: wc :: cc :: _ =>
      let w := wc.toNat - '0'.toNat
      let c := cc.toNat - '0'.toNat
      if w < 1 || w > 3 || c > 1 then (s, "bad-op") else
      let base := match s.x.find w with | some b => b.confirmedSeq | none => 0
      let n := numAfter op 'n'
      if kind == 'r' then deliver s (.register w c n)
      else if kind == 'q' then
        let conf := base + numAfter op 'a'
        deliver s (.request w c s.x.session n conf (conf + numAfter op 'b') (numAfter op 'v' == 1))
      else if kind == 'k' then deliver s (.ack w c s.x.session n (base + numAfter op 'a'))
      else if kind == 't' then deliver s (.terminated w c)
      else (s, "bad-op")
    | _ => (s, "bad-op")

def runOps (s : Sim) : List String → List String
  | [] => []
  | op :: ops => let (s', t) := stepOp s op; t :: runOps s' ops

def model (line : String) : String :=
  match words line with
  | dc :: ops =>
    let x0 : WP := { deliveryConfirmation := dc == "1" }
    ";".intercalate (("init " ++ digest x0) :: runOps { x := x0 } ops)
  | [] => "bad-case"

/-! ### judge: rebuild the snapshots from the harness trace -/

/-- ids of `a:b:c,a:b:c` -/
def idsOf (inner : String) : Option (List Nat) :=
  if inner = "" then some [] else (inner.splitOn ",").mapM fun e => ((e.splitOn ":").headD "").toNat?

/-- strip `prefix[` … `]` -/
def bracket (tok pre : String) : Option String :=
  if tok.startsWith (pre ++ "[") && tok.endsWith "]" then some ((tok.drop (pre.length + 1)).toString.dropEnd 1).toString else none

def snapOf (op seg : String) : Option (Option Spec.C44.Snap) := do
  if seg = "-" || seg = "bad-op" then return none
  let toks := words seg
  let pendTok ← toks.find? (·.startsWith "pend=[")
  let pend ← (bracket pendTok "pend=").bind idsOf
  let bTok ← toks.find? (·.startsWith "b=[")
  let bInner ← bracket bTok "b="
  let unc ← if bInner = "" then some [] else
    (bInner.splitOn "|").mapM fun b =>
      match (b.splitOn "/") with
      | [_, _, _, _, _, _, u] => (bracket u "").bind idsOf
      | _ => none
  let noticeOf (piece : String) : Option (Option Nat) :=
    match piece.splitOn "(" with
    | ["F", args] => (match args.splitOn "," with | [_, i, _] => i.toNat?.map some | _ => none)
    | [_, _] => some none
    | _ => none
  let notices : List Nat ← match toks.find? (·.startsWith "pu:") with
    | some t => ((((t.drop 3).toString.splitOn ")").filter (· ≠ "")).mapM noticeOf).map (fun (l : List (Option Nat)) => l.filterMap id)
    | none => some []
  let fdTok ← toks.find? (·.startsWith "fd=[")
  let fdInner ← bracket fdTok "fd="
  let frees ← if fdInner = "" then some [] else (fdInner.splitOn ",").mapM fun e => ((e.splitOn ":").getD 1 "").toNat?
  let kind := if op = "up" then 1 else if op.startsWith "q" || op.startsWith "k" then 2 else 0
  return some { kind := kind, held := pend ++ unc.flatten, notices := notices, pending := pend.length, maxFree := frees.foldl max 0 }

def judge (line : String) : String :=
  let (c, o) := splitTab line
  match words c with
  | dc :: ops =>
    let segs := o.splitOn ";"
    if segs.length != ops.length + 1 then "bad trace does not match the script" else
    match (("init" :: ops).zip segs).mapM (fun (op, seg) => snapOf op seg) with
    | none => "bad unparsable trace"
    | some snaps =>
      let m := Spec.C44.Mon.run (dc == "1") {} (snaps.filterMap id)
      if m.ok then "ok" else "bad conservation: " ++ m.why
  | [] => "bad-case"

def run (args : List String) : IO UInt32 := runWith args model judge

end GoaktVerif.Driver.C44

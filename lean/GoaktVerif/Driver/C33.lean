import GoaktVerif.Driver.Util
import GoaktVerif.Model.C33
import GoaktVerif.Spec.C33

/-! Line protocol of C33 (see harness/verifdrv/c33/main.go for the case grammar). -/
namespace GoaktVerif.Driver.C33
open GoaktVerif.Driver GoaktVerif.Model.C32 GoaktVerif.Model.C33 GoaktVerif.Spec.C32 GoaktVerif.Spec.C33

/-! ### parsing (same token formats as C32) -/

def hasFlag (flags : String) (c : Char) : Bool := flags.toList.contains c

def parseRoles (s : String) : Option (List Role) :=
  if s = "-" then some [] else (s.splitOn ",").mapM String.toNat?

def parsePeers (s : String) : Option (List (List Role)) :=
  if s = "." then some [] else (s.splitOn ";").mapM parseRoles

def parseActor (tok : String) : Option Actor :=
  match tok.splitOn "." with
  | [i, r] => do
    let i ← i.toNat?; let r ← r.toNat?
    pure { id := i, role := r, singleton := false, relocatable := true, system := false }
  | [i, r, fl] => do
    let i ← i.toNat?; let r ← r.toNat?
    pure { id := i, role := r, singleton := hasFlag fl 's', relocatable := true, system := false }
  | _ => none

def parseActors (s : String) : Option (List Actor) :=
  if s = "-" then some [] else (s.splitOn ",").mapM parseActor

def parseGrain (tok : String) : Option Grain :=
  match tok.splitOn "." with
  | [i] => do let i ← i.toNat?; pure { id := i, disabled := false, eager := false }
  | [i, fl] => do let i ← i.toNat?; pure { id := i, disabled := hasFlag fl 'd', eager := hasFlag fl 'e' }
  | _ => none

def parseGrains (s : String) : Option (List Grain) :=
  if s = "-" then some [] else (s.splitOn ",").mapM parseGrain

def parseBatches (tok : String) : Option (List Batch) :=
  match tok.splitOn "+" with
  | [a, g] =>
    if a.startsWith "A" && g.startsWith "G" then do
      let as ← parseActors (a.drop 1).toString
      let gs ← parseGrains (g.drop 1).toString
      -- one wire request carries actors and/or grains; the worker only ever builds single-kind
      -- requests, a mixed one is treated as an actor batch followed by a grain batch of the same request
      pure ((if as.isEmpty then [] else [Batch.actors as]) ++ (if gs.isEmpty then [] else [Batch.grains gs]))
    else none
  | _ => none

/-- requests of an `rs` case: every request must be single-kind (what `buildRelocateBatchRequests` makes) -/
def parseRequests (s : String) : Option (List Batch) :=
  if s = "-" then some [] else do
    let bs ← (s.splitOn "/").mapM parseBatches
    if bs.all (fun b => b.length == 1) then pure bs.flatten else none

/-- item token `a<id>` / `g<id>` -/
inductive ItemId where
  | a (i : Nat)
  | g (i : Nat)
deriving DecidableEq

def parseItemId (tok : String) : Option ItemId :=
  if tok.startsWith "a" then (tok.drop 1).toString.toNat?.map ItemId.a
  else if tok.startsWith "g" then (tok.drop 1).toString.toNat?.map ItemId.g
  else none

def itemIdOf : Item → ItemId
  | .actor a => .a a.id
  | .grain g => .g g.id

structure Script where
  localFail : List ItemId := []
  remoteFail : List (Nat × ItemId) := []
  poison : List (Nat × ItemId) := []
  peersErr : Bool := false
  storeErr : Bool := false

def parseDirective (sc : Script) (d : String) : Option Script :=
  if d = "PE" then some { sc with peersErr := true }
  else if d = "SD" then some { sc with storeErr := true }
  else match d.splitOn ":" with
    | [k, items] => do
      let its ← (items.splitOn ",").mapM parseItemId
      if k = "L" then pure { sc with localFail := sc.localFail ++ its }
      else if k.startsWith "R" then do
        let p ← (k.drop 1).toString.toNat?
        pure { sc with remoteFail := sc.remoteFail ++ its.map (fun i => (p, i)) }
      else if k.startsWith "X" then do
        let p ← (k.drop 1).toString.toNat?
        pure { sc with poison := sc.poison ++ its.map (fun i => (p, i)) }
      else none
    | _ => none

def parseScript (s : String) : Option Script :=
  if s = "-" then some {} else (s.splitOn ";").foldlM parseDirective {}

def Script.env (sc : Script) : Env :=
  { localOK := fun it => !sc.localFail.contains (itemIdOf it)
    remoteOK := fun p it => !sc.remoteFail.contains (p, itemIdOf it)
    poison := fun p it => sc.poison.contains (p, itemIdOf it)
    releaseOK := fun g => !sc.localFail.contains (.g g.id) }

def Script.faultFree (sc : Script) : Bool :=
  sc.localFail.isEmpty && sc.remoteFail.isEmpty && sc.poison.isEmpty && !sc.peersErr

def nodupNat : List Nat → Bool
  | [] => true
  | x :: xs => !xs.contains x && nodupNat xs

/-! ### printing -/

def itemKey : Item → Nat × Nat        -- (kind, id): actors before grains, by id
  | .actor a => (0, a.id)
  | .grain g => (1, g.id)

def showItem : Item → String
  | .actor a => s!"a{a.id}"
  | .grain g => s!"g{g.id}"

def sortItems (l : List Item) : List Item :=
  l.mergeSort (fun x y => let a := itemKey x; let b := itemKey y; decide (a.1 < b.1 ∨ (a.1 = b.1 ∧ a.2 ≤ b.2)))

def showItems (l : List Item) : String :=
  if l.isEmpty then "-" else ",".intercalate ((sortItems l).map showItem)

def showIds (l : List Nat) : String := if l.isEmpty then "-" else ",".intercalate ((sortIds l).map toString)

def failedA (recs : List Rec) : List Nat :=
  (failedItems recs).filterMap (fun it => match it with | .actor a => some a.id | .grain _ => none)
def failedG (recs : List Rec) : List Nat :=
  (failedItems recs).filterMap (fun it => match it with | .grain g => some g.id | .actor _ => none)

def showOK (recs : List Rec) (nodes : Nat) : String :=
  " ".intercalate ((List.range nodes).map fun n => s!"ok{n}={showItems (okOn n recs)}")

/-! ### job scripts (part A primitives) -/

structure JobSt where
  sys : Sys := Sys.init
  addrs : List Nat := []
  names : List Nat := []

def note (l : List Nat) (x : Nat) : List Nat := if l.contains x then l else l ++ [x]

def threeNats (s : String) : Option (List Nat) := (s.splitOn ".").mapM String.toNat?

/-- events of `snap` published by going from `s` to `s'` -/
def newEvents (s s' : Sys) (snaps : List Nat) : List Nat :=
  snaps.filter (fun sn => s'.events sn > s.events sn)

def jobOp (st : JobSt) (snaps : List Nat) (op : String) : Option (JobSt × String) :=
  let kind := op.take 1 |>.toString
  match threeNats (op.drop 1).toString with
  | none => none
  | some args =>
    let ev := fun (s' : Sys) => "ev[" ++ ",".intercalate ((newEvents st.sys s' snaps).map toString) ++ "]"
    match kind, args with
    | "b", [a, sn] =>
      let r := beginRelocation st.sys.jobs a sn
      some ({ st with sys := { st.sys with jobs := r.1 }, addrs := note st.addrs a }, if r.2 then "T" else "F")
    | "e", [a] => some ({ st with sys := { st.sys with jobs := endRelocation st.sys.jobs a }, addrs := note st.addrs a }, "-")
    | "j", [a] =>
      some ({ st with addrs := note st.addrs a }, match st.sys.jobs a with | some sn => toString sn | none => "none")
    | "w", [n, a, sn] =>
      some ({ st with sys := { st.sys with workers := upd st.sys.workers n (some (a, sn)) }, addrs := note st.addrs a,
                      names := note st.names n }, "-")
    | "t", [n] =>
      let s' := handleTerminated st.sys n
      some ({ st with sys := s' }, ev s')
    | "r", [a, sn] =>
      -- Rebalance order handled by a relocator that cannot spawn: abort
      let s' := abortRelocation { st.sys with sequence := st.sys.sequence + 1 } a sn
      some ({ st with sys := s', addrs := note st.addrs a }, ev s')
    | "x", [a, sn] =>
      -- worker run whose cluster.Peers fails: abort accounting by the worker, then finish
      let s' := abortRelocation st.sys a sn
      some ({ st with sys := s', addrs := note st.addrs a }, ev s')
    | _, _ => none

def jobRun (ops : List String) : Option String :=
  let snaps := List.range 100
  let rec go (st : JobSt) (acc : List String) : List String → Option (JobSt × List String)
    | [] => some (st, acc.reverse)
    | op :: rest =>
      match jobOp st snaps op with
      | some (st', o) => go st' (o :: acc) rest
      | none => none
  match go {} [] ops with
  | none => none
  | some (st, outs) =>
    let jobs := (sortIds st.addrs).filterMap (fun a => (st.sys.jobs a).map (fun sn => s!"{a}:{sn}"))
    let ws := (sortIds st.names).filter (fun n => (st.sys.workers n).isSome)
    some (" ".intercalate outs ++ s!" | jobs={if jobs.isEmpty then "-" else ",".intercalate jobs} workers={showIds ws} del={st.sys.dels}")

/-! ### model mode -/

def model (line : String) : String :=
  match words line with
  | ["rl", _, l, p, b, a, g, e] =>
    match parseRoles l, parsePeers p, commaNats? b, parseActors a, parseGrains g, parseScript e with
    | some l, some p, some b, some a, some g, some sc =>
      if !nodupNat (a.map (·.id)) || !nodupNat (g.map (·.id)) then "bad-case" else
      let recs := if sc.peersErr then abortRecs sc.env a g else relocate sc.env 500 l p b a g
      let ev := if sc.peersErr then 1 else eventsOfRun recs
      s!"{showOK recs (p.length + 1)} ev={ev} fa={showIds (failedA recs)} fg={showIds (failedG recs)} job=released del=1"
    | _, _, _, _, _, _ => "bad-case"
  | ["rs", l, p, t, r, e] =>
    match parseRoles l, parsePeers p, t.toNat?, parseRequests r, parseScript e with
    | some l, some p, some t, some r, some sc =>
      if t ≥ p.length then "bad-case" else
      let recs := relocateShare sc.env 500 l p t r
      s!"{showOK recs (p.length + 1)} fa={showIds (failedA recs)} fg={showIds (failedG recs)}"
    | _, _, _, _, _ => "bad-case"
  | "job" :: _ :: ops => (jobRun ops).getD "bad-case"
  | ["lv", mode, k, a] =>
    match k.toNat?, a.toNat? with
    | some k, some a =>
      if mode ≠ "s" && mode ≠ "c" then "bad-case" else
      -- per (re)request: one NodeLeft, k duplicates while in flight, then the run (the first a abort)
      let round := fun (abort : Bool) => List.replicate (k + 1) LifeAct.nodeLeft ++ [if abort then LifeAct.runAbort else LifeAct.runOK]
      let acts := ((List.range a).flatMap fun _ => round true) ++ round false
      let d := lifeRun (Life.init (mode = "s")) acts
      -- every aborted run lists the (unknown-type) actor; so does the final run, which cannot respawn it
      let failed := if a = 0 then 0 else a + 1
      s!"runs={d.runs} started={d.announced} failed={failed} job={if d.job then "held" else "released"}"
    | _, _ => "bad-case"
  | ["nl", k, h] =>
    match k.toNat?, h.toNat? with
    | some k, some h =>
      -- first NodeLeft registers the job and starts relocation no. 1; k duplicates before the worker
      -- finishes, h duplicates inside DeletePeerState (= between the two calls of finish)
      let d0 := nodeLeftSnap ⟨true, false, 0⟩
      let d := runActs d0 (finishWith finishOrder k h 0)
      -- the hook fires before the snapshot is removed, so for the code's order the h duplicates see
      -- "snapshot present, job registered"; `finishWith` delivers them after the removal where they see
      -- "snapshot absent": both are no-ops (C33_finish_window), the count is the same
      s!"started={d.started} job={if d.job then "held" else "released"} del=1"
    | _, _ => "bad-case"
  | _ => "bad-case"

/-! ### judge mode -/

def field (ws : List String) (key : String) : Option String :=
  match ws.find? (fun w => w.startsWith (key ++ "=")) with
  | some w => some (w.drop (key.length + 1)).toString
  | none => none

def parseItemList (s : String) : Option (List ItemId) :=
  if s = "-" then some [] else (s.splitOn ",").mapM parseItemId

def parseIdList (s : String) : Option (List Nat) :=
  if s = "-" then some [] else (s.splitOn ",").mapM String.toNat?

def parseTrace (ws : List String) (nodes : Nat) : Option Trace := do
  let oks ← (List.range nodes).mapM (fun n => (field ws s!"ok{n}").bind parseItemList)
  let fa ← (field ws "fa").bind parseIdList
  let fg ← (field ws "fg").bind parseIdList
  pure { okA := oks.map (fun l => l.filterMap (fun i => match i with | .a k => some k | .g _ => none)),
         okG := oks.map (fun l => l.filterMap (fun i => match i with | .g k => some k | .a _ => none)),
         failA := fa, failG := fg }

/-- number of events naming each snapshot in a job script output: `ev[1,2]` fields -/
def eventMentions (o : String) : List Nat :=
  ((words o).filter (·.startsWith "ev[")).flatMap (fun w =>
    let inner := ((w.drop 3).toString.splitOn "]").headD ""
    if inner = "" then [] else (inner.splitOn ",").filterMap String.toNat?)

/-- dedup oracle on a `sys` script: every `j<a> b<a>.<k> j<a>` triple must read
    registered `s` → `F` → still `s`, or `none` → `T` → `k` -/
def dedupOK : List String → List String → Bool
  | j1 :: b :: j2 :: ops, o1 :: ob :: o2 :: outs =>
    let here :=
      if j1.startsWith "j" && b.startsWith "b" && j2 = j1 && (b.drop 1).toString.startsWith ((j1.drop 1).toString ++ ".") then
        let k := ((b.drop 1).toString.splitOn ".").getD 1 ""
        if o1 = "none" then ob = "T" && o2 = k else ob = "F" && o2 = o1
      else true
    here && dedupOK (b :: j2 :: ops) (ob :: o2 :: outs)
  | _, _ => true

def judge (line : String) : String :=
  let (c, o) := splitTab line
  match words c with
  | ["rl", _, l, p, _, a, g, e] =>
    match parseRoles l, parsePeers p, parseActors a, parseGrains g, parseScript e with
    | some l, some p, some a, some g, some sc =>
      if !nodupNat (a.map (·.id)) || !nodupNat (g.map (·.id)) then "ok" else
      let ws := words o
      match parseTrace ws (p.length + 1), (field ws "ev").bind String.toNat?, field ws "job", (field ws "del").bind String.toNat? with
      | some t, some ev, some job, some del =>
        match rlCheck (l :: p) a g sc.peersErr sc.faultFree t ev (job == "released") del with
        | some why => "bad " ++ why
        | none => "ok"
      | _, _, _, _ => "bad unparsable output: " ++ o
    | _, _, _, _, _ => "ok"
  | ["rs", l, p, t, r, e] =>
    match parseRoles l, parsePeers p, t.toNat?, parseRequests r, parseScript e with
    | some l, some p, some tgt, some r, some sc =>
      let actors := r.flatMap (fun b => match b with | .actors x => x | .grains _ => [])
      let grains := r.flatMap (fun b => match b with | .grains x => x | .actors _ => [])
      if !nodupNat (actors.map (·.id)) || !nodupNat (grains.map (·.id)) then "ok" else
      match parseTrace (words o) (p.length + 1) with
      | some tr =>
        let clean := sc.localFail.isEmpty && sc.remoteFail.isEmpty && !sc.peersErr && sc.poison.all (fun (q, _) => q == tgt)
        match rsCheck (l :: p) actors grains tr tgt clean with
        | some why => "bad " ++ why
        | none => "ok"
      | none => "bad unparsable output: " ++ o
    | _, _, _, _, _ => "ok"
  | ["lv", _, _, a] =>
    if o.startsWith "timeout" then "ok" else
    let ws := words o
    match a.toNat?, (field ws "runs").bind String.toNat?, (field ws "started").bind String.toNat?, (field ws "failed").bind String.toNat?, field ws "job" with
    | some a, some runs, some st, some failed, some job =>
      if runs ≠ a + 1 then s!"bad {runs} relocations were run for {a + 1} request(s) of one departure (duplicates must start nothing, every re-request after an abort exactly one)"
      else if job ≠ "released" then "bad relocation job still registered after the last run finished"
      else if failed > runs then "bad more RelocationFailed events than relocation runs"
      else if st ≠ runs then s!"bad {st} RelocationStarted events for {runs} relocation(s) actually started"
      else "ok"
    | _, _, _, _, _ => "bad unparsable output: " ++ o
  | ["nl", _, _] =>
    let ws := words o
    match (field ws "started").bind String.toNat?, field ws "job", (field ws "del").bind String.toNat? with
    | some st, some job, some del =>
      if st ≠ 1 then s!"bad {st} relocations were started for one departure (duplicate NodeLeft while the first was still in flight)"
      else if job ≠ "released" then "bad relocation job still registered after the worker finished"
      else if del ≠ 1 then "bad peer state snapshot not removed exactly once"
      else "ok"
    | _, _, _ => "bad unparsable output: " ++ o
  | "job" :: kind :: ops =>
    if kind = "sys" then
      -- protocol-respecting script: no snapshot may be named by two RelocationFailed events
      let ms := eventMentions o
      let outs := words ((o.splitOn " | ").headD "")
      if !nodupNat ms then "bad two RelocationFailed events for one departure (snapshot)"
      else if outs.length = ops.length && !dedupOK ops outs then
        "bad a NodeLeft while a relocation of the address is registered was not ignored (or a free address was refused)"
      else "ok"
    else "ok"
  | _ => "ok"

def run (args : List String) : IO UInt32 := runWith args model judge

end GoaktVerif.Driver.C33

import GoaktVerif.Driver.C42

/-! C43 shares C42's model, harness and monitor (the monitor carries C43's `okDemand`/`okWindow`). -/
namespace GoaktVerif.Driver.C43

def run (args : List String) : IO UInt32 := GoaktVerif.Driver.C42.run args

end GoaktVerif.Driver.C43

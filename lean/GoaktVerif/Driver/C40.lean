import GoaktVerif.Driver.Util
import GoaktVerif.Model.C40
import GoaktVerif.Spec.C40

/-!
C40 driver.  Case and output format: harness/verifdrv/c40/main.go.  The model produces the fields
it has a model for: dump(x), ok/err, dump(x'), and the two merge dumps; the `core` fields are
printed by the implementation only (`*` here) and are what the judge (Spec.C40) looks at.
Dump format = crdt.VerifDump (harness/inpkg/crdt/zz_verif_c38.go).
-/
namespace GoaktVerif.Driver.C40
open GoaktVerif.Driver GoaktVerif.Model.Crdt GoaktVerif.Model.C40 GoaktVerif.Spec.C40

/-! ### dumps (crdt.VerifDump) -/

def pMap (m : AMap Nat) (sep : String := ",") : String := sep.intercalate (m.map fun p => s!"{p.1}.{p.2}")
def pDot (d : Dot) : String := s!"{d.nodeID}.{d.counter}"
def sortDots (l : List Dot) : List Dot := l.mergeSort (fun a b => !Dot.lt b a)
def pDotMap (m : AMap (List Dot)) : String :=
  ",".intercalate (m.map fun p => s!"{p.1}:" ++ "+".intercalate ((sortDots p.2).map pDot))
def pB (b : Bool) : String := if b then "1" else "0"
def pNats (l : List Nat) : String := ",".intercalate (l.map toString)
def pOpt : Option Nat → String
  | none => "_"
  | some v => toString v

def gcState (c : GCounter) : String := pMap c.state ++ "/" ++ pMap c.delta
def osState (s : ORSet) : String :=
  pDotMap s.entries ++ "/" ++ pMap s.clock ++ "/" ++ pDotMap s.delta.added ++ "/" ++ pDotMap s.delta.removed
def pValMap (m : AMap GCounter) : String :=
  ",".intercalate (m.map fun p => s!"{p.1}>{pMap p.2.state "+"}>{pMap p.2.delta "+"}")

def dump : CV → String
  | .gc c => gcState c ++ "~" ++ toString c.value
  | .pn c => gcState c.increments ++ "/" ++ gcState c.decrements ++ "~" ++ toString c.value
  | .fl x => pB x.enabled ++ "/" ++ pB x.dirty ++ "~" ++ pB x.value
  | .lw r => s!"{pOpt r.value}/{r.timestamp}/{r.nodeID}/{pB r.dirty}~{pOpt r.value}"
  | .mv r => ",".intercalate (r.entries.map fun e => s!"{e.value}@{pDot e.dot}") ++ "/" ++ pMap r.clock ++ "/" ++ pB r.dirty
      ++ "~" ++ pNats r.values
  | .os s => osState s ++ "~" ++ pNats s.elements ++ "#" ++ toString s.len
  | .om m => osState m.keys ++ "/" ++ pValMap m.values ++ "/" ++ pB m.dirty ++ "~" ++ pNats m.keyList ++ "#" ++ toString m.len
      ++ "#" ++ pValMap m.entriesOf

def fresh : String → Option CV
  | "gc" => some (.gc .new)
  | "pn" => some (.pn .new)
  | "fl" => some (.fl .new)
  | "lw" => some (.lw .new)
  | "mv" => some (.mv .new)
  | "os" => some (.os .new)
  | "om" => some (.om .new)
  | _ => none

/-- type specific mutators -/
def mutate : CV → String → List String → Option CV
  | .gc c, "i", [n, v] => do some (.gc (c.increment (← n.toNat?) (← v.toNat?)))
  | .pn c, "i", [n, v] => do some (.pn (c.increment (← n.toNat?) (← v.toNat?)))
  | .pn c, "d", [n, v] => do some (.pn (c.decrement (← n.toNat?) (← v.toNat?)))
  | .fl x, "e", [] => some (.fl x.enable)
  | .lw r, "s", [v, ts, n] => do some (.lw (r.set (← v.toNat?) (← ts.toInt?) (← n.toNat?)))
  | .mv r, "s", [n, v] => do some (.mv (r.set (← n.toNat?) (← v.toNat?)))
  | .os s, "a", [n, e] => do some (.os (s.add (← n.toNat?) (← e.toNat?)))
  | .os s, "r", [e] => do some (.os (s.remove (← e.toNat?)))
  | .om m, "s", [n, k, v] => do
    let n ← n.toNat?
    some (.om (m.set n (← k.toNat?) (GCounter.new.increment n (← v.toNat?))))
  | .om m, "r", [k] => do some (.om (m.remove (← k.toNat?)))
  | _, _, _ => none

def applyTok (vars : List CV) (tok : String) : Option (List CV) :=
  match tok.splitOn ":" with
  | v :: op :: args => do
    let v ← v.toNat?
    let x ← vars[v]?
    match op, args with
    | "m", [w] => do let y ← vars[← w.toNat?]?; some (vars.set v (x.merge y))
    | "R", [] => some (vars.set v x.resetDelta)
    | "D", [] => some (vars.set v (x.delta?.getD x))
    | "C", [] => some (vars.set v x.compact)
    | "W", [] => some (vars.set v ((wire idSer x).getD x))
    | "B", [n, c, e] => do
      let n ← n.toNat?; let c ← c.toNat?; let e ← e.toNat?
      match x with
      | .mv _ => some (vars.set v (.mv (MVRegister.fromRawState [⟨e, ⟨n, c⟩⟩] [(n, c)])))
      | .os _ => some (vars.set v (.os (ORSet.fromRawState [(e, [⟨n, c⟩])] [(n, c)])))
      | _ => none
    | _, _ => do some (vars.set v (← mutate x op args))
  | _ => none

def modelState (ty : String) (toks : List String) : String :=
  match fresh ty with
  | none => "*"   -- oms / omm / osx: no model, judged on the implementation's cores only
  | some z =>
    match toks.foldlM applyTok [z, z, z] with
    | some [x, y, _] =>
      match wire idSer x with
      | none => dump x ++ "|err"
      | some x' =>
        "|".intercalate [dump x, "ok", dump x', "*", "*", "*", "*", "*", "*", dump (x'.merge y), dump (y.merge x')]
    | _ => "bad-case"

def keyModel (id : String) (dt : Int) : String :=
  -- the enum is an int32 on the wire; `dataType + 1` for any int the caller passes
  let w := dt + 1
  let dec := if w ≥ 0 then (decKey (0, w.toNat)).map (·.2) else none
  s!"enc={id}/{w} " ++ match dec with
    | some d => s!"dec={id}/{d}"
    | none => "dec=err"

def rawKeyModel (id : String) (w : Int) : String :=
  match (if w ≥ 0 then (decKey (0, w.toNat)).map (·.2) else none) with
  | some d => s!"dec={id}/{d}"
  | none => "dec=err"

def model (line : String) : String :=
  match words line with
  | ["key", id, dt] => match dt.toInt? with | some dt => keyModel id dt | none => "bad-case"
  | ["rawkey", id, w] => match w.toInt? with | some w => rawKeyModel id w | none => "bad-case"
  | ["nilkey"] => "dec=err"
  | ["nildata"] => "dec=err"
  | ty :: toks =>
    if ["gc", "pn", "fl", "lw", "mv", "os", "om", "oms", "omm", "osx"].contains ty then modelState ty toks else "bad-case"
  | _ => "bad-case"

def judge (line : String) : String :=
  let (c, o) := splitTab line
  match words c with
  | ["key", id, dt] => if keyOK id (dt.toInt?.getD 0) o then "ok" else "bad key does not round-trip: " ++ o
  | ["rawkey", id, w] => if rawKeyOK id (w.toInt?.getD 0) o then "ok" else "bad raw key decode: " ++ o
  | ["nilkey"] => if o == "dec=err" then "ok" else "bad nil key accepted"
  | ["nildata"] => if o == "dec=err" then "ok" else "bad nil data accepted"
  | ty :: _ =>
    if o == "bad-case" then "ok" else
    let f := o.splitOn "|"
    if stateOK ty f then "ok"
    else if f.getD 1 "" == "err" then "bad encode failed for a value in the serializer's domain"
    else if f.getD 3 "" != f.getD 4 "?" then "bad decoded state differs: " ++ f.getD 3 "" ++ " vs " ++ f.getD 4 ""
    else "bad merging the decoded value differs from merging the original"
  | _ => "ok"

def run (args : List String) : IO UInt32 := runWith args model judge

end GoaktVerif.Driver.C40

import GoaktVerif.Driver.Conc
import GoaktVerif.Model.C05.Queue
import GoaktVerif.Model.C05.Seq
import GoaktVerif.Spec.C05

namespace GoaktVerif.Driver.C05
open GoaktVerif.Driver GoaktVerif.Model.C05

def natOf? (s : String) : Option Nat := s.toNat?

def parseOp (s : String) : Option Op :=
  if s = "t" then some .take
  else if s = "run" then some .run
  else if s = "c" then some .close
  else if s.startsWith "p" then
    match natOf? (s.drop 1).toString with | some (k + 1) => some (.push k) | _ => none
  else if s.startsWith "l" then
    match natOf? (s.drop 1).toString with | some (k + 1) => some (.pushLocal k) | _ => none
  else none

/-- `a.b` → (a, b) -/
def pair? (s : String) : Option (Nat × Nat) :=
  match s.splitOn "." with
  | [a, b] => match natOf? a, natOf? b with | some a, some b => some (a, b) | _, _ => none
  | _ => none

def parseSeqOp (s : String) : Option SeqOp :=
  if s = "pg" then some .popGlobal
  else if s = "pk" then some .parkAndTake
  else if s = "cl" then some .close
  else if s.startsWith "pf" then (natOf? (s.drop 2).toString).map .popFront
  else if s.startsWith "ts" then (natOf? (s.drop 2).toString).map .trySteal
  else if s.startsWith "tk" then (natOf? (s.drop 2).toString).map .take
  else if s.startsWith "sh" then (pair? (s.drop 2).toString).map fun (a, b) => .stealHalf a b
  else if s.startsWith "p" then (natOf? (s.drop 1).toString).map .push
  else if s.startsWith "l" then (pair? (s.drop 1).toString).map fun (w, x) => .pushLocal w x
  else none

def showRing (r : Ring) : String :=
  s!"{r.head} {r.tail} {r.size} {r.nonNil} [{joinNats r.toList}]"

def digest (s : Shared) : String :=
  let ls := (List.range s.locals.length).map fun i =>
    let q := s.getL i
    s!"L{i} {q.sizeAtomic} {showRing q.ring}"
  " / ".intercalate (ls ++ [s!"G {s.global.cap} {s.globalCount} {showRing s.global}", s!"P {s.parked} {s.closed}"])

/-- workers are threads 0..n-1; `t`, `l`, `run` are worker-only -/
def progOk (n tid : Nat) (p : List Op) : Bool :=
  tid < n || p.all fun op => match op with | .push _ => true | .close => true | _ => false

def progsOk (n : Nat) : Nat → List (List Op) → Bool
  | _, [] => true
  | tid, p :: ps => progOk n tid p && progsOk n (tid + 1) ps

def machine : Machine where
  Cfg := Cfg
  init := fun cfg progs =>
    match words cfg with
    | ["rq", n] =>
      match n.toNat?, progs.mapM (fun p => p.mapM parseOp) with
      | some n, some ps => if n ≥ 1 && n ≤ 16 && progsOk n 0 ps then some (Model.C05.init n ps) else none
      | _, _ => none
    | _ => none
  nthreads := fun c => c.threads.length
  done := Model.C05.done
  step := Model.C05.step
  results := fun c => c.threads.map fun t => (t.results.reverse.map Res.render)
  final := fun c => digest c.sh

def validSeq (n : Nat) : SeqOp → Bool
  | .push x => x ≠ 0
  | .pushLocal w x => w < n && x ≠ 0
  | .popFront w => w < n
  | .trySteal w => w < n
  | .take w => w < n
  | .stealHalf a b => a < n && b < n
  | _ => true

def seqModel (n : String) (ops : String) : String :=
  match n.toNat?, (words ops).mapM parseSeqOp with
  | some n, some ops =>
    if n ≥ 1 && n ≤ 16 && ops.all (validSeq n) then
      let (s, rs) := seqRun (initShared n) ops []
      ",".intercalate rs ++ " | " ++ digest s
    else "bad-case"
  | _, _ => "bad-case"

def model (line : String) : String :=
  match line.splitOn "|" with
  | [cfg, ops] =>
    match words cfg with
    | ["seq", n] => seqModel n ops
    | _ => "bad-case"
  | [_, _, _] => runConc machine line
  | _ => "bad-case"

def judge (l : String) : String :=
  let (c, o) := splitTab l
  Spec.C05.judgeLine c o

def run (args : List String) : IO UInt32 := runWith args model judge

end GoaktVerif.Driver.C05

import GoaktVerif.Driver.Util
import GoaktVerif.Model.C07
import GoaktVerif.Spec.C07

namespace GoaktVerif.Driver.C07
open GoaktVerif.Driver GoaktVerif.Model.C07 GoaktVerif.Spec.C07

/-! parsing of the case line `n=<k> <opt>.. | <op>..` (see harness/verifdrv/c07/main.go) -/

def hour : Int := 3600000000000
def ms : Int := 1000000

def dur? (s : String) : Option Int := if s = "H" then some hour else s.toInt?

def kindTy? (k : String) : Option ErrType :=
  if k = "A" then some tyA else if k = "B" then some tyB else if k = "P" then some tyPanic
  else if k = "N" then some tyPanicNil else none

def opt? (t : String) : Option Opt :=
  match t.splitOn ":" with
  | ["st", s] => some (.strategy (if s = "A" then .oneForAll else .oneForOne))
  | ["d", k, d] => do let ty ← kindTy? k; let d ← d.toNat?; pure (.directive ty d)
  | ["any", d] => do let d ← d.toNat?; pure (.directive tyAny d)
  | ["r", m, t] => do let m ← m.toNat?; let t ← dur? t; pure (.retry m t)
  | ["b", i, m, r] => do let i ← i.toInt?; let m ← m.toInt?; let r ← dur? r; pure (.backoff (i * ms) (m * ms) r)
  | _ => none

def kind? (c : Char) : Option Kind :=
  if c = 'A' then some .A else if c = 'B' then some .B else if c = 'P' then some .P
  else if c = 'Q' then some .Q else if c = 'N' then some .N else if c = 'D' then some .D else none

def op? (n : Nat) (t : String) : Option Op :=
  match t.toList with
  | ['F', i, k] => do
    let i ← (String.singleton i).toNat?; let k ← (String.singleton k).toNat?
    if i < n then pure (.failPre i k) else none
  | ['f', i, k] => do
    let i ← (String.singleton i).toNat?; let k ← kind? k
    if i < n then pure (.fail i k) else none
  | [c, i] => do
    let i ← (String.singleton i).toNat?
    if i < n then
      (if c = 'p' then pure (.ping i) else if c = 'r' then pure (.reinstate i) else if c = 'a' then pure (.age i)
       else if c = 'R' then pure (.restartPub i) else none)
    else none
  | _ => none

structure Case where
  n : Nat
  opts : List Opt
  ops : List Op

def parse (line : String) : Option Case :=
  match line.splitOn "|" with
  | [cfg, ops] =>
    match words cfg with
    | nk :: optToks =>
      if nk.startsWith "n=" then do
        let n ← (nk.drop 2).toString.toNat?
        if n < 1 || n > 4 then none else
        let opts ← optToks.mapM opt?
        let ops ← (words ops).mapM (op? n)
        pure { n := n, opts := opts, ops := ops }
      else none
    | [] => none
  | _ => none

/-! rendering -/

def b2s (b : Bool) : String := if b then "1" else "0"

def renderChild (c : CObs) : String :=
  ".".intercalate [b2s c.reg, b2s c.alive, b2s c.susp, toString c.pre, toString c.post, toString c.handled,
    toString c.rc, toString c.cf, toString c.lk]

def renderSig (tag : String) (l : List Nat) : String :=
  tag ++ toString l.length ++ ":" ++ (if l.isEmpty then "-" else "+".intercalate (l.map fun i => "c" ++ toString i))

def evName : EvKind → String
  | .su => "Su" | .re => "Re" | .st => "St" | .sa => "Sa" | .ri => "Ri"

def insertSorted (s : String) : List String → List String
  | [] => [s]
  | x :: xs => if s ≤ x then s :: x :: xs else x :: insertSorted s xs

def renderEvents (ev : List Event) : String :=
  let l := (ev.map fun (k, i) => evName k ++ ":c" ++ toString i).foldr insertSorted []
  if l.isEmpty then "-" else ",".intercalate l

def renderRes : Res → String
  | .ok => "ok" | .dead => "dead" | .err => "err"

def renderStep (res : String) (o : Obs) (ev : List Event) : String :=
  "|".intercalate [res, ",".intercalate (o.cs.map renderChild), renderSig "P" o.pSig, renderSig "G" o.gSig, renderEvents ev]

def model (line : String) : String :=
  match parse line with
  | none => "bad-case"
  | some c =>
    let f0 := Family.init c.opts c.n
    let steps := run f0 c.ops
    " ; ".intercalate (renderStep "init" f0.obs [] :: steps.map fun (f, r, ev) => renderStep (renderRes r) f.obs ev)

/-! parsing the implementation's output back into observations -/

def bool? (s : String) : Option Bool := if s = "1" then some true else if s = "0" then some false else none

def childObs? (s : String) : Option CObs :=
  match s.splitOn "." with
  | [reg, alive, susp, pre, post, handled, rc, cf, lk] => do
    pure { reg := ← bool? reg, alive := ← bool? alive, susp := ← bool? susp, pre := ← pre.toNat?, post := ← post.toNat?,
           handled := ← handled.toNat?, rc := ← rc.toNat?, cf := ← cf.toNat?, lk := ← lk.toNat? }
  | _ => none

/-- `P2:c0+c1`; an unknown sender (`?`) is index 99 -/
def sig? (tag : String) (s : String) : Option (List Nat) :=
  if !s.startsWith tag then none else
  match (s.drop tag.length).toString.splitOn ":" with
  | [_, l] =>
    if l = "-" then some [] else
    (l.splitOn "+").mapM fun x => if x.startsWith "c" then (x.drop 1).toString.toNat? else some 99
  | _ => none

def res? (s : String) : Option Res :=
  if s = "ok" || s = "init" then some .ok else if s = "dead" then some .dead else if s = "err" then some .err else none

def stepObs? (s : String) : Option (Obs × Res) :=
  match s.splitOn "|" with
  | [res, cs, p, g, _] => do
    let cs ← (cs.splitOn ",").mapM childObs?
    pure ({ cs := cs, pSig := ← sig? "P" p, gSig := ← sig? "G" g }, ← res? res)
  | _ => none

def opName : Op → String
  | .fail i k => "f" ++ toString i ++ (match k with | .A => "A" | .B => "B" | .P => "P" | .Q => "Q" | .N => "N" | .D => "D")
  | .ping i => "p" ++ toString i
  | .reinstate i => "r" ++ toString i
  | .age i => "a" ++ toString i
  | .failPre i k => "F" ++ toString i ++ toString k
  | .restartPub i => "R" ++ toString i

/-- scripts with scripted PreStart failures (`F`): the property text does not say what a restart that cannot
    re-run PreStart must end in, so only its restart clause is judged on them — a member that WAS restarted
    (PreStart ran again and it is running) must be registered and have its restart count bumped -/
def restartedOK (b a : Obs) : Bool :=
  (List.range b.cs.length).all fun j =>
    match b.cs[j]?, a.cs[j]? with
    | some bj, some aj => !(decide (aj.pre > bj.pre) && aj.alive) || (aj.reg && aj.rc == bj.rc + 1)
    | _, _ => false

def firstBadRestart : List Op → Obs → List (Obs × Res) → Nat → Option Nat
  | [], _, _, _ => none
  | _ :: _, _, [], k => some k
  | op :: ops, b, (a, _) :: rest, k =>
    let ok := match op with | .fail _ _ => restartedOK b a | _ => true
    if ok then firstBadRestart ops a rest (k + 1) else some k

def hasFailPre (ops : List Op) : Bool := ops.any fun | .failPre _ _ => true | _ => false

/-- the oracle: first against what the code is known to do (anything else is a new violation),
    then against the property text (a difference there is the recorded finding C07-F1) -/
def judge (line : String) : String :=
  let (c, o) := splitTab line
  match parse c with
  | none => "ok"
  | some cs =>
    match (o.splitOn " ; ").mapM stepObs? with
    | none => "bad unparsable output: " ++ (o.take 120).toString
    | some [] => "bad empty output"
    | some ((b0, _) :: rest) =>
      if b0 != (Family.init cs.opts cs.n).obs then "bad initial family is not n fresh running children" else
      if rest.length != cs.ops.length then s!"bad {rest.length} step results for {cs.ops.length} ops" else
      if hasFailPre cs.ops then
        (match firstBadRestart cs.ops b0 rest 0 with
         | none => "ok"
         | some k => s!"bad C07-F3 step {k} ({(cs.ops.map opName).getD k "?"}): a member that was restarted is not registered under its parent or its restart count was not bumped (regression of fix 07658af)")
      else
      let h0 : Hists := List.replicate cs.n []
      match firstBad .code cs.opts h0 clock0 cs.ops b0 rest 0 with
      | some k => s!"bad step {k} ({(cs.ops.map opName).getD k "?"}): the observed outcome is not what the configured directive prescribes"
      | none =>
        match firstBad .text cs.opts h0 clock0 cs.ops b0 rest 0 with
        | none => "ok"
        | some k =>
          let e := (cs.ops.map opName).getD k "?"
          s!"bad C07-F1 step {k} ({e}): Escalate delivered the failure to the parent's Receive, the grandparent got nothing"

def run (args : List String) : IO UInt32 := runWith args model judge

end GoaktVerif.Driver.C07

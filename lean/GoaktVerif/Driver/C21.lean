import GoaktVerif.Driver.Util
import GoaktVerif.Model.C21
import GoaktVerif.Spec.C21

/-
C21 line protocol.
  ring <vn> m0:h,h m1:h,h / k0:h k1:h [! m1]
        the real consistentHashRing with a table hasher (every hash is given in the case):
        set(members in this order), lookup each key; with `! m`: set(members without m), lookups again
        -> owner names (`-` for the empty ring), ` | ` between the two rounds
  xring <vn> <nmembers> <nkeys> <seed> <rm|-1>       the real ring with the default xxh3 hasher
  ch <n> <vn> <nkeys> <rm|-1>                        a real router actor with ConsistentHashRouting
        -> `R h=owner,... K j:keyhash:recv ...` per round (recv~recv2 when the two sends of a key differ);
        model prints `*`, the judge re-computes every lookup with the Lean ring from the reported hashes
  rr <n> <start> ops...     a real round-robin router (n routees, counter preset); ops: m (route one
        message), k<i> (stop routee i behind the router's back)
        impl  per m: o=<slice order>;r=<receiver|panic|dead|none|noroutees>;z=<map size afterwards>
        model per m: s=<the slice: running routees, sorted>;i=<index|noroutees>;d=;z=<map size afterwards>
        (tools/props/c21.py joins the two through the observed order); last token c=<counter>
  fan <n> <start> ops...    the same with FanOutRouting: r=<receivers sorted>
-/
namespace GoaktVerif.Driver.C21
open GoaktVerif.Driver GoaktVerif.Model.C21 GoaktVerif.Spec.C21

def joinC (l : List Nat) : String := ",".intercalate (l.map toString)

/-! ### ring with given hashes -/

structure RingCase where
  vn : Nat
  members : List (String × List Nat)
  keys : List (String × Nat)
  rm : Option String

def parseNV (tok : String) : Option (String × List Nat) :=
  match tok.splitOn ":" with
  | [n, v] => (commaNats? v).map (fun l => (n, l))
  | _ => none

def parseRing (ws : List String) : Option RingCase :=
  match ws with
  | vn :: rest =>
    match vn.toNat? with
    | none => none
    | some vn =>
      let ms := rest.takeWhile (· ≠ "/")
      let after := (rest.dropWhile (· ≠ "/")).drop 1
      let ks := after.takeWhile (· ≠ "!")
      let rm := ((after.dropWhile (· ≠ "!")).drop 1).head?
      match ms.mapM parseNV, ks.mapM parseNV with
      | some ms, some ks =>
        match ks.mapM (fun (n, l) => match l with | [h] => some (n, h) | _ => none) with
        | some ks => some { vn := vn, members := ms, keys := ks, rm := rm }
        | none => none
      | _, _ => none
  | [] => none

/-- vnodes in insertion order; member = position in the member list -/
def vnodesOfCase (vn : Nat) (members : List (String × List Nat)) : List VNode :=
  (members.zipIdx).flatMap fun ((_, hs), i) => (hs.take vn).map fun h => (h, i)

def lookups (c : RingCase) (members : List (String × List Nat)) : List String :=
  let ring := Ring.set (vnodesOfCase c.vn members)
  c.keys.map fun (_, h) =>
    match ring.lookup h with
    | some i => (members.getD i ("?", [])).1
    | none => "-"

def ringModel (c : RingCase) : String :=
  let first := " ".intercalate (lookups c c.members)
  match c.rm with
  | none => first
  | some r => first ++ " | " ++ " ".intercalate (lookups c (c.members.filter (·.1 ≠ r)))

/-! ### router scripts -/

def sortNat (l : List Nat) : List Nat := sortKeys l

/-- run ops on the model; `orders` are irrelevant for the tokens the model prints (it prints the index) -/
def routeRun (fan : Bool) : Router → List String → List String → Option (List String)
  | r, [], acc => some (("c=" ++ toString r.next) :: acc).reverse
  | r, op :: ops, acc =>
    if op = "m" then
      -- the slice: running routees, sorted (any iteration order gives the same slice)
      let (ids, r1) := available r r.ids
      let z := r1.members.length
      if fan then
        routeRun fan r1 ops (s!"s={joinC ids};i=fan;d=;z={z}" :: acc)
      else if ids.isEmpty then
        routeRun fan r1 ops (s!"s=;i=noroutees;d=;z={z}" :: acc)
      else
        let idx := (r1.next % 2 ^ 32) % ids.length
        let r2 := { r1 with next := (idx + 1) % ids.length }
        routeRun fan r2 ops (s!"s={joinC ids};i={idx};d=;z={z}" :: acc)
    else if op.startsWith "k" then
      match (op.drop 1).toString.toNat? with
      | some i => routeRun fan { r with members := r.members.map fun e => if e.1 = i then (e.1, false) else e } ops ("k" :: acc)
      | none => none
    else none

def routeModel (fan : Bool) (n start : String) (ops : List String) : String :=
  match n.toNat?, start.toNat? with
  | some n, some start =>
    match routeRun fan ⟨(List.range n).map (fun i => (i, true)), start⟩ ops [] with
    | some toks => " ".intercalate toks
    | none => "bad-case"
  | _, _ => "bad-case"

def model (line : String) : String :=
  match words line with
  | "ring" :: rest => match parseRing rest with | some c => ringModel c | none => "bad-case"
  | "xring" :: _ => "*"
  | "ch" :: _ => "*"
  | "rr" :: n :: start :: ops => routeModel false n start ops
  | "fan" :: n :: start :: ops => routeModel true n start ops
  | _ => "bad-case"

/-! ### judge -/

def allDistinct (l : List Nat) : Bool := l.eraseDups.length == l.length

/-- first repeated element of a sorted list -/
def dupKey : List Nat → Option Nat
  | a :: b :: rest => if a == b then some a else dupKey (b :: rest)
  | _ => none

/-- a reported round: ring dump (sorted hash, owner) and keys (index, hash, receiver text) -/
structure Round where
  ring : List VNode
  keys : List (Nat × Nat × String)

def parseRound (s : String) : Option Round :=
  match words s with
  | "R" :: dump :: "K" :: ks =>
    let vn : Option (List VNode) :=
      if dump = "-" then some [] else
      (dump.splitOn ",").mapM fun p =>
        match p.splitOn "=" with
        | [h, o] => match h.toNat?, o.toNat? with | some h, some o => some (h, o) | _, _ => none
        | _ => none
    let keys := ks.mapM fun k =>
      match k.splitOn ":" with
      | [j, h, r] => match j.toNat?, h.toNat? with | some j, some h => some (j, h, r) | _, _ => none
      | _ => none
    match vn, keys with
    | some vn, some keys => some { ring := vn, keys := keys }
    | _, _ => none
  | _ => none

/-- every receiver equals the Lean ring's lookup on the reported hashes, and equal keys go to one routee -/
def roundOK (rd : Round) : Option String :=
  let ring := Ring.set rd.ring
  if ring.keys != rd.ring.map (·.1) then some "ring keys are not sorted" else
  match rd.keys.find? (fun (_, h, r) => r != (match ring.lookup h with | some i => toString i | none => "-")) with
  | some (j, h, r) =>
    if (r.splitOn "~").length > 1 then some s!"equal keys went to different routees (key {j}: {r})"
    else some s!"key {j} (hash {h}) went to {r}, the ring's successor vnode belongs to {match ring.lookup h with | some i => toString i | none => "-"}"
  | none => none

def ownerOf (rd : Round) (h : Nat) : Option Nat := (Ring.set rd.ring).lookup h

def judgeRounds (o : String) (rm : Option Nat) : String :=
  match (o.splitOn " | ").mapM parseRound with
  | some [r1] =>
    match roundOK r1 with
    | some e => "bad " ++ e
    | none =>
      match dupKey (r1.ring.map (·.1)) with
      | some h => s!"bad ring point {h} belongs to more than one virtual node (vnode keys collide): removing a routee can move keys it did not own"
      | none => "ok"
  | some [r1, r2] =>
    match roundOK r1, roundOK r2 with
    | some e, _ => "bad " ++ e
    | _, some e => "bad (after removal) " ++ e
    | none, none =>
      match rm with
      | none => "bad two rounds without a removal"
      | some rm =>
        -- a key whose owner changed must have been owned by the removed routee
        match r1.keys.find? (fun (_, h, _) => ownerOf r1 h != ownerOf r2 h && ownerOf r1 h != some rm) with
        | some (j, h, _) =>
          s!"bad key {j} (hash {h}) moved from routee {match ownerOf r1 h with | some i => toString i | none => "-"} to {match ownerOf r2 h with | some i => toString i | none => "-"} although the removed routee {rm} did not own it"
        | none =>
          -- the hypothesis of the minimal-disruption theorem, CHECKED on the real hashes
          match dupKey (r1.ring.map (·.1)) with
          | some h => s!"bad ring point {h} belongs to more than one virtual node (vnode keys collide): removing a routee can move keys it did not own"
          | none =>
            if r2.ring != r1.ring.filter (fun v => v.2 != rm) then "bad ring after removal is not the old ring minus the removed routee's vnodes"
            else "ok"
  | _ => "bad unparsable: " ++ (o.take 200).toString

def parseTok (t : String) : List (String × String) :=
  (t.splitOn ";").filterMap fun kv => match kv.splitOn "=" with | [k, v] => some (k, v) | _ => none

def field (t : String) (k : String) : String := ((parseTok t).lookup k).getD ""

def judge (line : String) : String :=
  let (c, o) := splitTab line
  if o.startsWith "CRASH" || o.startsWith "panic" then "bad harness: " ++ o else
  match words c with
  | "ring" :: rest =>
    if o.startsWith "bad-case" then "ok" else   -- the table hasher was asked for an unknown string: the tie is broken (compare), no property verdict
    match parseRing rest with
    | none => "bad-case"
    | some rc =>
      let V := vnodesOfCase rc.vn rc.members
      match rc.rm, o.splitOn " | " with
      | none, [_] => "ok"
      | some r, [a, b] =>
        if !allDistinct (V.map (·.1)) then "ok" else
        let moved := ((words a).zip (words b)).filter fun (x, y) => x != y && x != r
        if moved.isEmpty then "ok" else "bad a key moved although the removed member did not own it"
      | _, _ => "bad unparsable: " ++ o
  | ["xring", _, _, _, _, rm] => judgeRounds o (rm.toNat?)
  | ["ch", _, _, _, rm] => judgeRounds o (rm.toNat?)
  | "rr" :: n :: _ :: ops =>
    match n.toNat? with
    | none => "bad-case"
    | some n =>
      let toks := (words o).filter (·.startsWith "o=")
      let recv := toks.map (fun t => field t "r")
      if recv.any (· == "panic") then "bad a routed message hit a panic in the router (message lost)"
      else if recv.any (· == "dead") then "bad a message was told to a stopped routee that availableRoutees had just deleted from the map (message lost)"
      else if recv.any (fun r => r == "none") then "bad a routed message was delivered to nobody"
      else if ops.any (·.startsWith "k") then "ok"
      else if rrCyclic n (recv.map (·.toNat?)) then "ok"
      else "bad receivers do not follow one fixed cyclic order of the routees"
  | "fan" :: n :: _ :: ops =>
    match n.toNat? with
    | none => "bad-case"
    | some n =>
      -- replay the kills to know who is running at each message
      let rec go (ops toks : List String) (dead : List Nat) : String :=
        match ops, toks with
        | [], _ => "ok"
        | op :: ops, t :: toks =>
          if op = "m" then
            let running := (List.range n).filter (fun i => !dead.contains i)
            match commaNats? (field t "r") with
            | some recv => if fanoutOK running recv then go ops toks dead else s!"bad fan-out receivers {field t "r"} are not every running routee exactly once"
            | none => "bad unparsable receivers: " ++ t
          else
            go ops toks (((op.drop 1).toString.toNat?).toList ++ dead)
        | _ :: _, [] => "bad missing output tokens"
      go ops (words o) []
  | _ => "bad-case"

def run (args : List String) : IO UInt32 := runWith args model judge

end GoaktVerif.Driver.C21

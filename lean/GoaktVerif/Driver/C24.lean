import GoaktVerif.Driver.Util
import GoaktVerif.Model.C24
import GoaktVerif.Spec.C24

/-!
C24 line-protocol front-end (grammar in harness/verifdrv/c24/main.go).
`model` runs the executable wrapper model over the identity codec with the same write segmentation and read
sizes as the harness (what every law-abiding codec must deliver, by `C24_transparent`) and prints length and
checksum of what the reading side received; `judge` checks the implementation's line against the spec
(bytes read = bytes written: same length, same order-sensitive checksum).
-/
namespace GoaktVerif.Driver.C24
open GoaktVerif.Driver GoaktVerif.Model.C24 GoaktVerif.Spec.C24

def genDataF : Nat → Char → Nat → Nat → Nat → List Nat → List Nat
  | 0, _, _, _, _, acc => acc.reverse
  | f + 1, kind, seed, i, x, acc =>
    let x' := (x * 1103515245 + 12345) % 2147483648
    let b := if kind == 'z' then (i / 64 + seed) % 7 else (x' / 65536) % 256
    genDataF f kind seed (i + 1) x' (b :: acc)

def genData (kind : Char) (seed n : Nat) : Bytes := genDataF n kind seed 0 (seed % 2147483648) []

def sizes (s : String) : List Nat := if s = "" || s = "-" then [] else (s.splitOn ",").filterMap String.toNat?

def splitSegs : List Nat → Bytes → List Bytes
  | [], _ => []
  | n :: ns, d => d.take n :: splitSegs ns (d.drop n)

/-- reads with the cyclic size list until `total` bytes arrived (fuel-bounded) -/
def readLoop (c : Codec) : Nat → Pipe c → List Nat → Nat → Nat → Pipe c
  | 0, k, _, _, _ => k
  | f + 1, k, rs, i, total =>
    if k.got.length ≥ total then k else
    let size := max 1 (rs.getD (i % rs.length) 4096)
    readLoop c f (step c k (.read size)) rs (i + 1) total

def dirModel (spec : String) : String :=
  match spec.splitOn ":" with
  | [ks, ws, rs, mode] =>
    let kind := ks.toList.headD 'r'
    match (ks.drop 1).toString.toNat? with
    | none => "bad-dir"
    | some seed =>
      let wsz := sizes ws
      let rsz := if (sizes rs).isEmpty then [4096] else sizes rs
      let total := wsz.sum
      let segs := splitSegs wsz (genData kind seed total)
      let k0 := wrap idCodec ()
      let k :=
        if mode == "p" then
          -- ping-pong: after each write the reader reads until it has everything written so far
          (segs.foldl (fun (acc : Pipe idCodec × Nat) seg =>
              let k1 := step idCodec acc.1 (.write seg)
              let upto := acc.2 + seg.length
              (readLoop idCodec (upto + 1) k1 rsz 0 upto, upto)) (k0, 0)).1
        else
          readLoop idCodec (total + 1) (run idCodec k0 (segs.map Op.write)) rsz 0 total
      s!"n={k.got.length} sum={checksum k.got}"
  | _ => "bad-dir"

def connModel (cs : String) : String := " / ".intercalate ((cs.splitOn "/").map dirModel)

def model (line : String) : String :=
  match words line with
  | _ :: conns => if conns.isEmpty then "bad-case" else " ; ".intercalate (conns.map connModel)
  | [] => "bad-case"

/-- the spec, independent of the model: the written bytes themselves -/
def dirSpec (spec : String) : String :=
  match spec.splitOn ":" with
  | [ks, ws, _, _] =>
    match (ks.drop 1).toString.toNat? with
    | none => "bad-dir"
    | some seed =>
      let total := (sizes ws).sum
      s!"n={total} sum={checksum (genData (ks.toList.headD 'r') seed total)}"
  | _ => "bad-dir"

def judge (line : String) : String :=
  let (c, o) := splitTab line
  match words c with
  | _ :: conns =>
    let want := " ; ".intercalate (conns.map fun cs => " / ".intercalate ((cs.splitOn "/").map dirSpec))
    if o == want then "ok" else s!"bad bytes read differ from bytes written: got [{o}] want [{want}]"
  | [] => "bad-case"

def run (args : List String) : IO UInt32 := runWith args model judge

end GoaktVerif.Driver.C24

import GoaktVerif.Driver.Util
import GoaktVerif.Model.C45.Net
import GoaktVerif.Spec.C45

/-!
C45 driver.  Case lines (same as harness/verifdrv/c45/main.go):
  pl <fusion 0|1> <sink c|b> <stage;stage;…|-> <v,v,…|->      end-to-end pipeline
  st <stage> <initialDemand> <refillThreshold> | ev ev …         one stage actor, message by message
-/
namespace GoaktVerif.Driver.C45
open GoaktVerif.Driver GoaktVerif.Model.C45 GoaktVerif.Spec.C45

def fmtVal : Val → String
  | .int i => toString i
  | .list l => "[" ++ ",".intercalate (l.map toString) ++ "]"

def parseVal (s : String) : Option Val :=
  if s.startsWith "[" then
    let body := ((s.drop 1).dropEnd 1).toString
    if body = "" then some (.list []) else ((body.splitOn ",").mapM String.toInt?).map .list
  else s.toInt?.map .int

def parseStage (idx : Nat) (s : String) : Option Stage :=
  match s.splitOn ":" with
  | ["map", k] => k.toInt?.map .map
  | ["try", k, b] => do let k ← k.toInt?; let b ← b.toInt?; pure (.tryMap k b s!"E{idx}")
  | ["fil", m, r] => do let m ← m.toInt?; let r ← r.toInt?; pure (.filter m r)
  | ["fm", r] => r.toInt?.map .flatMap
  | ["flat"] => some .flatten
  | ["scan"] => some .scan
  | ["dd"] => some .dedup
  | ["bat", n] => n.toNat?.map .batch
  | ["buf", n] => n.toNat?.map .buffer
  | ["lbuf", n] => n.toNat?.map .buffer
  | ["opm", w, k] => do let w ← w.toNat?; let k ← k.toInt?; pure (.opmap w k none s!"P{idx}")
  | ["opm", w, k, b] => do let w ← w.toNat?; let k ← k.toInt?; let b ← b.toInt?; pure (.opmap w k (some b) s!"P{idx}")
  | ["pm", w, k] => do let w ← w.toNat?; let k ← k.toInt?; pure (.pmap w k none s!"P{idx}")
  | ["pm", w, k, b] => do let w ← w.toNat?; let k ← k.toInt?; let b ← b.toInt?; pure (.pmap w k (some b) s!"P{idx}")
  | ["sum"] => some .sum
  | _ => none

def parseStages (sep : String) (s : String) : Option (List Stage) :=
  if s = "-" || s = "" then some []
  else ((s.splitOn sep).zipIdx).mapM (fun (p, i) => parseStage i p)

def parseVals (s : String) : Option (List Val) :=
  if s = "-" || s = "" then some [] else (s.splitOn ",").mapM (fun x => x.toInt?.map Val.int)

def fmtSink (s : SinkSt) : String :=
  let st := match s.termErr with
    | some e => "err=" ++ e
    | none => if s.alive then "timeout" else "done"
  s!"{st} n={s.hooks} | " ++ " ".intercalate (s.received.map fmtVal)

/-! ### st mode -/

def fmtDown : Down → String
  | .elem v => "d:e" ++ fmtVal v
  | .complete => "d:c"
  | .error e => "d:x" ++ e

def fmtUp : Up → String
  | .req n => "u:r" ++ toString n
  | .cancel => "u:k"

def b2 (b : Bool) : String := if b then "1" else "0"

def fmtState : Node → String
  | .src s => s!"al={b2 s.alive}"
  | .flow _ _ s => s!"cr={s.credit},dm={s.demand},bf={s.buf.length},cp={b2 s.completing},al={b2 s.alive}"
  | .fused _ _ s => s!"cr={s.credit},st={b2 s.started},al={b2 s.alive}"
  | .batch _ _ s => s!"cr={s.credit},dm={s.demand},wn={s.window.length},fd={b2 s.flushDue},cp={b2 s.completing},al={b2 s.alive}"
  | .pmap _ _ _ _ _ s => s!"if={s.inFlight},pn={s.pending.length},ne={s.nextEmit},ud={b2 s.upDone},st={b2 s.started},al={b2 s.alive}"
  | .sink _ s => s!"cr={s.credit},al={b2 s.alive},hk={s.hooks}"

def render (out : Out) (nd : Node) : String :=
  let msgs := out.up.map fmtUp ++ out.down.map fmtDown
  (if msgs.isEmpty then "-" else ";".intercalate msgs) ++ "{" ++ fmtState nd ++ "}"

def withCfg (init refill : Int) (c : Cfg) : Cfg := if init > 0 then { init := init, refill := refill } else c

def stNode (spec : String) (init refill : Int) : Option Node :=
  if spec.startsWith "src:" then
    (parseVals (spec.drop 4).toString).map (fun vs => Node.src { rest := vs })
  else if spec = "src:" || spec = "src" then some (.src { rest := [] })
  else if spec = "sink" then some (.sink (withCfg init refill defaultCfg) {})
  else if spec.startsWith "fused:" then
    (parseStages "+" (spec.drop 6).toString).map (fun fs => Node.fused (withCfg init refill defaultCfg) fs {})
  else
    (parseStage 0 spec).map fun st =>
      match mkNode st with
      | .flow c st s => .flow (withCfg init refill c) st s
      | .batch c n s => .batch (withCfg init refill c) n s
      | nd => nd

def outstOf : Node → List (Nat × Val)
  | .pmap _ _ _ _ _ s => s.outst
  | _ => []

def parseEv (nd : Node) (s : String) : Option Ev :=
  let tasks := outstOf nd
  let rest := (s.drop 1).toString
  match s.front with
  | 'r' => rest.toInt?.map (fun n => Ev.up (.req n))
  | 'e' => (parseVal rest).map (fun v => Ev.down (.elem v))
  | 'c' => some (.down .complete)
  | 'x' => some (.down (.error rest))
  | 'k' => some (.up .cancel)
  | 'f' => some .flush
  | 'g' =>
    match rest.toInt?, nd with
    | some v, .pmap _ _ k bad e _ =>
      (tasks.find? (fun t => t.2 == Val.int v)).map (fun t => Ev.result t.1 (parFn k bad e t.2))
    | _, _ => none
  | _ => none

/-- a handler that sends anything before the stageWire arrived dereferences a nil PID (or indexes the
    empty worker slice): the supervisor stops the actor (a sink then runs its PostStop hook) -/
def panicStop : Node → Node
  | .src s => .src { s with alive := false }
  | .flow c st s => .flow c st { s with alive := false }
  | .fused c fs s => .fused c fs { s with alive := false }
  | .batch c n s => .batch c n { s with alive := false }
  | .pmap o w k b e s => .pmap o w k b e { s with alive := false }
  | .sink c s => .sink c s.shutdown

def runSt (wired : Bool) (nd : Node) : List String → List String → Option (List String)
  | [], acc => some acc.reverse
  | e :: es, acc =>
    if !nd.alive then
      runSt wired nd es ((if acc.any (·.startsWith "PANIC") then "dead{-}" else "dead{" ++ fmtState nd ++ "}") :: acc)
    else if e = "w" then
      let r := nd.step .wire
      runSt true r.1 es (render r.2 r.1 :: acc)
    else
    match parseEv nd e with
    | none => none
    | some ev =>
        let r := nd.step ev
        if !wired && !(r.2.down.isEmpty && r.2.up.isEmpty && r.2.tasks.isEmpty) then
          let nd' := panicStop r.1
          runSt wired nd' es ("PANIC{-}" :: acc)
        else
        runSt wired r.1 es (render r.2 r.1 :: acc)

def modelSt (line : String) : String :=
  match line.splitOn "|" with
  | [hd, evs] =>
    match words hd with
    | ["st", spec, i, r] =>
      let late := spec.startsWith "~"
      let spec := if late then (spec.drop 1).toString else spec
      match i.toInt?, r.toInt? with
      | some i, some r =>
        match stNode spec i r with
        | none => "bad-case"
        | some nd =>
          let w : Node × Out := if late then (nd, {}) else nd.step .wire
          match runSt (!late) w.1 (words evs) [render w.2 w.1] with
          | some outs => " ".intercalate outs
          | none => "bad-case"
      | _, _ => "bad-case"
    | _ => "bad-case"
  | _ => "bad-case"

def model (line : String) : String :=
  match words line with
  | ["pl", fu, mode, stages, vals] =>
    match parseStages ";" stages, parseVals vals with
    | some sts, some vs =>
      let net := simulate (fu != "0") (mode == "b") sts vs
      match net.sink? with
      | some s => fmtSink s
      | none => "bad-case"
    | _, _ => "bad-case"
  | ["pl2", fu, mode, stages, vals] =>
    -- the same graph value materialised twice: two independent runs of the same network
    match parseStages ";" stages, parseVals vals with
    | some sts, some vs =>
      match (simulate (fu != "0") (mode == "b") sts vs).sink? with
      | some s => fmtSink s ++ " ## " ++ fmtSink s
      | none => "bad-case"
    | _, _ => "bad-case"
  | "st" :: _ => modelSt line
  | _ => "bad-case"

/-- parse the harness' `pl` output line -/
def parseRun (o : String) : Option (Status × Nat × List Val) :=
  match o.splitOn " | " with
  | hd :: rest =>
    let elems := words (" | ".intercalate rest)
    match words hd, elems.mapM parseVal with
    | [st, n], some vs =>
      let n := ((n.drop 2).toString).toNat?
      let st := if st = "done" then some Status.done
        else if st = "timeout" then some Status.timeout
        else if st.startsWith "err=" then some (Status.failed (st.drop 4).toString) else none
      match st, n with
      | some st, some n => some (st, n, vs)
      | _, _ => none
    | _, _ => none
  | [] => none

/-- parse one `msgs{state}` token of the harness' st output -/
def parseTok (tok : String) : Option (List String × String) :=
  match tok.splitOn "{" with
  | [m, st] => some (if m = "-" then [] else m.splitOn ";", (st.dropEnd 1).toString)
  | _ => none

def parseDownMsg (m : String) : Option Down :=
  if m.startsWith "d:e" then (parseVal (m.drop 3).toString).map Down.elem
  else if m = "d:c" then some .complete
  else if m.startsWith "d:x" then some (.error (m.drop 3).toString)
  else none

def stateField (st : String) (key : String) : Option Nat :=
  ((st.splitOn ",").filterMap fun kv => match kv.splitOn "=" with
    | [k, v] => if k = key then v.toNat? else none
    | _ => none).head?

def judgeSt (spec : String) (c o : String) : String :=
  match c.splitOn "|" with
  | [_, evs] =>
    let evw := words evs
    let toks := words o
    if toks.length ≠ evw.length + 1 then "bad unparsable output: " ++ o else
    match toks.mapM parseTok with
    | none => "bad unparsable output: " ++ o
    | some ptoks =>
      let evObs : List Obs := (evw.zip (ptoks.drop 1)).map fun (e, (msgs, _)) =>
        let ev : Ev := match e.front with
          | 'e' => match parseVal (e.drop 1).toString with | some v => .down (.elem v) | none => .flush
          | 'c' => .down .complete
          | 'x' => .down (.error (e.drop 1).toString)
          | 'k' => .up .cancel
          | 'r' => .up (.req ((e.drop 1).toString.toInt?.getD 0))
          | _ => .flush
        { ev := ev, dead := msgs.contains "dead", panic := msgs.contains "PANIC", downs := msgs.filterMap parseDownMsg }
      let first : Obs := { ev := .wire, dead := false, panic := false,
                           downs := ((ptoks.head?.map (·.1)).getD []).filterMap parseDownMsg }
      let obs := first :: evObs
      if spec = "sink" then
        if obs.any (·.panic) then "bad the stage panicked (message handled before its stageWire)" else
        match judgeHooks (ptoks.map fun (_, st) => ((stateField st "al").getD 1 == 1, (stateField st "hk").getD 0)) with
        | none => "ok"
        | some why => "bad " ++ why
      else if (spec.startsWith "fused:" || spec.startsWith "opm" || spec.startsWith "pm") &&
          ((ptoks.head?.map (·.1)).getD []).any (·.startsWith "u:r") then
        -- protocol rule behind the model's "stageWire first" assumption (fix cf400b2): demand originates at the sink,
        -- which is wired last; a stage that pulls while handling its own stageWire can feed a neighbour that is not wired yet
        "bad the stage requested elements from upstream while handling its stageWire (before any downstream demand)"
      else
        let srcVals := if spec.startsWith "src" then parseVals ((spec.drop 4).toString) else none
        let stages : Option (List Stage) :=
          if spec.startsWith "src" then some []
          else if spec.startsWith "fused:" then parseStages "+" (spec.drop 6).toString
          else (parseStage 0 spec).map ([·])
        -- Batch with the maxWait timer firing (`f`): batch boundaries depend on the timer, so only the
        -- concatenation of the batches is judged (against the identity)
        let timed := spec.startsWith "bat" && evw.contains "f"
        let flat (ds : List Down) : List Down := ds.flatMap fun d => match d with
          | .elem (.list l) => l.map (fun x => Down.elem (.int x))
          | d => [d]
        let obs := if timed then obs.map (fun o => { o with downs := flat o.downs }) else obs
        match (if timed then some [] else stages) with
        | none => "bad-case"
        | some sts =>
          -- unordered ParallelMap with a failing value: every non-failing consumed element's result may appear
          let pool : Option (List Val) := match sts with
            | [.pmap _ k (some bad) _] =>
              let handled := obs.filter (fun o => !o.dead)
              some ((handled.filterMap fun o => match o.ev with
                | .down (.elem (.int x)) => if x = bad then none else some (Val.int (x + k))
                | _ => none))
            | _ => none
          match judgeStage sts srcVals (unordered sts) obs pool with
          | none => "ok"
          | some why => "bad " ++ why
  | _ => "bad-case"

def judge (line : String) : String :=
  let (c, o) := splitTab line
  match words c with
  | ["pl", _, _, stages, vals] =>
    match parseStages ";" stages, parseVals vals with
    | some sts, some vs =>
      -- `words` drops the trailing empty element list, so re-add the separator for empty outputs
      match parseRun (if o.endsWith "|" then o ++ " " else o) with
      | some (st, n, got) =>
        match judgeRun sts vs st n got with
        | none => "ok"
        | some why => "bad " ++ why
      | none => "bad unparsable output: " ++ o
    | _, _ => "bad-case"
  | ["pl2", _, _, stages, vals] =>
    match parseStages ";" stages, parseVals vals with
    | some sts, some vs =>
      let parts := o.splitOn " ## "
      if parts.length ≠ 2 then "bad expected two runs: " ++ o else
      let verdicts := parts.zipIdx.map fun (p, i) =>
        match parseRun (if p.endsWith "|" then p ++ " " else p) with
        | some (st, n, got) =>
          match judgeRun sts vs st n got with
          | none => none
          | some why => some s!"run {i + 1} of the same graph: {why}"
        | none => some ("unparsable output: " ++ p)
      match verdicts.filterMap id with
      | [] => "ok"
      | why :: _ => "bad " ++ why
    | _, _ => "bad-case"
  | "st" :: spec :: _ => judgeSt (if spec.startsWith "~" then (spec.drop 1).toString else spec) c o
  | _ => "bad-case"

def run (args : List String) : IO UInt32 := runWith args model judge

end GoaktVerif.Driver.C45

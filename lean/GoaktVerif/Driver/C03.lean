import GoaktVerif.Driver.Util
import GoaktVerif.Model.C03
import GoaktVerif.Spec.C03

namespace GoaktVerif.Driver.C03
open GoaktVerif.Driver GoaktVerif.Model.C03

/-- one script token → the Tell / BatchTell it stands for, applied to the mailbox -/
def applyToken (mb : List Item) (t : String) : Option (List Item) :=
  if t = "S" then some (tell mb .stashOn)
  else if t = "U" then some (tell mb .unstashAll)
  else if t = "u" then some (tell mb .unstashOne)
  else if t.startsWith "t" then (t.drop 1).toString.toNat?.map fun id => tell mb (.msg id)
  else if t.startsWith "b" then
    (((t.drop 1).toString.splitOn ",").mapM String.toNat?).map fun ids => batchTell mb (ids.map .msg)
  else none

def scriptModel (toks : List String) : String :=
  let toks := match toks with
    | t :: rest => if t.startsWith "via=" then rest else toks
    | [] => []
  match toks.foldlM applyToken [] with
  | none => "bad-case"
  | some mb =>
    let a := runA ((mb.length + 1) * (mb.length + 1) + 8) { mailbox := mb, stash := [], stashing := false, handled := [] }
    joinNats a.handled

def model (line : String) : String :=
  match line.splitOn "|" with
  | [cfg, toks] =>
    match words cfg with
    | "script" :: _ => scriptModel (words toks)
    | _ => "*"
  | _ => "*"

/-- script cases: the List-level stash/BatchTell semantics of `Model.C03` IS the specification of the
handled order (one sender, gated mailbox); everything else is judged by the per-sender oracle -/
def judge (l : String) : String :=
  let (c, o) := splitTab l
  match c.splitOn "|" with
  | [cfg, toks] =>
    match words cfg with
    | "script" :: _ =>
      let want := scriptModel (words toks)
      if want = "bad-case" || o.startsWith "TIMEOUT" || o.startsWith "HANG" || o = "bad-case" then "ok"
      else if o = want then "ok"
      else s!"bad handled order differs from send order / stash order: want [{want}]"
    | _ => Spec.C03.judgeLine c o
  | _ => Spec.C03.judgeLine c o

def run (args : List String) : IO UInt32 := runWith args model judge

end GoaktVerif.Driver.C03

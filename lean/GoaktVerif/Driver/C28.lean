import GoaktVerif.Driver.Util
import GoaktVerif.Model.C28
import GoaktVerif.Spec.C28

/-!
C28 driver: executes the controller ops of harness/verifdrv/c28 as sequences of `Model.C28.step`
actions.  The harness serialises the points at which concurrent calls touch the pool, so the
output is deterministic and the correspondence is equality.
-/
namespace GoaktVerif.Driver.C28
open GoaktVerif.Driver GoaktVerif.Model.C28

structure Info where
  k : Nat          -- number used in the script
  idx : Nat        -- index in the model's call list
  n : Nat          -- messages
  frames : Nat     -- request frames on the wire
  dl : Bool
  conn : Option Nat := none
  served : Nat := 0
  starved : Bool := false
  canc : Bool := false       -- cancellable context
  cancelled : Bool := false
  pre : Bool := false        -- cancelled before the call started

structure Ctl where
  s : St := {}
  infos : List Info := []
  rc : Bool := false
  allStale : Bool := false

def callOf (c : Ctl) (i : Info) : Option Call := c.s.calls[i.idx]?

def finished (c : Ctl) (i : Info) : Bool :=
  match callOf c i with
  | some cl => cl.result.isSome
  | none => true

def act (cfg : Cfg) (c : Ctl) (i : Info) (a : CallAct) : Ctl := { c with s := step cfg c.s (.call i.idx a) }

def updInfo (c : Ctl) (i : Info) : Ctl := { c with infos := c.infos.map fun j => if j.k == i.k then i else j }

def rep (n : Nat) (f : Ctl → Ctl) (c : Ctl) : Ctl := (List.range n).foldl (fun c _ => f c) c

/-- every deadline call in flight runs into its deadline: its pending read fails -/
def expireAll (cfg : Cfg) (c : Ctl) : Ctl :=
  c.infos.foldl (fun c i => if i.dl && !finished c i then act cfg c i (.read false) else c) c

def start (cfg : Cfg) (c : Ctl) (k n : Nat) (dl batch : Bool) (flag : Char := ' ') : Ctl :=
  if c.infos.any (·.k == k) then c else
  if c.rc && c.s.pool.closed then c else   -- remoteclient.Close drops the pool object; later asks use a new one
  let frames := if c.rc && batch then 1 else n
  let pre := flag == 'x'
  let i : Info := { k := k, idx := c.s.calls.length, n := n, frames := frames, dl := dl,
                    canc := flag == 'c' || pre, cancelled := pre, pre := pre }
  let c := { c with s := step cfg c.s (.newCall frames dl) }
  let stale := if c.allStale then c.s.pool.idle.length else 0
  -- a cancelled context makes DialContext fail; a pooled connection is handed out regardless
  let c := act cfg c i (.get stale (!pre))
  let c := act cfg c i (.deadline true)
  let c := if pre then act cfg (act cfg c i (.write true)) i .cancel   -- first frame, then ctx.Done() between writes
           else rep frames (act cfg · i (.write true)) c
  let conn := match callOf c i with
    | some cl => cl.conn.map (·.id)
    | none => none
  { c with infos := c.infos ++ [{ i with conn := if pre then none else conn }] }

def release (cfg : Cfg) (c : Ctl) (k : Nat) (o : Char) : Ctl :=
  match c.infos.find? (·.k == k) with
  | none => c
  | some i =>
    if i.served ≥ i.frames then c else
    let o := if o == 'n' && !i.dl then 'e' else o
    let i := { i with served := i.served + 1, starved := i.starved || o == 'n' }
    let c := updInfo c i
    if finished c i then c else
    let c := act cfg c i (.serve (o == '+'))
    if o == 'e' then act cfg c i (.read false)
    else
      let c := act cfg c i (.read true)
      if i.served < i.frames then (if i.cancelled && o == '+' then act cfg c i .cancel else c)
      else if i.starved then expireAll cfg c
      else act cfg c i (.put true)

def finishAll (cfg : Cfg) (c : Ctl) : Ctl :=
  c.infos.foldl (fun c i0 =>
    (List.range (i0.frames + 1)).foldl (fun c _ =>
      match c.infos.find? (·.k == i0.k) with
      | some i => if finished c i then c else if i.served < i.frames then release cfg c i.k '+' else expireAll cfg c
      | none => c) c) c

def doOp (cfg : Cfg) (c : Ctl) (op : String) : Option Ctl :=
  let cs := op.toList
  let num (l : List Char) : Option Nat := (String.ofList l).toNat?
  match cs with
  | ['x'] => some { c with s := step cfg c.s .closeClient }
  | ['t'] => some (expireAll cfg c)
  | 'k' :: r => (num r).map fun k =>
    { c with infos := c.infos.map fun i => if i.k == k && i.canc && i.frames - i.served ≥ 2 then { i with cancelled := true } else i }
  | 'a' :: r =>
    let dl := r.getLast? == some 'd'
    let r := if dl then r.dropLast else r
    (num r).map fun k => start cfg c k 1 dl false
  | 'b' :: r =>
    let dl := r.getLast? == some 'd'
    let r := if dl then r.dropLast else r
    let flag := if r.getLast? == some 'c' then 'c' else if r.getLast? == some 'x' then 'x' else ' '
    let r := if flag != ' ' then r.dropLast else r
    if flag != ' ' && (dl || c.rc) then none else
    match (String.ofList r).splitOn ":" with
    | [ks, ns] => match ks.toNat?, ns.toNat? with
      | some k, some n => if n < 1 || n > 16 || (flag == 'x' && n < 2) then none else some (start cfg c k n dl true flag)
      | _, _ => none
    | _ => none
  | 'r' :: r => (num r).map fun k => release cfg c k '+'
  | 'e' :: r => (num r).map fun k => release cfg c k 'e'
  | 'n' :: r => (num r).map fun k => release cfg c k 'n'
  | _ => none

def tagStr (t : Nat × Nat) : String := s!"{t.1}.{t.2}"

def render (c : Ctl) : String :=
  let per := c.infos.map fun i =>
    let cn := match i.conn with
      | some id => s!"c{id}"
      | none => "-"
    let res := match callOf c i with
      | some cl => match cl.result with
        | some (some l) =>
          -- an rc batch is one frame whose reply lists the n echoed messages
          let ids := if c.rc && i.frames == 1 && l == [(i.idx, 0)] then (List.range i.n).map fun j => (i.k, j)
                     else l.map fun (t : Nat × Nat) => (i.k, t.2)
          "ok:" ++ ",".intercalate (ids.map tagStr)
        | some none => "err"
        | none => "hung"
      | none => "?"
    s!"{i.k}@{cn}={res}"
  s!"{" ".intercalate per} idle={c.s.pool.idle.length} conns={c.s.pool.nextConn}"

def model (line : String) : String :=
  match words line with
  | "storm" :: args =>
    -- uncontrolled real concurrency: whatever the schedule, `C28_own_reply` + `C28_payload_exclusive` say that
    -- no successful ask returns another request's reply
    match args.mapM String.toNat? with
    | some [rounds, fails, workers, per, kb] =>
      if rounds < 1 || rounds > 200 || fails > 256 || workers < 1 || workers > 64 || per < 1 || per > 1000 || kb > 256
      then "bad-case" else "wrong=0"
    | _ => "bad-case"
  | "pool" :: mode :: mi :: it :: ops =>
    match mi.toNat? with
    | some mi =>
      if mode != "inet" && mode != "rc" then "bad-case" else
      -- WithClientMaxIdleConns ignores n ≤ 0 and keeps inet.DefaultMaxIdleConns = 32
      let cfg : Cfg := { maxIdle := if mode == "rc" && mi == 0 then 32 else mi }
      let c0 : Ctl := { rc := mode == "rc", allStale := it == "1" }
      let rec go (c : Ctl) : List String → Option Ctl
        | [] => some c
        | op :: rest => match doOp cfg c op with
          | some c' => go c' rest
          | none => none
      match go c0 ops with
      | some c => render (finishAll cfg c)
      | none => "bad-case"
    | none => "bad-case"
  | _ => "bad-case"

/-! ### judge: every successful call got the replies to its own requests, in request order -/

def parseTag (s : String) : Option (Nat × Nat) :=
  match s.splitOn "." with
  | [a, b] => match a.toNat?, b.toNat? with
    | some a, some b => some (a, b)
    | _, _ => none
  | _ => none

/-- number of messages of call k according to the script -/
def sizeOf (ops : List String) (k : Nat) : Nat :=
  ops.foldl (fun acc op =>
    match op.toList with
    | 'b' :: r =>
      let r := if r.getLast? == some 'd' then r.dropLast else r
      let r := if r.getLast? == some 'c' || r.getLast? == some 'x' then r.dropLast else r
      match (String.ofList r).splitOn ":" with
      | [ks, ns] => if ks.toNat? == some k then ns.toNat?.getD acc else acc
      | _ => acc
    | _ => acc) 1

def judge (line : String) : String :=
  let (c, o) := splitTab line
  if o == "STALL" || o == "bad-case" then "ok" else
  if (words c).head? == some "storm" then
    (if o == "wrong=0" then "ok"
     else s!"bad {o}: that many RemoteAsk calls returned, without error, a reply that is not the answer to their own request")
  else
  let ops := (words c).drop 4
  let toks := (words o).filter fun w => w.contains '@'
  let bad := toks.filterMap fun w =>
    match w.splitOn "=" with
    | [who, res] =>
      match (who.splitOn "@").head?.bind String.toNat? with
      | none => some s!"unparsable token {w}"
      | some k =>
        if res == "err" then none
        else if res.startsWith "ok:" then
          let body := (res.drop 3).toString
          let ids := if body == "" then some [] else (body.splitOn ",").mapM parseTag
          match ids with
          | some ids => if Spec.C28.ownReplies k (sizeOf ops k) ids then none
                        else some s!"call {k} received {body} instead of the replies to its own requests"
          | none => some s!"unparsable reply list {w}"
        else some s!"call {k} did not complete: {res}"
    | _ => some s!"unparsable token {w}"
  match bad with
  | [] => "ok"
  | b :: _ => "bad " ++ b

def run (args : List String) : IO UInt32 := runWith args model judge

end GoaktVerif.Driver.C28

/-
Shared plumbing for the line-protocol drivers (core Lean only so `gvdriver` links).
Every driver is `run : List String → IO UInt32`; `args = [mode]`, mode ∈ {"model","judge"}.
One output line per input line, always (an unparsable line prints `bad-case`).
-/
namespace GoaktVerif.Driver

partial def forLines (h : IO.FS.Stream) (f : String → String) : IO Unit := do
  let out ← IO.getStdout
  let rec loop : IO Unit := do
    let line ← h.getLine
    if line.isEmpty then return ()
    let l := if line.endsWith "\n" then (line.dropEnd 1).toString else line
    out.putStrLn (f l)
    loop
  loop
  out.flush

/-- stateful variant: the state is threaded through the lines (rarely needed; most cases are self-contained lines) -/
partial def foldLines {σ : Type} (h : IO.FS.Stream) (s0 : σ) (f : σ → String → σ × String) : IO Unit := do
  let out ← IO.getStdout
  let rec loop (s : σ) : IO Unit := do
    let line ← h.getLine
    if line.isEmpty then return ()
    let l := if line.endsWith "\n" then (line.dropEnd 1).toString else line
    let (s', o) := f s l
    out.putStrLn o
    loop s'
  loop s0
  out.flush

def words (s : String) : List String := (s.splitOn " ").filter (· ≠ "")

def splitTab (s : String) : String × String :=
  match s.splitOn "\t" with
  | a :: rest => (a, "\t".intercalate rest)
  | [] => (s, "")

def nats? (ws : List String) : Option (List Nat) := ws.mapM String.toNat?
def ints? (ws : List String) : Option (List Int) := ws.mapM String.toInt?

def joinNats (l : List Nat) : String := " ".intercalate (l.map toString)
def joinInts (l : List Int) : String := " ".intercalate (l.map toString)

def commaNats? (s : String) : Option (List Nat) :=
  if s = "" || s = "-" then some [] else (s.splitOn ",").mapM String.toNat?
def commaInts? (s : String) : Option (List Int) :=
  if s = "" || s = "-" then some [] else (s.splitOn ",").mapM String.toInt?

def runWith (args : List String) (model judge : String → String) : IO UInt32 := do
  let stdin ← IO.getStdin
  match args with
  | ["model"] => forLines stdin model; return 0
  | ["judge"] => forLines stdin (fun l => let (c, o) := splitTab l; judge (c ++ "\t" ++ o)); return 0
  | _ => IO.eprintln "mode must be model|judge"; return 2

end GoaktVerif.Driver

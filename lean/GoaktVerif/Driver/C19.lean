import GoaktVerif.Driver.Util
import GoaktVerif.Model.C19
import GoaktVerif.Spec.C19

/-
C19 driver; case formats are described in harness/inpkg/actor/zz_verif_c19.go.
Timing cases (`t-once`, `t-every`, `t-pause`) have a fixed expected output; the harness answers
`late` when a delivery did not show up in the bounded wait, which is never compared.
-/
namespace GoaktVerif.Driver.C19
open GoaktVerif.Driver GoaktVerif.Model.C19 GoaktVerif.Spec.C19

def trim (s : String) : String := s.trimAscii.toString

def resS : Res → String
  | .ok => "ok" | .notstarted => "notstarted" | .noref => "noref" | .nojob => "nojob"
  | .jobExists => "exists" | .suspended => "suspended" | .active => "active" | .expired => "expired"

def splitOps (s : String) : List String := ((s.splitOn ";").map trim).filter (· ≠ "")

/-- insertion sort (the harness sorts the listing) -/
def sortS : List String → List String
  | [] => []
  | x :: xs => ins x (sortS xs)
where
  ins (x : String) : List String → List String
    | [] => [x]
    | y :: ys => if x < y then x :: y :: ys else y :: ins x ys

def refsRun : State → List String → List String → Option (List String)
  | _, [], acc => some acc.reverse
  | s, op :: ops, acc =>
    match words op with
    | ["list"] => refsRun s ops (("[" ++ ",".intercalate (sortS (list s)) ++ "]") :: acc)
    | ["once", r] => let (s', x) := schedule s .once r; refsRun s' ops (resS x :: acc)
    | ["every", r] => let (s', x) := schedule s .every r; refsRun s' ops (resS x :: acc)
    | ["cron", r] => let (s', x) := schedule s .cron r; refsRun s' ops (resS x :: acc)
    | ["fired", r] =>
      let (s', x) := schedule s .once r
      refsRun (if x == .ok then fire s' r else s') ops (resS x :: acc)
    | ["cancel", r] => let (s', x) := cancel s r; refsRun s' ops (resS x :: acc)
    | ["pause", r] => let (s', x) := pause s r; refsRun s' ops (resS x :: acc)
    | ["resume", r] => let (s', x) := resume s r; refsRun s' ops (resS x :: acc)
    | _ => none

/-- claim attempts: `(store, result)` threaded; runTime ≡ 0, so skew = lag − storeTime -/
def claimRun (ttl : Int) : Store → List String → List String → Option (List String)
  | _, [], acc => some acc.reverse
  | st, a :: as, acc =>
    match words a with
    | ["a", tick, lag, store] =>
      match tick.toNat?, lag.toInt?, store.toInt? with
      | some tick, some lag, some store =>
        let (st', o) := claim (fun _ => 0) ttl st { tick := tick, t := store, k := lag - store }
        let r := match o with
          | .win => s!"win,t{ttl}"
          | .lose => s!"lose,t{ttl}"
          | .skip => "skip"
        claimRun ttl st' as (r :: acc)
      | _, _, _ => none
    | ["nometa"] => claimRun ttl st as ("open" :: acc)
    | ["nocluster", lag] =>
      match lag.toInt? with
      | some lag => claimRun ttl st as ((if lag > ttl then "skip" else "err:nocluster") :: acc)
      | none => none
    | ["storeerr", _, lag] =>
      match lag.toInt? with
      | some lag => claimRun ttl st as ((if lag > ttl then "skip" else s!"err:other,t{ttl}") :: acc)
      | none => none
    | _ => none

/-- `claimz`: nodes in different time zones handle ticks on time (lag ≈ 0); the key is the tick -/
def zoneRun (ttl : Int) : Store → List String → List String → List Nat → Option (List String)
  | _, [], acc, ticks => some (acc.reverse ++ [s!"keys={ticks.eraseDups.length}/{ticks.eraseDups.length}"])
  | st, a :: as, acc, ticks =>
    match words a with
    | ["z", tick, _, store] =>
      match tick.toNat?, store.toInt? with
      | some tick, some store =>
        let (st', o) := claim (fun _ => 0) ttl st { tick := tick, t := store, k := -store }
        let r := match o with
          | .win => s!"win,t{ttl}"
          | .lose => s!"lose,t{ttl}"
          | .skip => "skip"
        zoneRun ttl st' as (r :: acc) (tick :: ticks)
      | _, _ => none
    | _ => none

def ttlArg (a : String) : Option (Option Int) :=
  if a == "err1" || a == "err2" then some none else a.toInt?.map some

def model (line : String) : String :=
  let line := trim line
  if line == "const" then s!"min={minTTL} max={maxTTL}" else
  match words line with
  | "refs" :: _ =>
    match line.splitOn "|" with
    | [_, ops] => match refsRun {} (splitOps ops) [] with
      | some out => " ".intercalate out
      | none => "bad-case"
    | _ => "bad-case"
  | "refs0" :: _ =>
    match line.splitOn "|" with
    | [_, ops] => match refsRun { started := false } (splitOps ops) [] with
      | some out => " ".intercalate out
      | none => "bad-case"
    | _ => "bad-case"
  | "claim" :: ttl :: _ =>
    match line.splitOn "|", ttl.toInt? with
    | [_, atts], some ttl => match claimRun ttl [] (splitOps atts) [] with
      | some out => " ".intercalate out
      | none => "bad-case"
    | _, _ => "bad-case"
  | "claimz" :: ttl :: _ =>
    match line.splitOn "|", ttl.toInt? with
    | [_, atts], some ttl => match zoneRun ttl [] (splitOps atts) [] [] with
      | some out => " ".intercalate out
      | none => "bad-case"
    | _, _ => "bad-case"
  | ["ttl", a] =>
    match ttlArg a with
    | some p => toString (claimTTL p)
    | none => "bad-case"
  | ["t-once", _] => "early=false n=1 cancel-after=error"
  | ["t-oncepr", _] => "n=1 listed=false"
  | ["t-every", _, _] => "early=false extra<=1:true"
  | ["t-pause", _, _] => "early=false extra<=1:true resumed"
  | _ => "bad-case"

/-! ### judge -/

/-- history of one reference → its spec status, judging every op's reported result on the way -/
def judgeRefs : List (String × List Act) → List String → List String → Option String
  | _, [], _ => none
  | _, _, [] => none
  | hs, op :: ops, o :: outs =>
    if o == "?" then none else
    match words op with
    | ["list"] => judgeRefs hs ops outs
    | [k, r] =>
      let h := (hs.lookup r).getD []
      let st := status h
      let isErr := o != "ok"
      let bad : Option String :=
        if k == "cancel" || k == "pause" || k == "resume" then
          if mustFail st && !isErr then some s!"bad {k} of an unknown or cancelled reference reported success"
          else if k == "resume" && resumeMustSucceed st && isErr then
            some (match st with
              | .paused true => "bad resuming a paused one-shot schedule failed and the schedule is gone: the message will never be delivered"
              | _ => "bad resuming a paused schedule failed")
          else none
        else none
      match bad with
      | some b => some b
      | none =>
        let act : List Act :=
          if isErr && k != "cancel" then [] else
          match k with
          | "once" => [.schedule true] | "every" => [.schedule false] | "cron" => [.schedule false]
          | "fired" => [.schedule true, .delivered]
          | "cancel" => [.cancel] | "pause" => [.pause] | "resume" => [.resume]
          | _ => []
        judgeRefs ((r, h ++ act) :: hs.filter (·.1 != r)) ops outs
    | _ => some "bad-case"

/-- per tick: number of wins, largest |skew|, largest lag among the attempts that were not skipped -/
def judgeClaim (ttl : Int) (atts outs : List String) : Option String :=
  let rows := (atts.zip outs).filterMap fun (a, o) =>
    match words a with
    | ["a", tick, lag, store] =>
      match tick.toNat?, lag.toInt?, store.toInt? with
      | some tick, some lag, some store => some (tick, lag, store, o)
      | _, _, _ => none
    | _ => none
  let ticks := (rows.map (·.1)).eraseDups
  ticks.findSome? fun tk =>
    let rs := rows.filter (·.1 == tk)
    let live := rs.filter fun r => !(r.2.2.2.startsWith "skip")
    let wins := (rs.filter fun r => r.2.2.2.startsWith "win").length
    let s := live.foldl (fun m r => max m (r.2.1 - r.2.2.1).natAbs) 0
    let l := live.foldl (fun m r => max m r.2.1) 0
    let sorted := (rs.map (·.2.2.1)).zip ((rs.map (·.2.2.1)).drop 1) |>.all fun (a, b) => a ≤ b
    let early := live.any fun r => r.2.1 < 0
    if sorted && !early && 2 * (s : Int) + l < ttl && !atMostOne wins then
      some s!"bad tick {tk} was won by {wins} nodes although skew and lag are within the claim TTL"
    else none

def judge (line : String) : String :=
  let (c, o) := splitTab line
  let c := trim c
  if o.startsWith "CRASH" then "bad harness crashed" else
  if c == "const" then (if o == s!"min={minTTL} max={maxTTL}" then "ok" else "bad claim TTL bounds differ from the documented 1 minute / 24 hours") else
  match words c with
  | "refs" :: _ | "refs0" :: _ =>
    match c.splitOn "|" with
    | [_, ops] => match judgeRefs [] (splitOps ops) (words o) with
      | some b => b
      | none => "ok"
    | _ => "bad-case"
  | "claim" :: ttl :: _ =>
    match c.splitOn "|", ttl.toInt? with
    | [_, atts], some ttl =>
      if (o.splitOn "extra-delivery").length > 1 then "bad a node that did not win the claim delivered the tick" else
      match judgeClaim ttl (splitOps atts) (words o) with
      | some b => b
      | none => "ok"
    | _, _ => "bad-case"
  | "claimz" :: ttl :: _ =>
    match c.splitOn "|", ttl.toInt? with
    | [_, atts], some _ =>
      if (o.splitOn "extra-delivery").length > 1 then "bad a node that did not win the claim delivered the tick" else
      -- every node is on time and unskewed: at most one winner per tick, whatever its time zone
      let rows := ((splitOps atts).zip (words o)).filterMap fun (a, r) =>
        match words a with
        | ["z", tick, _, _] => some (tick, r)
        | _ => none
      let ticks := (rows.map (·.1)).eraseDups
      match ticks.find? (fun tk => !atMostOne ((rows.filter fun r => r.1 == tk && r.2.startsWith "win").length)) with
      | some tk => s!"bad tick {tk} was won by more than one node (nodes in different time zones built different claim keys for the same instant)"
      | none => "ok"
    | _, _ => "bad-case"
  | ["ttl", a] =>
    match ttlArg a, o.toInt? with
    | some p, some out => if ttlOK minTTL maxTTL p out then "ok" else "bad claim TTL outside its bounds or different from the cron period"
    | _, _ => "bad unparsable"
  | "t-once" :: _ =>
    if o == "late" then "ok"
    else if (o.splitOn "early=true").length > 1 then "bad a one-shot message was delivered before its delay"
    else if (o.splitOn "n=1 ").length > 1 then "ok"
    else if o.startsWith "err:" then "bad scheduling failed: " ++ o
    else "bad a one-shot message was not delivered exactly once: " ++ o
  | "t-oncepr" :: _ =>
    if o == "late" || o == "raced" then "ok"
    else if o.startsWith "n=2" then "bad a one-shot message resumed after its fire instant was delivered more than once"
    else if o.startsWith "delivered-while-paused" then "bad a paused one-shot message was delivered"
    else if o.startsWith "resume:" || o.startsWith "err:" then "bad schedule operation failed: " ++ o
    else if o.startsWith "n=1" then "ok"
    else "bad a one-shot message was not delivered exactly once: " ++ o
  | "t-every" :: _ | "t-pause" :: _ =>
    if o == "late" then "ok"
    else if (o.splitOn "early=true").length > 1 then "bad a recurring message was delivered before its first interval"
    else if (o.splitOn "extra<=1:false").length > 1 then "bad more than one delivery after cancel/pause returned: " ++ o
    else if o.startsWith "err:" || (o.splitOn "resume:").length > 1 then "bad schedule operation failed: " ++ o
    else "ok"
  | _ => "bad-case"

def run (args : List String) : IO UInt32 := runWith args model judge

end GoaktVerif.Driver.C19

import GoaktVerif.Driver.Util
import GoaktVerif.Model.C42
import GoaktVerif.Driver.C42c
import GoaktVerif.Spec.C42
import GoaktVerif.Spec.C42c

/-!
Line protocol for C42/C43.  Case: `<window> <deliveryConfirmation 0|1> op op …` with ops
  dpc<i>/upc<i>/xpc<i>  deliver / duplicate / drop the i-th in-flight producer→consumer controller message
  dcp<i>/ucp<i>/xcp<i>  the same for consumer→producer controller messages
  tp / tc               producer / consumer controller tick
  up / xp               producer endpoint handles / loses the head of its mailbox
  uc1 / uc0 / xc        consumer endpoint handles the head of its mailbox and confirms / does not confirm / loses it
`model` prints the same trace as the Go harness; `judge` runs the Spec monitor over the harness trace.
-/
namespace GoaktVerif.Driver.C42
open GoaktVerif.Driver GoaktVerif.Model.C42 GoaktVerif.Spec.C42

def b2n (b : Bool) : Nat := if b then 1 else 0

def showC : CMsg → String
  | .register n => s!"G({n})"
  | .request s n c u v => s!"Q({s},{n},{c},{u},{b2n v})"
  | .ack s n c => s!"K({s},{n},{c})"

def showP : PMsg → String
  | .regAck s nx n => s!"A({s},{nx},{n})"
  | .sequenced s i q pl => s!"S({s},{i},{q},{pl})"

def showPU : PUMsg → String
  | .requestNext s t => s!"N({s},{t})"
  | .stored s t i q => s!"T({s},{t},{i},{q})"
  | .deliveryConfirmed s i q => s!"F({s},{i},{q})"

def showD (d : Delivery) : String := s!"D({d.session},{d.id},{d.seq},{d.payload})"

def hsNum : HS → Nat
  | .idle => 0 | .credit => 1 | .store => 2 | .storedAck => 3 | .accept => 4

def digestP (p : Producer) : String :=
  let unc := ",".intercalate (p.unconfirmed.map fun u => s!"{u.id}:{u.seq}:{u.payload}")
  let st := match p.storedMessage with | some m => showPU m | none => "-"
  s!"P\{cur={p.currentSeq} conf={p.confirmedSeq} pers={p.persistedConfirmedSeq} unc=[{unc}] reg={b2n p.registered} n={p.nonce} dem={p.demandUpTo} span={p.windowSpan} hs={hsNum p.handshake} tok={p.token} pid={p.pendingId} pseq={p.pendingSeq} ppl={p.pendingPayload} st={st} pch=0 lt={p.lastToken} lid={p.lastId} f={b2n p.failed}}"

def digestC (c : Consumer) : String :=
  let buf := ",".intercalate (c.buffer.map fun b => s!"{b.id}:{b.seq}:{b.payload}")
  let inf := match c.inFlight with | some d => showD d | none => "-"
  s!"C\{w={c.window} hp={b2n c.hasProducer} s={c.session} n={c.nonce} exp={c.expectedSeq} conf={c.confirmedSeq} upto={c.requestUpToSeq} buf=[{buf}] inf={inf} rl=0 saw={b2n c.sawValidTraffic} gap={b2n c.lastGap.isSome} f={b2n c.failed}}"

def group (tag : String) (l : List String) : String :=
  if l.isEmpty then "" else tag ++ ":" ++ String.join l ++ " "

def traceOf (w' : World) (o : StepOut) : String :=
  if o.who == 0 then "-"
  else
    group "pc" ((pcOf o.pouts).map showP) ++ group "cp" ((cpOf o.couts).map showC) ++
    group "pu" ((puOf o.pouts).map showPU) ++ group "cu" ((cuOf o.couts).map showD) ++
    (if o.who == 1 then digestP w'.p else digestC w'.c)

def parseOp (s : String) : Option Step :=
  let idx (k : Nat) : Option Nat := (s.drop k).toString.toNat?
  if s = "tp" then some .tickP
  else if s = "tc" then some .tickC
  else if s = "up" then some .userP
  else if s = "xp" then some .userPDrop
  else if s = "uc1" then some (.userC true)
  else if s = "uc0" then some (.userC false)
  else if s = "xc" then some .userCDrop
  else if s.startsWith "dpc" then (idx 3).map .deliverPC
  else if s.startsWith "upc" then (idx 3).map .dupPC
  else if s.startsWith "xpc" then (idx 3).map .dropPC
  else if s.startsWith "dcp" then (idx 3).map .deliverCP
  else if s.startsWith "ucp" then (idx 3).map .dupCP
  else if s.startsWith "xcp" then (idx 3).map .dropCP
  else none

/-- the model keeps `now = 0` and `interval = 1`: the rate limiter then suppresses every gap request after
    the first solicit, which is what the harness' one-hour interval does within a case -/
def parseCase (line : String) : Option (World × List Step) :=
  match words line with
  | w :: dc :: ops =>
    match w.toNat?, ops.mapM parseOp with
    | some w, some steps =>
      if w < 1 || w > maxWindow then none else some (World.init w 1 (dc == "1"), steps)
    | _, _ => none
  | _ => none

/-- a script op: a fixed step, or "deliver the newest message of a link" (`dcpL` / `dpcL`), whose index is
    only known when it runs (used by the recovery epilogue `tc tc dcpL dpcL dcpL` = `recover` of Props/C42) -/
inductive DOp
  | fixed (s : Step)
  | lastCP
  | lastPC

def DOp.resolve (w : World) : DOp → Step
  | .fixed s => s
  | .lastCP => .deliverCP (w.netCP.length - 1)
  | .lastPC => .deliverPC (w.netPC.length - 1)

def DOp.toC : DOp → GoaktVerif.Driver.C42c.Op
  | .fixed s => .step s
  | .lastCP => .lastCP
  | .lastPC => .lastPC

def parseDOp (s : String) : Option DOp :=
  if s = "dcpL" then some .lastCP else if s = "dpcL" then some .lastPC else (parseOp s).map .fixed

def runTrace (w : World) : List DOp → List String
  | [] => []
  | s :: ss =>
    let (w', o) := w.step (s.resolve w)
    traceOf w' o :: runTrace w' ss

/-- optional chunk configuration tokens right after the two fixed fields: `m<maxChunkBytes>` and `L<a,b,c>`
    (encoded frame lengths of successive jobs, cycled) -/
def chunkCfg (ops : List String) : Option (Nat × List Nat) × List String :=
  match ops with
  | m :: l :: rest =>
    if m.startsWith "m" && l.startsWith "L" then
      match (m.drop 1).toString.toNat?, commaNats? (l.drop 1).toString with
      | some mx, some ls => (some (mx, ls), rest)
      | _, _ => (none, ops)
    else (none, ops)
  | _ => (none, ops)

/-- chunk-mode cases may also forge messages: fw<seq> / ff<seq> -/
def parseOpC (s : String) : Option GoaktVerif.Driver.C42c.Op :=
  if s.startsWith "fw" then ((s.drop 2).toString.toNat?).map .forgeWhole
  else if s.startsWith "ff" then ((s.drop 2).toString.toNat?).map .forgeFirst
  else (parseDOp s).map DOp.toC

def model (line : String) : String :=
  match words line with
  | w :: dc :: ops0 =>
    let (cfg, ops) := chunkCfg ops0
    match cfg, w.toNat? with
    | some (mx, ls), some wn =>
      if wn < 1 || wn > maxWindow then "bad-case" else
      match ops.mapM parseOpC with
      | some steps => GoaktVerif.Driver.C42c.run wn (dc == "1") mx ls steps
      | none => "bad-case"
    | _, _ =>
    match w.toNat?, ops.mapM parseDOp with
    | some wn, some steps =>
      if wn < 1 || wn > maxWindow then "bad-case" else
      match cfg with
      | some _ => "bad-case"
      | none =>
        -- unchunked case: the proven model and the chunk-aware model must print the same trace
        let w0 := World.init wn 1 (dc == "1")
        let init := "init " ++ group "cp" (w0.netCP.map showC) ++ digestP w0.p ++ " " ++ digestC w0.c
        let a := ";".intercalate (init :: runTrace w0 steps)
        let b := GoaktVerif.Driver.C42c.run wn (dc == "1") 0 [] (steps.map DOp.toC)
        if a == b then a else "MODELS-DISAGREE " ++ a
    | _, _ => "bad-case"
  | _ => "bad-case"

/-! ### judge: rebuild the observations from the harness trace -/

/-- `S(1,2,3)T(4)` → [("S",[1,2,3]),("T",[4])]; `none` when a number does not parse -/
def parseMsgs (s : String) : Option (List (String × List Nat)) :=
  ((s.splitOn ")").filter (· ≠ "")).mapM fun piece =>
    match piece.splitOn "(" with
    | [name, args] => (args.splitOn ",").mapM String.toNat? |>.map fun a => (name, a)
    | _ => none

def kv (tokens : List String) (key : String) : Option String :=
  tokens.findSome? fun t =>
    let t := if t.endsWith "}" then (t.dropEnd 1).toString else t
    let t := if t.startsWith "C{" || t.startsWith "P{" then (t.drop 2).toString else t
    if t.startsWith (key ++ "=") then some (t.drop (key.length + 1)).toString else none

def bufLenOf (s : String) : Nat :=
  let inner := ((s.drop 1).toString.dropEnd 1).toString
  if inner = "" then 0 else (inner.splitOn ",").length

/-- observations of one trace segment; also returns the deliveries appended to the consumer mailbox -/
def obsOfSegment (seg : String) : Option (List Obs × List Nat) := do
  if seg = "-" then return ([], [])
  let toks := words seg
  let grp (tag : String) : Option (List (String × List Nat)) :=
    match toks.find? (·.startsWith (tag ++ ":")) with
    | some t => parseMsgs (t.drop (tag.length + 1)).toString
    | none => some []
  let pu ← grp "pu"
  let pc ← grp "pc"
  let cp ← grp "cp"
  let cu ← grp "cu"
  let o1 := pu.filterMap fun (n, a) => match n, a with | "T", [_, _, i, q] => some (Obs.stored i q) | _, _ => none
  let o2 := pc.filterMap fun (n, a) => match n, a with
    | "S", [_, _, q, _] => some (Obs.sent q)
    | "SC", [_, _, q, _, _, _] => some (Obs.sent q)
    | _, _ => none
  let o3 := cp.filterMap fun (n, a) => match n, a with | "Q", [_, _, _, u, _] => some (Obs.requested u) | _, _ => none
  let o4 := cu.filterMap fun (n, a) => match n, a with | "D", [_, i, q, pl] => some (Obs.present i q pl) | _, _ => none
  let seqs := cu.filterMap fun (n, a) => match n, a with | "D", [_, _, q, _] => some q | _, _ => none
  -- anything the harness could not name (chunked message, foreign type) is not a whole-message trace
  if (pc ++ cp ++ pu ++ cu).any (fun (n, _) => !["S", "SC", "A", "G", "Q", "K", "N", "T", "F", "D"].contains n) then none
  let cs ←
    if toks.any (·.startsWith "C{") then do
      let w ← (kv toks "w").bind String.toNat?
      let conf ← (kv toks "conf").bind String.toNat?
      let upto ← (kv toks "upto").bind String.toNat?
      let buf ← kv toks "buf"
      pure [Obs.cstate w conf upto (bufLenOf buf)]
    else pure []
  return (o1 ++ o2 ++ o3 ++ o4 ++ cs, seqs)

/-- walk ops and segments together, tracking the consumer endpoint's mailbox (seqs only) -/
def collect : List String → List String → List Nat → List Obs → Option (List Obs)
  | [], [], _, acc => some acc
  | op :: ops, seg :: segs, inbox, acc => do
    let (o, newD) ← obsOfSegment seg
    let (pre, inbox') :=
      if op = "uc1" then (match inbox with | d :: r => ([Obs.confirm d], r) | [] => ([], []))
      else if op = "uc0" || op = "xc" then ([], inbox.drop 1)
      else ([], inbox)
    collect ops segs (inbox' ++ newD) (acc ++ pre ++ o)
  | _, _, _, _ => none

def judge (line : String) : String :=
  let (c, o) := splitTab line
  match words c with
  | _ :: _ :: ops0 =>
    let chunked := (chunkCfg ops0).1.isSome
    let ops := (chunkCfg ops0).2
    match o.splitOn ";" with
    | init :: segs =>
      if !init.startsWith "init " then "bad no init segment: " ++ init else
      match obsOfSegment ((init.drop 5).toString) with
      | none => "bad unparsable init segment"
      | some (o0, _) =>
        match collect ops segs [] o0 with
        | none => "bad trace does not match the script (segments/ops) or is unparsable"
        | some obs =>
          if chunked then
            let m := Spec.C42c.Mon.run {} obs
            if m.ok then "ok"
            else "bad" ++ (if m.okOrder then "" else " order: presentations do not follow production order / re-presented after confirmation")
                   ++ (if m.okDemand then "" else " demand: a SequencedMessage beyond the highest requested sequence")
                   ++ (if m.okWindow then "" else " window: buffer or granted demand exceeds the flow-control window")
          else
          let m := (Mon.run {} obs)
          if m.ok then "ok"
          else "bad" ++ (if m.okOrder then "" else " order: presentations are not 1,2,3.. in production order / re-presented after confirmation")
                 ++ (if m.okDemand then "" else " demand: a SequencedMessage beyond the highest requested sequence")
                 ++ (if m.okWindow then "" else " window: buffer or granted demand exceeds the flow-control window")
    | [] => "bad empty output"
  | _ => "bad-case"

def run (args : List String) : IO UInt32 := runWith args model judge

end GoaktVerif.Driver.C42

import GoaktVerif.Driver.Util
import GoaktVerif.Model.C46
import GoaktVerif.Spec.C46

/-!
C46 driver.  Case lines as in harness/verifdrv/c46/main.go:
  mg|cc|zp <src>/<src>/…    bc <n> <src>    bl <n> <src> [pm:w]    blb <n> <src> pm:w    pt <n> <m> <src>
  ja merge|concat|zip <n> | ev…     jh bchub|blhub|pthub <n> <m> | ev…     js bcslot|blslot|ptslot | ev…
-/
namespace GoaktVerif.Driver.C46
open GoaktVerif.Driver GoaktVerif.Model.C45 GoaktVerif.Model.C46 GoaktVerif.Spec.C46

def fmtVal : Val → String
  | .int i => toString i
  | .list l => "[" ++ ",".intercalate (l.map toString) ++ "]"

def parseSrc (s : String) : Option (List Int) :=
  if s = "-" || s = "" then some [] else (s.splitOn ",").mapM String.toInt?

def parseSrcs (s : String) : Option (List (List Int)) := (s.splitOn "/").mapM parseSrc

def fmtBranch (xs : List String) : String := "done n=1 | " ++ " ".intercalate xs

def fmtInts (xs : List Int) : List String := xs.map toString

def fmtTuple (t : List Int) : String := "[" ++ ",".intercalate (t.map toString) ++ "]"

def b2 (b : Bool) : String := if b then "1" else "0"

/-! ### single-actor replay -/

def fmtDown (tag : String) : Down → String
  | .elem v => tag ++ ":e" ++ fmtVal v
  | .complete => tag ++ ":c"
  | .error e => tag ++ ":x" ++ e

def fmtUp : Up → String
  | .req n => "u:r" ++ toString n
  | .cancel => "u:k"

def wrap (msgs : List String) (st : String) : String :=
  (if msgs.isEmpty then "-" else ";".intercalate msgs) ++ "{" ++ st ++ "}"

def jOutMsgs (o : JOut) : List String :=
  o.elems.map (fun t => "d:e" ++ fmtVal t.2) ++ (if o.complete then ["d:c"] else [])

def parseJEv (s : String) : Option JEv :=
  let arg := (s.drop 1).toString
  match s.front with
  | 'r' => arg.toInt?.map JEv.req
  | 'v' => match arg.splitOn ":" with
    | [a, b] => do let a ← a.toNat?; let b ← b.toInt?; pure (.value a (.int b))
    | _ => none
  | 'd' => arg.toNat?.map JEv.done
  | 'k' => some .cancel
  | _ => none

def mergeState (s : MergeSt) : String := s!"dm={s.demand},bf={s.buf.length},dn={s.doneCount},al={b2 s.alive}"
def concatState (s : ConcatSt) : String :=
  s!"dm={s.demand},bf={s.buf.length},cu={(s.spawned : Int) - 1},dn={b2 s.done},al={b2 s.alive}"
def zipState (s : ZipSt) : String :=
  let sl := "|".intercalate ((s.bufs.zip s.done).map fun (b, d) => s!"{b.length}/{b2 d}")
  s!"dm={s.demand},sl={sl},al={b2 s.alive}"

def runMerge (s : MergeSt) : List String → List String → Option (List String)
  | [], acc => some acc.reverse
  | e :: es, acc =>
    if !s.alive then runMerge s es (wrap ["dead"] (mergeState s) :: acc) else
    match parseJEv e with
    | none => none
    | some ev => let r := mergeStep s ev; runMerge r.1 es (wrap (jOutMsgs r.2) (mergeState r.1) :: acc)

def runConcat (s : ConcatSt) : List String → List String → Option (List String)
  | [], acc => some acc.reverse
  | e :: es, acc =>
    if !s.alive then runConcat s es (wrap ["dead"] (concatState s) :: acc) else
    match parseJEv e with
    | none => none
    | some ev => let r := concatStep s ev; runConcat r.1 es (wrap (jOutMsgs r.2) (concatState r.1) :: acc)

def zOutMsgs (o : ZOut) : List String :=
  o.elems.map (fun v => "d:e" ++ fmtVal v) ++ (if o.complete then ["d:c"] else [])

def runZip (n : Nat) (s : ZipSt) : List String → List String → Option (List String)
  | [], acc => some acc.reverse
  | e :: es, acc =>
    if !s.alive then runZip n s es (wrap ["dead"] (zipState s) :: acc) else
    match parseJEv e with
    | none => none
    | some ev => let r := zipStep n s ev; runZip n r.1 es (wrap (zOutMsgs r.2) (zipState r.1) :: acc)

def hubState (k : HubKind) (s : HubSt) : String :=
  let dm := "|".intercalate (s.demand.map toString)
  let sl := String.join (s.live.map b2)
  let base := s!"dm={dm},pd={s.pending},sl={sl}"
  (if k = .balance then base ++ s!",nx={s.next},bf={s.buf.length},ud={b2 s.upDone}" else base) ++ s!",al={b2 s.alive}"

def hOutMsgs (n : Nat) (o : HOut) : List String :=
  -- the rig drains the upstream probe first, then the slot probes in slot order
  o.up.map fmtUp ++
  (List.range n).flatMap fun i =>
    (if o.ready then [s!"d{i}:hr"] else []) ++
      (o.toSlots.filter (·.1 = i)).map fun p => fmtDown s!"d{i}" p.2

def parseHEv (s : String) : Option HEv :=
  let arg := (s.drop 1).toString
  match s.front with
  | 's' => match arg.splitOn ":" with
    | [a, b] => do let a ← a.toNat?; let b ← b.toInt?; pure (.slotDemand a b)
    | _ => none
  | 'e' => arg.toInt?.map fun x => HEv.elem (.int x)
  | 'c' => some .complete
  | 'x' => some (.error arg)
  | 'q' => arg.toNat?.map HEv.slotCancel
  | _ => none

def runHub (k : HubKind) (s : HubSt) : List String → List String → Option (List String)
  | [], acc => some acc.reverse
  | e :: es, acc =>
    if !s.alive then runHub k s es (wrap ["dead"] (hubState k s) :: acc) else
    match parseHEv e with
    | none => none
    | some ev => let r := hubStep k s ev; runHub k r.1 es (wrap (hOutMsgs s.n r.2) (hubState k r.1) :: acc)

def slotState (s : SlotSt) : String := s!"pd={s.pending},hb={if s.hub then "true" else "false"},al={b2 s.alive}"

def sOutMsgs (o : SOut) : List String :=
  o.toHub.map (fun t => match t with | .demand n => s!"u:sd0:{n}" | .cancel => "u:sk0") ++ o.down.map (fmtDown "d")

def parseSEv (s : String) : Option SEv :=
  let arg := (s.drop 1).toString
  match s.front with
  | 'r' => arg.toInt?.map SEv.req
  | 'h' => some .hubReady
  | 'e' => arg.toInt?.map fun x => SEv.down (.elem (.int x))
  | 'c' => some (.down .complete)
  | 'x' => some (.down (.error arg))
  | 'k' => some .cancel
  | _ => none

def runSlot (coc : Bool) (s : SlotSt) : List String → List String → Option (List String)
  | [], acc => some acc.reverse
  | e :: es, acc =>
    if !s.alive then runSlot coc s es (wrap ["dead"] (slotState s) :: acc) else
    match parseSEv e with
    | none => none
    | some ev => let r := slotStep coc s ev; runSlot coc r.1 es (wrap (sOutMsgs r.2) (slotState r.1) :: acc)

def join? : Option (List String) → String
  | some l => " ".intercalate l
  | none => "bad-case"

def modelActor (line : String) : String :=
  match line.splitOn "|" with
  | [hd, evs] =>
    let evs := words evs
    match words hd with
    | ["ja", "merge", n] =>
      match n.toNat? with
      | some n => let w := mergeStep { n := n } .wire; join? (runMerge w.1 evs [wrap (jOutMsgs w.2) (mergeState w.1)])
      | none => "bad-case"
    | ["ja", "concat", n] =>
      match n.toNat? with
      | some n => let w := concatStep { n := n } .wire; join? (runConcat w.1 evs [wrap (jOutMsgs w.2) (concatState w.1)])
      | none => "bad-case"
    | ["ja", "zip", n] =>
      match n.toNat? with
      | some n =>
        let w := zipStep n { bufs := [], done := [] } .wire
        join? (runZip n w.1 evs [wrap (zOutMsgs w.2) (zipState w.1)])
      | none => "bad-case"
    | ["jh", kind, n, m] =>
      match n.toNat?, m.toNat? with
      | some n, some m =>
        let k : Option HubKind := if kind = "bchub" then some .broadcast else if kind = "blhub" then some .balance
          else if kind = "pthub" then some (.partition m) else none
        match k with
        | some k => let w := hubStep k (HubSt.init n) .wire; join? (runHub k w.1 evs [wrap (hOutMsgs n w.2) (hubState k w.1)])
        | none => "bad-case"
      | _, _ => "bad-case"
    | ["js", kind] =>
      let coc := kind != "bcslot"
      let w := slotStep coc {} .wire
      join? (runSlot coc w.1 evs [wrap (sOutMsgs w.2) (slotState w.1)])
    | _ => "bad-case"
  | _ => "bad-case"

def model (line : String) : String :=
  match words line with
  | ["mg", s] | ["mgb", s] => match parseSrcs s with
    | some srcs => fmtBranch (fmtInts srcs.flatten)
    | none => "bad-case"
  | ["cc", s] | ["ccb", s] => match parseSrcs s with
    | some srcs => fmtBranch (fmtInts srcs.flatten)
    | none => "bad-case"
  | ["zp", s] | ["zpb", s] => match parseSrcs s with
    | some srcs => fmtBranch ((zipN srcs).map fmtTuple)
    | none => "bad-case"
  | ["bc", n, s] => match n.toNat?, parseSrc s with
    | some n, some src => " ## ".intercalate (List.replicate n (fmtBranch (fmtInts src)))
    | _, _ => "bad-case"
  | "bl" :: n :: s :: _ => match n.toNat?, parseSrc s with
    | some n, some src => " ## ".intercalate ((roundRobin n src).map fun b => fmtBranch (fmtInts b))
    | _, _ => "bad-case"
  | "blb" :: _ => "*"
  | ["pt", n, m, s] => match n.toNat?, m.toNat?, parseSrc s with
    | some n, some m, some src => " ## ".intercalate ((partitionBy n m src).map fun b => fmtBranch (fmtInts b))
    | _, _, _ => "bad-case"
  | "ja" :: _ => modelActor line
  | "jh" :: _ => modelActor line
  | "js" :: _ => modelActor line
  | _ => "bad-case"

/-- parse `done n=1 | e e e ## done n=1 | …`; every branch must have completed normally with one hook call -/
def parseBranches (o : String) : Except String (List (List String)) :=
  (o.splitOn " ## ").mapM fun b =>
    match (b ++ " ").splitOn " | " with
    | hd :: rest =>
      if hd.trimAscii.toString = "done n=1" then .ok (words (" | ".intercalate rest))
      else .error ("branch status is `" ++ hd.trimAscii.toString ++ "`")
    | [] => .error "empty"

def parseTuple (s : String) : Option (List Int) :=
  let body := ((s.drop 1).dropEnd 1).toString
  if body = "" then some [] else (body.splitOn ",").mapM String.toInt?

/-- messages of one `msgs{state}` token -/
def tokMsgs (tok : String) : List String :=
  match tok.splitOn "{" with
  | m :: _ => if m = "-" then [] else m.splitOn ";"
  | [] => []

/-- judge a hub trace without slot cancellation: what each slot was sent against what the hub consumed -/
def judgeHub (kind : String) (n m : Nat) (evs : List String) (toks : List String) : String :=
  if toks.length ≠ evs.length + 1 then "bad unparsable output" else
  if evs.any (·.startsWith "q") then "ok" else
  let handled := (evs.zip (toks.drop 1)).filter fun (_, t) => !(tokMsgs t).contains "dead"
  let ins : List Int := handled.filterMap fun (e, _) => if e.startsWith "e" then (e.drop 1).toString.toInt? else none
  let sent (i : Nat) : List Int := toks.flatMap fun t => (tokMsgs t).filterMap fun msg =>
    let pre := s!"d{i}:e"
    if msg.startsWith pre then (msg.drop pre.length).toString.toInt? else none
  let outs := (List.range n).map sent
  let j : Junction := if kind = "bchub" then .broadcast n else if kind = "blhub" then .balance n else .partition n m
  -- the Balance hub may hold elements back until a branch signals demand: what was sent must partition a
  -- prefix of the input, and the whole input once the hub has completed its branches
  let total := (outs.map List.length).foldl (· + ·) 0
  let completed := toks.any fun t => (tokMsgs t).any (·.endsWith ":c")
  let insJ := if kind = "blhub" && !completed then ins.take total else ins
  match judgeJunction j [insJ] outs [] with
  | none => "ok"
  | some why => "bad " ++ why

/-- judge a fan-in source trace: what was sent downstream against the sub-values that arrived -/
def judgeFanIn (kind : String) (n : Nat) (evs : List String) (toks : List String) : String :=
  if toks.length ≠ evs.length + 1 then "bad unparsable output" else
  let handled := (evs.zip (toks.drop 1)).filter fun (_, t) => !(tokMsgs t).contains "dead"
  let arrivals : List (Nat × Int) := handled.filterMap fun (e, _) =>
    if e.startsWith "v" then
      match (e.drop 1).toString.splitOn ":" with
      | [a, b] => do let a ← a.toNat?; let b ← b.toInt?; pure (a, b)
      | _ => none
    else none
  let srcs : List (List Int) := (List.range n).map fun i => (arrivals.filter (·.1 = i)).map (·.2)
  let sentS : List String := toks.flatMap fun t => (tokMsgs t).filterMap fun msg =>
    if msg.startsWith "d:e" then some (msg.drop 3).toString else none
  let completed := toks.any fun t => (tokMsgs t).contains "d:c"
  let cancelled := handled.any fun (e, _) => e = "k"
  if kind = "zip" then
    match sentS.mapM parseTuple with
    | none => "bad unparsable output"
    | some tuples =>
      let want := zipN srcs
      if tuples.length ≤ want.length && tuples == want.take tuples.length then "ok"
      else "bad Zip output is not the positional pairing up to the shortest source"
  else
    match sentS.mapM String.toInt? with
    | none => "bad unparsable output"
    | some sent =>
      -- sent so far must be a prefix of the arrival order, and everything when completed by exhaustion
      let arr := arrivals.map (·.2)
      if !(sent.length ≤ arr.length && sent == arr.take sent.length) then "bad elements were not forwarded in arrival order"
      else if completed && !cancelled && sent ≠ arr then "bad completed with buffered elements not delivered"
      else "ok"

def judge (line : String) : String :=
  let (c, o) := splitTab line
  let f := words c
  match f.head? with
  | some "js" => "ok"
  | some "jh" =>
    match c.splitOn "|", f.take 4 with
    | [_, evs], [_, kind, n, m] =>
      match n.toNat?, m.toNat? with
      | some n, some m => judgeHub kind n m (words evs) (words o)
      | _, _ => "bad-case"
    | _, _ => "bad-case"
  | some "ja" =>
    match c.splitOn "|", f.take 3 with
    | [_, evs], [_, kind, n] =>
      match n.toNat? with
      | some n => judgeFanIn kind n (words evs) (words o)
      | none => "bad-case"
    | _, _ => "bad-case"
  | _ =>
    let jn : Option (Junction × List (List Int)) :=
      match f with
      | ["mg", s] | ["mgb", s] => (parseSrcs s).map (Junction.merge, ·)
      | ["cc", s] | ["ccb", s] => (parseSrcs s).map (Junction.concat, ·)
      | ["zp", s] | ["zpb", s] => (parseSrcs s).map (Junction.zip, ·)
      | ["bc", n, s] => do let n ← n.toNat?; let src ← parseSrc s; pure (.broadcast n, [src])
      | "bl" :: n :: s :: _ => do let n ← n.toNat?; let src ← parseSrc s; pure (.balance n, [src])
      | "blb" :: n :: s :: _ => do let n ← n.toNat?; let src ← parseSrc s; pure (.balance n, [src])
      | ["pt", n, m, s] => do let n ← n.toNat?; let m ← m.toNat?; let src ← parseSrc s; pure (.partition n m, [src])
      | _ => none
    match jn with
    | none => "bad-case"
    | some (j, srcs) =>
      match parseBranches o with
      | .error why => "bad " ++ why
      | .ok brs =>
        if j = .zip then
          match (brs.headD []).mapM parseTuple with
          | some tuples => match judgeJunction j srcs [] tuples with
            | none => "ok"
            | some why => "bad " ++ why
          | none => "bad unparsable output: " ++ o
        else
          match brs.mapM (fun b => b.mapM String.toInt?) with
          | some outs => match judgeJunction j srcs outs [] with
            | none => "ok"
            | some why => "bad " ++ why
          | none => "bad unparsable output: " ++ o

def run (args : List String) : IO UInt32 := runWith args model judge

end GoaktVerif.Driver.C46

import GoaktVerif.Driver.Util
import GoaktVerif.Model.C32
import GoaktVerif.Spec.C32

/-! Line protocol of C32 (see harness/verifdrv/c32/main.go for the case grammar). -/
namespace GoaktVerif.Driver.C32
open GoaktVerif.Driver GoaktVerif.Model.C32 GoaktVerif.Spec.C32

/-! ### parsing -/

def hasFlag (flags : String) (c : Char) : Bool := flags.toList.contains c

def parseRoles (s : String) : Option (List Role) :=
  if s = "-" then some [] else (s.splitOn ",").mapM String.toNat?

def parsePeers (s : String) : Option (List (List Role)) :=
  if s = "." then some [] else (s.splitOn ";").mapM parseRoles

def parseActor (tok : String) : Option Actor :=
  match tok.splitOn "." with
  | [i, r] => do
    let i ← i.toNat?; let r ← r.toNat?
    pure { id := i, role := r, singleton := false, relocatable := true, system := false }
  | [i, r, fl] => do
    let i ← i.toNat?; let r ← r.toNat?
    pure { id := i, role := r, singleton := hasFlag fl 's', relocatable := !hasFlag fl 'n', system := hasFlag fl 'y' }
  | _ => none

def parseActors (s : String) : Option (List Actor) :=
  if s = "-" then some [] else (s.splitOn ",").mapM parseActor

def parseGrain (tok : String) : Option Grain :=
  match tok.splitOn "." with
  | [i] => do let i ← i.toNat?; pure { id := i, disabled := false, eager := false }
  | [i, fl] => do let i ← i.toNat?; pure { id := i, disabled := hasFlag fl 'd', eager := hasFlag fl 'e' }
  | _ => none

def parseGrains (s : String) : Option (List Grain) :=
  if s = "-" then some [] else (s.splitOn ",").mapM parseGrain

def parseRequest (tok : String) : Option Request :=
  match tok.splitOn "+" with
  | [a, g] =>
    if a.startsWith "A" && g.startsWith "G" then do
      let as ← parseActors (a.drop 1).toString
      let gs ← parseGrains (g.drop 1).toString
      pure { actors := as, grains := gs }
    else none
  | _ => none

def parseRequests (s : String) : Option (List Request) :=
  if s = "-" then some [] else (s.splitOn "/").mapM parseRequest

def parsePeerE (tok : String) : Option Peer :=
  match tok.splitOn ":" with
  | [h, p, r] => do
    let h ← h.toNat?; let p ← p.toNat?; let r ← parseRoles r
    pure { host := h, port := p, roles := r }
  | _ => none

def parsePeersE (s : String) : Option (List Peer) :=
  if s = "." then some [] else (s.splitOn ";").mapM parsePeerE

/-- indices (into `peers`) of the model's survivors; `filter` keeps order, endpoints may repeat so the
    indices are recovered positionally -/
def survivorIdx (peers : List Peer) (tg : Peer) : List Nat :=
  (peers.zipIdx.filter (fun (p, _) => (survivingPeersExcept [p] tg).length == 1)).map (·.2)

def nodupNat : List Nat → Bool
  | [] => true
  | x :: xs => !xs.contains x && nodupNat xs

/-! ### printing -/

def showIds (l : List Nat) : String := if l.isEmpty then "-" else ",".intercalate (l.map toString)
def showA (l : List Actor) : String := showIds (ids l)
def showG (l : List Grain) : String := showIds (gids l)
def showAS (l : List (List Actor)) : String := if l.isEmpty then "none" else "/".intercalate (l.map showA)
def showGS (l : List (List Grain)) : String := if l.isEmpty then "none" else "/".intercalate (l.map showG)

/-! ### parsing implementation outputs (ids are resolved against the case) -/

def parseIdList (s : String) : Option (List Nat) :=
  if s = "-" then some [] else (s.splitOn ",").mapM String.toNat?

def parseShares (s : String) : Option (List (List Nat)) :=
  if s = "none" then some [] else (s.splitOn "/").mapM parseIdList

def resolveA (actors : List Actor) (l : List Nat) : Option (List Actor) :=
  l.mapM (fun i => actors.find? (fun a => a.id == i))

def resolveG (grains : List Grain) (l : List Nat) : Option (List Grain) :=
  l.mapM (fun i => grains.find? (fun g => g.id == i))

/-- `key=value` lookup among space separated fields -/
def field (ws : List String) (key : String) : Option String :=
  match ws.find? (fun w => w.startsWith (key ++ "=")) with
  | some w => some (w.drop (key.length + 1)).toString
  | none => none

/-! ### model mode -/

def model (line : String) : String :=
  match words line with
  | ["aa", l, p, b, a] =>
    match parseRoles l, parsePeers p, commaNats? b, parseActors a with
    | some l, some p, some b, some a =>
      if !nodupNat (ids a) then "bad-case" else
      let (lead, shares, unpl) := allocateActors l p b a
      let singles := a.filter (·.singleton)
      s!"inv singles={showIds (sortIds (ids singles))} un={showIds (sortIds (ids unpl))} placed={showIds (sortIds (ids shares.flatten))}" ++
        s!" | seq lead={showA lead} sh={showAS shares} un={showA unpl}"
    | _, _, _, _ => "bad-case"
  | ["ag", t, g] =>
    match t.toNat?, parseGrains g with
    | some t, some g =>
      if t = 0 || !nodupNat (gids g) then "bad-case" else
      let (lead, shares) := allocateGrains t g
      s!"rel={showIds (sortIds (gids (relocatableGrains g)))} | seq lead={showG lead} sh={showGS shares}"
    | _, _ => "bad-case"
  | ["ch", n, size] =>
    match n.toNat?, size.toNat? with
    | some n, some size =>
      if size = 0 && n > 0 then "bad-case" else showIds ((chunkify (List.range n) size).map List.length)
    | _, _ => "bad-case"
  | ["bb", na, ng] =>
    match na.toNat?, ng.toNat? with
    | some na, some ng =>
      let as : List Actor := (List.range na).map (fun i => { id := i, role := 0, singleton := false, relocatable := true, system := false })
      let gs : List Grain := (List.range ng).map (fun i => { id := i, disabled := false, eager := false })
      let bs := buildBatches 500 as gs
      if bs.isEmpty then "-" else ",".intercalate (bs.map fun
        | .actors l => s!"a{l.length}"
        | .grains l => s!"g{l.length}")
    | _, _ => "bad-case"
  | ["rr", l, s, r] =>
    match parseRoles l, parsePeers s, parseRequests r with
    | some l, some s, some r =>
      let (st, grains) := reassignByRole r s l
      s!"sh={showAS st.shares} lead={showA st.leader} gr={showG grains} fail={showA st.failed}"
    | _, _, _ => "bad-case"
  | ["dv", a, g] =>
    match parseActors a, (if g = "-" then some [] else some (g.splitOn ",")) with
    | some a, some gtoks =>
      -- grain token id[.flags]; flag y = reserved (system) grain name: dropped by the derivation
      let gs := gtoks.filterMap (fun t => match t.splitOn "." with
        | [i] => i.toNat?
        | [i, fl] => if hasFlag fl 'y' then none else i.toNat?
        | _ => none)
      s!"a={showIds (sortIds (ids (snapshotActors a)))} g={showIds (sortIds gs)}"
    | _, _ => "bad-case"
  | ["ps", a] =>
    match parseActors a with
    | some a => s!"a={showIds (sortIds (ids (snapshotActors a)))} foreign=0"
    | none => "bad-case"
  | ["sp", ps, t] =>
    match parsePeersE ps, t.toNat? with
    | some ps, some t =>
      match ps[t]? with
      | some tg => if (survivingPeersExcept ps tg).length = (survivorIdx ps tg).length then showIds (survivorIdx ps tg) else "model-inconsistent"
      | none => "bad-case"
    | _, _ => "bad-case"
  | ["rx", l, ps, t, r] =>
    match parseRoles l, parsePeersE ps, t.toNat?, parseRequests r with
    | some l, some ps, some t, some r =>
      match ps[t]? with
      | some tg =>
        let surv := survivingPeersExcept ps tg
        let (st, grains) := reassignByRole r (surv.map (·.roles)) l
        s!"sv={showIds (survivorIdx ps tg)} sh={showAS st.shares} lead={showA st.leader} gr={showG grains} fail={showA st.failed}"
      | none => "bad-case"
    | _, _, _, _ => "bad-case"
  | ["ll", s, lens, role] =>
    match parsePeers s, commaNats? lens, role.toNat? with
    | some s, some lens, some role =>
      if lens.length ≠ s.length then "bad-case" else
      let shares : List (List Actor) := lens.map (fun k => List.replicate k default)
      match leastLoadedEligibleSurvivor s shares role with
      | some i => toString i
      | none => "-1"
    | _, _, _ => "bad-case"
  | ["el", roles, role] =>
    match parseRoles roles, role.toNat? with
    | some roles, some role => toString (eligibleForRole roles role)
    | _, _ => "bad-case"
  | ["gate", a] =>
    match parseActor a with
    | some a => if recreateGate a then "proceed" else "skip"
    | none => "bad-case"
  | _ => "bad-case"

/-! ### judge mode: spec oracle on the implementation's output + order-witness correspondence -/

def judgeAA (l : List Role) (p : List (List Role)) (b : List Nat) (a : List Actor) (o : String) : String :=
  -- the part before " | " is the one-call (map order) output
  let mapPart := (o.splitOn " | ").headD ""
  let ws := words mapPart
  match field ws "lead", field ws "sh", field ws "un" with
  | some lead, some sh, some un =>
    match parseIdList lead, parseShares sh, parseIdList un with
    | some lead, some sh, some un =>
      match resolveA a lead, sh.mapM (resolveA a), resolveA a un with
      | some lead, some sh, some un =>
        let out : AAOut := { lead := lead, shares := sh, unpl := un }
        let targets := l :: p
        match aaCheck targets b a out with
        | some why => "bad " ++ why
        | none =>
          match aaWitness targets b a out with
          | none => "bad correspondence: no iteration order makes the greedy model reproduce the implementation's shares"
          | some order =>
            let (mlead, mshares, munpl) := allocateActors l p b order
            if mlead = lead && mshares = sh && munpl = un then "ok witness=" ++ showA order
            else "bad correspondence: model on the witness order differs from the implementation"
      | _, _, _ => "bad output names an entry that is not in the departed state"
    | _, _, _ => "bad unparsable output: " ++ o
  | _, _, _ => "bad unparsable output: " ++ o

def judgeAG (t : Nat) (g : List Grain) (o : String) : String :=
  let mapPart := (o.splitOn " | ").headD ""
  let ws := words mapPart
  match field ws "rel", field ws "lead", field ws "sh" with
  | some rel, some lead, some sh =>
    match parseIdList rel, parseIdList lead, parseShares sh with
    | some rel, some lead, some sh =>
      match resolveG g rel, resolveG g lead, sh.mapM (resolveG g) with
      | some rel, some lead, some sh =>
        match agCheck t g rel lead sh with
        | some why => "bad " ++ why
        | none =>
          -- the order `relocatableGrains` produced is itself the witness
          let (mlead, mshares) := allocateGrains t rel
          if mlead = lead && mshares = sh then "ok" else "bad correspondence: allocateGrains model differs on the observed order"
      | _, _, _ => "bad output names a grain that is not in the departed state"
    | _, _, _ => "bad unparsable output: " ++ o
  | _, _, _ => "bad unparsable output: " ++ o

def judgeRR (l : List Role) (s : List (List Role)) (r : List Request) (o : String) : String :=
  let ws := words o
  let actors := requestActors r
  let grains := requestGrains r
  match field ws "sh", field ws "lead", field ws "gr", field ws "fail" with
  | some sh, some lead, some gr, some fl =>
    match parseShares sh, parseIdList lead, parseIdList gr, parseIdList fl with
    | some sh, some lead, some gr, some fl =>
      match sh.mapM (resolveA actors), resolveA actors lead, resolveG grains gr, resolveA actors fl with
      | some sh, some lead, some gr, some fl =>
        match rrCheck r s l { shares := sh, lead := lead, grains := gr, failed := fl } with
        | some why => "bad " ++ why
        | none => "ok"
      | _, _, _, _ => "bad output names an item that is not in the unsent requests"
    | _, _, _, _ => "bad unparsable output: " ++ o
  | _, _, _, _ => "bad unparsable output: " ++ o

def judge (line : String) : String :=
  let (c, o) := splitTab line
  match words c with
  | ["aa", l, p, b, a] =>
    match parseRoles l, parsePeers p, commaNats? b, parseActors a with
    | some l, some p, some b, some a => if !nodupNat (ids a) then "ok" else judgeAA l p b a o
    | _, _, _, _ => "ok"
  | ["ag", t, g] =>
    match t.toNat?, parseGrains g with
    | some t, some g => if t = 0 || !nodupNat (gids g) then "ok" else judgeAG t g o
    | _, _ => "ok"
  | ["ch", n, size] =>
    match n.toNat?, size.toNat?, commaNats? o with
    | some n, some size, some lens =>
      if size = 0 && n > 0 then "ok"
      else if lens.foldl (· + ·) 0 = n && lens.all (fun k => decide (0 < k ∧ k ≤ size)) then "ok"
      else "bad chunks do not cover the slice with non-empty pieces of at most the chunk size"
    | _, _, _ => if o = "bad-case" then "ok" else "bad unparsable output: " ++ o
  | ["bb", na, ng] =>
    match na.toNat?, ng.toNat? with
    | some na, some ng =>
      let toks := if o = "-" then [] else o.splitOn ","
      let asz := (toks.filter (·.startsWith "a")).filterMap (fun t => (t.drop 1).toString.toNat?)
      let gsz := (toks.filter (·.startsWith "g")).filterMap (fun t => (t.drop 1).toString.toNat?)
      if asz.length + gsz.length ≠ toks.length then "bad batching lost, duplicated, reordered or mixed items: " ++ o
      else if asz.foldl (· + ·) 0 = na && gsz.foldl (· + ·) 0 = ng && (asz ++ gsz).all (fun k => decide (0 < k ∧ k ≤ 500)) then "ok"
      else "bad batches do not carry every item exactly once within the batch size"
    | _, _ => "ok"
  | ["rr", l, s, r] =>
    match parseRoles l, parsePeers s, parseRequests r with
    | some l, some s, some r =>
      if !nodupNat (ids (requestActors r)) || !nodupNat (gids (requestGrains r)) then "ok" else judgeRR l s r o
    | _, _, _ => "ok"
  | ["ps", a] =>
    match parseActors a with
    | some a =>
      let ws := words o
      match (field ws "a").bind parseIdList, field ws "foreign" with
      | some got, some fr =>
        let want := (a.filter (fun x => !x.system && x.relocatable)).map (·.id)
        if fr ≠ "0" then "bad the shutdown snapshot holds an entry that is not a user actor of the node (system entry?)"
        else if sameIds got want then "ok"
        else "bad the shutdown snapshot is not exactly the relocatable non-system actors of the node"
      | _, _ => "bad unparsable output: " ++ o
    | none => "ok"
  | ["dv", a, _] =>
    match parseActors a with
    | some a =>
      match (field (words o) "a").bind parseIdList with
      | some got =>
        let want := (a.filter (fun x => !x.system && x.relocatable)).map (·.id)
        if sameIds got want then "ok" else "bad the derived relocation set is not exactly the relocatable non-system actor records"
      | none => "bad unparsable output: " ++ o
    | none => "ok"
  | ["sp", ps, t] =>
    match parsePeersE ps, t.toNat?, parseIdList o with
    | some ps, some t, some sv =>
      if t ≥ ps.length then "ok"
      else if sv = specSurvivors ps t then "ok"
      else "bad survivors are not exactly the peers whose host:port differs from the unreachable target's"
    | _, _, _ => if o = "bad-case" then "ok" else "bad unparsable output: " ++ o
  | ["rx", l, ps, t, r] =>
    match parseRoles l, parsePeersE ps, t.toNat?, parseRequests r with
    | some l, some ps, some t, some r =>
      if t ≥ ps.length || !nodupNat (ids (requestActors r)) || !nodupNat (gids (requestGrains r)) then "ok" else
      let ws := words o
      let actors := requestActors r
      let grains := requestGrains r
      match field ws "sv", field ws "sh", field ws "lead", field ws "gr", field ws "fail" with
      | some sv, some sh, some lead, some gr, some fl =>
        match parseIdList sv, parseShares sh, parseIdList lead, parseIdList gr, parseIdList fl with
        | some sv, some sh, some lead, some gr, some fl =>
          match sh.mapM (resolveA actors), resolveA actors lead, resolveG grains gr, resolveA actors fl with
          | some sh, some lead, some gr, some fl =>
            match rxCheck r ps t l sv { shares := sh, lead := lead, grains := gr, failed := fl } with
            | some why => "bad " ++ why
            | none => "ok"
          | _, _, _, _ => "bad output names an item that is not in the unsent requests"
        | _, _, _, _, _ => "bad unparsable output: " ++ o
      | _, _, _, _, _ => "bad unparsable output: " ++ o
    | _, _, _, _ => "ok"
  | ["ll", s, lens, role] =>
    match parsePeers s, commaNats? lens, role.toNat?, o.toInt? with
    | some s, some lens, some role, some idx =>
      if lens.length ≠ s.length then "ok"
      else if idx < 0 then
        if s.any (fun t => eligibleForRole t role) then "bad reports no eligible survivor although one advertises the role" else "ok"
      else
        let i := idx.toNat
        if i ≥ s.length then "bad survivor index out of range"
        else if !eligibleForRole (s.getD i []) role then "bad picked a survivor that does not advertise the role"
        else if ((s.zip lens).all fun (t, k) => !eligibleForRole t role || decide (lens.getD i 0 ≤ k)) then "ok"
        else "bad picked survivor is not least loaded among the eligible ones"
    | _, _, _, _ => if o = "bad-case" then "ok" else "bad unparsable output: " ++ o
  | ["el", roles, role] =>
    match parseRoles roles, role.toNat? with
    | some roles, some role =>
      let want := role = 0 || roles.any (· == role)
      if o = toString want then "ok" else "bad eligibility is not (no role required or role advertised)"
    | _, _ => "ok"
  | ["gate", a] =>
    match parseActor a with
    | some a =>
      let mustSkip := a.system || (!a.singleton && !a.relocatable)
      if mustSkip && o ≠ "skip" then "bad a system or non-relocatable entry is recreated"
      else if !mustSkip && o ≠ "proceed" then "bad a relocatable entry is dropped by the target"
      else "ok"
    | none => "ok"
  | _ => "ok"

def run (args : List String) : IO UInt32 := runWith args model judge

end GoaktVerif.Driver.C32

import GoaktVerif.Driver.Util
import GoaktVerif.Driver.Conc
import GoaktVerif.Model.C14.Conc
import GoaktVerif.Model.C14
import GoaktVerif.Spec.C14

namespace GoaktVerif.Driver.C14
open GoaktVerif.Driver GoaktVerif.Model.C14 GoaktVerif.Spec.C14

/-- `B<k>` Become, `S<k>` BecomeStacked (k = 1..9), `P` UnBecomeStacked, `U` UnBecome -/
def parseOp (s : String) : Option Op :=
  if s = "P" then some .unbecomeStacked
  else if s = "U" then some .unbecome
  else if s.length = 2 then
    match (s.drop 1).toString.toNat? with
    | some k =>
      if k = 0 then none
      else if s.startsWith "B" then some (.become k)
      else if s.startsWith "S" then some (.becomeStacked k)
      else none
    | none => none
  else none

def parseMsg (s : String) : Option (List Op) :=
  if s = "" then some [] else (s.splitOn ",").mapM parseOp

/-- `t <msg>|<msg>|…`, `t -` = no message -/
def parseCase (line : String) : Option (List (List Op)) :=
  match words line with
  | ["t", ms] => if ms = "-" then some [] else (ms.splitOn "|").mapM parseMsg
  | _ => none

def showH : Option Beh → String
  | none => "-"
  | some b => toString b

/-! ### engine E3: `bs | prog0 ; prog1 ; … | schedule` on Model.C14.Conc -/

namespace BS
open GoaktVerif.Model.C14.Conc

def parseOp (s : String) : Option Conc.Op :=
  if s = "o" then some .pop
  else if s = "k" then some .peek
  else if s = "l" then some .len
  else if s = "r" then some .reset
  else if s.startsWith "p" then (s.drop 1).toString.toNat?.map .push
  else none

def showRes : Res → String
  | .ok => "ok"
  | .val none => "nil"
  | .val (some v) => toString v
  | .num n => toString n

def machine : Machine where
  Cfg := Conc.Cfg
  init := fun cfg progs =>
    if cfg.trimAscii.toString ≠ "bs" then none else
    (progs.mapM fun (p : List String) => p.mapM parseOp).map Conc.init
  nthreads := fun c => c.threads.length
  done := Conc.done
  step := fun c tid =>
    let l := match c.threads[tid]? with
      | some t => match t.pc with
        | some pc => Conc.label pc
        | none => "!done"
      | none => "!nothread"
    (l, Conc.step c tid)
  results := fun c => c.threads.map fun t => t.hist.reverse.map showRes
  final := fun c =>
    let ch := Conc.abs c
    s!"chain={if ch.isEmpty then "-" else ".".intercalate (ch.map toString)} len={c.length}"

end BS

def isBS (line : String) : Bool := (words ((line.splitOn "|").headD "")) == ["bs"]

def model (line : String) : String :=
  if isBS line then runConc BS.machine line else
  match parseCase line with
  | none => "bad-case"
  | some msgs =>
    let r := run (PID.init 0) msgs
    " ".intercalate (r.1.map showH) ++ s!";len={r.2.stack.len};depth={r.2.stack.nodes.length}"

def parseH (s : String) : Option (Option Beh) :=
  if s = "-" then some none else (s.toNat?).map some

/-- spec oracle on the implementation's output: documented stack predicts the handler of every message -/
def judge (line : String) : String :=
  let (c, o) := splitTab line
  -- E3 lines: the property oracle on the implementation's schedule output is tools/props/c14.py `_bs_oracle`
  if isBS c then "ok" else
  match parseCase c with
  | none => if o = "bad-case" then "ok" else "bad harness accepted an unparsable case"
  | some msgs =>
    match o.splitOn ";" with
    | hs :: rest =>
      let lenS := (rest.getD 0 "").drop 4 |>.toString
      let depS := (rest.getD 1 "").drop 6 |>.toString
      match lenS.toNat?, depS.toNat? with
      | none, _ => "bad unparsable output: " ++ o
      | _, none => "bad unparsable output: " ++ o
      | some len, some dep =>
      if len ≠ dep then s!"bad length counter {len} differs from the number of stacked nodes {dep}" else
      if (words hs).any (fun w => w.contains '+') then "bad a message was handled by more than one behaviour: " ++ hs else
      match (words hs).mapM parseH with
      | none => "bad unparsable output: " ++ o
      | some obs =>
        if obs.length ≠ msgs.length then "bad wrong number of messages reported"
        else if agreesDoc 0 msgs obs && dep = (docFinal 0 msgs).length then "ok"
        else if agreesPlain 0 msgs obs && dep = (plainFinal 0 msgs).length && !(wellFormed 0 msgs) then
          "bad base-pop (regression of C14-F1): UnBecomeStacked with nothing stacked removed the base behaviour; documented handlers " ++
            " ".intercalate ((docHandlers 0 msgs).map showH)
        else "bad handler or stack depth differs from the documented stack; documented handlers " ++
            " ".intercalate ((docHandlers 0 msgs).map showH) ++ s!" depth {(docFinal 0 msgs).length}"
    | [] => "bad empty output"

def run (args : List String) : IO UInt32 := runWith args model judge

end GoaktVerif.Driver.C14

/-
C17 driver.  `model`: from the scenario (tree, grains, what was stopped beforehand) predicts, with
Model.C17, which actors get PostStop / which grains get OnDeactivate from Stop's call on, one possible
order (depth first), the per-action results and Stop's outcome.  `judge`: Spec.C17 on the recorded
history of the real system.
-/
import GoaktVerif.Driver.Util
import GoaktVerif.Model.C17
import GoaktVerif.Spec.C17

namespace GoaktVerif.Driver.C17
open GoaktVerif.Driver GoaktVerif.Model.C17 GoaktVerif.Spec.C17

structure Scen where
  parents : List (Option Nat)
  ngr : Nat

def parseScen (cfg : String) : Option Scen :=
  let ws := words cfg
  if ws.head? != some "sys" then none else
  let t := (ws.find? (·.startsWith "t=")).map fun s => (s.drop 2).toString
  let g := ((ws.find? (·.startsWith "g=")).bind fun s => (s.drop 2).toString.toNat?).getD 0
  let ps : Option (List (Option Nat)) :=
    match t with
    | none => some []
    | some "" => some []
    | some s => (s.splitOn ",").mapM fun x => if x = "-" then some none else x.toNat?.map some
  ps.map fun p => { parents := p, ngr := g }

/-- children of `p` (none = the user guardian) in increasing order -/
def kidsOf (sc : Scen) (p : Option Nat) : List Nat :=
  (List.range sc.parents.length).filter fun k => sc.parents[k]? == some p

/-- the forest below `p`; `dead k` = actor k was not running when Stop was called -/
def forest (sc : Scen) (dead : Nat → Bool) : Nat → List Nat → F
  | 0, _ => .nil
  | _, [] => .nil
  | fuel + 1, k :: ks => .cons k (!dead k) (forest sc dead fuel (kidsOf sc (some k))) (forest sc dead fuel ks)

def subtree (sc : Scen) : Nat → Nat → List Nat
  | 0, k => [k]
  | fuel + 1, k => k :: (kidsOf sc (some k)).flatMap (subtree sc fuel)

structure St where
  dead : List Nat := []        -- actors stopped before Stop
  orphan : List Nat := []      -- actors restarted after their stop completed: running, but outside the actor tree
  gdead : List Nat := []       -- grains deactivated before Stop (and not re-activated)
  rgate : List Nat := []       -- actors whose Receive gate is closed
  qgate : List Nat := []
  busyG : List Nat := []       -- grains with a handler parked at a closed gate
  stopped : Bool := false
  star : Bool := false
  res : List String := []

def numArg (op pre suf : String) : Option Nat :=
  if op.startsWith pre && op.endsWith suf && op.length > pre.length + suf.length - 0 then
    ((op.drop pre.length).toString.dropEnd suf.length).toString.toNat?
  else none

def doOp (sc : Scen) (s : St) (op : String) : Option St :=
  let n := sc.parents.length
  if op = "stop" then
    if s.stopped then none else
    some { s with stopped := true, star := s.star || !s.busyG.isEmpty, res := "done" :: s.res }
  else if op = "after" then
    let r := String.mk (((List.range n).map fun k => if s.orphan.contains k then 'o' else 'x') ++ List.replicate sc.ngr 'x')
    some { s with res := (if r = "" then "-" else r) :: s.res, star := s.star || !s.stopped }
  else if op = "burst" then
    -- a burst sends to every actor and every grain without waiting: every grain is (re-)activated
    some { s with gdead := [], res := "." :: s.res, star := s.star || s.stopped || !s.qgate.isEmpty }
  else match numArg op "r" "+", numArg op "r" "-", numArg op "q" "+", numArg op "q" "-" with
  | some k, _, _, _ => if k < n then some { s with rgate := k :: s.rgate, res := "." :: s.res } else none
  | _, some k, _, _ => if k < n then some { s with rgate := s.rgate.erase k, res := "." :: s.res } else none
  | _, _, some k, _ => if k < sc.ngr then some { s with qgate := k :: s.qgate, res := "." :: s.res } else none
  | _, _, _, some k =>
    if k < sc.ngr then some { s with qgate := s.qgate.erase k, busyG := s.busyG.erase k, res := "." :: s.res } else none
  | _, _, _, _ =>
    match numArg op "R" "" with
    | some k =>
      -- PID.Restart: a stopped actor is re-initialised (its stopped descendants stay stopped); a running
      -- one is stopped and re-initialised together with its running descendants: running either way
      -- A stopped actor is no longer in the tree (the death watch removed its node); Restart recovers the
      -- parent from the address the actor was spawned with: the recorded parent for a child (which must still
      -- be running, otherwise the restart is refused), the user guardian for a top-level actor.
      if k < n then
        let parentAlive := match sc.parents[k]? with
          | some (some p) => !s.dead.contains p
          | _ => true
        some { s with dead := if parentAlive then s.dead.filter (· != k) else s.dead,
                      res := "." :: s.res, star := s.star || s.stopped }
      else none
    | none =>
    match numArg op "t" "", numArg op "m" "", numArg op "k" "", numArg op "d" "" with
    | some k, _, _, _ =>
      if k < n then
        some { s with res := (if s.orphan.contains k then "ok" else if s.dead.contains k || s.stopped then "dead" else "ok") :: s.res }
      else none
    | _, some k, _, _ =>
      if k < sc.ngr then
        -- a send (re-)activates a deactivated grain; while Stop is in progress the outcome is not modelled
        some { s with gdead := s.gdead.erase k, res := "sent" :: s.res, star := s.star || s.stopped,
                      busyG := if s.qgate.contains k && !s.busyG.contains k then k :: s.busyG else s.busyG }
      else none
    | _, _, some k, _ =>
      if k < n then
        if s.orphan.contains k then some { s with res := "." :: s.res, star := s.star || s.stopped }
        else some { s with dead := ((subtree sc n k).filter fun j => !s.orphan.contains j) ++ s.dead, res := "." :: s.res,
                           star := s.star || s.stopped }
      else none
    | _, _, _, some k =>
      if k < sc.ngr then some { s with gdead := (if s.gdead.contains k then s.gdead else k :: s.gdead), res := "." :: s.res, star := s.star || s.stopped || s.busyG.contains k } else none
    | _, _, _, _ => none

def runOps (sc : Scen) : St → List String → Option St
  | s, [] => some s
  | s, op :: ops =>
    match doOp sc s op with
    | some s' => runOps sc s' ops
    | none => none

def model (line : String) : String :=
  match line.splitOn "|" with
  | [cfg, ops] =>
    match parseScen cfg with
    | none => "bad-case"
    | some sc =>
      match runOps sc {} (words ops) with
      | none => "bad-case"
      | some s =>
        if s.star then "*" else
        let n := sc.parents.length
        let f := forest sc (fun k => s.dead.contains k || s.orphan.contains k) (n + 1) (kidsOf sc none)
        let reached := if s.stopped then visited f else []
        let post := (List.range n).map fun k => s!"A{k}={if reached.contains k then 1 else 0}"
        let dea := (List.range sc.ngr).map fun k => s!"G{k}={if s.stopped && !s.gdead.contains k then 1 else 0}"
        let order := if s.stopped then (dfs f).map (fun k => s!"A{k}") else []
        " ".intercalate s.res.reverse ++ " | POST " ++ " ".intercalate post ++ " | DEA " ++ " ".intercalate dea ++
          " | ORDER " ++ " ".intercalate order ++ " | FIN " ++ (if s.stopped then "stop-ok" else "nostop")
  | _ => "bad-case"

/-! ### judge -/

/-- `who.kind@gid[/via][#inst]` -/
def parseE (tok : String) : Option E :=
  match tok.splitOn "@" with
  | [wk, rest] =>
    match wk.splitOn "." with
    | [who, kind] =>
      let (rest, inst) := match rest.splitOn "#" with
        | [r, i] => (r, i.toNat?.getD 0)
        | _ => (rest, 0)
      let (gs, via) := match rest.splitOn "/" with
        | [g] => (g, "")
        | g :: v :: _ => (g, v)
        | [] => ("", "")
      gs.toNat?.map fun g => { who := who, kind := kind, g := g, via := via, inst := inst }
    | _ => none
  | _ => none

def judge (line : String) : String :=
  let (c, o) := splitTab line
  if o.startsWith "CRASH" || o = "bad-case" then "bad harness: " ++ o else
  match c.splitOn "|", o.splitOn "|" with
  | [cfg, ops], [res, log, fin] =>
    match parseScen cfg, ((words log).drop 1).mapM parseE with
    | some sc, some h =>
      let n := sc.parents.length
      let actors := (List.range n).map fun k => s!"A{k}"
      let grains := (List.range sc.ngr).map fun k => s!"G{k}"
      let edges := (List.range n).filterMap fun k =>
        match sc.parents[k]? with
        | some (some p) => some (s!"A{k}", s!"A{p}")
        | _ => none
      -- ancestors, not only parents: close the edge list transitively
      let rec up (fuel : Nat) (k : Nat) : List Nat :=
        match fuel with
        | 0 => []
        | fuel + 1 =>
          match sc.parents[k]? with
          | some (some p) => p :: up fuel p
          | _ => []
      let allEdges := (List.range n).flatMap fun k => (up n k).map fun p => (s!"A{k}", s!"A{p}")
      let _ := edges
      let stopOk := (words fin).contains "stop-ok"
      let hasStop := (words ops).contains "stop"
      let afterBad :=
        let opsL := words ops
        let resL := words res
        (opsL.zip resL).filterMap fun (op, r) =>
          if op = "after" && r.any (· == 'o') then some s!"accepted-after-stop:{r}" else none
      let v := if hasStop then
          postOnce h actors ++ childrenFirst h allEdges ++ deaOnce h grains stopOk ++ quietAfter h ++
          noReceiveAfterDeactivate h grains ++ afterBad ++
          (if (words fin).contains "stop-timeout" then ["stop-never-returned"] else [])
        else []
      match v with
      | [] => "ok"
      | v => "bad " ++ " ".intercalate v
    | _, _ => "bad unparsable case or history"
  | _, _ => "bad unparsable output"

def run (args : List String) : IO UInt32 := runWith args model judge

end GoaktVerif.Driver.C17

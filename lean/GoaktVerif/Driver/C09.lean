import GoaktVerif.Driver.Util
import GoaktVerif.Model.C09
import GoaktVerif.Model.C09.Dump
import GoaktVerif.Model.C09.Stop
import GoaktVerif.Model.C09.Scenario
import GoaktVerif.Spec.C09

/-
Line protocol of C09.

  tree <NM> <op> <op> ...
      ops on one `tree` object.  A PID token is `<tag>.<id>`: `tag` = pointer identity of the *PID
      object, `id` = code of PID.ID() (0 = NoSender), PID.Name() has code (id-1) % NM.
        R:p  addRootNode      A:a:p addNode(a,p)        T:a:p attachNodeLocked(a,p)
        O:a:p addOrAttachNode W:p:w addWatcher(p,w)     U:e:w removeWatcher(e,w)
        X:i:j removeDescendant(ids)  D:p deleteNode     Z reset
      output: one segment per op, joined by `#`:  res|counter|names|nodes|shadowed   (see `render`)

  sys <op> ...
      scenario on a started actor system (see harness/inpkg/actor/zz_verif_c09sys.go); actor `a<k>` has id 10+k,
      root guardian 1, system guardian 2, user guardian 3, death watch 4.
      model output per op: `S:ok` … and for stop-like ops `K:stopped=<sorted names>`; last segment
      `end:term=<w>><a>=<n>,…;tree=<registered scenario actors>`
-/
namespace GoaktVerif.Driver.C09
open GoaktVerif.Driver GoaktVerif.Model.C09 GoaktVerif.Spec.C09 GoaktVerif.Model.C09.Scenario

def sortNats (l : List Nat) : List Nat := l.mergeSort (fun a b => a ≤ b)
def sortBy1 {α : Type} (l : List (Nat × α)) : List (Nat × α) := l.mergeSort (fun a b => a.1 ≤ b.1)

def joinOr (dash : String) (sep : String) (l : List String) : String :=
  if l.isEmpty then dash else sep.intercalate l

def showTags (l : List Pid) : String := joinOr "-" "," ((sortNats (l.map (·.tag))).map toString)
def showOptTags : Option (List Pid) → String
  | none => "~"
  | some l => showTags l

def resStr : Res → String
  | .ok => "ok" | .noSender => "nosender" | .pidExists => "exists" | .parentNoSender => "parentnosender"
  | .parentMissing => "parentmissing" | .pidMissing => "pidmissing" | .unsupported => "unsupported"

def renderNode (t : Tree) (n : Node) : String :=
  let d := t.dumpNode n
  let par := match d.parent with
    | none => "-"
    | some (i, lv) => if lv then toString i else "x"
  let kv (l : List (Nat × Nat)) := joinOr "-" "," ((sortBy1 l).map fun e => s!"{e.1}>{e.2}")
  let ds := joinOr "-" "," ((sortBy1 d.desc).map fun e => toString e.1 ++ (if e.2 then "" else "!"))
  ":".intercalate [toString d.id, toString d.tag, toString d.name, par, kv d.watchers, kv d.watchees, ds,
    showOptTags (t.children d.id), showOptTags (t.descendants d.id), showOptTags (t.siblings d.id)]

def render (t : Tree) (r : Res) : String :=
  let d := t.toDump
  let names := joinOr "-" "," ((sortBy1 d.names).map fun e => s!"{e.1}>{e.2.1}" ++ (if e.2.2 then "" else "!"))
  let nodes := joinOr "-" " " ((sortBy1 t.pids).map fun e => renderNode t e.2)
  let flag (q : Nat × Bool) := toString q.1 ++ (if q.2 then "" else "!")
  let sh := joinOr "-" "," ((sortBy1 d.shadowed).map fun e => s!"{e.1}>" ++ ".".intercalate (e.2.map flag))
  "|".intercalate [resStr r, toString d.counter, names, nodes, sh]

def pid? (nm : Nat) (s : String) : Option Pid :=
  match s.splitOn "." with
  | [a, b] => match a.toNat?, b.toNat? with
    | some tag, some id => some ⟨tag, id, if id = 0 then 0 else (id - 1) % nm⟩
    | _, _ => none
  | _ => none

def op? (nm : Nat) (s : String) : Option Op :=
  match s.splitOn ":" with
  | ["Z"] => some .reset
  | ["R", p] => (pid? nm p).map .addRoot
  | ["D", p] => (pid? nm p).map .deleteNode
  | ["A", a, p] => do some (.addNode (← pid? nm a) (← pid? nm p))
  | ["T", a, p] => do some (.attach (← pid? nm a) (← pid? nm p))
  | ["O", a, p] => do some (.addOrAttach (← pid? nm a) (← pid? nm p))
  | ["W", p, w] => do some (.addWatcher (← pid? nm p) (← pid? nm w))
  | ["U", e, w] => do some (.removeWatcher (← pid? nm e) (← pid? nm w))
  | ["X", i, j] => do some (.removeDescendant (← i.toNat?) (← j.toNat?))
  | _ => none

def runTree (t : Tree) : List Op → List String → List String
  | [], acc => acc.reverse
  | o :: os, acc =>
    let (t', r) := t.step o
    runTree t' os (render t' r :: acc)

/-! ### `attach`: the tree after a PostStart handler spawned a child (ids: root 1, user guardian 3, G 10, P 11, K 12) -/

def attachPid (id : Nat) : Pid := ⟨id, id, id⟩

/-- tree ops in the order the fixed code performs them: every actor is attached before its PostStart is processed,
    so `addNode(parent of P, P)` precedes `addNode(P, K)` -/
def attachTree (underG : Bool) : Tree :=
  let t := (Tree.empty.addRoot (attachPid 1)).1
  let t := (t.addNode (attachPid 1) (attachPid 3)).1
  let t := if underG then (t.addNode (attachPid 3) (attachPid 10)).1 else t
  let t := (t.addNode (attachPid (if underG then 10 else 3)) (attachPid 11)).1
  (t.addNode (attachPid 11) (attachPid 12)).1

def b01 (b : Bool) : String := if b then "1" else "0"

def attachOut (underG : Bool) : String :=
  let t := attachTree underG
  let reg := (aget 12 t.pids).isSome && (aget 12 t.names == some ⟨12, ((aget 12 t.pids).map (·.ref)).getD 0⟩)
  let par := t.parent 12 == some (attachPid 11)
  let chi := ((t.children 11).getD []).contains (attachPid 12)
  s!"reg={b01 reg};par={b01 par};chi={b01 chi}"

def model (line : String) : String :=
  match words line with
  | "tree" :: nm :: ops =>
    match nm.toNat? with
    | some nm =>
      if nm = 0 then "bad-case" else
      match ops.mapM (op? nm) with
      | some ops => "#".intercalate (runTree Tree.empty ops [])
      | none => "bad-case"
    | none => "bad-case"
  | "sys" :: ops =>
    match sysRun sys0 ops [] with
    | some (s, outs) => "#".intercalate (outs ++ [sysEnd s])
    | none => "bad-case"
  -- model fact: Terminated is a control message, PostStart is not, so it may be handled first
  -- (whether the guardian survives that is judged by the oracle, see findings/C09.json)
  | ["guard", _] => "overtakes=true"
  -- controlled-schedule witnesses of the lookup/delete race: no small-step model, judged only
  | "resolve" :: _ => "*"
  -- a PostStart handler spawns a child K while the spawn of its actor P is held in front of the attachment:
  -- PostStart is processed only once P is attached, so the tree sees addNode(parent-of-P, P) before addNode(P, K)
  -- (`attachTree`; Props/C09Attach: in that order K is registered under P, in the other order it is refused);
  -- the stop order is the children-first order of `stop_holds`
  | ["attach", "top", _] => attachOut false ++ "|krun=0;kps=1;order=K,P"
  | ["attach", "child", _] => attachOut true ++ "|krun=0;kps=1;order=K,P,G"
  | _ => "bad-case"

/-! ### judge: parse the implementation's dump back and run the Spec on it -/

/-- body of an `attach` output without the diagnostic `;early=` field -/
def attachBody (o : String) : String := ((o.splitOn ";early=").head?).getD ""

def kv? (s : String) : Option (List (Nat × Nat)) :=
  if s = "-" then some [] else
  (s.splitOn ",").mapM fun e => match e.splitOn ">" with
    | [a, b] => do some ((← a.toNat?), (← b.toNat?))
    | _ => none

def flagged? (s : String) : Option (Nat × Bool) :=
  if s.endsWith "!" then (s.dropEnd 1).toString.toNat?.map (·, false)
  else if s.endsWith "?" then none
  else s.toNat?.map (·, true)

def node? (s : String) : Option DNode :=
  match s.splitOn ":" with
  | id :: tag :: name :: par :: w :: e :: d :: _ => do
    let parent ← if par = "-" then some none else if par = "x" then some (some (0, false))
                 else par.toNat?.map (fun i => some (i, true))
    let desc ← if d = "-" then some [] else (d.splitOn ",").mapM flagged?
    some { id := ← id.toNat?, tag := ← tag.toNat?, name := ← name.toNat?, parent := parent,
           watchers := ← kv? w, watchees := ← kv? e, desc := desc }
  | _ => none

def nameEntry? (e : String) : Option (Nat × Nat × Bool) :=
  match e.splitOn ">" with
  | [a, b] =>
    match a.toNat?, flagged? b with
    | some a, some (i, lv) => some (a, i, lv)
    | _, _ => none
  | _ => none

def shadowEntry? (e : String) : Option (Nat × List (Nat × Bool)) :=
  match e.splitOn ">" with
  | [a, l] =>
    match a.toNat?, (l.splitOn ".").mapM flagged? with
    | some a, some l => some (a, l)
    | _, _ => none
  | _ => none

def dump? (seg : String) : Option Dump :=
  match seg.splitOn "|" with
  | [_, c, names, nodes, sh] =>
    let names := if names = "-" then some [] else (names.splitOn ",").mapM nameEntry?
    let nodes := if nodes = "-" then some [] else (words nodes).mapM node?
    let sh := if sh = "-" then some [] else (sh.splitOn ",").mapM shadowEntry?
    match c.toInt?, names, nodes, sh with
    | some c, some names, some nodes, some sh => some { counter := c, names := names, nodes := nodes, shadowed := sh }
    | _, _, _, _ => none
  | _ => none

/-! judge of `sys` cases: the spec side keeps its own books (who is whose child, who runs) -/

structure Books where
  parent : List (Nat × Nat) := []      -- (child, parent)
  running : List Nat := []

def Books.sub (b : Books) : Nat → Nat → List Nat
  | 0, x => [x]
  | f + 1, x => x :: ((b.parent.filter (·.2 == x)).map (·.1)).flatMap (b.sub f)

def kvGet (kvs : List String) (k : String) : Option String :=
  (kvs.find? (fun e => e.startsWith (k ++ "="))).map (fun e => (e.drop (k.length + 1)).toString)

def namesOf (v : String) : Option (List Nat) :=
  if v = "" then some [] else (v.splitOn ",").mapM actorId?

def judgeStop (b : Books) (tok : String) (target : Option Nat) (seg : String) (isRestart : Bool) : Option String :=
  let kvs := ((seg.splitOn ":").drop 1 |> ":".intercalate).splitOn ";"
  match (kvGet kvs "order").bind namesOf with
  | none => some s!"{tok}: no PostStop order reported ({seg})"
  | some order =>
    let expect := match target with
      | none => b.running
      | some x => (b.sub 8 x).filter (b.running.contains ·)
    if !exactlyOnce expect order then
      some s!"{tok}: PostStop did not run exactly once for every running actor of the subtree"
    else if !childrenFirst ((b.parent.filter (expect.contains ·.1)).map fun e => (e.2, e.1)) order then
      some s!"{tok}: a parent's PostStop ran before a descendant's"
    else if isRestart then none
    else if (kvGet kvs "run").getD "" ≠ "" then some s!"{tok}: actors of the subtree still running when the stop returned"
    else if (kvGet kvs "dw") = some "timeout" then some s!"{tok}: death watch did not become quiescent"
    else if (kvGet kvs "left").getD "" ≠ "" then some s!"{tok}: stopped actors still registered after death watch handled its Terminated messages"
    else if (kvGet kvs "late") = some "1" then some s!"{tok}: still resolvable by name after death watch handled its Terminated messages"
    else none

def judgeSys : Books → List String → List String → String
  | _, [], _ => "ok"
  | _, _, [] => "bad fewer output segments than ops"
  | b, tok :: toks, seg :: segs =>
    let stop (target : Option Nat) (isRestart : Bool) : String :=
      if seg.contains "err=" && tok ≠ "Z" then s!"bad {tok} failed: {seg}" else
      match judgeStop b tok target seg isRestart with
      | some why => "bad " ++ why
      | none =>
        let dead := match target with
          | none => b.running
          | some x => b.sub 8 x
        judgeSys (if isRestart then b else { b with running := b.running.filter (!dead.contains ·) }) toks segs
    match tok.splitOn ":" with
    | ["S", x] => match actorId? x with
      | some x => judgeSys { b with running := x :: b.running } toks segs
      | none => "bad-case"
    | ["C", p, x] => match actorId? p, actorId? x with
      | some p, some x =>
        if b.running.contains p then judgeSys { parent := (x, p) :: b.parent, running := x :: b.running } toks segs
        else judgeSys b toks segs
      | _, _ => "bad-case"
    | ["K", x] => stop (actorId? x) false
    | ["P", x] => stop (actorId? x) false
    | ["Q", x] => stop (actorId? x) false
    | ["T", _, x] => stop (actorId? x) false
    | ["R", x] => stop (actorId? x) true
    | ["Z"] => stop none false
    | _ => judgeSys b toks segs

def judge (line : String) : String :=
  let (c, o) := splitTab line
  match words c with
  | "tree" :: _ =>
    if o.startsWith "panic" || o.startsWith "CRASH" then "bad " ++ o else
    let segs := o.splitOn "#"
    match segs.mapM dump? with
    | none => "bad unparsable dump"
    | some ds =>
      match ds.zipIdx.find? (fun (d, _) => !wfDump d) with
      | none => "ok"
      | some (d, i) =>
        let why := if !counterOK d then "counter differs from the number of registered nodes"
          else if !namesOK d then "names index points to a cleared or differently named node"
          else if !shadowOK d then "a registered node is not reachable through its name (neither the names entry nor shadowed), or shadowed holds a cleared / wrong node"
          else "watchers and watchees are not mutually inverse"
        s!"bad tree inconsistent after op {i}: {why}"
  | "sys" :: toks =>
    if o.startsWith "panic" || o.startsWith "CRASH" then "bad " ++ o
    else if (o.splitOn ";lost=").length > 1 || (o.splitOn "#R:err").length > 1 then "ok inconclusive"
    else judgeSys {} toks (o.splitOn "#")
  | "resolve" :: _ =>
    if (o.splitOn "panic").length > 1 then "bad name resolution panics: the node was cleared by death watch between the lookup and node.value(), and the nil PID is dereferenced"
    else if (o.splitOn "!stuck").length > 1 then "bad controlled schedule did not complete"
    else "ok"
  | "guard" :: _ =>
    if (o.splitOn "panic").length > 1 then "bad guardian panics on a Terminated that overtakes its PostStart (the root guardian then stops the actor system)"
    else "ok"
  | "attach" :: _ =>
    if attachBody o == model c then "ok"
    else "bad an actor spawned from its parent's PostStart handler is not attached to the actor tree, or not stopped with its parent, children first: " ++ o
  | _ => "bad-case"

def run (args : List String) : IO UInt32 := runWith args model judge

end GoaktVerif.Driver.C09

import GoaktVerif.Driver.Util
import GoaktVerif.Model.C36
import GoaktVerif.Spec.C36

namespace GoaktVerif.Driver.C36
open GoaktVerif.Driver GoaktVerif.Model.C36

def parseOp (tok : String) : Op :=
  match tok.splitOn "." with
  | ["X", n] => match n.toNat? with | some n => .spawn n | none => .bad
  | ["bX", n] => match n.toNat? with | some n => .sBegin n | none => .bad
  | ["eX", n] => match n.toNat? with | some n => .sEnd n | none => .bad
  | ["K", n] => match n.toNat? with | some n => .kill n | none => .bad
  | ["xX", n] => match n.toNat? with | some n => .cancelHeld n | none => .bad
  | ["fX", n] => match n.toNat? with | some n => .follow n | none => .bad
  | ["cX", n] => match n.toNat? with | some n => .cancel n | none => .bad
  | ["jX", n] => match n.toNat? with | some n => .join n | none => .bad
  | ["L", n, k] => match n.toNat?, k.toNat? with | some n, some k => .view n k | _, _ => .bad
  | _ => .bad

def showOut : Out → String
  | .ok o => s!"ok:{o}" | .pre m => s!"pre{m}" | .done => "ok" | .busy => "busy" | .none => "none"
  | .nf => "nf" | .eloop => "eloop" | .badOp => "bad-op" | .wait => "wait" | .cancelled => "cancelled" | .failed => "failed" | .retry => "retry"

def showEv : Ev → String
  | .members n => s!"{n}m" | .getHit n => s!"{n}g" | .getMiss n => s!"{n}G" | .put n => s!"{n}p" | .del n => s!"{n}d"

def insertSorted (x : Nat) : List Nat → List Nat
  | [] => [x]
  | y :: ys => if x ≤ y then x :: y :: ys else y :: insertSorted x ys

def digest (s : St) : String :=
  let r := match s.reg with | some n => toString n | none => "none"
  let live := ",".intercalate (s.live.map fun b => if b then "1" else "0")
  let held := ",".intercalate (((s.held.map (·.1)).foldr insertSorted []).map toString)
  let fol := ",".intercalate (((s.fol.map (·.1)).foldr insertSorted []).map toString)
  s!"R={r} live={live} max={s.maxLive} started={s.started} held={held} fol={fol} log={",".intercalate (s.log.reverse.map showEv)}"

def model (line : String) : String :=
  match line.splitOn "|" with
  | [n, ops] =>
    match n.trimAscii.toString.toNat? with
    | some nn =>
      if nn < 1 || nn > 5 then "bad-case" else
      let (s, outs) := run (St.init nn) ((words ops).map parseOp)
      " ".intercalate (outs.map showOut) ++ " | " ++ digest s
    | none => "bad-case"
  | _ => "bad-case"

def fieldOf (d key : String) : Option String :=
  (words d).findSome? fun w => if w.startsWith (key ++ "=") then some (w.drop (key.length + 1)).toString else none

def judge (line : String) : String :=
  let (_, o) := splitTab line
  match o.splitOn " | " with
  | [_, d] =>
    match fieldOf d "max", fieldOf d "live" with
    | some mx, some live =>
      match mx.toNat?, commaNats? live with
      | some mx, some live =>
        if Spec.C36.atMostOne mx live then "ok" else s!"bad {max mx (live.foldl (· + ·) 0)} instances of the singleton ran at once (live={live})"
      | _, _ => "bad unparsable digest"
    | _, _ => "bad no digest"
  | _ => if o = "bad-case" || o.startsWith "err:" then "ok" else "bad no digest"

def run (args : List String) : IO UInt32 := runWith args model judge

end GoaktVerif.Driver.C36

import GoaktVerif.Driver.Util
import GoaktVerif.Model.C25
import GoaktVerif.Model.C25Wire
import GoaktVerif.Model.C25WireDec
import GoaktVerif.Spec.C25

/-!
C25 line-protocol front-end.  Case families (see harness/verifdrv/c25/main.go):
  C: pser pdes cser cdes ftn tser tdec ppser ppdec dlv denv ddec   (byte-exact framing and envelopes)
  A: dsp <seed> <entries> <ops…>       scripted serializers under the real dispatch: the model predicts everything
  B: real <entries> <msg>              real serializers: the harness reports the abstract view; `judge` recomputes
                                       the dispatch from the view with the model and applies the spec
-/
namespace GoaktVerif.Driver.C25
open GoaktVerif.Driver GoaktVerif.Model.C25 GoaktVerif.Model.C25.Wire GoaktVerif.Spec.C25

/-! ### hex -/

def hexDigit (n : Nat) : Char := if n < 10 then Char.ofNat (48 + n) else Char.ofNat (87 + n)

def hx (b : Bytes) : String :=
  if b.isEmpty then "-" else String.ofList (b.flatMap fun x => [hexDigit (x / 16 % 16), hexDigit (x % 16)])

def hexVal (c : Char) : Option Nat :=
  let n := c.toNat
  if 48 ≤ n && n ≤ 57 then some (n - 48)
  else if 97 ≤ n && n ≤ 102 then some (n - 87)
  else if 65 ≤ n && n ≤ 70 then some (n - 55)
  else none

def unhxL : List Char → Option Bytes
  | [] => some []
  | a :: b :: rest => do
    let x ← hexVal a
    let y ← hexVal b
    let r ← unhxL rest
    pure ((x * 16 + y) :: r)
  | _ => none

def unhx (s : String) : Option Bytes := if s = "-" || s = "" then some [] else unhxL s.toList

def ascii (s : String) : Bytes := s.toList.map Char.toNat

def resStr (r : Except Err Bytes) : String :=
  match r with
  | .ok b => "ok " ++ hx b
  | .error e => "err:" ++ e.str

/-! ### the concrete codecs of the harness universe -/

def protoNames : List Bytes := [ascii "testpb.Reply", ascii "testpb.TestLog", ascii "testpb.GetAccount"]

/-- messages with one string field: (full name, content) -/
def strCodec : ProtoCodec (Bytes × Bytes) where
  isProto := fun _ => true
  nameOf := fun m => m.1
  marshal := fun m => some (encStr1 m.2)
  registered := fun n => protoNames.contains n
  unmarshal := fun n p => (decStr1 p).map fun c => (n, c)

def lowerByte (b : Nat) : Nat := if 65 ≤ b && b ≤ 90 then b + 32 else b
def lowTrim (n : Bytes) : Bytes :=
  let t := (n.dropWhile isSpaceByte).reverse.dropWhile isSpaceByte |>.reverse
  t.map lowerByte

def natDigits (n : Nat) : Bytes := ascii (toString n)
def intDigits (i : Int) : Bytes := ascii (toString i)

def parseDec (b : Bytes) : Option Int :=
  (String.ofList (b.map Char.ofNat)).toInt?

/-- CBOR of an int64 in the one-byte range, and back -/
def cborInt (i : Int) : Option Bytes :=
  if 0 ≤ i && i ≤ 23 then some [i.toNat] else if -24 ≤ i && i < 0 then some [32 + (-1 - i).toNat] else none
def cborIntDec : Bytes → Option Int
  | [b] => if b ≤ 23 then some b else if 32 ≤ b && b ≤ 55 then some (-1 - ((b - 32 : Nat) : Int)) else none
  | _ => none

def intCodec (json : Bool) : RegCodec Int where
  isNil := fun _ => false
  nameOf := fun _ => ascii "int64"
  registered := fun n => lowTrim n == ascii "int64"
  marshal := fun i => if json then some (intDigits i) else cborInt i
  unmarshal := fun _ p => if json then parseDec p else cborIntDec p

/-! ### family C -/

def cmdStr : Cmd → String
  | .registerConsumer n => s!"rc:{hx n}"
  | .registrationAck s n nonce => s!"ra:{hx s}:{n}:{hx nonce}"
  | .request s nonce c u v => s!"rq:{hx s}:{hx nonce}:{c}:{u}:{if v then "1" else "0"}"
  | .ack s nonce c => s!"ak:{hx s}:{hx nonce}:{c}"
  | .sequenced s id seq p ch f l =>
    s!"sq:{hx s}:{hx id}:{seq}:{hx p}:{if ch then "1" else "0"}{if f then "1" else "0"}{if l then "1" else "0"}"

def bit (s : String) (i : Nat) : Bool := s.toList.getD i '0' == '1'

def parseCmd (spec : String) : Option Cmd :=
  match spec.splitOn ":" with
  | ["rc", n] => do pure (.registerConsumer (← unhx n))
  | ["ra", s, n, nonce] => do pure (.registrationAck (← unhx s) (← n.toInt?) (← unhx nonce))
  | ["rq", s, nonce, c, u, v] => do pure (.request (← unhx s) (← unhx nonce) (← c.toInt?) (← u.toInt?) (v == "1"))
  | ["ak", s, nonce, c] => do pure (.ack (← unhx s) (← unhx nonce) (← c.toInt?))
  | ["sq", s, id, seq, p, cfl] => do
    pure (.sequenced (← unhx s) (← unhx id) (← seq.toInt?) (← unhx p) (bit cfl 0) (bit cfl 1) (bit cfl 2))
  | _ => none

def parseEnv (spec : String) : Option Env :=
  match spec.splitOn ":" with
  | ["none"] => some .none
  | ["rc", n] => do pure (.registerConsumer (← unhx n))
  | ["ra", s, n, nonce] => do pure (.registrationAck (← unhx s) (← n.toInt?) (← unhx nonce))
  | ["rq", s, nonce, c, u, v] => do pure (.request (← unhx s) (← unhx nonce) (← c.toInt?) (← u.toInt?) (v == "1"))
  | ["ak", s, nonce, c] => do pure (.ack (← unhx s) (← unhx nonce) (← c.toInt?))
  | ["sq", s, id, seq, p, ch] => do
    let payload ← if p == "~" then pure none else (unhx p).map some
    let chunk := if ch == "~" then none else some (bit ch 0, bit ch 1)
    pure (.sequenced (← unhx s) (← unhx id) (← seq.toInt?) payload chunk)
  | _ => none

/-- a table codec (only used for the few raw-byte `ddec` cases; `dlv` and `denv` run the wire codec
    `wireEnvCodec`, encoder AND decoder) -/
def envCodecFor (e : Env) : EnvCodec where
  marshal := fun x => some (encEnv x)
  unmarshal := fun b => if b == encEnv e then some e else none

def cmdRes (r : Except Err Cmd) : String :=
  match r with
  | .ok c => cmdStr c
  | .error e => "err:" ++ e.str

def famC (f : List String) : String :=
  match f with
  | ["pser", kind, c] =>
    match unhx c with
    | none => "bad-case"
    | some c =>
      let name := match kind with
        | "reply" => some (ascii "testpb.Reply") | "log" => some (ascii "testpb.TestLog")
        | "acct" => some (ascii "testpb.GetAccount") | _ => none
      match name with
      | some n => resStr (protoSerialize strCodec (n, c))
      | none => resStr (protoSerialize { strCodec with isProto := fun _ => false } ([], c))
  | ["pdes", d] =>
    match unhx d with
    | none => "bad-case"
    | some d =>
      match protoDeserialize strCodec d with
      | .ok (n, c) => s!"ok {String.ofList (n.map Char.ofNat)} {hx c}"
      | .error e => "err:" ++ e.str
  | ["cser", k, v] =>
    match v.toInt? with
    | some v => resStr (regSerialize (intCodec (k == "j")) v)
    | none => "bad-case"
  | ["cdes", k, d] =>
    match unhx d with
    | none => "bad-case"
    | some d =>
      match regDeserialize (intCodec (k == "j")) d with
      | .ok v => s!"ok int64 {v}"
      | .error e => "err:" ++ e.str
  | ["ftn", d] =>
    match unhx d with
    | none => "bad-case"
    | some d => match frameTypeName d with | some n => "ok " ++ hx n | none => "none"
  | ["tser", p, n] =>
    match unhx p, n.toInt? with
    | some p, some n => "ok " ++ hx (termEncode ⟨p, n⟩)
    | _, _ => "bad-case"
  | ["tdec", d, flag] =>
    match unhx d with
    | none => "bad-case"
    | some d =>
      match termDecode (fun _ => flag == "1") d with
      | some t => s!"ok {hx t.path} {t.nanos}"
      | none => "err:not-envelope"
  | ["ppser"] => "ok " ++ hx poisonEncode
  | ["ppdec", d] =>
    match unhx d with
    | none => "bad-case"
    | some d => if poisonDecode d then "ok" else "err:not-envelope"
  | ["dlv", spec] =>
    if spec == "other" then "err:not-envelope" else
    match parseCmd spec with
    | none => "bad-case"
    | some c =>
      let pc := wireEnvCodec
      match deliveryEncode pc c with
      | .error e => "err:" ++ e.str
      | .ok b => s!"ok {hx b} rt={cmdRes (deliveryDecode pc b)}"
  | ["denv", spec] =>
    match parseEnv spec with
    | none => "bad-case"
    | some e =>
      let pc := wireEnvCodec
      let b := deliveryMagic ++ encEnv e
      s!"{hx b} dec={cmdRes (deliveryDecode pc b)}"
  | ["ddec", d] =>
    match unhx d with
    | none => "bad-case"
    | some d =>
      -- only what needs no protobuf decoder: magic failures, the empty envelope, one malformed body
      if d.length < 8 || d.take 8 != deliveryMagic then "err:not-envelope"
      else if d.drop 8 == [] then cmdRes (deliveryDecode (envCodecFor .none) d)
      else if d.drop 8 == [255] then "err:unmarshal"
      else "*"
  | _ => "bad-case"

/-! ### family A: scripted serializers -/

inductive Msg
  | v (k : Nat)
  | r (content : Bytes)
  | u
  deriving DecidableEq, Repr

def msgLabel : Msg → String
  | .v k => s!"v{k}"
  | .r c => "r:" ++ hx c
  | .u => "other"

def replyName : Bytes := ascii "testpb.Reply"

def msgCodec : ProtoCodec Msg where
  isProto := fun m => match m with | .r _ => true | _ => false
  nameOf := fun _ => replyName
  marshal := fun m => match m with | .r c => some (encStr1 c) | _ => none
  registered := fun n => protoNames.contains n
  unmarshal := fun _ p => (decStr1 p).map Msg.r

structure Script where
  id : Nat
  serSet : List Bool
  format : String
  own : Char
  foreign : Char

def scriptSer (s : Script) (m : Msg) : Except Err Bytes :=
  match m with
  | .v k =>
    if k < 4 && s.serSet.getD k false then
      let tag := [64 + s.id, 48 + k]
      match s.format with
      | "raw" => .ok (197 :: tag)
      | "fU" => .ok (frame (ascii "verif.none") tag)
      | "fR" => .ok (frame replyName ([10, 2] ++ tag))
      | "fB" => .ok (frame replyName (255 :: tag))
      | _ => .error .custom
    else .error .custom
  | _ => .error .custom

def parseTag (d : Bytes) : Option (Nat × Nat) :=
  let tag : Option Bytes :=
    match d with
    | [197, a, b] => some [a, b]
    | _ =>
      match unframe d with
      | some (n, p) =>
        if n == ascii "verif.none" && p.length == 2 then some p
        else if n == replyName then
          match p with
          | [10, 2, a, b] => some [a, b]
          | [255, a, b] => some [a, b]
          | _ => none
        else none
      | none => none
  match tag with
  | some [a, b] => if 64 ≤ a && a ≤ 73 && 48 ≤ b && b ≤ 51 then some (a - 64, b - 48) else none
  | _ => none

def scriptDeser (s : Script) (d : Bytes) : Except Err Msg :=
  match parseTag d with
  | none => if s.foreign == 'g' then .ok (.v 0) else .error .custom
  | some (id, k) =>
    let mode := if id == s.id then s.own else s.foreign
    if mode == 'h' || mode == 'a' || mode == 'g' then .ok (.v k)
    else if mode == 'l' then .ok (.v ((k + 1) % 4))
    else .error .custom

def acceptsBy (reg : String) (m : Msg) : Bool :=
  match reg, m with
  | "x0", .v 0 => true | "x1", .v 1 => true | "x2", .v 2 => true | "x3", .v 3 => true
  | "xr", .r _ => true
  | "iA", .v k => k == 0 || k == 1
  | "iB", .v k => k == 1 || k == 2
  | "iAny", .v _ => true
  | "iP", .r _ => true
  | _, _ => false

def protoEntry (reg : String) : Entry Msg :=
  { accepts := acceptsBy reg, exact := reg.startsWith "x", ser := protoSerialize msgCodec,
    deser := protoDeserialize msgCodec, isProto := true }

def parseEntry (spec : String) : Option (Entry Msg × String) :=
  match spec.splitOn "/" with
  | [reg, "P"] => some (protoEntry reg, "P")
  | [reg, s] =>
    match s.splitOn ":" with
    | [sid, bits, fmt, own, foreign] =>
      match (sid.drop 1).toString.toNat? with
      | some id =>
        let sc : Script := { id := id, serSet := bits.toList.map (· == '1'), format := fmt,
                             own := own.toList.getD 0 'h', foreign := foreign.toList.getD 0 'r' }
        some ({ accepts := acceptsBy reg, exact := reg.startsWith "x", ser := scriptSer sc,
                deser := scriptDeser sc, isProto := false }, s!"S{id}")
      | none => none
    | _ => none
  | _ => none

def parseMsg (s : String) : Option Msg :=
  if s == "u" then some .u
  else if s.startsWith "v" then (s.drop 1).toString.toNat?.map Msg.v
  else if s.startsWith "r:" then (unhx (s.drop 2).toString).map Msg.r
  else none

def protoRegA (n : Bytes) : Bool := protoNames.contains n

def deserLabel (es : List (Entry Msg)) (d : Bytes) : String :=
  match dispDeserialize protoRegA es d with
  | .ok m => msgLabel m
  | .error e => "err:" ++ e.str

def parseEntries (seed : String) (entries : String) : Option (List (Entry Msg × String)) := do
  let specs := if entries == "-" then [] else entries.splitOn ","
  let es ← specs.mapM parseEntry
  pure (if seed == "1" then (protoEntry "iP", "P") :: es else es)

def runOp (esl : List (Entry Msg × String)) (op : String) : String :=
  let es := esl.map (·.1)
  match op.splitOn ":" with
  | kind :: rest =>
    let arg := ":".intercalate rest
    match kind with
    | "send" =>
      match parseMsg arg with
      | none => "bad-op"
      | some m =>
        match resolve es m with
        | none => "res=none"
        | some i =>
          match esl[i]? with
          | none => "res=none"
          | some (e, lab) =>
            match e.ser m with
            | .error err => s!"res={lab} ser=err:{err.str}"
            | .ok d => s!"res={lab} ser=ok rt={deserLabel es d}"
    | "dser" =>
      match parseMsg arg with
      | none => "bad-op"
      | some m =>
        match dispSerialize es m with
        | .ok d => "dser=" ++ hx d
        | .error e => "dser=err:" ++ e.str
    | "ddes" =>
      match unhx arg with
      | some d => "ddes=" ++ deserLabel es d
      | none => "bad-op"
    | _ => "bad-op"
  | [] => "bad-op"

def famA (seed entries : String) (ops : List String) : String :=
  match parseEntries seed entries with
  | none => "bad-case"
  | some esl => " ; ".intercalate (ops.map (runOp esl))

/-- spec judge for family A: on every `send` whose scripted serializers satisfy the hypotheses of the dispatch
    theorem (`agreeB`, `someDecodesB`), the implementation must return the message sent; and the serializer
    the implementation chose must be the one the documented rule names -/
def judgeA (seed entries : String) (ops : List String) (outs : List String) : String :=
  match parseEntries seed entries with
  | none => "bad-case"
  | some esl =>
    let es := esl.map (·.1)
    let rec go : List String → List String → String
      | [], _ => "ok"
      | op :: ops, outs =>
        let o := (outs.headD "").trimAscii.toString
        let rest := outs.drop 1
        match op.splitOn ":" with
        | "send" :: restArg =>
          match parseMsg (":".intercalate restArg) with
          | none => "bad-case"
          | some m =>
            let fields := words o
            let getF (k : String) : String :=
              match fields.find? (·.startsWith (k ++ "=")) with
              | some x => (x.drop (k.length + 1)).toString
              | none => ""
            -- chosen serializer: the documented rule
            let docLab := match resolveDoc es m with
              | some i => (esl[i]?.map (·.2)).getD "none"
              | none => "none"
            if getF "res" != docLab then
              (if shadowed es m then "bad chosen-shadowed: " else "bad chosen: ") ++
                s!"documented rule picks {docLab}, the code picked {getF "res"} for {msgLabel m}"
            else
            match resolve es m with
            | none => if o == "res=none" then go ops rest else s!"bad unsupported message produced {o}"
            | some i =>
              match es[i]? with
              | none => "bad-case"
              | some e =>
                match e.ser m with
                | .error _ => if (getF "ser").startsWith "err" then go ops rest else s!"bad bytes for a message the serializer refuses: {o}"
                | .ok d =>
                  if agreeB es d m && someDecodesB es d m then
                    if getF "rt" == msgLabel m then go ops rest
                    else s!"bad roundtrip: sent {msgLabel m}, received {getF "rt"}"
                  else go ops rest
        | _ => go ops rest
    go ops outs

/-! ### family B: real serializers, the view comes from the implementation -/

def field (fs : List String) (k : String) : String :=
  match fs.find? (·.startsWith (k ++ "=")) with
  | some x => (x.drop (k.length + 1)).toString
  | none => ""

def viewEntries (acc ex serok dec : String) (pidx : Option Nat) : List (Entry Nat) :=
  (List.range acc.length).map fun i =>
    { accepts := fun _ => bit acc i
      exact := bit ex i
      ser := fun _ => if bit serok i then .ok [i] else .error .custom
      deser := fun _ =>
        match dec.toList.getD i 'e' with
        | 's' => .ok 0
        | 'd' => .ok (i + 1)
        | _ => .error .custom
      isProto := pidx == some i }

def judgeB (out : String) : String :=
  let fs := words out
  let acc := field fs "acc"
  if acc == "-" || acc == "" then
    (if field fs "chosen" == "none" && field fs "send" == "none" && field fs "dser" == "err" then "ok"
     else "bad empty table produced " ++ out)
  else
  let es := viewEntries acc (field fs "ex") (field fs "serok") (field fs "dec") (field fs "pidx").toNat?
  -- 1. the model's selection on the same view
  let chosenM := match resolve es 0 with | some i => toString i | none => "none"
  if chosenM != field fs "chosen" then s!"bad model-mismatch chosen model={chosenM} impl={field fs "chosen"}" else
  let dserOK := match dispSerialize es 0 with
    | .ok [i] => ((field fs "dser").splitOn ",").contains (toString i)
    | .ok _ => false
    | .error _ => field fs "dser" == "err"
  if !dserOK then s!"bad model-mismatch dispatcher-serialize impl={field fs "dser"}" else
  -- 2. documented rule
  let docM := match resolveDoc es 0 with | some i => toString i | none => "none"
  if docM != chosenM then
    (if shadowed es 0 then "bad chosen-shadowed: " else "bad chosen: ") ++ s!"documented rule picks {docM}, the code picked {chosenM}" else
  match resolve es 0 with
  | none => if field fs "send" == "none" then "ok" else "bad unsupported message was sent"
  | some i =>
    let sendOK := (field fs "send") == "ok"
    if sendOK != bit (field fs "serok") i then "bad model-mismatch send" else
    if !sendOK then "ok" else
    match unhx (field fs "frame") with
    | none => "bad-case"
    | some d =>
      let ftnM := match frameTypeName d with | some n => hx n | none => "none"
      if ftnM != field fs "ftn" then s!"bad model-mismatch frameTypeName model={ftnM} impl={field fs "ftn"}" else
      let rtM := match dispDeserialize (fun _ => field fs "preg" == "1") es d with
        | .ok 0 => "s" | .ok _ => "d" | .error _ => "e"
      let rtI := ((field fs "rt").take 1).toString
      if rtM != rtI then s!"bad model-mismatch deserialize model={rtM} impl={field fs "rt"}" else
      -- 3. the property
      if rtI == "s" then "ok"
      else s!"bad roundtrip: view dec={field fs "dec"} received {field fs "rt"}"

/-! ### entry points -/

def model (line : String) : String :=
  match words line with
  | "dsp" :: seed :: entries :: ops => famA seed entries ops
  | "real" :: _ => "*"
  | f => famC f

def judge (line : String) : String :=
  let (c, o) := splitTab line
  match words c with
  | "dsp" :: seed :: entries :: ops => judgeA seed entries ops (o.splitOn " ; ")
  | "real" :: _ => judgeB o
  | ["dlv", spec] =>
    -- spec: a valid command round-trips; an invalid one yields an error, never bytes
    if spec == "other" then (if o.startsWith "err" then "ok" else "bad foreign message encoded") else
    match parseCmd spec with
    | none => "bad-case"
    | some cmd =>
      if !cmd.wf then "ok" else
      if cmd.valid then (if (words o).getD 2 "" == "rt=" ++ cmdStr cmd then "ok" else "bad roundtrip: delivery command " ++ o)
      else (if o.startsWith "err" then "ok" else "bad invalid command encoded: " ++ o)
  | _ => "ok"

def run (args : List String) : IO UInt32 := runWith args model judge

end GoaktVerif.Driver.C25

import GoaktVerif.Driver.Util
import GoaktVerif.Model.C48
import GoaktVerif.Spec.C48

/-
C48 line protocol.  case = `<ttl> <t0> <op> <op> ...`
  s<k>=<v>  Set      g<k>  Get -> value or `-`     d<k>  Delete     r  Reset
  l  Len -> n        a  ActiveLen -> n             t<d>  clock += d
  D  dump of the internal state -> `k:idx:val:exp,...|len(order)|head`  (items sorted by key, `.` if empty)
output = the answers of the answering ops, space separated.
-/
namespace GoaktVerif.Driver.C48
open GoaktVerif.Driver GoaktVerif.Model.C48 GoaktVerif.Spec.C48

inductive DOp where
  | op (o : Op)
  | dump

def parseOp (w : String) : Option DOp :=
  if w = "r" then some (.op .reset)
  else if w = "l" then some (.op .len)
  else if w = "a" then some (.op .activeLen)
  else if w = "D" then some .dump
  else
    let rest := (w.drop 1).toString
    if w.startsWith "s" then
      match rest.splitOn "=" with
      | [k, v] => match k.toNat?, v.toInt? with
        | some k, some v => some (.op (.set k v))
        | _, _ => none
      | _ => none
    else if w.startsWith "g" then rest.toNat?.map fun k => .op (.get k)
    else if w.startsWith "d" then rest.toNat?.map fun k => .op (.del k)
    else if w.startsWith "t" then rest.toNat?.map fun d => .op (.tick d)
    else none

def insertSorted (p : Nat × Nat) : List (Nat × Nat) → List (Nat × Nat)
  | [] => [p]
  | q :: qs => if p.1 ≤ q.1 then p :: q :: qs else q :: insertSorted p qs

def sortItems (l : List (Nat × Nat)) : List (Nat × Nat) := l.foldr insertSorted []

def dump (s : TTL) : String :=
  let its := (sortItems s.items).map fun (k, i) =>
    match s.order[i]? with
    | some e => s!"{k}:{i}:{e.val}:{e.exp}"
    | none => s!"{k}:{i}:?:?"
  (if its.isEmpty then "." else ",".intercalate its) ++ s!"|{s.order.length}|{s.head}"

def showOut : Out → Option String
  | .unit => none
  | .val (some v) => some (toString v)
  | .val none => some "-"
  | .num n => some (toString n)

def runOps (c : Cfg) : List DOp → List String → List String
  | [], acc => acc.reverse
  | .dump :: ops, acc => runOps c ops (dump c.s :: acc)
  | .op o :: ops, acc =>
    let r := step c o
    runOps r.1 ops (match showOut r.2 with | some s => s :: acc | none => acc)

def parseCase (line : String) : Option (Int × Int × List DOp) :=
  match words line with
  | ttl :: t0 :: ops =>
    match ttl.toInt?, t0.toInt?, ops.mapM parseOp with
    | some ttl, some t0, some ops => some (ttl, t0, ops)
    | _, _, _ => none
  | _ => none

def model (line : String) : String :=
  match parseCase line with
  | some (ttl, t0, ops) => " ".intercalate (runOps ⟨t0, TTL.new ttl⟩ ops [])
  | none => "bad-case"

/-! judge: replay the case on the SPEC and check the implementation's answers against it -/

def parseDumpItem (s : String) : Option (Nat × Int × Int) :=
  match s.splitOn ":" with
  | [k, _, v, e] => match k.toNat?, v.toInt?, e.toInt? with
    | some k, some v, some e => some (k, v, e)
    | _, _, _ => none
  | _ => none

/-- the dumped index map must be: a subset of the spec map (nothing revived or altered) that
    contains every key live in the spec (nothing live lost) -/
def dumpOK (sc : SCfg) (keys : List Nat) (d : String) : Bool :=
  match d.splitOn "|" with
  | [its, _, _] =>
    match (if its = "." then some [] else (its.splitOn ",").mapM parseDumpItem) with
    | some items =>
      items.all (fun (k, v, e) => sc.m k == some (v, e)) &&
      keys.all (fun k => !(sc.m.get sc.now k).isSome || items.any (fun (k', _, _) => k' == k))
    | none => false
  | _ => false

def judgeOps (sc : SCfg) (keys : List Nat) : List DOp → List String → Nat → String
  | [], [], _ => "ok"
  | [], _ :: _, _ => "bad more answers than answering ops"
  | .dump :: ops, o :: outs, n =>
    if dumpOK sc keys o then judgeOps sc keys ops outs (n + 1)
    else s!"bad op#{n}: internal state loses a live entry or holds an entry the spec map does not: {o}"
  | .dump :: _, [], _ => "bad missing answer"
  | .op o :: ops, outs, n =>
    let so : SOp := match o with
      | .set k v => .set k v | .get k => .get k | .del k => .del k | .reset => .reset
      | .len => .len | .activeLen => .activeLen | .tick d => .tick d
    let r := sstep sc so
    match r.2 with
    | .unit => judgeOps r.1 keys ops outs (n + 1)
    | .val ex =>
      match outs with
      | a :: outs' =>
        let exs := match ex with | some v => toString v | none => "-"
        if a = exs then judgeOps r.1 keys ops outs' (n + 1)
        else s!"bad op#{n}: Get returned {a}, a map with per-key expiry returns {exs}"
      | [] => "bad missing answer"
    | .active =>
      match outs with
      | a :: outs' =>
        if a.toNat? = some (sc.m.active sc.now keys) then judgeOps r.1 keys ops outs' (n + 1)
        else s!"bad op#{n}: ActiveLen returned {a}, live keys = {sc.m.active sc.now keys}"
      | [] => "bad missing answer"
    | .anyLen =>
      match outs with
      | a :: outs' =>
        match a.toNat? with
        | some l => if sc.m.active sc.now keys ≤ l then judgeOps r.1 keys ops outs' (n + 1)
                    else s!"bad op#{n}: Len {l} is smaller than the number of live keys"
        | none => s!"bad op#{n}: unparsable Len {a}"
      | [] => "bad missing answer"

def judge (line : String) : String :=
  let (c, o) := splitTab line
  match parseCase c with
  | some (ttl, t0, ops) =>
    if o.startsWith "panic" || o.startsWith "CRASH" then "bad implementation " ++ o else
    let keys := (ops.filterMap fun | .op (.set k _) => some k | _ => none).eraseDups
    judgeOps ⟨ttl, t0, SMap.empty⟩ keys ops (words o) 0
  | none => "bad-case"

def run (args : List String) : IO UInt32 := runWith args model judge

end GoaktVerif.Driver.C48

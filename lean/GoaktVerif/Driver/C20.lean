import GoaktVerif.Driver.Conc
import GoaktVerif.Model.C20.Queue
import GoaktVerif.Model.C20.Stream
import GoaktVerif.Spec.C20

/-
C20 driver.  Two kinds of case lines:

  q <pooled|fresh> <lifo|fifo|drop> | prog0 ; prog1 ; … | schedule      (engine E3, Model.C20.Queue)
      ops: e<k> d len emp s<k> it sh
  st <op> <op> …                                                        (engine E2, Model.C20.Stream)
-/
namespace GoaktVerif.Driver.C20
open GoaktVerif.Driver
open GoaktVerif.Model.C20

inductive Policy where
  | lifo | fifo | drop

def pickOf (p : Policy) (pool : List Nat) : Option Nat :=
  match p with
  | .lifo => if pool.isEmpty then none else some 0
  | .fifo => if pool.isEmpty then none else some (pool.length - 1)
  | .drop => none

def parseOp (s : String) : Option Queue.Op :=
  if s = "d" then some .deq
  else if s = "len" then some .len
  else if s = "emp" then some .emp
  else if s = "it" then some .iter
  else if s = "sh" then some .shut
  else if s.startsWith "e" then (s.drop 1).toString.toNat?.map .enq
  else if s.startsWith "s" then (s.drop 1).toString.toNat?.map .sig
  else none

def showVals (l : List Nat) : String :=
  if l.isEmpty then "-" else ".".intercalate (l.map toString)

def showOVal : Option Nat → String
  | none => "nil"
  | some v => toString v

def showRes : Queue.Res → String
  | .ok => "ok"
  | .val r => showOVal r
  | .num n => toString n
  | .bool b => toString b
  | .items l _ => showVals l
  | .dropped => "ok"
  | .panic => "panic"

def walkCap : Nat := 40

def finalDigest (c : Queue.Cfg) : String :=
  let chain := Queue.chainVals c walkCap c.head
  let tl := match Queue.hops c c.tail walkCap c.head with
    | some i => s!"+{i}"
    | none => match Queue.hops c c.head walkCap c.tail with
      | some j => s!"-{j}"
      | none => "off"
  let dirty := (c.pool.filter fun i => (Queue.nextOf c i).isSome || (Queue.valOf c i).isSome).length
  let (dr, c') := Queue.seqDrain walkCap c
  let pf := match c.mode with | .pooled => "yes" | .fresh => "no"
  s!"poolfield={pf} len={Queue.lenRead c} chain={if chain.isEmpty then "-" else ".".intercalate (chain.map showOVal)} tail={tl} " ++
  s!"pool={c.pool.length} dirty={dirty} active={c.active} drain={showVals dr} len2={Queue.lenRead c'}"

def queueMachine : Machine where
  Cfg := Policy × Queue.Cfg
  init := fun cfg progs =>
    match words cfg with
    | [_, m, p] =>
      let mode? : Option Queue.Mode := if m = "pooled" then some .pooled else if m = "fresh" then some .fresh else none
      let pol? : Option Policy := if p = "lifo" then some .lifo else if p = "fifo" then some .fifo else if p = "drop" then some .drop else none
      match mode?, pol?, progs.mapM (fun p => p.mapM parseOp) with
      | some mode, some pol, some ps => some (pol, Queue.init mode ps)
      | _, _, _ => none
    | _ => none
  nthreads := fun c => c.2.threads.length
  done := fun c tid => Queue.done c.2 tid
  step := fun c tid =>
    let l := match c.2.threads[tid]? with
      | some t => match t.pc with
        | some pc => Queue.label pc
        | none => "!done"
      | none => "!nothread"
    (l, (c.1, Queue.stepP (pickOf c.1 c.2.pool) c.2 tid))
  results := fun c => c.2.threads.map fun t => t.hist.reverse.map fun (_, r) => showRes r
  final := fun c => finalDigest c.2

def model (line : String) : String :=
  match (words line).head? with
  | some "q" => runConc queueMachine line
  | some "st" => Stream.runLine ((words line).drop 1)
  | _ => "bad-case"

def judge (line : String) : String :=
  let (case, out) := splitTab line
  match (words case).head? with
  | some "q" => Spec.C20.judgeQueue case out
  | some "st" => Spec.C20.judgeStream ((words case).drop 1) out
  | _ => "bad bad-case"

def run (args : List String) : IO UInt32 := runWith args model judge

end GoaktVerif.Driver.C20

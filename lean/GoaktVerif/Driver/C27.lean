import GoaktVerif.Driver.Util
import GoaktVerif.Model.C27
import GoaktVerif.Spec.C27

/-!
C27 driver.  The Go harness is a controller that only acts while the writer goroutine is parked
inside a flush or idle; every controller op therefore corresponds to a fixed sequence of model
actions (`Model.C27.step`), executed here.  After `close` the writer's select is random when both
`done` and `in` are ready: all picks are enumerated and the model line is the SET of possible
outputs (joined by " || "); the correspondence is membership.
-/
namespace GoaktVerif.Driver.C27
open GoaktVerif.Driver GoaktVerif.Model.C27

structure Ctl where
  s : St := {}
  seqs : List (Nat × Nat) := []      -- next sequence number per thread
  blocked : Option Nat := none
  closed : Bool := false
  outcomes : List Char := []         -- outcome char of every flush, in flush order

def nextSeq (c : Ctl) (t : Nat) : Nat × Ctl :=
  match c.seqs.find? (·.1 == t) with
  | some (_, q) => (q, { c with seqs := c.seqs.map fun p => if p.1 == t then (t, q + 1) else p })
  | none => (0, { c with seqs := c.seqs ++ [(t, 1)] })

def inflight (s : St) : Bool :=
  match s.wpc with
  | .flush _ => !s.batch.isEmpty
  | _ => false

/-- let the (not closed) writer run until it is parked in a flush or blocked on an empty channel -/
def runWriter (cfg : Cfg) : Nat → St → St
  | 0, s => s
  | fuel + 1, s =>
    if inflight s then s
    else
      let s' := step cfg s (.wstep 1 true)
      if s'.wpc == s.wpc && s'.chan.length == s.chan.length && s'.batch.length == s.batch.length then s'
      else runWriter cfg fuel s'

def fuelOf (cfg : Cfg) : Nat := 8 * cfg.cap + 64

def doSend (cfg : Cfg) (c : Ctl) (t : Nat) : Ctl :=
  if c.blocked == some t then c else   -- thread t is still inside its blocked send
  let (q, c) := nextSeq c t
  let idle := !inflight c.s
  let s := step cfg c.s (.begin (t, q))
  let s := step cfg s (.sub t 0)
  let s := step cfg s (.sub t 0)
  if !hasPend s t then
    -- returned (ok, or closed at the pre-check)
    let s := if idle && !c.closed then runWriter cfg (fuelOf cfg) s else s
    { c with s := s }
  else
    -- channel full: the call sits in the blocking select until its deadline
    let s := step cfg s (.cancel t)
    let s := step cfg s (.sub t 0)
    { c with s := s }

def doBlocking (cfg : Cfg) (c : Ctl) (t : Nat) : Ctl :=
  if c.closed || c.blocked.isSome || c.s.chan.length < cfg.cap then doSend cfg c t
  else
    let (q, c) := nextSeq c t
    let s := step cfg c.s (.begin (t, q))
    let s := step cfg s (.sub t 0)
    let s := step cfg s (.sub t 0)
    { c with s := s, blocked := some t }

def doCancel (cfg : Cfg) (c : Ctl) : Ctl :=
  match c.blocked with
  | none => c
  | some t =>
    let s := step cfg c.s (.cancel t)
    let s := step cfg s (.sub t 0)
    { c with s := s, blocked := none }

def doRelease (cfg : Cfg) (c : Ctl) (o : Char) : Ctl :=
  if !inflight c.s then c
  else
    let s := step cfg c.s (.wstep 1 (o == '+'))        -- the flush completes
    let s := step cfg s (.wstep 1 true)                 -- back at the select: takes the head, if any
    let (s, bl) := match c.blocked with
      | some t => (step cfg s (.sub t 0), none)         -- room appeared: the parked sender gets in
      | none => (s, none)
    let s := runWriter cfg (fuelOf cfg) s
    { c with s := s, blocked := bl, outcomes := c.outcomes ++ [o] }

/-- after close(done): run the writer to its exit, enumerating the random select picks -/
def finishClose (cfg : Cfg) : Nat → Ctl → List Char → List Ctl
  | 0, c, _ => [c]
  | fuel + 1, c, outs =>
    match c.s.wpc with
    | .exited => [c]
    | .flush _ =>
      if c.s.batch.isEmpty then finishClose cfg fuel { c with s := step cfg c.s (.wstep 0 true) } outs
      else
        let o := outs.headD '+'
        finishClose cfg fuel { c with s := step cfg c.s (.wstep 0 (o == '+')), outcomes := c.outcomes ++ [o] } outs.tail
    | .drain _ => finishClose cfg fuel { c with s := step cfg c.s (.wstep 0 true) } outs
    | .barrier => finishClose cfg fuel { c with s := step cfg c.s (.wstep 0 true) } outs
    | .select =>
      if c.s.chan.isEmpty then finishClose cfg fuel { c with s := step cfg c.s (.wstep 0 true) } outs
      else
        finishClose cfg fuel { c with s := step cfg c.s (.wstep 0 true) } outs ++
        finishClose cfg fuel { c with s := step cfg c.s (.wstep 1 true) } outs

def doClose (cfg : Cfg) (c : Ctl) (outs : List Char) : List Ctl :=
  if c.closed then [c]
  else
    let s := step cfg c.s .close
    let (s, bl) := match c.blocked with
      | some t => (step cfg s (.sub t 0), none)
      | none => (s, none)
    finishClose cfg (16 * cfg.cap + 64) { c with s := s, blocked := bl, closed := true } outs

def okOutcome (o : Char) : Bool := o == '+' || o == '-' || o == '!'

/-- one controller op on every branch; `none` = malformed op -/
def doOp (cfg : Cfg) (cs : List Ctl) (op : String) : Option (List Ctl) :=
  match op.toList with
  | 's' :: r => (String.ofList r).toNat?.map fun t => cs.map (doSend cfg · t)
  | 'b' :: r => (String.ofList r).toNat?.map fun t => cs.map (doBlocking cfg · t)
  | ['x'] => some (cs.map (doCancel cfg))
  | ['r', o] => if okOutcome o then some (cs.map (doRelease cfg · o)) else none
  | 'c' :: outs => if outs.all okOutcome then some (cs.flatMap (doClose cfg · outs)) else none
  | _ => none

def tag (m : Msg) : String := s!"{m.1}.{m.2}"
def tags (l : List Msg) : String := ",".intercalate (l.map tag)

def resName : Res → String
  | .ok => "ok" | .ctxErr => "ctx" | .closed => "closed"

def render (cfg : Cfg) (c : Ctl) : String :=
  let subs := c.s.results.map fun (m, r) => tag m ++ "=" ++ resName r
  let bs := (c.s.flushed.zip c.outcomes).map fun ((b, _), o) => tags b ++ ":" ++ String.singleton o
  let hs := if cfg.hasHandler then (c.s.flushed.filter (!·.2)).map (tags ·.1) else []
  s!"cap={cfg.cap} | S {" ".intercalate subs} | B {" ".intercalate bs} | H {" ".intercalate hs} | L {tags c.s.chan}"

def insertSorted (x : String) : List String → List String
  | [] => [x]
  | y :: ys => if x < y then x :: y :: ys else if x == y then y :: ys else y :: insertSorted x ys

/-- `fq <size> op...`: the failure fan-out alone (Model.C27.handler / fdrainStep) -/
def modelFQ (size : Nat) (ops : List String) : String :=
  let cfg : Cfg := { maxBatch := 1, hasHandler := true, fqCap := size }
  let rec go (s : St) (next : Nat) : List String → Option St
    | [] => some s
    | op :: rest =>
      match op.toList with
      | ['d'] => go (step cfg s .sysdown) next rest
      | ['u'] => go { s with sysDown := false } next rest
      | 'e' :: r =>
        match (String.ofList r).toNat? with
        | some n => if n > 64 then none else
          go (handler cfg s ((List.range n).map fun i => (0, next + i))) (next + n) rest
        | none => none
      | _ => none
  match go {} 0 ops with
  | none => "bad-case"
  | some s =>
    let q := s.fq.length
    let s := (List.range (q + 1)).foldl (fun s _ => step cfg s .fdrain) s
    s!"cap={sysFanoutCap} q={q} dead={",".intercalate (s.dead.map fun m => toString m.2)}"

/-- `gc <n> <maxBatch>`: n first senders race through getCoalescer (all miss the fast path, then
    take the mutex one after the other); the batch boundaries depend on the order in which the racing
    goroutines enqueue, so only the order-independent part is printed -/
def modelGC (n : Nat) : String :=
  let acts : List GC.GAct := (List.range n).map (GC.GAct.look ·) ++
    (List.range n).flatMap fun t => [GC.GAct.acquire t, .cs, .cs, .cs]
  let s := GC.grun true (GC.ginit n) acts
  let ids := (List.range n).flatMap fun t => [s!"{t}.0", s!"{t}.1"]
  s!"writers={s.created} inflight=1 | M {" ".intercalate ids}"

def model (line : String) : String :=
  match words line with
  | ["race", ms, g] =>
    -- uncontrolled real schedules; whatever they are, `C27_close_complete` says nothing stays behind
    match ms.toNat?, g.toNat? with
    | some ms, some g => if ms < 1 || ms > 60000 || g < 1 || g > 256 then "bad-case" else "lost=0"
    | _, _ => "bad-case"
  | ["gc", n, mb] =>
    match n.toNat?, mb.toNat? with
    | some n, some mb => if n < 1 || n > 8 || mb < 1 || 4 * mb < 2 * n then "bad-case" else modelGC n
    | _, _ => "bad-case"
  | "fq" :: size :: ops =>
    match size.toNat? with
    | some size => if size > 1024 then "bad-case" else modelFQ size ops
    | none => "bad-case"
  | "co" :: mb :: hdl :: ops =>
    match mb.toNat? with
    | some mb =>
      if mb = 0 then "bad-case" else
      let cfg : Cfg := { maxBatch := effectiveMaxBatch mb, hasHandler := hdl == "1", fqCap := 256 }
      let rec go (cs : List Ctl) : List String → Option (List Ctl)
        | [] => some cs
        | op :: rest => match doOp cfg cs op with
          | some cs' => go cs' rest
          | none => none
      match go [{}] ops with
      | none => "bad-case"
      | some cs =>
        let finals := cs.flatMap (doClose cfg · [])
        " || ".intercalate ((finals.map (render cfg)).foldr insertSorted [])
    | none => "bad-case"
  | _ => "bad-case"

/-! ### judge: the spec oracle on the implementation's recorded history -/

def parseTag (s : String) : Option (Nat × Nat) :=
  match s.splitOn "." with
  | [a, b] => match a.toNat?, b.toNat? with
    | some a, some b => some (a, b)
    | _, _ => none
  | _ => none

def parseTags (s : String) : Option (List (Nat × Nat)) :=
  if s = "" then some [] else (s.splitOn ",").mapM parseTag

structure Obs where
  sent : List (Nat × Nat) := []
  accepted : List (Nat × Nat) := []
  flushed : List (Nat × Nat) := []
  delivered : List (Nat × Nat) := []
  handled : List (Nat × Nat) := []
  failed : List (Nat × Nat) := []
  left : List (Nat × Nat) := []

def section_ (pre : String) (s : String) : Option String :=
  let s := s.trimAscii.toString
  if s == pre.trimAscii.toString then some ""
  else if s.startsWith pre then some (s.drop pre.length).toString else none

def parseObs (o : String) : Option Obs :=
  match o.splitOn " | " with
  | [_, ss, bs, hs, ls] => do
    let ss ← section_ "S " ss
    let bs ← section_ "B " bs
    let hs ← section_ "H " hs
    let ls ← section_ "L " ls
    let subs ← (words ss).mapM fun w => match w.splitOn "=" with
      | [t, r] => (parseTag t).map fun m => (m, r)
      | _ => none
    let batches ← (words bs).mapM fun w => match w.splitOn ":" with
      | [ids, oc] => (parseTags ids).map fun l => (l, oc)
      | _ => none
    let hl ← (words hs).mapM parseTags
    let left ← parseTags ls.trimAscii.toString
    pure { sent := subs.map (·.1), accepted := (subs.filter (·.2 == "ok")).map (·.1),
           flushed := (batches.map (·.1)).flatten,
           delivered := ((batches.filter (·.2 == "+")).map (·.1)).flatten,
           failed := ((batches.filter (·.2 != "+")).map (·.1)).flatten,
           handled := hl.flatten, left := left }
  | _ => none

def judge (line : String) : String :=
  let (c, o) := splitTab line
  -- without a configured error handler there is nobody to report a failed batch to
  let hdl := (words c).getD 2 "1" == "1"
  if o == "STALL" || o == "bad-case" then "ok" else
  if (words c).head? == some "race" then
    if o == "lost=0" then "ok"
    else "bad silently-dropped: " ++ o ++ " accepted message(s) stayed in the channel after close (submit racing close)"
  else
  if (words c).head? == some "gc" then
    -- order oracle per sender over the batches in the order the remote node completed them
    match o.splitOn " | B " with
    | [_, bs] =>
      match (words bs).mapM fun w => (parseTags ((w.splitOn ":").headD "")) with
      | none => "bad unparsable output: " ++ o
      | some bl =>
        let flushed := bl.flatten
        let n := ((words c).getD 1 "0").toNat?.getD 0
        let sent := (List.range n).flatMap fun t => [(t, 0), (t, 1)]
        if !Spec.C27.orderOK sent flushed then "bad order: a thread's messages reached the transport out of send order or twice"
        else if !sent.all (flushed.contains ·) then "bad silently-dropped: an accepted message never reached the remote node"
        else "ok"
    | _ => if o.startsWith "HARNESS-FAIL" then "bad " ++ o else "bad unparsable output: " ++ o
  else
  if (words c).head? == some "fq" then
    -- every message handed to the error handler is dead-lettered: failures the oracle flags are the
    -- hand-offs the handler dropped (finding C27-F2)
    let total := ((words c).drop 2).foldl (fun acc op => match op.toList with
      | 'e' :: r => acc + ((String.ofList r).toNat?.getD 0)
      | _ => acc) 0
    let deadS := ((o.splitOn "dead=").getD 1 "")
    let dead := if deadS == "" then [] else (deadS.splitOn ",").filterMap String.toNat?
    if dead.eraseDups.length != dead.length then "bad a message was dead-lettered twice"
    else if dead.length == total then "ok"
    else s!"bad fanout-dropped {total - dead.length} of {total} failed messages were not dead-lettered"
  else
  match parseObs o with
  | none => "bad unparsable output: " ++ o
  | some ob =>
    if !Spec.C27.orderOK ob.sent ob.flushed then "bad order: a thread's messages reached the transport out of send order or twice"
    else if !ob.flushed.all (ob.accepted.contains ·) then "bad a message reached the transport although its send was not accepted"
    else
      let un := Spec.C27.unaccounted ob.accepted ob.delivered (if hdl then ob.handled else ob.failed)
      if un.isEmpty then "ok"
      else s!"bad silently-dropped {tags un} left-in-channel {tags ob.left}"

def run (args : List String) : IO UInt32 := runWith args model judge

end GoaktVerif.Driver.C27

import GoaktVerif.Driver.Util
import GoaktVerif.Model.C41
import GoaktVerif.Spec.C41

/-!
C41 driver: the multi-replica script of `harness/verifdrv/c41/main.go` run against the model.
CRDT values are instantiated with a G-counter (`GC`: per-node counts + the set of slots touched
since the last ResetDelta), the same type the harness uses.  The "network" is the same message
log as in the harness: published deltas / tombstones and digest replies are appended, `s:r:i`
delivers entry `i`.
-/
namespace GoaktVerif.Driver.C41
open GoaktVerif.Driver GoaktVerif.Model.C41 GoaktVerif.Spec.C41

/-! ### the G-counter used by the script (crdt/gcounter.go) -/

structure GC where
  state : List (Nat × Nat)
  dirty : List Nat
  deriving Repr

def GC.empty : GC := ⟨[], []⟩

def GC.incr (c : GC) (node n : Nat) : GC :=
  ⟨aset c.state node ((aget c.state node).getD 0 + n), if c.dirty.contains node then c.dirty else node :: c.dirty⟩

/-- Merge: clone of the receiver (its delta map included), every slot raised to the other's value -/
def GC.merge (a b : GC) : GC :=
  ⟨b.state.foldl (fun st p =>
      match aget st p.1 with
      | some l => if p.2 > l then aset st p.1 p.2 else st
      | none => aset st p.1 p.2) a.state, a.dirty⟩

def GC.delta (c : GC) : Option GC :=
  if c.dirty.isEmpty then none else some ⟨c.dirty.map (fun n => (n, (aget c.state n).getD 0)), []⟩

def gcOps : Ops GC := ⟨GC.merge, GC.delta, fun c => ⟨c.state, []⟩, id⟩

/-! ### rendering (must match the harness byte for byte) -/

def sortS (l : List String) : List String := l.mergeSort (fun a b => decide (a ≤ b))

def rGC (c : GC) : String :=
  "(" ++ ",".intercalate (sortS (c.state.map fun p => s!"{p.1}:{p.2}")) ++ ")"

def rOpt : Option GC → String
  | some c => rGC c
  | none => "nil"

def rKey (k dt : Nat) : String := s!"k{k}/{dt}"

/-- first binding per key, sorted by key -/
def canon {α : Type} (m : List (Nat × α)) : List (Nat × α) :=
  let firsts := m.foldl (fun acc p => if acc.any (fun q => q.1 == p.1) then acc else acc ++ [p]) []
  firsts.mergeSort (fun a b => decide (a.1 ≤ b.1))

def dump (r : Rep GC) : String :=
  let s := (canon r.store).map fun p => s!"k{p.1}={rGC p.2}"
  let t := (canon r.tombs).map fun p => s!"k{p.1}={p.2.deletedAt}/{p.2.deletedBy}/{p.2.dataType}"
  let v := (canon r.versions).map fun p => s!"k{p.1}={p.2}"
  let y := (canon r.keyTypes).map fun p => s!"k{p.1}={p.2}"
  "S[" ++ ";".intercalate s ++ "]T[" ++ ";".intercalate t ++ "]V[" ++ ";".intercalate v ++ "]Y[" ++ ";".intercalate y ++ "]"

inductive Logged where
  | delta (d : DeltaMsg GC)
  | tomb (t : TombMsg)
  | full (es : List (Nat × Nat × GC))

def rLogged : Logged → String
  | .delta d => s!"D({rKey d.key d.dataType},{d.origin},{rGC d.data})"
  | .tomb t => s!"T({rKey t.key t.dataType},{t.deletedAt},{t.deletedBy})"
  | .full es => "F(" ++ ";".intercalate (sortS (es.map fun e => s!"{rKey e.1 e.2.1}={rGC e.2.2}")) ++ ")"

/-! ### the script -/

structure World where
  reps : List (Rep GC)
  log : List Logged
  now : Int

def key? (s : String) : Option Nat :=
  if s.startsWith "k" then (s.drop 1).toString.toNat? else none

def setRep (w : World) (i : Nat) (r : Rep GC) : World := { w with reps := w.reps.set i r }

/-- outputs of a handler that go to the topic / the digest sender, as log entries -/
def pubs (os : List (Out GC)) : List Logged :=
  os.filterMap fun
    | .pubDelta d => some (.delta d)
    | .pubTomb t => some (.tomb t)
    | .full es => some (.full es)
    | _ => none

def finish (w : World) (i : Nat) (r : Rep GC) (res : String) (os : List (Out GC)) : World × String :=
  let ps := pubs os
  let w' := { setRep w i r with log := w.log ++ ps }
  (w', res ++ String.join (ps.map fun p => "+" ++ rLogged p) ++ "@" ++ dump r)

def respOf (os : List (Out GC)) : String :=
  match os.filterMap (fun | .value v => some v | _ => none) with
  | v :: _ => rOpt v
  | [] => "?"

def deliver (r : Rep GC) : Logged → Rep GC
  | .delta d => (step gcOps r (.delta d)).1
  | .tomb t => (step gcOps r (.tombstone t)).1
  | .full es => (step gcOps r (.fullState es)).1

def opStep (w : World) (tok : String) : World × String :=
  let f := tok.splitOn ":"
  let bad := (w, "bad-op")
  match f with
  | ["w", dt] =>
    match dt.toInt? with
    | some dt => ({ w with now := w.now + dt }, "-")
    | none => bad
  | kind :: rs :: rest =>
    match rs.toNat? with
    | none => bad
    | some i =>
      match w.reps[i]? with
      | none => bad
      | some r =>
        match kind, rest with
        | "u", [k, n] =>
          match key? k, n.toNat? with
          | some k, some n =>
            let (r', os) := step gcOps r (.update k 0 GC.empty (fun c => c.incr r.nodeID n))
            finish w i r' "ok" os
          | _, _ => bad
        | "g", [k] =>
          match key? k with
          | some k => let (r', os) := step gcOps r (.get k none); finish w i r' (respOf os) os
          | none => bad
        | "G", [k] =>
          match key? k with
          | some k =>
            -- every other replica answers the read request with its stored value
            let answers := (w.reps.zipIdx.filter (fun p => p.2 != i)).map (fun p => aget p.1.store k)
            let (r', os) := step gcOps r (.get k (some answers))
            finish w i r' (respOf os) os
          | none => bad
        | "q", [k] =>
          match key? k with
          | some k => let (r', os) := step gcOps r (.readReq k); finish w i r' (respOf os) os
          | none => bad
        | "d", [k] =>
          match key? k with
          | some k => let (r', os) := step gcOps r (.delete k w.now); finish w i r' "ok" os
          | none => bad
        | "s", [j] =>
          match j.toNat? with
          | some j =>
            match w.log[j]? with
            | some m => finish w i (deliver r m) "ok" []
            | none => finish w i r "noop" []
          | none => finish w i r "noop" []
        | "t", [k, age, by'] =>
          match key? k, age.toInt?, by'.toNat? with
          | some k, some age, some b =>
            let byNode := if b < w.reps.length then b else 9
            finish w i (step gcOps r (.tombstone ⟨k, 0, w.now - age, byNode⟩)).1 "ok" []
          | _, _, _ => bad
        | "a", [q] =>
          match q.toNat? with
          | some q =>
            match w.reps[q]? with
            | some rq =>
              -- buildDigest of r: (key, version) for every stored key; q handles it
              let dg := (canon r.store).map fun p => (p.1, (aget r.versions p.1).getD 0)
              let (rq', os) := step gcOps rq (.digest dg)
              finish w q rq' "ok" os
            | none => bad
          | none => bad
        | "p", [] => finish w i (step gcOps r (.prune w.now)).1 "ok" []
        | "b", [js] =>
          let ms := (js.splitOn ",").filterMap fun s => s.toNat?.bind fun j => w.log[j]?
          let ds := ms.filterMap fun | .delta d => some d | _ => none
          let ts := ms.filterMap fun | .tomb t => some t | _ => none
          finish w i (step gcOps r (.batch false ds ts)).1 "ok" []
        | _, _ => bad
  | _ => bad

def parseHead (f : List String) : Option (Nat × Int × List String) :=
  match f with
  | n :: t :: ops =>
    if n.startsWith "n=" && t.startsWith "ttl=" then
      match (n.drop 2).toString.toNat?, (t.drop 4).toString.toInt? with
      | some n, some t => if 1 ≤ n ∧ n ≤ 4 then some (n, t, ops) else none
      | _, _ => none
    else none
  | _ => none

def model (line : String) : String :=
  match parseHead (words line) with
  | none => "bad-case"
  | some (n, ttl, ops) =>
    let w0 : World := ⟨(List.range n).map fun i => Rep.init i ttl, [], 100⟩
    let (_, outs) := ops.foldl (fun (acc : World × List String) tok =>
      let (w', o) := opStep acc.1 tok
      (w', o :: acc.2)) (w0, [])
    " ".intercalate outs.reverse

/-! ### judge: `Spec.C41.stepOK` on the implementation's dumps -/

/-- text between `open` and the next `close` -/
def between (s openS closeS : String) : Option String :=
  match s.splitOn openS with
  | _ :: rest :: _ => (rest.splitOn closeS).head?
  | _ => none

def entries (s : String) : List String := (s.splitOn ";").filter (· ≠ "")

def parseView (d : String) : Option View := do
  let sp ← between d "S[" "]T["
  let tp ← between d "]T[" "]V["
  let stored ← (entries sp).mapM fun e => key? ((e.splitOn "=").headD "")
  let tombs ← (entries tp).mapM fun e =>
    match e.splitOn "=" with
    | [k, rest] => do
      let k ← key? k
      let at' ← ((rest.splitOn "/").headD "").toInt?
      pure (k, at')
    | _ => none
  pure ⟨stored, tombs⟩

def setAt {α : Type} (l : List α) (i : Nat) (a : α) : List α := l.set i a

/-- the tombstones among the messages an op put into the log: `+T(k0/0,100,0)` ↦ some (key, issuer), others ↦ none -/
def logMarkers (res : String) : List (Option (Nat × Nat)) :=
  ((res.splitOn "+").drop 1).map fun m =>
    if m.startsWith "T(" then
      let body := (m.drop 2).toString
      let k := key? ((body.splitOn "/").headD "")
      let by' := (((body.splitOn ",").getLast?.getD "").splitOn ")").headD ""
      match k, by'.toNat? with
      | some k, some b => some (k, b)
      | _, _ => none
    else none

/-- keys whose tombstone this op delivers to replica `r` (a peer tombstone issued by `r` itself is ignored) -/
def deliveredKeys (f : List String) (r : Nat) (log : List (Option (Nat × Nat))) : List Nat :=
  let fromLog := fun (i : String) =>
    match i.toNat?.bind (log[·]?) with
    | some (some (k, b)) => if b == r then [] else [k]
    | _ => []
  match f with
  | ["d", _, k] => (key? k).toList
  | ["t", _, k, _, b] => if b.toNat? == some r then [] else (key? k).toList
  | ["s", _, i] => fromLog i
  | ["b", _, is] => (is.splitOn ",").flatMap fromLog
  | _ => []

/-- returns `ok` or `bad op=<index> tok=<token> clause=<absent|read|keep|record|parse>` for the FIRST failing op -/
def judgeOps (ttl : Int) : List String → List String → Nat → List View → Int → List (Option (Nat × Nat)) → String
  | [], [], _, _, _, _ => "ok"
  | tok :: toks, out :: outs, idx, views, now, log =>
    let f := tok.splitOn ":"
    if f.head? = some "w" then
      judgeOps ttl toks outs (idx + 1) views (now + ((f.getD 1 "").toInt?.getD 0)) log
    else if out = "bad-op" then judgeOps ttl toks outs (idx + 1) views now log
    else
      let who := if f.head? = some "a" then (f.getD 2 "") else (f.getD 1 "")
      match who.toNat?, out.splitOn "@" with
      | some i, [res, d] =>
        match views[i]?, parseView d with
        | some before, some after =>
          let kind : Kind :=
            match f.head?, key? (f.getD 2 "") with
            | some "g", some k => .read k (res == "nil")
            | some "G", some k => .read k (res == "nil")
            | some "q", some k => .read k (res == "nil")
            | some "p", _ => .prune now
            | _, _ => .other
          if !absentOK after then s!"bad op={idx} tok={tok} clause=absent"
          else if !readOK before kind then s!"bad op={idx} tok={tok} clause=read"
          else if !keepOK ttl before after kind then s!"bad op={idx} tok={tok} clause=keep"
          else if !recordOK after (deliveredKeys f i log) then s!"bad op={idx} tok={tok} clause=record"
          else judgeOps ttl toks outs (idx + 1) (views.set i after) now (log ++ logMarkers res)
        | _, _ => s!"bad op={idx} tok={tok} clause=parse"
      | _, _ => s!"bad op={idx} tok={tok} clause=parse"
  | _, _, idx, _, _, _ => s!"bad op={idx} tok=- clause=parse wrong number of results"

def judge (line : String) : String :=
  let (c, o) := splitTab line
  match parseHead (words c) with
  | none => "ok"
  | some (n, ttl, ops) =>
    judgeOps ttl ops (words o) 0 ((List.range n).map fun _ => ⟨[], []⟩) 100 []

def run (args : List String) : IO UInt32 := runWith args model judge

end GoaktVerif.Driver.C41

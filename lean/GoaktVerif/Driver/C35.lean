import GoaktVerif.Driver.Util
import GoaktVerif.Model.C35
import GoaktVerif.Spec.C35

namespace GoaktVerif.Driver.C35
open GoaktVerif.Driver GoaktVerif.Model.C35 GoaktVerif.Spec.C35

/-- the constants as the driver uses them; `consts` sub-case compares them with the code's and
    Props/C35 proves they equal the regenerated `Gen.C35` constants -/
def cfg : Cfg := defaultCfg

def resOfLetter (c : Char) : Res :=
  if c = 'P' then .pinned else if c = 'L' ∨ c = 'l' then .live
  else if c = 'N' ∨ c = 'A' then .nf true else if c = 'n' then .nf false else .terminal

def resFn (script : List Char) (i : Nat) : Res := resOfLetter (letterAt script i)

def validScript (s : String) (allowed : String) : Bool := !s.isEmpty && s.toList.all (allowed.toList.contains ·)

def outString (script : List Char) (clustered : Bool) (r : Run) : String :=
  match r.out with
  | .outOfFuel => "out-of-fuel"
  | _ => expectedOut clustered (letterAt script (r.lookups - 1))

def showRun (script : List Char) (clustered : Bool) (start : Nat) (r : Run) : String :=
  let dl := match r.out with
    | .delivered _ (some x) => toString (x - start)
    | _ => "none"
  s!"lookups={r.lookups} out={outString script clustered r} rec={if r.recorded then 1 else 0} sleeps={",".intercalate (r.sleeps.map fun s => toString s.dur)} dl={dl}"

def modelOne (sub : String) : String :=
  match words sub with
  | ["consts"] => s!"consts {cfg.window} {cfg.minB} {cfg.maxB} {cfg.nfWindow}"
  | ["sync", ms, cd, sc] =>
    match ms.toNat? with
    | some ms => if validScript sc "PLlNnAT" && ms ≤ 5000 then
        showRun sc.toList true 0 (sync cfg (ms * 1000000) (cd = "1") (resFn sc.toList) (fun _ => 0) 0)
      else "bad-case"
    | none => "bad-case"
  | ["sync0", sc] => if validScript sc "PLlNnAT" then showRun sc.toList false 0 (syncNoCluster (resFn sc.toList 0) 0 0) else "bad-case"
  | ["async", ic, sc] => if validScript sc "PLlNnAT" then showRun sc.toList (ic = "1") 0 (async (ic = "1") (resFn sc.toList 0) 0 0) else "bad-case"
  | ["sendsync", ms, sc] =>
    match ms.toNat? with
    | some ms => if validScript sc "PNT" && ms ≤ 5000 then
        showRun sc.toList true 0 (sync cfg (ms * 1000000) false (resFn sc.toList) (fun _ => 0) 0)
      else "bad-case"
    | none => "bad-case"
  | ["sendasync", ic, sc] => if validScript sc "PNT" && !(ic != "1" && sc.startsWith "P") then showRun sc.toList (ic = "1") 0 (async (ic = "1") (resFn sc.toList 0) 0 0) else "bad-case"
  | _ => "bad-case"

def splitSubs (line : String) : List String := (line.splitOn ";").map fun s => " ".intercalate (words s)

def model (line : String) : String := " ; ".intercalate ((splitSubs line).map modelOne)

def field (kvs : List (String × String)) (k : String) : Option String := (kvs.find? (·.1 = k)).map (·.2)

def parseObs (s : String) : Option Obs := do
  let kvs := (words s).filterMap fun w => match w.splitOn "=" with
    | [k, v] => some (k, v)
    | _ => none
  let lookups ← (← field kvs "lookups").toNat?
  let out ← field kvs "out"
  let recd ← (← field kvs "rec").toNat?
  let tin ← (← field kvs "tin").toNat?
  let thi ← (← field kvs "thi").toNat?
  let lk ← commaNats? (← field kvs "lk")
  let dlS ← field kvs "dl"
  let dl ← (if dlS = "none" then some none else dlS.toNat?.map some)
  let ret ← (← field kvs "ret").toNat?
  pure ⟨lookups, out, recd, tin, thi, lk, dl, ret⟩

def judgeOne (sub : String) (o : String) : Option String :=
  match words sub with
  | ["consts"] => none   -- a changed constant is a correspondence difference, not a property failure
  | "sync" :: ms :: _ :: sc :: [] =>
    match ms.toNat?, parseObs o with
    | some ms, some ob => syncVerdict (ms * 1000000) sc.toList ob
    | _, _ => if o = "bad-case" then none else some ("unparsable " ++ o)
  | ["sendsync", ms, sc] =>
    match ms.toNat?, parseObs o with
    | some ms, some ob => syncVerdict (ms * 1000000) sc.toList ob
    | _, _ => if o = "bad-case" then none else some ("unparsable " ++ o)
  | ["sync0", sc] =>
    match parseObs o with
    | some ob => singleVerdict false sc.toList ob
    | none => if o = "bad-case" then none else some ("unparsable " ++ o)
  | [m, ic, sc] =>
    if m = "async" ∨ m = "sendasync" then
      match parseObs o with
      | some ob => singleVerdict (ic = "1") sc.toList ob
      | none => if o = "bad-case" then none else some ("unparsable " ++ o)
    else none
  | _ => none

def judge (line : String) : String :=
  let (c, o) := splitTab line
  let subs := splitSubs c
  let outs := splitSubs o
  if subs.length ≠ outs.length then "bad wrong-number-of-results" else
  match (subs.zip outs).zipIdx.findSome? (fun (p, i) => (judgeOne p.1 p.2).map fun w => s!"sub={i} {w}") with
  | some w => "bad " ++ w
  | none => "ok"

def run (args : List String) : IO UInt32 := runWith args model judge

end GoaktVerif.Driver.C35

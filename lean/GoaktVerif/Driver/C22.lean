import GoaktVerif.Driver.Util
import GoaktVerif.Model.C22
import GoaktVerif.Spec.C22

namespace GoaktVerif.Driver.C22
open GoaktVerif.Driver GoaktVerif.Model.C22 GoaktVerif.Spec.C22

/-- least-load op script: `p` = Next(), `s<i>=<w>` = nodes[i].SetWeight(w) (i = original position) -/
def llRun (pool : List Node) : List String → List Nat → Option (List Nat)
  | [], acc => some acc.reverse
  | op :: ops, acc =>
    if op = "p" then
      match leastLoadStep pool with
      | (some i, pool') => llRun pool' ops (i :: acc)
      | (none, _) => none
    else if op.startsWith "s" then
      match ((op.drop 1).toString.splitOn "=") with
      | [i, w] =>
        match i.toNat?, w.toInt? with
        | some i, some w => llRun (pool.map fun nd => if nd.1 = i then (nd.1, w) else nd) ops acc
        | _, _ => none
      | _ => none
    else none

def model (line : String) : String :=
  match words line with
  | ["rr", n, start, k] =>
    match n.toNat?, start.toNat?, k.toNat? with
    | some n, some start, some k =>
      if n = 0 then "panic" else joinNats (RR.run k ⟨n, start⟩).1
    | _, _, _ => "bad-case"
  | ["rnd", _, _] => "*"
  | "ll" :: ws :: ops =>
    match commaInts? ws with
    | some ws =>
      if ws.isEmpty then "panic" else
      match llRun (ws.zipIdx.map fun (w, i) => (i, w)) ops [] with
      | some picks => joinNats picks
      | none => "bad-case"
    | none => "bad-case"
  | _ => "bad-case"

def judge (line : String) : String :=
  let (c, o) := splitTab line
  match words c with
  | ["rr", n, _, k] =>
    match n.toNat?, k.toNat?, nats? (words o) with
    | some n, some k, some outs =>
      if n = 0 then "ok" else
      if outs.length ≠ k then s!"bad wrong number of results {outs.length}"
      else if rrOK n outs then "ok" else "bad round-robin output leaves the pool or is not cyclic"
    | _, _, _ => if (words c).getD 1 "" = "0" then "ok" else "bad unparsable output: " ++ o
  | ["rnd", n, k] =>
    match n.toNat?, k.toNat?, nats? (words o) with
    | some n, some k, some outs =>
      if outs.length = k && allInRange n outs then "ok" else "bad random pick outside the pool"
    | _, _, _ => "bad unparsable output: " ++ o
  | "ll" :: ws :: ops =>
    if ws = "-" then "ok" else
    match commaInts? ws, nats? (words o) with
    | some ws, some outs =>
      if outs.length = (ops.filter (· = "p")).length && allInRange ws.length outs then "ok" else "bad least-load pick outside the pool"
    | _, _ => "bad unparsable output: " ++ o
  | _ => "bad-case"

def run (args : List String) : IO UInt32 := runWith args model judge

end GoaktVerif.Driver.C22

import GoaktVerif.Driver.C01

/-! C02 shares model, harness and judge with C01 (the judge reports C01/C02/C03 failures separately). -/
namespace GoaktVerif.Driver.C02
def run (args : List String) : IO UInt32 := GoaktVerif.Driver.C01.run args
end GoaktVerif.Driver.C02
